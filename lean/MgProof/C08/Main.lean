import MgProof.C08.StepW2
import MgProof.C08.StepR
/-! `Inv` holds initially and is preserved by every step: it holds in every reachable state. -/
namespace MgProof.C08
open MgModel.Conc MgModel.C08

variable {wt rt : Nat} {s s' : St} {tok : Tok} {ev : List String}

theorem step_inv (inv : Inv wt rt s) (hs : step s tok = some (s', ev)) : Inv wt rt s' := by
  by_cases ht : tok.tid ≥ s.nthr
  · simp [step, ht] at hs
  · cases hpc : s.pc tok.tid with
    | done => simp [step, ht, hpc] at hs
    | bad => simp [step, ht, hpc] at hs
    | lk => exact step_lk inv ht hpc hs
    | lkY => exact step_lkY inv ht hpc hs
    | a1 => exact step_a1 inv ht hpc hs
    | u0 => exact step_u0 inv ht hpc hs
    | u1 r => exact step_u1 inv ht hpc hs
    | ug r => exact step_ug inv ht hpc hs
    | ugw v => exact step_ugw inv ht hpc hs
    | ul r => exact step_ul inv ht hpc hs
    | ulw v => exact step_ulw inv ht hpc hs
    | um1 r => exact step_um1 inv ht hpc hs
    | um2 r w => exact step_um2 inv ht hpc hs
    | um3 r w => exact step_um3 inv ht hpc hs
    | um4 r => exact step_um4 inv ht hpc hs
    | um5 r => exact step_um5 inv ht hpc hs
    | a2 => exact step_a2 inv ht hpc hs
    | h1 => exact step_h1 inv ht hpc hs
    | h2 w => exact step_h2 inv ht hpc hs
    | h3 w => exact step_h3 inv ht hpc hs
    | h4 w => exact step_h4 inv ht hpc hs
    | p1 w => exact step_p1 inv ht hpc hs
    | m1 => exact step_m1 inv ht hpc hs
    | m2 h => exact step_m2 inv ht hpc hs
    | m3 n => exact step_m3 inv ht hpc hs
    | m4 n cr => exact step_m4 inv ht hpc hs
    | m5 n => exact step_m5 inv ht hpc hs
    | m6 n w => exact step_m6 inv ht hpc hs
    | unl => exact step_unl inv ht hpc hs
    | f0 => exact step_f0 inv ht hpc hs
    | f1 w => exact step_f1 inv ht hpc hs
    | f2 w => exact step_f2 inv ht hpc hs
    | f3 w r => exact step_f3 inv ht hpc hs
    | f4 w => exact step_f4 inv ht hpc hs
    | f5 w h => exact step_f5 inv ht hpc hs
    | g1 => exact step_g1 inv ht hpc hs
    | g2 h => exact step_g2 inv ht hpc hs
    | g3 nb => exact step_g3 inv ht hpc hs
    | rp h nb => exact step_rp inv ht hpc hs
    | k1 => exact step_k1 inv ht hpc hs
    | k2 => exact step_k2 inv ht hpc hs
    | k3 r => exact step_k3 inv ht hpc hs
    | k4 => exact step_k4 inv ht hpc hs
    | k5 h => exact step_k5 inv ht hpc hs
    | r1 => exact step_r1 inv ht hpc hs
    | r2 h => exact step_r2 inv ht hpc hs
    | r3 n => exact step_r3 inv ht hpc hs
    | r4 n r => exact step_r4 inv ht hpc hs

/-! ## the initial state -/

/-- the client programs respect the property's preconditions: every message has at least one byte;
only thread `rt` fetches; without the write lock only thread `wt` allocates -/
structure Client (wt rt : Nat) (useLock : Bool) (progs : List (List Op)) : Prop where
  sizes : ∀ t op, op ∈ progs.getD t [] → OpOk op
  reader : ∀ t, t ≠ rt → ∀ op, op ∈ progs.getD t [] → isFetch op = false
  writer : useLock = false → ∀ t, t ≠ wt → ∀ op, op ∈ progs.getD t [] → isFetch op = true

theorem Inv.toX (inv : Inv wt rt s) (t : Nat) : InvX wt rt s t :=
  ⟨inv.geo, inv.crok, inv.rle, inv.msgs, inv.log, inv.cnt,
   fun a b _ _ ha hb => inv.excl a b ha hb, fun t' _ => inv.thr t', (inv.thr t).prog⟩

theorem base_inv {N : Nat} {useLock : Bool} {progs : List (List Op)} (hN : 1 ≤ N)
    (hc : Client wt rt useLock progs) : Inv wt rt (mkBase N progs.length useLock progs) := by
  refine ⟨?_, ?_, ?_, ?_, ?_, ?_, ?_, ?_⟩
  · simp [Geo, mkBase, chain]
  · simp [CROk, mkBase]; omega
  · simp [mkBase]; omega
  · intro m hm; simp [mkBase] at hm
  · simp [mkBase]
  · simp [mkBase]
  · intro a b ha; simp [mkBase, wsec] at ha
  · intro t
    refine ⟨⟨?_, ?_, ?_⟩, ?_, ?_, ?_, ?_, ?_, ?_⟩
    · intro op hop; exact hc.sizes t op hop
    · intro h op hop; exact hc.reader t h op hop
    · intro hu h op hop; exact hc.writer hu t h op hop
    · simp [mkBase, asec, wsec]
    · simp [mkBase, wsec]
    · simp [mkBase]
    · simp [mkBase, rsec]
    · simp [mkBase, WInv]
    · simp [mkBase, RInv]

theorem prologue_inv (inv : Inv wt rt s) (ts : List Nat) : Inv wt rt (prologue s ts).1 := by
  induction ts generalizing s with
  | nil => exact inv
  | cons t ts ih =>
    simp only [prologue]
    exact ih (beginOp_inv (inv.toX t))

theorem init_inv {N : Nat} {useLock : Bool} {progs : List (List Op)} (hN : 1 ≤ N)
    (hc : Client wt rt useLock progs) : Inv wt rt (mkInit N useLock progs).1 :=
  prologue_inv (base_inv hN hc) _

/-- the invariant holds after every schedule of every length -/
theorem reach_inv {N : Nat} {useLock : Bool} {progs : List (List Op)} (hN : 1 ≤ N)
    (hc : Client wt rt useLock progs) :
    ∀ s, Reach step (mkInit N useLock progs).1 s → Inv wt rt s :=
  Reach.inv (Inv wt rt) (init_inv hN hc) (fun _ _ _ _ inv hs => step_inv inv hs)

end MgProof.C08
