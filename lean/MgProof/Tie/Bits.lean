import MgModel.Generated.Bits
import MgModel.C20.Bits
import MgModel.C01.Channel
import MgModel.C02.Ring
import MgModel.C07.BytesBuffer
import MgModel.C20.Hex
/-!
# Tie A — the generated definitions are the hand-written models

`MgModel/Generated/Bits.lean` is produced by `lib/c2lean.py` from the C text of the repository
(and compared with the committed text on every run). These theorems say that the definitions the
property theorems of C20 (bit utilities), C01 and C02 (ring index) are about are exactly what the
translator reads off the source: a change of `muggle_next_pow_of_2`, of `MUGGLE_IS_POW_OF_2`, of an
endian-swap macro or of `MUGGLE_IDX_IN_POW_OF_2_RING` changes the generated file, and then either
the text comparison or one of these proofs no longer checks.
-/
namespace MgProof.Tie
open MgModel

theorem isPow2Macro_eq : Generated.isPow2Macro = C20.isPow2Macro := by
  funext x
  simp [Generated.isPow2Macro, C20.isPow2Macro, bne]

theorem nextPow2_eq : Generated.nextPow2 = C20.nextPow2 := by
  funext x
  simp [Generated.nextPow2, C20.nextPow2, C20.isPow2Macro, C20.smear16, bne]

theorem swap16_eq : Generated.swap16 = C20.swap16 := rfl
theorem swap32_eq : Generated.swap32 = C20.swap32 := rfl
theorem swap64_eq : Generated.swap64 = C20.swap64 := rfl

/-- the 32-bit macro agrees with the `Nat` ring index of the channel model on every cursor value
and every capacity the initialisation can produce (`1 ≤ cap < 2^32`) -/
theorem ring_eq (i cap : Nat) (hi : i < 2 ^ 32) (hc1 : 1 ≤ cap) (hc : cap < 2 ^ 32) :
    (Generated.idxInPow2Ring (BitVec.ofNat 32 i) (BitVec.ofNat 32 cap)).toNat = C01.ring i cap := by
  simp only [Generated.idxInPow2Ring, C01.ring, BitVec.toNat_and, BitVec.toNat_ofNat, BitVec.toNat_sub]
  have h1 : i % 2 ^ 32 = i := Nat.mod_eq_of_lt hi
  have h2 : (2 ^ 32 - 1 % 2 ^ 32 + cap % 2 ^ 32) % 2 ^ 32 = cap - 1 := by omega
  rw [h1, h2]

/-- the same for the ring buffer's `ringIdx` -/
theorem ringIdx_eq (i cap : Nat) (hi : i < 2 ^ 32) (hc1 : 1 ≤ cap) (hc : cap < 2 ^ 32) :
    (Generated.idxInPow2Ring (BitVec.ofNat 32 i) (BitVec.ofNat 32 cap)).toNat = C02.ringIdx i cap :=
  ring_eq i cap hi hc1 hc

/-! ## bytes buffer: the four space helpers (C07) -/

theorem bbContiguousWritable_eq (s : C07.BB) :
    Generated.bbContiguousWritable s.c s.w s.r s.t = C07.contiguousWritable s := rfl
theorem bbJumpWritable_eq (s : C07.BB) :
    Generated.bbJumpWritable s.c s.w s.r s.t = C07.jumpWritable s := rfl
theorem bbJumpReadable_eq (s : C07.BB) :
    Generated.bbJumpReadable s.c s.w s.r s.t = C07.jumpReadable s := rfl
theorem bbContiguousReadable_eq (s : C07.BB) :
    Generated.bbContiguousReadable s.c s.w s.r s.t = C07.contiguousReadable s := rfl

/-! ## hex table (C20) -/

theorem sHex_eq : Generated.sHex = C20.sHex := rfl

end MgProof.Tie
