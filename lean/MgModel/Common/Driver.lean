/-!
Line-protocol scaffold shared by all model drivers (DESIGN.md §2.4).

Input: `case <n>` starts a new case (state reset to `init`), every other non-empty
line is one operation, split at blanks. Output: `case <n>` is echoed, every
operation yields exactly one line. A model line may carry the specification's
answer after `" | "`: `"<model answer> | <spec answer>"`; the implementation
harness prints only `<answer>`.
-/
namespace MgModel.Driver

partial def loop {σ : Type} (h : IO.FS.Stream) (out : IO.FS.Stream) (init : σ)
    (step : σ → List String → σ × String) (s : σ) : IO Unit := do
  let line ← h.getLine
  if line.isEmpty then
    out.flush
    return ()
  let toks := (line.trimAscii.toString.splitOn " ").filter (· ≠ "")
  match toks with
  | [] => loop h out init step s
  | "case" :: _ =>
    out.putStrLn line.trimAscii.toString
    loop h out init step init
  | _ =>
    let (s', o) := step s toks
    out.putStrLn o
    loop h out init step s'

def main {σ : Type} (init : σ) (step : σ → List String → σ × String) : IO Unit := do
  let i ← IO.getStdin
  let o ← IO.getStdout
  loop i o init step init

def showBool (b : Bool) : String := if b then "1" else "0"

def showInts (l : List Int) : String := " ".intercalate (l.map toString)
def showNats (l : List Nat) : String := " ".intercalate (l.map toString)

end MgModel.Driver
