/-!
Shared pieces of the interleaving semantics (DESIGN.md §2.5).

A concurrent model is a step function `step : σ → Tok → Option (σ × List String)`:
one step = one shared-memory access or one blocking primitive of one thread, exactly
the granularity at which the real object code is preempted under the scheduler of
`harness/tsanshim`. A schedule is a list of tokens `<tid>`, `<tid>!` (the step is a
weak CAS that fails spuriously) or `<tid>~` (spurious condition-variable wake-up).
`none` = the chosen thread is not enabled (blocked or finished): the schedule does
not apply. The strings are the trace events, in the format the shim prints.
-/
namespace MgModel.Conc

abbrev Tid := Nat

inductive Flag where
  | none | spur | wake
  deriving Repr, DecidableEq

structure Tok where
  tid  : Tid
  flag : Flag := .none
  deriving Repr, DecidableEq

def parseTok (s : String) : Option Tok :=
  if s.endsWith "!" then (s.dropEnd 1).toString.toNat?.map (fun t => { tid := t, flag := .spur })
  else if s.endsWith "~" then (s.dropEnd 1).toString.toNat?.map (fun t => { tid := t, flag := .wake })
  else s.toNat?.map (fun t => { tid := t })

def parseSchedule (l : List String) : Option (List Tok) := l.mapM parseTok

/-- function update -/
def upd {α : Type} (f : Nat → α) (i : Nat) (a : α) : Nat → α := fun j => if j = i then a else f j

@[simp] theorem upd_same {α : Type} (f : Nat → α) (i : Nat) (a : α) : upd f i a i = a := by simp [upd]
@[simp] theorem upd_other {α : Type} (f : Nat → α) (i j : Nat) (a : α) (h : j ≠ i) :
    upd f i a j = f j := by simp [upd, h]

/-- run a schedule; returns the final state, all events, and whether every token applied -/
def runSched {σ : Type} (step : σ → Tok → Option (σ × List String)) :
    σ → List Tok → σ × List String × Bool
  | s, [] => (s, [], true)
  | s, t :: ts =>
    match step s t with
    | none => (s, [], false)
    | some (s', ev) =>
      let (s'', evs, ok) := runSched step s' ts
      (s'', ev ++ evs, ok)

/-- the states reachable by any schedule -/
inductive Reach {σ : Type} (step : σ → Tok → Option (σ × List String)) (init : σ) : σ → Prop where
  | init : Reach step init init
  | step {s s' : σ} {t : Tok} {ev : List String} :
      Reach step init s → step s t = some (s', ev) → Reach step init s'

/-- an invariant that holds initially and is preserved by every step holds in every
reachable state, i.e. after every schedule of every length -/
theorem Reach.inv {σ : Type} {step : σ → Tok → Option (σ × List String)} {init : σ}
    (P : σ → Prop) (h0 : P init)
    (hstep : ∀ s t s' ev, P s → step s t = some (s', ev) → P s') :
    ∀ s, Reach step init s → P s := by
  intro s hr
  induction hr with
  | init => exact h0
  | step _ hs ih => exact hstep _ _ _ _ ih hs

theorem reach_runSched {σ : Type} (step : σ → Tok → Option (σ × List String)) (init : σ)
    (s : σ) (hr : Reach step init s) (ts : List Tok) : Reach step init (runSched step s ts).1 := by
  induction ts generalizing s with
  | nil => exact hr
  | cons t ts ih =>
    simp only [runSched]
    cases h : step s t with
    | none => exact hr
    | some p =>
      obtain ⟨s', ev⟩ := p
      exact ih s' (Reach.step hr h)

def moName : Nat → String
  | 0 => "rlx" | 1 => "con" | 2 => "acq" | 3 => "rel" | 4 => "ar" | 5 => "sc" | _ => "?"

/-- union of two sets of write ids kept as duplicate-free lists (`a` then what `b` adds): with a plain
`++` a thread that is writer and reader doubles its set at every release/acquire pair -/
def kmerge (a b : List Nat) : List Nat := a ++ b.filter (fun x => !a.contains x)

theorem mem_kmerge_left {a : List Nat} (b : List Nat) {x : Nat} (h : x ∈ a) : x ∈ kmerge a b :=
  List.mem_append_left _ h

theorem mem_kmerge_right (a : List Nat) {b : List Nat} {x : Nat} (h : x ∈ b) : x ∈ kmerge a b := by
  unfold kmerge
  by_cases ha : x ∈ a
  · exact List.mem_append_left _ ha
  · exact List.mem_append_right _ (List.mem_filter.2 ⟨h, by simpa using ha⟩)

end MgModel.Conc
