/-!
# C19 — flow controller (muggle/c/time/flow_controller.c, fast_flow_controller.c)

Executable model. One total function per C function; `Int` for the `int64_t`
timestamps (overflow of `sec * 10^9` is outside the model: the harness keeps the
inputs in range and the range hypothesis is listed in the trusted base).

The two C files contain the same algorithm over different units (nanoseconds vs.
ticks), so one model with a parametric unit factor covers both:
`init u T n F` is `muggle_flow_ctl_init` for `u = 10^9` and
`muggle_fast_flow_ctl_init` for `u = (int64_t)tick_freq`.
-/
namespace MgModel.C19

inductive Err where
  | oob            -- index outside `arr`
  deriving Repr, DecidableEq

structure FC where
  arr    : List Int
  t      : Int
  n      : Nat
  cursor : Nat
  deriving Repr, DecidableEq

/-- `muggle_flow_ctl_init` / `muggle_fast_flow_ctl_init`; `none` = returns false. -/
def init (unit : Int) (tsec : Int) (n : Nat) (fwd : Int) : Option FC :=
  if n = 0 then none
  else if tsec ≤ 0 then none
  else some { arr := List.replicate n (-fwd * unit), t := tsec * unit, n := n, cursor := 0 }

/-- `muggle_flow_ctl_check`: `elapsed - arr[cursor] >= t`. -/
def check (s : FC) (now : Int) : Except Err Bool :=
  match s.arr[s.cursor]? with
  | none => .error .oob
  | some a => .ok (decide (now - a ≥ s.t))

/-- `muggle_flow_ctl_update`: `arr[cursor] = elapsed; cursor = (cursor + 1) % n`. -/
def update (s : FC) (now : Int) : Except Err FC :=
  if s.cursor < s.arr.length then
    .ok { s with arr := s.arr.set s.cursor now, cursor := (s.cursor + 1) % s.n }
  else .error .oob

/-- `muggle_flow_ctl_check_and_update` with the clock reading made explicit. -/
def checkAndUpdate (s : FC) (now : Int) : Except Err (FC × Bool) := do
  let ok ← check s now
  if !ok then return (s, false)
  let s' ← update s now
  return (s', true)

/-- `muggle_flow_ctl_check_and_force_update` with the clock reading made explicit. -/
def checkAndForceUpdate (s : FC) (now : Int) : Except Err (FC × Bool) := do
  let ok ← check s now
  let s' ← update s now
  return (s', ok)

/-! ## Specification (what the property says), executable so the driver can print it -/

/-- number of recorded admissions `a` that lie within the window preceding `now`
    (`now - a < t`). -/
def inWindow (t now : Int) (hist : List Int) : Nat :=
  hist.countP (fun a => decide (now - a < t))

/-- the specified verdict: admit iff fewer than `n` recorded admissions are in the window -/
def specVerdict (t : Int) (n : Nat) (hist : List Int) (now : Int) : Bool :=
  decide (inWindow t now hist < n)

inductive Op where
  | cau (now : Int)     -- check_and_update
  | cfu (now : Int)     -- check_and_force_update
  deriving Repr, DecidableEq

def Op.now : Op → Int
  | .cau x => x
  | .cfu x => x

/-- one API call on the model -/
def step (s : FC) : Op → Except Err (FC × Bool)
  | .cau x => checkAndUpdate s x
  | .cfu x => checkAndForceUpdate s x

/-- the same call on the specification: the state is the list of recorded admissions
    (the `n` virtual initial ones first) -/
def specStep (t : Int) (n : Nat) (hist : List Int) : Op → List Int × Bool
  | .cau x => let v := specVerdict t n hist x; (if v then hist ++ [x] else hist, v)
  | .cfu x => (hist ++ [x], specVerdict t n hist x)

def run (s : FC) : List Op → Except Err (FC × List Bool)
  | [] => .ok (s, [])
  | op :: ops => do
    let (s1, b) ← step s op
    let (s2, bs) ← run s1 ops
    return (s2, b :: bs)

def specRun (t : Int) (n : Nat) (hist : List Int) : List Op → List Int × List Bool
  | [] => (hist, [])
  | op :: ops =>
    let (h1, b) := specStep t n hist op
    let (h2, bs) := specRun t n h1 ops
    (h2, b :: bs)

end MgModel.C19
