/-!
# C20 — hex encode / decode (muggle/c/encoding/hex.c)

Bytes and characters are `Nat`s `< 256`. `char` is signed on the target: for bytes
`≥ 0x80` every range test of `muggle_hex_to_byte` is false, which is what the `Nat`
comparisons below give as well.
-/
namespace MgModel.C20

/-- `muggle_hex_to_byte`: value of a hex digit, `0xFF` (`(uint8_t)-1`) otherwise. -/
def hexToByte (c : Nat) : Nat :=
  if 48 ≤ c ∧ c ≤ 57 then c - 48
  else if 65 ≤ c ∧ c ≤ 70 then c - 65 + 10
  else if 97 ≤ c ∧ c ≤ 102 then c - 97 + 10
  else 255

/-- `muggle_hex_to_bytes(hex, bytes, hex_len)` over the first `hex_len` characters:
processes `hex_len / 2` pairs (an odd last character is ignored); `.error out` is
`return -1` with `out` = the bytes already stored, `.ok out` is `return 0`. -/
def hexToBytesAux : List Nat → List Nat → Except (List Nat) (List Nat)
  | h :: l :: rest, acc =>
    let hv := hexToByte h
    let lv := hexToByte l
    if hv = 255 ∨ lv = 255 then .error acc.reverse
    else hexToBytesAux rest (((hv <<< 4 ||| lv) % 256) :: acc)
  | _, acc => .ok acc.reverse

def hexToBytes (hex : List Nat) : Except (List Nat) (List Nat) := hexToBytesAux hex []

/-- the table `s_hex[256]` of `muggle_hex_from_bytes`, as (first char, second char) -/
def sHex : List (Nat × Nat) := [
  (48, 48), (48, 49), (48, 50), (48, 51), (48, 52), (48, 53), (48, 54), (48, 55), (48, 56), (48, 57), (48, 65), (48, 66), (48, 67), (48, 68), (48, 69), (48, 70),
  (49, 48), (49, 49), (49, 50), (49, 51), (49, 52), (49, 53), (49, 54), (49, 55), (49, 56), (49, 57), (49, 65), (49, 66), (49, 67), (49, 68), (49, 69), (49, 70),
  (50, 48), (50, 49), (50, 50), (50, 51), (50, 52), (50, 53), (50, 54), (50, 55), (50, 56), (50, 57), (50, 65), (50, 66), (50, 67), (50, 68), (50, 69), (50, 70),
  (51, 48), (51, 49), (51, 50), (51, 51), (51, 52), (51, 53), (51, 54), (51, 55), (51, 56), (51, 57), (51, 65), (51, 66), (51, 67), (51, 68), (51, 69), (51, 70),
  (52, 48), (52, 49), (52, 50), (52, 51), (52, 52), (52, 53), (52, 54), (52, 55), (52, 56), (52, 57), (52, 65), (52, 66), (52, 67), (52, 68), (52, 69), (52, 70),
  (53, 48), (53, 49), (53, 50), (53, 51), (53, 52), (53, 53), (53, 54), (53, 55), (53, 56), (53, 57), (53, 65), (53, 66), (53, 67), (53, 68), (53, 69), (53, 70),
  (54, 48), (54, 49), (54, 50), (54, 51), (54, 52), (54, 53), (54, 54), (54, 55), (54, 56), (54, 57), (54, 65), (54, 66), (54, 67), (54, 68), (54, 69), (54, 70),
  (55, 48), (55, 49), (55, 50), (55, 51), (55, 52), (55, 53), (55, 54), (55, 55), (55, 56), (55, 57), (55, 65), (55, 66), (55, 67), (55, 68), (55, 69), (55, 70),
  (56, 48), (56, 49), (56, 50), (56, 51), (56, 52), (56, 53), (56, 54), (56, 55), (56, 56), (56, 57), (56, 65), (56, 66), (56, 67), (56, 68), (56, 69), (56, 70),
  (57, 48), (57, 49), (57, 50), (57, 51), (57, 52), (57, 53), (57, 54), (57, 55), (57, 56), (57, 57), (57, 65), (57, 66), (57, 67), (57, 68), (57, 69), (57, 70),
  (65, 48), (65, 49), (65, 50), (65, 51), (65, 52), (65, 53), (65, 54), (65, 55), (65, 56), (65, 57), (65, 65), (65, 66), (65, 67), (65, 68), (65, 69), (65, 70),
  (66, 48), (66, 49), (66, 50), (66, 51), (66, 52), (66, 53), (66, 54), (66, 55), (66, 56), (66, 57), (66, 65), (66, 66), (66, 67), (66, 68), (66, 69), (66, 70),
  (67, 48), (67, 49), (67, 50), (67, 51), (67, 52), (67, 53), (67, 54), (67, 55), (67, 56), (67, 57), (67, 65), (67, 66), (67, 67), (67, 68), (67, 69), (67, 70),
  (68, 48), (68, 49), (68, 50), (68, 51), (68, 52), (68, 53), (68, 54), (68, 55), (68, 56), (68, 57), (68, 65), (68, 66), (68, 67), (68, 68), (68, 69), (68, 70),
  (69, 48), (69, 49), (69, 50), (69, 51), (69, 52), (69, 53), (69, 54), (69, 55), (69, 56), (69, 57), (69, 65), (69, 66), (69, 67), (69, 68), (69, 69), (69, 70),
  (70, 48), (70, 49), (70, 50), (70, 51), (70, 52), (70, 53), (70, 54), (70, 55), (70, 56), (70, 57), (70, 65), (70, 66), (70, 67), (70, 68), (70, 69), (70, 70)]

/-- `muggle_hex_from_bytes`: `hex[2i] = s_hex[b][0]; hex[2i+1] = s_hex[b][1]`;
`none` = table index out of range (cannot happen for a `uint8_t`). -/
def hexFromBytes : List Nat → Option (List Nat)
  | [] => some []
  | b :: bs =>
    match sHex[b]?, hexFromBytes bs with
    | some (h, l), some r => some (h :: l :: r)
    | _, _ => none

/-! ## reference encoder / decoder -/

def refDigit (d : Nat) : Nat := if d < 10 then 48 + d else 55 + d

/-- reference: two upper-case hex digits per byte -/
def refEncode : List Nat → List Nat
  | [] => []
  | b :: bs => refDigit (b / 16) :: refDigit (b % 16) :: refEncode bs

/-- value of a hex digit in either case -/
def refDigitVal (c : Nat) : Option Nat :=
  if 48 ≤ c ∧ c ≤ 57 then some (c - 48)
  else if 65 ≤ c ∧ c ≤ 70 then some (c - 55)
  else if 97 ≤ c ∧ c ≤ 102 then some (c - 87)
  else none

/-- reference decoder over whole pairs; `none` when some digit of a pair is invalid -/
def refDecode : List Nat → Option (List Nat)
  | h :: l :: rest =>
    match refDigitVal h, refDigitVal l, refDecode rest with
    | some a, some b, some r => some ((16 * a + b) :: r)
    | _, _, _ => none
  | _ => some []

/-- upper-casing of hex text -/
def upperHex (c : Nat) : Nat := if 97 ≤ c ∧ c ≤ 102 then c - 32 else c

end MgModel.C20
