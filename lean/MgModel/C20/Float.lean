import MgModel.C20.Num
/-!
# C20 — floating-point parsers `muggle_str_tof/tod/told` (base/str.c)

`strtof/strtod/strtold` of libc are *specified* here: the subject-sequence grammar of
glibc in the "C" locale (`strtodScan`: blanks, sign, decimal and hexadecimal numerals with
optional exponent, `inf`/`infinity`, `nan`/`nan(n-char-seq)`), the exact rational value of
the numeral, and IEEE round-to-nearest-even conversion to a binary format (`roundFloat`:
precision `p`, exponent range, gradual underflow, overflow = ±HUGE_VAL with ERANGE). This
specification is compared with glibc on every run (ops `strtof/strtod/strtold`).

The wrappers mirror str.c **after** `fixes/C20-str.patch`: failure iff nothing was
converted, or something other than blanks follows, or the conversion overflowed
(`errno == ERANGE` with a result of ±HUGE_VAL). `toFloatOrig` keeps the chains of the
pinned tree (tof: only `+HUGE_VAL` is rejected, even the literal `inf`; tod/told: the
overflow test is an `else if` of the trailing-characters test and only looks at `+HUGE_VAL`).

A result is printed as the fields of its binary representation `neg biasedExp mantissa`
(binary32 / binary64 / x87 extended with explicit integer bit), so the comparison with the
implementation is bit-exact; NaN payloads and signs are not compared (`nan`).
-/
namespace MgModel.C20

/-- what `strtod` recognises: a finite numeral with exact magnitude `num / den`, or a special -/
inductive FVal where
  | fin (neg : Bool) (num den : Nat)
  | inf (neg : Bool)
  | nan
  deriving Repr, DecidableEq

structure FScan where
  val : FVal
  consumed : Nat          -- `endptr - nptr`; 0 = no conversion
  deriving Repr, DecidableEq

def lower (c : Nat) : Nat := if 65 ≤ c ∧ c ≤ 90 then c + 32 else c

def isDec (c : Nat) : Bool := decide (48 ≤ c) && decide (c ≤ 57)
def isHexDigit (c : Nat) : Bool := isDigitIn 16 c

/-- case-insensitive match of a lower-case literal at the head of `s` -/
def matchCI : CStr → CStr → Bool
  | [], _ => true
  | _ :: _, [] => false
  | l :: lit, c :: s => lower c == l && matchCI lit s

/-- optional exponent part `[eE] [+-]? digit+` (`mark` = 101 'e' or 112 'p'):
(exponent value, characters consumed); consumed = 0 when there is no valid exponent -/
def scanExp (mark : Nat) (s : CStr) : Int × Nat :=
  match s with
  | m :: r =>
    if lower m ≠ mark then (0, 0) else
    let (neg, nsign, r2) := scanSign r
    let ds := r2.takeWhile isDec
    if ds = [] then (0, 0)
    else
      let v : Int := digitsValue 10 ds
      ((if neg then -v else v), 1 + nsign + ds.length)
  | [] => (0, 0)

/-- what follows the integer digits `ip` of a mantissa: an optional `.` and fraction digits -/
def scanFrac (base : Nat) (ip : CStr) : CStr → Option (CStr × Nat × Nat)
  | 46 :: r2 =>
    let fp := r2.takeWhile (isDigitIn base)
    if ip = [] ∧ fp = [] then none
    else some (ip ++ fp, fp.length, ip.length + 1 + fp.length)
  | _ => if ip = [] then none else some (ip, 0, ip.length)

/-- mantissa `digits* [. digits*]` in `base` (10 or 16): (all digits, number of fraction
digits, characters consumed) — `none` if there is no digit at all -/
def scanMantissa (base : Nat) (s : CStr) : Option (CStr × Nat × Nat) :=
  scanFrac base (s.takeWhile (isDigitIn base)) (s.dropWhile (isDigitIn base))

/-- exact value `D * b^(e)` as a fraction, `b^e` with a possibly negative `e` -/
def scaleRat (d : Nat) (b : Nat) (e : Int) : Nat × Nat :=
  if e ≥ 0 then (d * b ^ e.toNat, 1) else (d, b ^ (-e).toNat)

/-- mantissa in `base`, optional exponent introduced by `mark` (`e` = 101 / `p` = 112) scaling by
powers of `expBase`, each fraction digit worth `perDigit` such powers: (num, den, consumed) -/
def scanBody (base mark expBase perDigit : Nat) (r : CStr) : Option (Nat × Nat × Nat) :=
  match scanMantissa base r with
  | some (ds, nfrac, n) =>
    let ex := scanExp mark (r.drop n)
    let q := scaleRat (digitsValue base ds) expBase (ex.1 - (perDigit : Int) * (nfrac : Int))
    some (q.1, q.2, n + ex.2)
  | none => none

/-- hexadecimal numeral `0x…[p…]` -/
def scanHex : CStr → Option (Nat × Nat × Nat)
  | 48 :: x :: r =>
    if lower x = 120 then
      match scanBody 16 112 2 4 r with
      | some (num, den, n) => some (num, den, 2 + n)
      | none => none
    else none
  | _ => none

/-- a numeral after the sign: (num, den, consumed); a `0x` that is not followed by a hexadecimal
mantissa is the decimal numeral `0` -/
def scanNumber (s : CStr) : Option (Nat × Nat × Nat) :=
  match scanHex s with
  | some h => some h
  | none => scanBody 10 101 10 1 s

def isNChar (c : Nat) : Bool :=
  isDec c || (decide (97 ≤ c) && decide (c ≤ 122)) || (decide (65 ≤ c) && decide (c ≤ 90)) || c == 95

/-- characters consumed behind `nan`: `(n-char-seq)` if the parenthesis is closed, else nothing -/
def nanTail : CStr → Nat
  | 40 :: r2 =>
    if (r2.drop (r2.takeWhile isNChar).length).head? = some 41 then (r2.takeWhile isNChar).length + 2 else 0
  | _ => 0

/-- `inf` / `infinity` / `nan` / `nan(n-char-seq)` after the sign, any case:
(is it an infinity, characters consumed) -/
def scanSpecial (s2 : CStr) : Option (Bool × Nat) :=
  if matchCI [105, 110, 102] s2 then
    some (true, if matchCI [105, 110, 105, 116, 121] (s2.drop 3) then 8 else 3)
  else if matchCI [110, 97, 110] s2 then some (false, 3 + nanTail (s2.drop 3))
  else none

/-- glibc `strtod` family scanning (format independent) -/
def strtodScan (s : CStr) : FScan :=
  let ws := s.takeWhile isSpace
  let s1 := s.dropWhile isSpace
  let (neg, nsign, s2) := scanSign s1
  let pre := ws.length + nsign
  match scanNumber s2 with
  | some (num, den, n) => { val := .fin neg num den, consumed := pre + n }
  | none =>
    match scanSpecial s2 with
    | some (true, n) => { val := .inf neg, consumed := pre + n }
    | some (false, n) => { val := .nan, consumed := pre + n }
    | none => { val := .fin false 0 1, consumed := 0 }

/-! ## IEEE round-to-nearest-even -/

/-- `num / den ≥ 2^e` -/
def geTwoPow (num den : Nat) (e : Int) : Bool :=
  if e ≥ 0 then decide (num ≥ den * 2 ^ e.toNat) else decide (num * 2 ^ (-e).toNat ≥ den)

/-- `⌊log2 (num / den)⌋` for positive `num`, `den` -/
def ilog2Rat (num den : Nat) : Int :=
  let e0 : Int := (Nat.log2 num : Int) - (Nat.log2 den : Int)
  if geTwoPow num den e0 then e0 else e0 - 1

/-- a binary floating-point format: precision (with the leading bit) and exponent range -/
structure Fmt where
  p : Nat
  emin : Int
  emax : Int
  explicitBit : Bool      -- x87: the integer bit is stored in the mantissa field

def fmt32 : Fmt := ⟨24, -126, 127, false⟩
def fmt64 : Fmt := ⟨53, -1022, 1023, false⟩
def fmt80 : Fmt := ⟨64, -16382, 16383, true⟩

/-- result of a conversion: fields of the representation, or a special value -/
inductive FRes where
  | bits (neg : Bool) (biasedExp : Nat) (mant : Nat)
  | inf (neg : Bool) (erange : Bool)
  | nan
  deriving Repr, DecidableEq

/-- the integer significand `m` (< 2^p) and exponent `E` (value = m · 2^(E-p+1)) nearest to
`num/den`, ties to even; `none` = overflow -/
def roundMag (f : Fmt) (num den : Nat) : Option (Nat × Int) :=
  if num = 0 then some (0, f.emin)
  else
    let e := ilog2Rat num den
    let E := if e < f.emin then f.emin else e
    let qe : Int := E - ((f.p : Int) - 1)
    let (n, d) := if qe ≥ 0 then (num, den * 2 ^ qe.toNat) else (num * 2 ^ (-qe).toNat, den)
    let m0 := n / d
    let r := n % d
    let m := if 2 * r > d ∨ (2 * r = d ∧ m0 % 2 = 1) then m0 + 1 else m0
    let (m, E) := if m = 2 ^ f.p then (2 ^ (f.p - 1), E + 1) else (m, E)
    if E > f.emax then none else some (m, E)

def roundFloat (f : Fmt) : FVal → FRes
  | .nan => .nan
  | .inf neg => .inf neg false
  | .fin neg num den =>
    match roundMag f num den with
    | none => .inf neg true
    | some (m, E) =>
      if m < 2 ^ (f.p - 1) then .bits neg 0 m                 -- zero / subnormal
      else
        let biased := (E + f.emax).toNat
        .bits neg biased (if f.explicitBit then m else m - 2 ^ (f.p - 1))

/-- `muggle_str_tof/tod/told` after the fix -/
def strToFloat (f : Fmt) (s : CStr) : Option FRes :=
  let sc := strtodScan s
  let r := roundFloat f sc.val
  if sc.consumed = 0 then none
  else if !trailingOk (s.drop sc.consumed) then none
  else match r with
    | .inf _ true => none           -- overflow: ±HUGE_VAL with ERANGE
    | r => some r

/-- the pinned tree. `tof` (`isF = true`): `*pval == HUGE_VAL…` without looking at errno or at
`-HUGE_VAL`; `tod`/`told`: the test is skipped when blanks follow, and ignores `-HUGE_VAL` -/
def strToFloatOrig (isF : Bool) (f : Fmt) (s : CStr) : Option FRes :=
  let sc := strtodScan s
  let r := roundFloat f sc.val
  if sc.consumed = 0 then none
  else if isF then
    if !trailingOk (s.drop sc.consumed) then none
    else match r with
      | .inf false _ => none
      | r => some r
  else
    if s.drop sc.consumed ≠ [] then (if !trailingOk (s.drop sc.consumed) then none else some r)
    else match r with
      | .inf false true => none
      | r => some r

/-! ## Specification -/

/-- the body is exactly `inf`, `infinity`, `nan` or `nan(n-char-seq)`, any case: is it an infinity -/
def specialLit (body : CStr) : Option Bool :=
  let l := body.map lower
  if l = [105, 110, 102] ∨ l = [105, 110, 102, 105, 110, 105, 116, 121] then some true
  else if l = [110, 97, 110] then some false
  else if l.take 4 = [110, 97, 110, 40] ∧ l.getLast? = some 41 ∧
      ((body.drop 4).take (body.length - 5)).all isNChar then some false
  else none

/-- the stripped string is exactly one numeral (or `inf`, `infinity`, `nan`, `nan(…)`, any
case) with an optional sign; its value -/
def floatNumeral (core : CStr) : Option FVal :=
  let (neg, _, body) := scanSign core
  match scanNumber body with
  | some (num, den, n) => if n = body.length then some (.fin neg num den) else none
  | none =>
    match specialLit body with
    | some true => some (.inf neg)
    | some false => some .nan
    | none => none

/-- Specification of the float parsers: one numeral, correctly rounded, not overflowing -/
def refParseFloat (f : Fmt) (s : CStr) : Option FRes :=
  match floatNumeral (stripBlanks s) with
  | some v =>
    match roundFloat f v with
    | .inf _ true => none
    | r => some r
  | none => none

end MgModel.C20
