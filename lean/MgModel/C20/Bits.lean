/-!
# C20 — bit utilities: `muggle_next_pow_of_2` (base/utils.c), `MUGGLE_ENDIAN_SWAP_*` (os/endian.h)

`BitVec` because these clauses of the property are about the whole 64-bit domain
(wrap-around of `x + 1`, masks, shifts).

`nextPow2` mirrors the code **after** `fixes/C20-next-pow-of-2.patch` (one more smear
step `x |= x >> 32`); `nextPow2Orig` is the function as it is in the pinned tree and is
kept only to state (and prove) that the property fails for it.
-/
namespace MgModel.C20

/-- `MUGGLE_IS_POW_OF_2(x)` = `!((x) & ((x) - 1))` (true for 0 as well). -/
def isPow2Macro (x : BitVec 64) : Bool := (x &&& (x - 1)) == 0

/-- the smear steps `x |= x >> 1; … ; x |= x >> 16` shared by both versions -/
def smear16 (x : BitVec 64) : BitVec 64 :=
  let x := x ||| (x >>> 1)
  let x := x ||| (x >>> 2)
  let x := x ||| (x >>> 4)
  let x := x ||| (x >>> 8)
  let x := x ||| (x >>> 16)
  x

/-- `muggle_next_pow_of_2` with the fix (`x |= x >> 32` added). -/
def nextPow2 (x : BitVec 64) : BitVec 64 :=
  if isPow2Macro x then x
  else
    let x := smear16 x
    let x := x ||| (x >>> 32)
    x + 1

/-- `muggle_next_pow_of_2` as in the pinned tree (no `>> 32` step). -/
def nextPow2Orig (x : BitVec 64) : BitVec 64 :=
  if isPow2Macro x then x
  else smear16 x + 1

/-- Specification: the least power of two `≥ n` (`fuel` doublings from `p`). -/
def leastPow2From : Nat → Nat → Nat → Nat
  | 0, p, _ => p
  | fuel + 1, p, n => if n ≤ p then p else leastPow2From fuel (2 * p) n

/-- least power of two not below `n`, for `n ≤ 2^64` -/
def specNextPow2 (n : Nat) : Nat := leastPow2From 65 1 n

/-! ## endian swaps (macros of endian.h, applied to a value of the given width) -/

def swap16 (v : BitVec 16) : BitVec 16 :=
  ((v &&& 0x00FF#16) <<< 8) |||
  ((v &&& 0xFF00#16) >>> 8)

def swap32 (v : BitVec 32) : BitVec 32 :=
  ((v &&& 0x000000FF#32) <<< 24) |||
  ((v &&& 0x0000FF00#32) <<< 8) |||
  ((v &&& 0x00FF0000#32) >>> 8) |||
  ((v &&& 0xFF000000#32) >>> 24)

def swap64 (v : BitVec 64) : BitVec 64 :=
  ((v &&& 0x00000000000000FF#64) <<< 56) |||
  ((v &&& 0x000000000000FF00#64) <<< 40) |||
  ((v &&& 0x0000000000FF0000#64) <<< 24) |||
  ((v &&& 0x00000000FF000000#64) <<< 8) |||
  ((v &&& 0x000000FF00000000#64) >>> 8) |||
  ((v &&& 0x0000FF0000000000#64) >>> 24) |||
  ((v &&& 0x00FF000000000000#64) >>> 40) |||
  ((v &&& 0xFF00000000000000#64) >>> 56)

/-- Specification: little-endian bytes of an `n`-byte value. -/
def bytesLE : Nat → Nat → List Nat
  | 0, _ => []
  | k + 1, v => (v % 256) :: bytesLE k (v / 256)

def ofBytesLE : List Nat → Nat
  | [] => 0
  | b :: bs => b + 256 * ofBytesLE bs

/-- byte reversal of an `n`-byte value -/
def specSwap (n : Nat) (v : Nat) : Nat := ofBytesLE (bytesLE n v).reverse

end MgModel.C20
