/-!
# C20 — string helpers of muggle/c/base/str.c (startswith, endswith, count, find, strip)

A C string is the list of its bytes (as `Nat`s, all non-zero) without the terminator.
`int` arguments are `Int`; lengths are assumed to fit an `int` (`(int)strlen`).

The model mirrors the code **after** `fixes/C20-str-helpers.patch`:
* `muggle_str_rstrip_idx("")` returns -1 instead of reading `str[-1]`;
* `muggle_str_count(s, "", …)` returns 0 instead of looping for ever.
The behaviour of the pinned tree on exactly these inputs is kept as
`rstripIdxOrig` / `strCountOrig` (explicit `Err` outcomes).
-/
namespace MgModel.C20

/-- outcomes that are not a return value: what the C code would do there -/
inductive Err where
  | oob      -- read or write outside an object
  | uninit   -- read of an indeterminate byte
  | ub       -- other undefined behaviour
  | hang     -- does not terminate
  deriving Repr, DecidableEq

abbrev CStr := List Nat

/-- `isspace` in the "C" locale: blank, `\t \n \v \f \r`. -/
def isSpace (c : Nat) : Bool := c == 32 || (decide (9 ≤ c) && decide (c ≤ 13))

/-! ## startswith / endswith -/

/-- the comparison loop `for i < prefix_len: if (str[i] != prefix[i]) return 0` -/
def prefixLoop : CStr → CStr → Bool
  | _, [] => true
  | [], _ :: _ => false
  | a :: s, b :: p => if a ≠ b then false else prefixLoop s p

/-- `muggle_str_startswith` (non-NULL arguments) -/
def startswith (s p : CStr) : Bool :=
  if s.length < p.length then false
  else if !prefixLoop s p then false
  else if s.length ≠ 0 ∧ p.length = 0 then false
  else true

/-- `muggle_str_endswith`: the same loop from the last character backwards -/
def endswith (s p : CStr) : Bool :=
  if s.length < p.length then false
  else if !prefixLoop s.reverse p.reverse then false
  else if s.length ≠ 0 ∧ p.length = 0 then false
  else true

/-- reference: `p` is a prefix of `s`; by the library's documented convention (pinned by
test/str) the empty prefix is accepted only for the empty string -/
def refStartswith (s p : CStr) : Bool := p.isPrefixOf s && !(s ≠ [] && p == [])
def refEndswith (s p : CStr) : Bool := p.isSuffixOf s && !(s ≠ [] && p == [])

/-! ## strstr (libc, specified) -/

/-- `strstr(hay, sub) - hay`: offset of the first occurrence, `none` = NULL -/
def strstr : CStr → CStr → Option Nat
  | [], sub => if sub = [] then some 0 else none
  | h :: hay, sub =>
    if sub.isPrefixOf (h :: hay) then some 0 else (strstr hay sub).map (· + 1)

/-! ## count -/

/-- the `while (1)` loop of `muggle_str_count`; `pos`, `endPos` are offsets into `s` -/
def countLoop (s sub : CStr) (hsub : 0 < sub.length) (endPos : Nat) (pos cnt : Nat) : Nat :=
  match strstr (s.drop pos) sub with
  | none => cnt
  | some off =>
    let q := pos + off
    if q + sub.length > endPos then cnt
    else if q + sub.length ≥ endPos then cnt + 1
    else countLoop s sub hsub endPos (q + sub.length) (cnt + 1)
termination_by endPos - pos
decreasing_by omega

/-- clamp of the `[start, end)` window shared by count and find; `none` = early return -/
def window (len : Nat) (start end_ : Int) : Option (Nat × Nat) :=
  if start < 0 ∨ end_ < 0 then none
  else if start ≥ (len : Int) then none
  else
    let e : Int := if end_ = 0 then len else end_
    let e : Int := if e > (len : Int) then len else e
    if e ≤ start then none
    else some (start.toNat, e.toNat)

/-- `muggle_str_count` (fixed: empty `sub` counts 0) -/
def strCount (s sub : CStr) (start end_ : Int) : Int :=
  if h : sub.length = 0 then 0
  else
    match window s.length start end_ with
    | none => 0
    | some (st, e) => countLoop s sub (by omega) e st 0

/-- `muggle_str_count` of the pinned tree: an empty `sub` with a non-empty window never
leaves the loop (`strstr` returns `pos`, `pos` does not advance) -/
def strCountOrig (s sub : CStr) (start end_ : Int) : Except Err Int :=
  if h : sub.length = 0 then
    match window s.length start end_ with
    | none => .ok 0
    | some _ => .error .hang
  else
    match window s.length start end_ with
    | none => .ok 0
    | some (st, e) => .ok (countLoop s sub (by omega) e st 0)

/-- reference: greedy left-to-right count of non-overlapping occurrences inside a window -/
def countOcc (sub : CStr) (hsub : 0 < sub.length) (w : CStr) : Nat :=
  if w.length < sub.length then 0
  else if sub.isPrefixOf w then 1 + countOcc sub hsub (w.drop sub.length)
  else countOcc sub hsub (w.drop 1)
termination_by w.length
decreasing_by all_goals (simp only [List.length_drop]; omega)

def refCount (s sub : CStr) (start end_ : Int) : Int :=
  if h : sub.length = 0 then 0
  else
    match window s.length start end_ with
    | none => 0
    | some (st, e) => countOcc sub (by omega) ((s.take e).drop st)

/-! ## find -/

/-- `muggle_str_find` -/
def strFind (s sub : CStr) (start end_ : Int) : Int :=
  match window s.length start end_ with
  | none => -1
  | some (st, e) =>
    match strstr (s.drop st) sub with
    | none => -1
    | some off => if st + off + sub.length > e then -1 else ((st + off : Nat) : Int)

/-- reference: the lowest `q ≥ st` with `sub` at `q` and `q + |sub| ≤ e`, searching
candidates `st, st+1, …` (`fuel` of them) -/
def findFrom (s sub : CStr) (e : Nat) : Nat → Nat → Int
  | 0, _ => -1
  | fuel + 1, q =>
    if q + sub.length > e then -1
    else if sub.isPrefixOf (s.drop q) then (q : Int)
    else findFrom s sub e fuel (q + 1)

def refFind (s sub : CStr) (start end_ : Int) : Int :=
  match window s.length start end_ with
  | none => -1
  | some (st, e) => findFrom s sub e (e + 1 - st) st

/-! ## strip -/

/-- loop of `muggle_str_lstrip_idx` over the suffix starting at `idx`:
`while (isspace(str[idx])) if (++idx >= str_len) return -1;` -/
def lstripGo : CStr → Nat → Int
  | [], idx => idx
  | c :: rest, idx =>
    if isSpace c then (if rest = [] then -1 else lstripGo rest (idx + 1)) else idx

/-- `muggle_str_lstrip_idx` -/
def lstripIdx (s : CStr) : Int := lstripGo s 0

/-- loop of `muggle_str_rstrip_idx` over the reversed string (`idx = rest.length`):
`while (isspace(str[idx])) if (--idx < 0) return -1;` -/
def rstripGo : CStr → Int
  | [] => -1
  | c :: rest =>
    if isSpace c then (if rest = [] then -1 else rstripGo rest) else rest.length

/-- `muggle_str_rstrip_idx` (fixed: `str_len == 0` returns -1) -/
def rstripIdx (s : CStr) : Int :=
  if s.length = 0 then -1 else rstripGo s.reverse

/-- pinned tree: the empty string makes the loop read `str[-1]` -/
def rstripIdxOrig (s : CStr) : Except Err Int :=
  if s.length = 0 then .error .oob else .ok (rstripGo s.reverse)

/-- reference: number of leading blanks, -1 for a non-empty all-blank string -/
def refLstrip (s : CStr) : Int :=
  if s ≠ [] ∧ s.all isSpace then -1 else (s.takeWhile isSpace).length

/-- reference: index of the last non-blank character, -1 if there is none -/
def refRstrip (s : CStr) : Int :=
  ((s.reverse.dropWhile isSpace).length : Int) - 1

end MgModel.C20
