import MgModel.C20.Str
/-!
# C20 — integer parsers `muggle_str_toi/tou/tol/toul/toll/toull` (base/str.c)

`strto*l` of libc are *specified* here (`strtoScan`, `strtolVal`, `strtoulVal`:
blanks, sign, base 0 / 16 prefixes, longest digit run, saturation + ERANGE, negation
in the unsigned type) and that specification is itself compared with glibc on every
run (harness ops `strtol` / `strtoul`). The wrappers mirror the decision chains of
str.c **after** `fixes/C20-str-parsers.patch`; `strToiOrig` / `strTouOrig` keep the chains
of the pinned tree to state the defects.

LP64: `long` = `long long` = 64 bits, `int` = 32 bits (recorded as an assumption).
A base outside `0, 2..36` makes `strtol` return without storing `endptr`, which the
wrappers then read uninitialised: `Err.ub`.
-/
namespace MgModel.C20

/-- value of a digit character: `0-9`, `A-Z`/`a-z` = 10..35 -/
def digitVal (c : Nat) : Option Nat :=
  if 48 ≤ c ∧ c ≤ 57 then some (c - 48)
  else if 65 ≤ c ∧ c ≤ 90 then some (c - 55)
  else if 97 ≤ c ∧ c ≤ 122 then some (c - 87)
  else none

def isDigitIn (base : Nat) (c : Nat) : Bool :=
  match digitVal c with
  | some d => decide (d < base)
  | none => false

/-- exact value of a digit string in `base` (most significant first) -/
def digitsValue (base : Nat) (ds : List Nat) : Nat :=
  ds.foldl (fun acc c => acc * base + (digitVal c).getD 0) 0

def validBase (base : Nat) : Bool := base == 0 || (decide (2 ≤ base) && decide (base ≤ 36))

/-- what the scanning part of `strtol`/`strtoul` finds -/
structure Scan where
  neg : Bool        -- a '-' sign was read
  mag : Nat         -- exact magnitude of the digit run (unbounded)
  consumed : Nat    -- `endptr - nptr`; 0 = no conversion
  deriving Repr, DecidableEq

/-- sign: (negative, characters consumed, rest) -/
def scanSign : CStr → Bool × Nat × CStr
  | 45 :: r => (true, 1, r)
  | 43 :: r => (false, 1, r)
  | s => (false, 0, s)

/-- prefix: (effective base, characters consumed (0 or 2), rest) -/
def scanPrefix (base : Nat) : CStr → Nat × Nat × CStr
  | 48 :: r =>
    if (base = 0 ∨ base = 16) ∧ (r.head? = some 120 ∨ r.head? = some 88) then (16, 2, r.tail)
    else if base = 0 then (8, 0, 48 :: r)
    else (base, 0, 48 :: r)
  | s => if base = 0 then (10, 0, s) else (base, 0, s)

/-- glibc `strtol`/`strtoul` scanning for a valid `base` -/
def strtoScan (s : CStr) (base : Nat) : Scan :=
  let ws := s.takeWhile isSpace
  let s1 := s.dropWhile isSpace
  let (neg, nsign, s2) := scanSign s1
  let (b, npre, s3) := scanPrefix base s2
  let ds := s3.takeWhile (isDigitIn b)
  if ds = [] then
    -- "0x" not followed by a hex digit: value 0, endptr at the 'x'
    if npre = 2 then { neg := neg, mag := 0, consumed := ws.length + nsign + 1 }
    else { neg := false, mag := 0, consumed := 0 }
  else { neg := neg, mag := digitsValue b ds, consumed := ws.length + nsign + npre + ds.length }

/-- `strtol`-family result for a `bits`-wide signed type: (value, errno == ERANGE) -/
def strtolVal (bits : Nat) (sc : Scan) : Int × Bool :=
  if sc.neg then
    if sc.mag > 2 ^ (bits - 1) then (-(2 ^ (bits - 1) : Int), true) else (-(sc.mag : Int), false)
  else
    if sc.mag > 2 ^ (bits - 1) - 1 then ((2 ^ (bits - 1) : Int) - 1, true) else ((sc.mag : Int), false)

/-- `strtoul`-family result for a `bits`-wide unsigned type -/
def strtoulVal (bits : Nat) (sc : Scan) : Nat × Bool :=
  if sc.mag > 2 ^ bits - 1 then (2 ^ bits - 1, true)
  else if sc.neg then ((2 ^ bits - sc.mag) % 2 ^ bits, false)
  else (sc.mag, false)

/-- `*endptr == '\0'` or only blanks follow (`muggle_str_lstrip_idx(endptr) == -1`) -/
def trailingOk (rest : CStr) : Bool := rest == [] || lstripGo rest 0 == -1

def INT_MAX : Int := 2147483647
def INT_MIN : Int := -2147483648
def UINT_MAX : Nat := 4294967295
def LONG_MAX : Int := 9223372036854775807
def LONG_MIN : Int := -9223372036854775808
def ULONG_MAX : Nat := 18446744073709551615

/-- `muggle_str_toi` (fixed: the range checks are no longer `else if` branches of the
trailing-characters test) -/
def strToi (s : CStr) (base : Nat) : Except Err (Option Int) :=
  if !validBase base then .error .ub else
  let sc := strtoScan s base
  let (ret, erange) := strtolVal 64 sc
  if sc.consumed = 0 then .ok none
  else if !trailingOk (s.drop sc.consumed) then .ok none
  else if (ret = LONG_MAX ∨ ret = LONG_MIN) ∧ erange then .ok none
  else if ret > INT_MAX ∨ ret < INT_MIN then .ok none
  else .ok (some ret)

/-- `(int)ret` for a 64-bit `ret` -/
def truncInt32 (v : Int) : Int := (v + 2147483648) % 4294967296 - 2147483648

/-- `muggle_str_toi` of the pinned tree: with trailing blanks the range checks are skipped -/
def strToiOrig (s : CStr) (base : Nat) : Except Err (Option Int) :=
  if !validBase base then .error .ub else
  let sc := strtoScan s base
  let (ret, erange) := strtolVal 64 sc
  if sc.consumed = 0 then .ok none
  else if s.drop sc.consumed ≠ [] then
    if !trailingOk (s.drop sc.consumed) then .ok none else .ok (some (truncInt32 ret))
  else if (ret = LONG_MAX ∨ ret = LONG_MIN) ∧ erange then .ok none
  else if ret > INT_MAX ∨ ret < INT_MIN then .ok none
  else .ok (some ret)

/-- the unsigned wrappers after the fix: `limit` is the largest accepted value
(`UINT_MAX` for `tou`; `ULONG_MAX - 1` for `toul`/`toull`, whose sentinel `ULONG_MAX` is
rejected as documented); a negative numeral other than `-0` is rejected -/
def strToUnsigned (limit : Nat) (s : CStr) (base : Nat) : Except Err (Option Nat) :=
  if !validBase base then .error .ub else
  let sc := strtoScan s base
  let (ret, _) := strtoulVal 64 sc
  if sc.consumed = 0 then .ok none
  else if !trailingOk (s.drop sc.consumed) then .ok none
  else if ret = ULONG_MAX then .ok none
  else if ret > limit then .ok none
  else if sc.neg ∧ ret ≠ 0 then .ok none
  else .ok (some ret)

def strTou (s : CStr) (base : Nat) := strToUnsigned UINT_MAX s base
def strToul (s : CStr) (base : Nat) := strToUnsigned (ULONG_MAX - 1) s base
def strToull (s : CStr) (base : Nat) := strToUnsigned (ULONG_MAX - 1) s base

/-- `muggle_str_tou` of the pinned tree: `*pval = (unsigned int)ret` without a range check -/
def strTouOrig (s : CStr) (base : Nat) : Except Err (Option Nat) :=
  if !validBase base then .error .ub else
  let sc := strtoScan s base
  let (ret, _) := strtoulVal 64 sc
  if sc.consumed = 0 then .ok none
  else if !trailingOk (s.drop sc.consumed) then .ok none
  else if ret = ULONG_MAX then .ok none
  else .ok (some (ret % 4294967296))

/-- `muggle_str_toul`/`toull` of the pinned tree: negative numerals wrap -/
def strToulOrig (s : CStr) (base : Nat) : Except Err (Option Nat) :=
  if !validBase base then .error .ub else
  let sc := strtoScan s base
  let (ret, _) := strtoulVal 64 sc
  if sc.consumed = 0 then .ok none
  else if !trailingOk (s.drop sc.consumed) then .ok none
  else if ret = ULONG_MAX then .ok none
  else .ok (some ret)

/-- `muggle_str_tol` / `muggle_str_toll` (LONG_MAX / LONG_MIN are rejected: documented
sentinel behaviour, kept as is) -/
def strTol (s : CStr) (base : Nat) : Except Err (Option Int) :=
  if !validBase base then .error .ub else
  let sc := strtoScan s base
  let (ret, _) := strtolVal 64 sc
  if sc.consumed = 0 then .ok none
  else if !trailingOk (s.drop sc.consumed) then .ok none
  else if ret = LONG_MAX ∨ ret = LONG_MIN then .ok none
  else .ok (some ret)

def strToll (s : CStr) (base : Nat) := strTol s base

/-! ## Specification: one well-formed numeral with surrounding blanks -/

/-- the string without leading and trailing blanks -/
def stripBlanks (s : CStr) : CStr :=
  ((s.dropWhile isSpace).reverse.dropWhile isSpace).reverse

/-- digits of an unsigned numeral body in `base` (0 = C syntax: 0x…, 0…, decimal;
16 accepts an optional 0x): (effective base, digit string) -/
def numeralBody (base : Nat) : CStr → Nat × CStr
  | 48 :: x :: d :: tl =>
    if (base = 0 ∨ base = 16) ∧ (x = 120 ∨ x = 88) ∧ isDigitIn 16 d then (16, d :: tl)
    else if base = 0 then (8, 48 :: x :: d :: tl)
    else (base, 48 :: x :: d :: tl)
  | 48 :: tl => if base = 0 then (8, 48 :: tl) else (base, 48 :: tl)
  | s => if base = 0 then (10, s) else (base, s)

/-- exact value of `core` if it is exactly `[+-] body`, body non-empty with valid digits only -/
def numeralValue (base : Nat) (core : CStr) : Option Int :=
  let (neg, _, body) := scanSign core
  let (b, ds) := numeralBody base body
  if ds ≠ [] ∧ ds.all (isDigitIn b) then
    some (if neg then -(digitsValue b ds : Int) else (digitsValue b ds : Int))
  else none

/-- Specification of every integer parser: the stripped string is one numeral whose exact
value lies in `[lo, hi]` -/
def refParse (lo hi : Int) (s : CStr) (base : Nat) : Option Int :=
  match numeralValue base (stripBlanks s) with
  | some v => if lo ≤ v ∧ v ≤ hi then some v else none
  | none => none

end MgModel.C20
