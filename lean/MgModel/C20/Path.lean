import MgModel.C20.Str
/-!
# C20 — path functions of muggle/c/os/path.c (isabs, join, dirname, basename, normpath, abspath)

Memory model: the caller's buffer `ret` is a list of `size` cells, each either
indeterminate (`none`) or a byte. A write at an index `≥ size` is `Err.oob`, a read of an
indeterminate cell is `Err.uninit` — nothing is totalised. Input paths are C strings
(lists of non-zero bytes); the scanning cursor of `normpath` is the remaining suffix.

Every function takes `fx : Bool`: `fx = true` mirrors the code **after**
`fixes/C20-path.patch`, `fx = false` the pinned tree. The theorems are about `fx = true`;
`fx = false` is used for the negation witnesses (and can be run by the driver).

The patch: `join` rejects `size ≤ 1` before computing `size - 1` and terminates the copy
of `path1`; `abspath` / `basename` terminate after `strncpy`; `basename` reports a result
that does not fit instead of truncating it; `normpath` no longer stores the terminator
it reads after a trailing `..` as if it were a separator.
-/
namespace MgModel.C20

structure Buf where
  cells : List (Option Nat)
  deriving Repr, DecidableEq

def Buf.size (b : Buf) : Nat := b.cells.length

/-- a fresh buffer of `n` indeterminate bytes -/
def Buf.fresh (n : Nat) : Buf := ⟨List.replicate n none⟩

def Buf.write (b : Buf) (i : Nat) (v : Nat) : Except Err Buf :=
  if i < b.cells.length then .ok ⟨b.cells.set i (some v)⟩ else .error .oob

def Buf.read (b : Buf) (i : Nat) : Except Err Nat :=
  match b.cells[i]? with
  | none => .error .oob
  | some none => .error .uninit
  | some (some v) => .ok v

/-- store `vs` at `off, off+1, …` -/
def writeList (b : Buf) (off : Nat) : List Nat → Except Err Buf
  | [] => .ok b
  | v :: vs => do
    let b' ← b.write off v
    writeList b' (off + 1) vs

/-- `strncpy(ret + off, src, n)`: `min(n, strlen)` bytes of `src`, then zero padding up to
`n` bytes; no terminator when `strlen(src) ≥ n`. -/
def strncpy (b : Buf) (off : Nat) (src : CStr) (n : Nat) : Except Err Buf :=
  if off + n > b.size then .error .oob      -- (avoids materialising a 4 GiB list for n = UINT_MAX)
  else writeList b off (src.take n ++ List.replicate (n - src.length) 0)

/-- `strlen(ret)` on the buffer -/
def strlenCells : List (Option Nat) → Except Err Nat
  | [] => .error .oob
  | none :: _ => .error .uninit
  | some c :: rest => if c = 0 then .ok 0 else (strlenCells rest).map (· + 1)

/-- the C string held by the buffer: bytes before the first NUL; `none` when there is no
terminator inside the buffer (or an indeterminate byte comes first) -/
def cstrCells : List (Option Nat) → Option CStr
  | [] => none
  | none :: _ => none
  | some c :: rest => if c = 0 then some [] else (cstrCells rest).map (c :: ·)

def Buf.cstr (b : Buf) : Option CStr := cstrCells b.cells

def isSep (c : Nat) : Bool := c == 47 || c == 92        -- '/' '\\'
def isAlpha (c : Nat) : Bool := (decide (97 ≤ c) && decide (c ≤ 122)) || (decide (65 ≤ c) && decide (c ≤ 90))

/-- `muggle_path_isabs` -/
def isAbs (p : CStr) : Bool :=
  if p.length > 1 ∧ p[0]? = some 47 then true
  else if p.length > 2 ∧ isAlpha (p.getD 0 0) ∧ p[1]? = some 58 ∧ isSep (p.getD 2 0) then true
  else false

/-- index of the last `/` or `\\` (the `while (pos >= 0)` scans of basename / dirname) -/
def lastSepAux : CStr → Nat → Option Nat → Option Nat
  | [], _, acc => acc
  | c :: tl, i, acc => lastSepAux tl (i + 1) (if isSep c then some i else acc)

def lastSep (p : CStr) : Option Nat := lastSepAux p 0 none

/-! ## join -/

/-- second half of `muggle_path_join` (from `const char *p = path2;` on): `ret` holds `path1`
and possibly the added `/`; `pos`, `len1`, `maxLen` as in the C code -/
def pathJoinTail (p2 : CStr) (b : Buf) (pos len1 maxLen : Nat) : Except Err (Bool × Buf) := do
  let (p, len2, bad) :=
    if p2.head? = some 47 then (p2.tail, p2.length - 1, decide (p2.length = 1))
    else (p2, p2.length, false)
  if bad then return (false, b)
  if len1 + len2 > maxLen then return (false, b)
  let b ← strncpy b pos p len2
  let b ← b.write (len1 + len2) 0
  return (true, b)

/-- `muggle_path_join`; result `(true, buf)` = MUGGLE_OK -/
def pathJoin (fx : Bool) (p1 p2 : CStr) (b : Buf) : Except Err (Bool × Buf) := do
  let size := b.size
  -- `unsigned max_len = size - 1; if (max_len <= 0)`: only size = 1 is caught, size = 0 wraps
  if (if fx then size ≤ 1 else size = 1) then return (false, b)
  let maxLen := if size = 0 then 4294967295 else size - 1
  if p1.length = 0 ∨ p2.length = 0 then return (false, b)
  if p1.length > maxLen then return (false, b)
  let b ← strncpy b 0 p1 maxLen
  let b ← if fx then b.write maxLen 0 else pure b
  -- muggle_str_endswith(ret, "/") / (ret, "\\"): strlen(ret), then the last character
  let n ← strlenCells b.cells
  let endsSep ← (if n = 0 then pure false else do
    let c ← b.read (n - 1)
    pure (isSep c))
  let pos := p1.length
  if !endsSep then
    if pos ≥ size then return (false, b)
    let b ← b.write pos 47
    pathJoinTail p2 b (pos + 1) (p1.length + 1) maxLen
  else
    pathJoinTail p2 b pos p1.length maxLen

/-! ## basename / dirname -/

/-- `muggle_path_basename` -/
def pathBasename (fx : Bool) (p : CStr) (b : Buf) : Except Err (Bool × Buf) := do
  let size := b.size
  if size ≤ 1 then return (false, b)
  if p.length = 0 then return (false, b)
  match lastSep p with
  | none =>
    if p.length > size - 1 then return (false, b)
    let b ← strncpy b 0 p (size - 1)
    let b ← if fx then b.write (size - 1) 0 else pure b
    return (true, b)
  | some pos =>
    let len := p.length - 1 - pos
    if len = 0 then return (false, b)
    if fx ∧ len ≥ size then return (false, b)
    let len := if len ≥ size then size - 1 else len
    let b ← writeList b 0 ((p.drop (pos + 1)).take len)     -- memcpy
    let b ← b.write len 0
    return (true, b)

/-- `muggle_path_dirname` (unchanged by the patch) -/
def pathDirname (p : CStr) (b : Buf) : Except Err (Bool × Buf) := do
  let size := b.size
  if size ≤ 1 then return (false, b)
  if p.length = 0 then return (false, b)
  match lastSep p with
  | none => return (false, b)
  | some pos =>
    let pos := if pos = 0 then 1 else pos
    let pos := if pos ≥ 2 ∧ p[pos - 1]? = some 58 then pos + 1 else pos
    if pos ≥ size then return (false, b)
    let b ← writeList b 0 (p.take pos)                       -- memcpy
    let b ← b.write pos 0
    return (true, b)

/-! ## normpath -/

/-- `i = pos; while (i >= 0) { if sep(ret[i]) break; --i; } pos = i + 1;` with `k = i + 1` -/
def scanBack (b : Buf) : Nat → Except Err Nat
  | 0 => .ok 0
  | i + 1 => do
    let c ← b.read i
    if isSep c then pure (i + 1) else scanBack b i

/-- keep the `..`: `ret[pos++] = '.'; ret[pos++] = '.'; ret[pos++] = *cursor;` — the fixed code
does not store `*cursor` when it is the terminator -/
def normPush (fx : Bool) (b : Buf) (pos : Nat) (e : Nat) : Except Err (Option (Buf × Nat)) := do
  let b ← b.write pos 46
  let b ← b.write (pos + 1) 46
  if fx ∧ e = 0 then return some (b, pos + 2)
  let b ← b.write (pos + 2) e
  return some (b, pos + 3)

/-- `pos >= 3 && ret[pos-3] == '.' && ret[pos-2] == '.' && (ret[pos-1] == '/' || ret[pos-1] == '\\')` -/
def endsDotDot (b : Buf) (pos : Nat) : Except Err Bool :=
  if pos ≥ 3 then do
    let c3 ← b.read (pos - 3)
    if c3 ≠ 46 then pure false else
    let c2 ← b.read (pos - 2)
    if c2 ≠ 46 then pure false else
    let c1 ← b.read (pos - 1)
    pure (isSep c1)
  else pure false

/-- drop the last segment: `ret[pos-1]` must be a separator, `pos -= 2`, scan back -/
def normPop (b : Buf) (pos : Nat) : Except Err (Option (Buf × Nat)) := do
  let c1 ← b.read (pos - 1)
  if !isSep c1 then return none
  if pos < 2 then return none          -- pos -= 2; if (pos < 0)
  let pos' ← scanBack b (pos - 1)      -- i = pos - 2
  return some (b, pos')

/-- the `..` case of the loop body; `e` is `*cursor` after `cursor += 2` (0 at the end of the
path). `none` = `return MUGGLE_ERR_INVALID_PARAM`. -/
def normDotDot (fx : Bool) (b : Buf) (pos : Nat) (e : Nat) : Except Err (Option (Buf × Nat)) := do
  if pos = 0 then normPush fx b pos e
  else
    let isDD ← endsDotDot b pos
    if isDD then normPush fx b pos e else normPop b pos

/-- the `while (*cursor != '\0')` loop; the argument is the string from `cursor` on -/
def normGo (fx : Bool) : CStr → Buf → Nat → Except Err (Option (Buf × Nat))
  | [], b, pos => .ok (some (b, pos))
  | c :: tl, b, pos =>
    match tl with
    | [] => do
      let b ← b.write pos c
      normGo fx [] b (pos + 1)
    | d :: tl2 =>
      if c = 46 ∧ d = 46 then
        match tl2 with
        | [] => normDotDot fx b pos 0                 -- `*cursor == 0`: no `++cursor`, loop ends
        | e :: tl3 =>
          if !isSep e then .ok none
          else do
            match ← normDotDot fx b pos e with
            | none => return none
            | some (b, pos) => normGo fx tl3 b pos
      else do
        let b ← b.write pos c
        normGo fx (d :: tl2) b (pos + 1)

/-- `muggle_path_normpath` -/
def pathNormpath (fx : Bool) (p : CStr) (b : Buf) : Except Err (Bool × Buf) := do
  let size := b.size
  if p.length ≥ size then return (false, b)
  let start :=
    if !isAbs p then
      (if startswith p [46, 47] || startswith p [46, 92] then p.drop 2 else p)
    else p
  match ← normGo fx start b 0 with
  | none => return (false, b)
  | some (b, pos) =>
    if pos = 0 then
      if size ≤ 2 then return (false, b)
      let b ← b.write 0 46
      let b ← b.write 1 47
      let b ← b.write 2 0
      return (true, b)
    else
      let b ← b.write pos 0
      return (true, b)

/-! ## abspath -/

def MAX_PATH : Nat := 1024

/-- `muggle_path_abspath`; `cwd` is what `muggle_os_curdir` stores (`none` = it failed) -/
def pathAbspath (fx : Bool) (cwd : Option CStr) (p : CStr) (b : Buf) : Except Err (Bool × Buf) := do
  let size := b.size
  if size ≤ 1 then return (false, b)
  if isAbs p then
    if p.length > size - 1 then return (false, b)
    let b ← strncpy b 0 p (size - 1)
    let b ← if fx then b.write (size - 1) 0 else pure b
    return (true, b)
  else
    match cwd with
    | none => return (false, b)
    | some cwd =>
      let (ok, full) ← pathJoin fx cwd p (Buf.fresh MAX_PATH)
      if !ok then return (false, b)
      match full.cstr with
      | none => throw Err.uninit
      | some fullStr => pathNormpath fx fullStr b

/-! ## Reference path algebra (on strings, no buffers) -/

def endsWithSep (p : CStr) : Bool :=
  match p.getLast? with
  | some c => isSep c
  | none => false

/-- `p1` + exactly one separator + `p2` without one leading `/`; undefined for empty
operands and for `p2 = "/"` -/
def refJoin (p1 p2 : CStr) : Option CStr :=
  if p1 = [] ∨ p2 = [] then none
  else if p2 = [47] then none
  else some (p1 ++ (if endsWithSep p1 then [] else [47]) ++ (if p2.head? = some 47 then p2.tail else p2))

/-- everything after the last separator; undefined when that is empty -/
def refBasename (p : CStr) : Option CStr :=
  let r := (p.reverse.takeWhile (fun c => !isSep c)).reverse
  if r = [] then none else some r

/-- everything before the last separator, keeping the separator of a root (`/`, `c:/`);
undefined without a separator -/
def refDirname (p : CStr) : Option CStr :=
  let tailLen := (p.reverse.takeWhile (fun c => !isSep c)).length
  if tailLen = p.length then none
  else
    let i := p.length - 1 - tailLen          -- index of the last separator
    if i = 0 then some (p.take 1)
    else if i ≥ 2 ∧ p[i - 1]? = some 58 then some (p.take (i + 1))
    else some (p.take i)

/-- a path as segments `(name, separator that follows it)`; the last one may lack a separator -/
def segsAux : CStr → CStr → List (CStr × Option Nat)
  | [], acc => if acc = [] then [] else [(acc.reverse, none)]
  | c :: tl, acc => if isSep c then (acc.reverse, some c) :: segsAux tl [] else segsAux tl (c :: acc)

def segments (p : CStr) : List (CStr × Option Nat) := segsAux p []

/-- does the name contain `..` -/
def hasDotDot : CStr → Bool
  | 46 :: 46 :: _ => true
  | _ :: tl => hasDotDot tl
  | [] => false

/-- process segments with a stack (top first): `..` pops a normal segment, is kept when the
stack is empty or already ends in `..`, and is an error at a root; a longer name containing
`..` is an error -/
def normFold : List (CStr × Option Nat) → List (CStr × Option Nat) → Option (List (CStr × Option Nat))
  | [], st => some st
  | (name, sep) :: rest, st =>
    if name = [46, 46] then
      match st with
      | [] => normFold rest [(name, sep)]
      | (n2, _) :: st' =>
        if n2 = [46, 46] then normFold rest ((name, sep) :: st)
        else if n2 = [] ∧ st' = [] then none
        else normFold rest st'
    else if hasDotDot name then none
    else normFold rest ((name, sep) :: st)

def flattenSegs : List (CStr × Option Nat) → CStr
  | [] => []
  | (name, sep) :: rest => name ++ sep.toList ++ flattenSegs rest

/-- reference normalisation: drop one leading `./`, resolve `..` segment-wise, `./` when
nothing is left -/
def refNormpath (p : CStr) : Option CStr :=
  let start :=
    if !isAbs p && (([46, 47] : CStr).isPrefixOf p || ([46, 92] : CStr).isPrefixOf p) then p.drop 2 else p
  match normFold (segments start) [] with
  | none => none
  | some st =>
    let r := flattenSegs st.reverse
    some (if r = [] then [46, 47] else r)

def refAbspath (cwd : Option CStr) (p : CStr) : Option CStr :=
  if isAbs p then some p
  else match cwd with
    | none => none
    | some cwd =>
      match refJoin cwd p with
      | none => none
      | some full => if full.length ≥ MAX_PATH then none else refNormpath full

/-- a reference result is reported iff it (and for normpath also its argument) fits the buffer
together with the terminator -/
def fits (size : Nat) (r : Option CStr) : Option CStr :=
  match r with
  | some r => if r.length < size then some r else none
  | none => none

def specJoin (p1 p2 : CStr) (size : Nat) := fits size (refJoin p1 p2)
def specBasename (p : CStr) (size : Nat) := fits size (refBasename p)
def specDirname (p : CStr) (size : Nat) := fits size (refDirname p)
def specNormpath (p : CStr) (size : Nat) := if p.length < size then fits size (refNormpath p) else none
def specAbspath (cwd : Option CStr) (p : CStr) (size : Nat) :=
  if isAbs p then fits size (some p)
  else match cwd with
    | none => none
    | some cwd =>
      match refJoin cwd p with
      | none => none
      | some full => if full.length ≥ MAX_PATH then none else specNormpath full size

end MgModel.C20
