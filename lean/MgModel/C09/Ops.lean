import MgModel.C09.Avl
import MgModel.C09.HashTable
import MgModel.C09.Trie
/-!
# C09 — API histories: one step of the model and one step of the reference map

The driver executes exactly these step functions; the theorems in
`MgProof/C09/Props.lean` are about their iteration over arbitrary operation lists.
-/
namespace MgModel.C09

/-- what one API call lets the caller observe -/
inductive Out where
  | flag (b : Bool)          -- insert/put: a node was returned; remove: the key was present
  | val (o : Option Nat)     -- find: the stored value, `none` = nothing
  | done                     -- trie remove (its return value is not part of the map semantics)
  deriving Repr, DecidableEq

/-- insert/put, find, remove on key type `κ` -/
inductive Op (κ : Type) where
  | ins (k : κ) (v : Nat)
  | find (k : κ)
  | rm (k : κ)
  deriving Repr

/-- reference map with rejecting insert (AVL tree, hash table) -/
def specStepReject {κ : Type} [DecidableEq κ] (m : Map κ) : Op κ → Map κ × Out
  | .ins k v => let r := m.putNew k v; (r.1, .flag r.2)
  | .find k => (m, .val (m.get k))
  | .rm k => let r := m.erase k; (r.1, .flag r.2)

/-- reference map with overwriting insert (trie) -/
def specStepOverwrite {κ : Type} [DecidableEq κ] (m : Map κ) : Op κ → Map κ × Out
  | .ins k v => (m.set k v, .flag true)
  | .find k => (m, .val (m.get k))
  | .rm k => ((m.erase k).1, .done)

def specRun {κ σ : Type} (step : σ → Op κ → σ × Out) (s : σ) : List (Op κ) → σ × List Out
  | [] => (s, [])
  | op :: ops =>
    let r := step s op
    let r' := specRun step r.1 ops
    (r'.1, r.2 :: r'.2)

/-- AVL tree state: the tree and the number of nodes allocated so far (= the identity the
next allocated node gets) -/
abbrev AvlSt := T × Nat

/-- AVL tree: `muggle_avl_tree_insert`, `_find`, `_find` + `_remove` -/
def avlStep (s : AvlSt) : Op Int → Except Err (AvlSt × Out)
  | .ins k v => match s.1.insert k v s.2 with
    | .ok (t', b) => .ok ((t', if b then s.2 + 1 else s.2), .flag b)
    | .error e => .error e
  | .find k => .ok (s, .val (s.1.find k))
  | .rm k => match s.1.remove k with
    | .ok (t', b) => .ok ((t', s.2), .flag b)
    | .error e => .error e

/-- hash table: `muggle_hash_table_put`, `_find`, `_find` + `_remove` -/
def hashStep {κ : Type} [DecidableEq κ] (h : κ → Nat) (t : HT κ) : Op κ → Except HErr (HT κ × Out)
  | .ins k v => match t.put h k v with
    | .ok none => .ok (t, .flag false)
    | .ok (some t') => .ok (t', .flag true)
    | .error e => .error e
  | .find k => match t.find h k with
    | .ok r => .ok (t, .val r)
    | .error e => .error e
  | .rm k => match t.remove h k with
    | .ok (t', b) => .ok (t', .flag b)
    | .error e => .error e

/-- trie: `muggle_trie_insert` (non-NULL value), `_find` read as `node ? node->data : NULL`,
`_remove` -/
def trieStep (root : TNode) : Op (List UInt8) → TNode × Out
  | .ins k v => (root.insert k (some v), .flag true)
  | .find k => (root, .val (root.lookup k))
  | .rm k => ((root.remove k).1, .done)

def runE {κ σ ε : Type} (step : σ → Op κ → Except ε (σ × Out)) (s : σ) :
    List (Op κ) → Except ε (σ × List Out)
  | [] => .ok (s, [])
  | op :: ops =>
    match step s op with
    | .error e => .error e
    | .ok (s1, o) =>
      match runE step s1 ops with
      | .error e => .error e
      | .ok (s2, os) => .ok (s2, o :: os)

end MgModel.C09
