import MgModel.C09.Avl
/-!
# C09 — trie (muggle/c/dsaa/trie.c), with fixes/C09-trie-unsigned-index.patch applied

`muggle_trie_node_t` is `children[256]` + `data`; the model's node has one child per
byte value (a total function `UInt8 → TNode`, `null` = NULL pointer) and
`data : Option Nat` (`none` = NULL). Keys are C strings: lists of non-NUL bytes; the
empty key lives under `root.children[0]`.

The pinned code indexes with `children[(int)(*p)]` where `*p` is a (signed) `char`:
for bytes ≥ 0x80 the index is negative (`cIndexSigned`), an out-of-bounds access.
The model is of the *fixed* code (`(unsigned char)` index, always inside 0..255 —
in the model: the child function is total over `UInt8`).
Allocation (malloc / node pool) is assumed to succeed.
-/
namespace MgModel.C09

inductive TNode where
  | null
  | node (data : Option Nat) (kids : UInt8 → TNode)

/-- index computed by the *unfixed* code: `(int)(char)b` -/
def cIndexSigned (b : UInt8) : Int := if b < 128 then b.toNat else (b.toNat : Int) - 256

namespace TNode

def emptyKids : UInt8 → TNode := fun _ => null

/-- `memset(node, 0, sizeof(*node))` -/
def fresh : TNode := node none emptyKids

def data? : TNode → Option Nat
  | null => none
  | node d _ => d

def isNull : TNode → Bool
  | null => true
  | node .. => false

def kid : TNode → UInt8 → TNode
  | null, _ => null
  | node _ ks, c => ks c

/-- the `while (*p)` loop of `muggle_trie_find`: NULL as soon as a child is missing -/
def walk : TNode → List UInt8 → TNode
  | n, [] => n
  | null, _ :: _ => null
  | node _ ks, c :: cs =>
    match ks c with
    | null => null
    | n => walk n cs

/-- `muggle_trie_find(root, key)`: the node reached (`null` = NULL) -/
def find (root : TNode) (key : List UInt8) : TNode :=
  match key with
  | [] => root.kid 0
  | _ => walk root key

/-- what a user reads from a `find`: `node ? node->data : NULL` -/
def lookup (root : TNode) (key : List UInt8) : Option Nat := (find root key).data?

def setData : TNode → Option Nat → TNode
  | null, _ => null
  | node _ ks, v => node v ks

def setKid : TNode → UInt8 → TNode → TNode
  | null, _, _ => null
  | node d ks, c, n => node d (fun i => if i = c then n else ks i)

/-- the `while (*p)` loop of `muggle_trie_insert` below `n` for a non-empty rest of
the key: create missing children, set `data` at the last one -/
def insWalk : TNode → List UInt8 → Option Nat → TNode
  | n, [], v => setData n v
  | null, _ :: _, _ => null                     -- unreachable: never entered with NULL
  | node d ks, c :: cs, v =>
    let child := match ks c with
      | null => fresh
      | m => m
    node d (fun i => if i = c then insWalk child cs v else ks i)

/-- `muggle_trie_insert(root, key, value)` (returns the new root node; the C function
returns the child, never NULL when allocation succeeds) -/
def insert (root : TNode) (key : List UInt8) (v : Option Nat) : TNode :=
  match key with
  | [] =>
    match root.kid 0 with
    | null => setKid root 0 (node v emptyKids)
    | child => setKid root 0 (setData child v)
  | _ => insWalk root key v

/-- set `data = NULL` at the node reached by the path (`node->data = NULL` through
the pointer returned by find) -/
def clearAt : TNode → List UInt8 → TNode
  | n, [] => setData n none
  | null, _ :: _ => null
  | node d ks, c :: cs => node d (fun i => if i = c then clearAt (ks c) cs else ks i)

/-- `muggle_trie_remove`: false when `find` returns NULL, else clears `data` -/
def remove (root : TNode) (key : List UInt8) : TNode × Bool :=
  if (find root key).isNull then (root, false)
  else
    match key with
    | [] => (setKid root 0 (setData (root.kid 0) none), true)
    | _ => (clearAt root key, true)

end TNode

/-- `muggle_trie_t`: the embedded root node (its own `data` is never used) -/
def Trie.empty : TNode := TNode.fresh

end MgModel.C09
