import MgModel.C09.Avl
/-!
# C09 — hash table (muggle/c/dsaa/hash_table.c)

Separate chaining; every bucket is a doubly linked list behind a sentinel head,
`put` inserts at the head of the chain after scanning it for the key, `remove(node)`
unlinks the node. The model keeps every chain as the list of its `(key, value)`
nodes in chain order; the hash function is a parameter (`h`), the table size is the
size of the array (`table_size < 8` is replaced by 10007 in `init`).
Allocation (malloc / node pool) is assumed to succeed.
-/
namespace MgModel.C09

inductive HErr where
  | oob            -- bucket index outside the table (cannot happen: `% table_size`)
  deriving Repr, DecidableEq

abbrev Chain (κ : Type) := List (κ × Nat)

structure HT (κ : Type) where
  buckets : Array (Chain κ)

namespace HT
variable {κ : Type} [DecidableEq κ]

/-- `muggle_hash_table_init`: `none` when `init` returns false. `cap` is the node-pool
capacity (0 = malloc). -/
def init (tableSize cap : Nat) : Option (HT κ) :=
  if cap ≥ 2 ^ 31 then none
  else
    let n := if tableSize < 8 then 10007 else tableSize
    some { buckets := Array.replicate n [] }

/-- `hash(key) % table_size` -/
def idx (h : κ → Nat) (t : HT κ) (k : κ) : Nat := h k % t.buckets.size

/-- the chain scan of `find`/`put`: first node with `cmp(node->key, key) == 0` -/
def scan (c : Chain κ) (k : κ) : Option Nat := List.lookup k c

/-- `muggle_hash_table_find`: value of the node found, `none` for NULL -/
def find (h : κ → Nat) (t : HT κ) (k : κ) : Except HErr (Option Nat) :=
  match t.buckets[idx h t k]? with
  | none => .error .oob
  | some c => .ok (scan c k)

/-- `muggle_hash_table_put`: `none` = key exists, NULL returned, table untouched -/
def put (h : κ → Nat) (t : HT κ) (k : κ) (v : Nat) : Except HErr (Option (HT κ)) :=
  match t.buckets[idx h t k]? with
  | none => .error .oob
  | some c =>
    match scan c k with
    | some _ => .ok none
    | none => .ok (some { buckets := t.buckets.set! (idx h t k) ((k, v) :: c) })

/-- unlink the first node of the chain whose key is `k` (the node `find` returns) -/
def unlink (c : Chain κ) (k : κ) : Chain κ := c.eraseP (fun p => p.1 = k)

/-- the API sequence `n = find(k); if (n) remove(n)`: new table and "was present" -/
def remove (h : κ → Nat) (t : HT κ) (k : κ) : Except HErr (HT κ × Bool) :=
  match t.buckets[idx h t k]? with
  | none => .error .oob
  | some c =>
    match scan c k with
    | none => .ok (t, false)
    | some _ => .ok ({ buckets := t.buckets.set! (idx h t k) (unlink c k) }, true)

/-- all associations, bucket by bucket, in chain order -/
def toList (t : HT κ) : List (κ × Nat) := t.buckets.toList.flatten

end HT

/-! ### the hash functions the harness can select -/

/-- `s_muggle_default_str_hash_func`: `hash = (hash << 5) + *p` in `uint64_t`, with
`*p` a (signed) `char` converted to `uint64_t` (sign extension, wrap-around). -/
def defaultStrHash (s : List UInt8) : UInt64 :=
  s.foldl (fun hv c =>
    (hv <<< 5) + (if c < 128 then c.toUInt64 else c.toUInt64 - 256)) 0

/-- hash kinds of the harness: 0 = library default (NULL), 1 = constant,
2 = length, 3 = first byte, 4 = sum of bytes -/
def hashKind (kind : Nat) (s : List UInt8) : Nat :=
  match kind with
  | 0 => (defaultStrHash s).toNat
  | 1 => 7
  | 2 => s.length
  | 3 => match s with | [] => 0 | c :: _ => c.toNat
  | _ => (s.map UInt8.toNat).foldl (· + ·) 0

end MgModel.C09
