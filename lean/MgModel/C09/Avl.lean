/-!
# C09 — AVL tree (muggle/c/dsaa/avl_tree.c)

Executable model. The C code works on nodes with `left/right/parent` pointers and
retraces *iteratively* from the touched leaf towards the root, stopping at the first
node whose subtree height did not change. The model is the same computation written
recursively: every recursive call returns the new subtree together with the flag
"the height of this subtree changed" (`grew` after insert, `shrank` after remove);
an ancestor whose child reports `false` is returned untouched — that is the C loop's
`break`.

* keys: `Int` with the usual order (the C comparator is a user-supplied total order;
  the harness uses integer keys), values: `Nat` (the `void*` value, never inspected);
* `bal` is the stored `int8_t balance` field — it is *stored*, not recomputed, so the
  model can be wrong about it in exactly the way the C code could be;
* every node carries its identity `id` (its address: the n-th node ever allocated for
  this tree has id n) and the stored `parent` pointer `par` (the id of the node it
  points to, `none` = NULL). The model performs exactly the parent assignments of the
  C code (`z->parent = parent; x->parent = z; if (z->left) z->left->parent = x; …`), so
  a forgotten or wrong assignment in the C code shows up as a difference in the dump;
  removal swaps key/value between nodes and leaves `id`/`par` in place, as the C code;
* NULL dereferences of the C code (`node->left->balance` of a missing child in
  `rebalance`, `z->left` of a missing grandchild in the double rotations) are explicit
  errors (`Err.null`), not defaults. The theorems show they are unreachable.
* node allocation (malloc or the node pool) is assumed to succeed with a fresh block.
-/
namespace MgModel.C09

inductive Err where
  | null           -- the C code would dereference a NULL child / grandchild
  deriving Repr, DecidableEq

/-- `muggle_avl_tree_node_t`: children, key, value, balance, own identity, parent pointer. -/
inductive T where
  | nil
  | node (l : T) (k : Int) (v : Nat) (bal : Int) (r : T) (id : Nat) (par : Option Nat)
  deriving Repr, DecidableEq

namespace T

/-- `if (t) t->parent = p;` -/
def setPar : T → Option Nat → T
  | nil, _ => nil
  | node l k v b r i _, p => node l k v b r i p

/-! ## rotations: `muggle_avl_tree_rotate_left/right/right_left/left_right` -/

/-- `rotate_left(x)`: `z = x->right` comes up. Returns the new subtree and
"depth decreased" (the C return value). -/
def rotateLeft : T → Except Err (T × Bool)
  | node t1 xk xv _ (node t23 zk zv zb t4 zi _) xi xp =>
    if zb = 0 then
      .ok (node (node t1 xk xv 1 (setPar t23 (some xi)) xi (some zi)) zk zv (-1) t4 zi xp, false)
    else
      .ok (node (node t1 xk xv 0 (setPar t23 (some xi)) xi (some zi)) zk zv 0 t4 zi xp, true)
  | _ => .error .null

/-- `rotate_right(x)`: `z = x->left` comes up. -/
def rotateRight : T → Except Err (T × Bool)
  | node (node t4 zk zv zb t23 zi _) xk xv _ t1 xi xp =>
    if zb = 0 then
      .ok (node t4 zk zv 1 (node (setPar t23 (some xi)) xk xv (-1) t1 xi (some zi)) zi xp, false)
    else
      .ok (node t4 zk zv 0 (node (setPar t23 (some xi)) xk xv 0 t1 xi (some zi)) zi xp, true)
  | _ => .error .null

/-- `rotate_right_left(x)`: `z = x->right`, `y = z->left` comes up. -/
def rotateRightLeft : T → Except Err T
  | node t1 xk xv _ (node (node t2 yk yv yb t3 yi _) zk zv _ t4 zi _) xi xp =>
    let xb : Int := if yb > 0 then -1 else 0
    let zb : Int := if yb > 0 then 0 else if yb = 0 then 0 else 1
    .ok (node (node t1 xk xv xb (setPar t2 (some xi)) xi (some yi)) yk yv 0
          (node (setPar t3 (some zi)) zk zv zb t4 zi (some yi)) yi xp)
  | _ => .error .null

/-- `rotate_left_right(x)`: `z = x->left`, `y = z->right` comes up. -/
def rotateLeftRight : T → Except Err T
  | node (node t4 zk zv _ (node t3 yk yv yb t2 yi _) zi _) xk xv _ t1 xi xp =>
    let xb : Int := if yb > 0 then 0 else if yb = 0 then 0 else 1
    let zb : Int := if yb > 0 then -1 else 0
    .ok (node (node t4 zk zv zb (setPar t3 (some zi)) zi (some yi)) yk yv 0
          (node (setPar t2 (some xi)) xk xv xb t1 xi (some yi)) yi xp)
  | _ => .error .null

/-- the stored balance of the root (`child->balance`); `none` for a NULL child -/
def rootBal : T → Option Int
  | nil => none
  | node _ _ _ b _ _ _ => some b

/-- `muggle_avl_tree_rebalance(node)`: returns the new subtree and "depth decreased". -/
def rebalance : T → Except Err (T × Bool)
  | nil => .error .null
  | node l k v b r i p =>
    if b < -1 then
      match rootBal l with
      | none => .error .null
      | some cb =>
        if cb ≤ 0 then rotateRight (node l k v b r i p)
        else match rotateLeftRight (node l k v b r i p) with
          | .ok t => .ok (t, true)
          | .error e => .error e
    else if b > 1 then
      match rootBal r with
      | none => .error .null
      | some cb =>
        if cb ≥ 0 then rotateLeft (node l k v b r i p)
        else match rotateRightLeft (node l k v b r i p) with
          | .ok t => .ok (t, true)
          | .error e => .error e
    else .ok (node l k v b r i p, false)

/-! ## find -/

/-- `muggle_avl_tree_find`: the value of the node found, `none` for NULL. -/
def find : T → Int → Option Nat
  | nil, _ => none
  | node l k v _ r _ _, x =>
    if x = k then some v else if x < k then find l x else find r x

/-! ## insert -/

/-- one step of the insert retracing loop at a node whose child on side `left`
(`insert_side`) has just been replaced by `c` and reported `grew`. Returns the
new subtree and whether retracing continues above it. -/
def insRetrace (left : Bool) (l : T) (k : Int) (v : Nat) (b : Int) (r : T) (i : Nat)
    (p : Option Nat) (grew : Bool) : Except Err (T × Bool) :=
  if !grew then .ok (node l k v b r i p, false)
  else
    let b' := if left then b - 1 else b + 1
    if b' = 0 then .ok (node l k v b' r i p, false)
    else if b' = 1 ∨ b' = -1 then .ok (node l k v b' r i p, true)
    else match rebalance (node l k v b' r i p) with
      | .ok (t, _) => .ok (t, false)       -- the C code ignores the return value and breaks
      | .error e => .error e

/-- `muggle_avl_tree_insert`. `fresh` is the identity of the node that gets allocated,
`par` the node the descent came from (`new_node->parent = node`). `none` = the key exists
(C returns NULL, tree untouched); `some (t, grew)` = new tree and whether its height grew. -/
def ins (x : Int) (xv : Nat) (fresh : Nat) : Option Nat → T → Except Err (Option (T × Bool))
  | par, nil => .ok (some (node nil x xv 0 nil fresh par, true))
  | _, node l k v b r i p =>
    if x = k then .ok none
    else if x < k then
      match ins x xv fresh (some i) l with
      | .error e => .error e
      | .ok none => .ok none
      | .ok (some (l', g)) =>
        match insRetrace true l' k v b r i p g with
        | .ok q => .ok (some q)
        | .error e => .error e
    else
      match ins x xv fresh (some i) r with
      | .error e => .error e
      | .ok none => .ok none
      | .ok (some (r', g)) =>
        match insRetrace false l k v b r' i p g with
        | .ok q => .ok (some q)
        | .error e => .error e

/-- the API call: new tree (unchanged when rejected) and "a node was returned" -/
def insert (t : T) (x : Int) (xv : Nat) (fresh : Nat) : Except Err (T × Bool) :=
  match ins x xv fresh none t with
  | .error e => .error e
  | .ok none => .ok (t, false)
  | .ok (some (t', _)) => .ok (t', true)

/-! ## remove -/

/-- one step of the remove retracing loop at a node whose child on side `left`
(`remove_side`) has just been replaced and reported `shrank`. -/
def delRetrace (left : Bool) (l : T) (k : Int) (v : Nat) (b : Int) (r : T) (i : Nat)
    (p : Option Nat) (shrank : Bool) : Except Err (T × Bool) :=
  if !shrank then .ok (node l k v b r i p, false)
  else
    let b' := if left then b + 1 else b - 1
    if b' = 1 ∨ b' = -1 then .ok (node l k v b' r i p, false)
    else if b' = 0 then .ok (node l k v b' r i p, true)
    else rebalance (node l k v b' r i p)     -- continue iff depth decreased

/-- The "move data into a leaf" loop started at the maximum node of a subtree
(`target = node->left; while (target->right) target = target->right`), fused with the
retracing on the way back: removes the maximum entry of a non-empty tree, but — as
in the C code — when the maximum node has a left child it is not unlinked: it takes
its predecessor's key/value and the loop goes on below it. Returns the new subtree,
the removed (key, value) and `shrank`. -/
def popMax : T → Except Err (T × Int × Nat × Bool)
  | nil => .error .null
  | node l k v b r i p =>
    match r with
    | nil =>
      match l with
      | nil => .ok (nil, k, v, true)
      | node .. =>
        match popMax l with
        | .error e => .error e
        | .ok (l', k2, v2, s) =>
          match delRetrace true l' k2 v2 b nil i p s with
          | .error e => .error e
          | .ok (t, s') => .ok (t, k, v, s')
    | node .. =>
      match popMax r with
      | .error e => .error e
      | .ok (r', km, vm, s) =>
        match delRetrace false l k v b r' i p s with
        | .error e => .error e
        | .ok (t, s') => .ok (t, km, vm, s')

/-- mirror image: used only when the node to empty has no left child
(`target = node->right; while (target->left) target = target->left`). -/
def popMin : T → Except Err (T × Int × Nat × Bool)
  | nil => .error .null
  | node l k v b r i p =>
    match l with
    | nil =>
      match r with
      | nil => .ok (nil, k, v, true)
      | node .. =>
        match popMin r with
        | .error e => .error e
        | .ok (r', k2, v2, s) =>
          match delRetrace false nil k2 v2 b r' i p s with
          | .error e => .error e
          | .ok (t, s') => .ok (t, k, v, s')
    | node .. =>
      match popMin l with
      | .error e => .error e
      | .ok (l', km, vm, s) =>
        match delRetrace true l' k v b r i p s with
        | .error e => .error e
        | .ok (t, s') => .ok (t, km, vm, s')

/-- `muggle_avl_tree_remove(node)` seen from `node`: swap the entry down to a leaf
(predecessor if a left child exists, else successor), unlink the leaf, retrace up to
`node`. Returns the new subtree and `shrank`. -/
def delRoot : T → Except Err (T × Bool)
  | nil => .error .null
  | node l _ _ b r i p =>
    match l, r with
    | nil, nil => .ok (nil, true)
    | node .., _ =>
      match popMax l with
      | .error e => .error e
      | .ok (l', km, vm, s) => delRetrace true l' km vm b r i p s
    | nil, node .. =>
      match popMin r with
      | .error e => .error e
      | .ok (r', km, vm, s) => delRetrace false nil km vm b r' i p s

/-- find the node with key `x` (as `muggle_avl_tree_find` does), remove it, retrace.
`none` = no such key. -/
def del (x : Int) : T → Except Err (Option (T × Bool))
  | nil => .ok none
  | node l k v b r i p =>
    if x = k then
      match delRoot (node l k v b r i p) with
      | .ok q => .ok (some q)
      | .error e => .error e
    else if x < k then
      match del x l with
      | .error e => .error e
      | .ok none => .ok none
      | .ok (some (l', s)) =>
        match delRetrace true l' k v b r i p s with
        | .ok q => .ok (some q)
        | .error e => .error e
    else
      match del x r with
      | .error e => .error e
      | .ok none => .ok none
      | .ok (some (r', s)) =>
        match delRetrace false l k v b r' i p s with
        | .ok q => .ok (some q)
        | .error e => .error e

/-- the API sequence `n = find(x); if (n) remove(n)`: new tree and "was present" -/
def remove (t : T) (x : Int) : Except Err (T × Bool) :=
  match del x t with
  | .error e => .error e
  | .ok none => .ok (t, false)
  | .ok (some (t', _)) => .ok (t', true)

/-! ## observations -/

def height : T → Nat
  | nil => 0
  | node l _ _ _ r _ _ => max (height l) (height r) + 1

def size : T → Nat
  | nil => 0
  | node l _ _ _ r _ _ => size l + size r + 1

/-- in-order list of the associations -/
def toList : T → List (Int × Nat)
  | nil => []
  | node l k v _ r _ _ => toList l ++ (k, v) :: toList r

/-- in-order list of the node identities -/
def ids : T → List Nat
  | nil => []
  | node l _ _ _ r i _ => ids l ++ i :: ids r

/-- `lo < k`, no bound when `lo` is `none` -/
def gtLo (lo : Option Int) (k : Int) : Bool :=
  match lo with
  | none => true
  | some x => decide (x < k)

/-- `k < hi`, no bound when `hi` is `none` -/
def ltHi (hi : Option Int) (k : Int) : Bool :=
  match hi with
  | none => true
  | some x => decide (k < x)

/-- executable check of the structural part of the property (what the harness
recomputes from the real pointers): strict search order within the open interval
`(lo, hi)`, stored balance = height(right) − height(left), |balance| ≤ 1 -/
def wellFormed : Option Int → Option Int → T → Bool
  | _, _, nil => true
  | lo, hi, node l k _ b r _ _ =>
    gtLo lo k && ltHi hi k &&
    decide (b = (height r : Int) - (height l : Int)) &&
    decide (-1 ≤ b ∧ b ≤ 1) &&
    wellFormed lo (some k) l && wellFormed (some k) hi r

/-- executable check of the parent links: every node's stored parent pointer is the
identity of the node it hangs under (`p` for the root of this subtree) -/
def parentsOk : Option Nat → T → Bool
  | _, nil => true
  | p, node l _ _ _ r i q => decide (q = p) && parentsOk (some i) l && parentsOk (some i) r

def showPar : Option Nat → String
  | none => "-"
  | some i => toString i

/-- pre-order dump with shape: `(k v b id parent L R)`, `-` for NULL -/
def dump : T → String
  | nil => "-"
  | node l k v b r i p => s!"({k} {v} {b} #{i} ^{showPar p} {dump l} {dump r})"

end T

/-! ## specification: a reference map as an association list (first match wins) -/

abbrev Map (κ : Type) := List (κ × Nat)

namespace Map
variable {κ : Type} [DecidableEq κ]

def get (m : Map κ) (k : κ) : Option Nat := List.lookup k m
/-- insert that rejects an existing key (AVL tree, hash table) -/
def putNew (m : Map κ) (k : κ) (v : Nat) : Map κ × Bool :=
  match m.get k with
  | some _ => (m, false)
  | none => ((k, v) :: m, true)
/-- insert that overwrites (trie) -/
def set (m : Map κ) (k : κ) (v : Nat) : Map κ := (k, v) :: m
/-- remove exactly the association of `k` -/
def erase (m : Map κ) (k : κ) : Map κ × Bool :=
  (m.filter (fun p => p.1 ≠ k), (m.get k).isSome)
def size (m : Map κ) : Nat := (m.map Prod.fst).eraseDups.length
end Map

end MgModel.C09
