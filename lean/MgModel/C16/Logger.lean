import MgModel.C16.Fmt
/-!
# C16 — handlers, logger dispatch and the synchronous logger

Mirrors, decision by decision,
* `muggle_log_{file,file_rotate,file_time_rot,console}_handler_write`
  (format into `char buf[4096]`, then `fwrite(buf, 1, ret, fp)`),
* `muggle_log_handler_should_write`, `muggle_logger_write` (log_logger.c),
* `muggle_sync_logger_add_handler`, `muggle_sync_logger_log` (log_sync_logger.c).

The line buffer is modelled cell by cell (`none` = never written).  `fwrite` reads
`buf[0 .. n)`: an index `≥ 4096` is `Err.oob`, a never-written cell is `Err.uninit`.
`Variant.orig` is the code of the pinned tree (`n` = what the formatter *wanted*),
`Variant.fixed` the code after `fixes/C16-handler-write-overread.patch` (clamp to the
buffer, keep the newline).  Rotation (offsets, file names) is C17's model, here every
file-like handler is an append-only sequence of `fwrite` chunks.
-/
namespace MgModel.C16

inductive Err where
  | oob      -- index outside the 4096-byte buffer
  | uninit   -- read of a buffer cell that was never written
  deriving Repr, DecidableEq

inductive Variant where
  | orig | fixed
  deriving Repr, DecidableEq

abbrev Buf := List (Option UInt8)

/-- `snprintf(buf, cap, "...%s\n", ...)` whose full expansion is `line`: writes
`min |line| (cap-1)` bytes and a NUL, leaves the rest untouched, returns `|line|`. -/
def snprintfBuf (cap : Nat) (line : Bytes) : Buf × Nat :=
  if cap = 0 then ([], line.length)
  else
    let body := line.take (cap - 1)
    (body.map some ++ [some 0] ++ List.replicate (cap - 1 - body.length) none, line.length)

/-- what `fwrite(buf, 1, n, fp)` reads: `buf[0 .. n)` -/
def readRange : Buf → Nat → Except Err Bytes
  | _, 0 => .ok []
  | [], _ + 1 => .error .oob
  | none :: _, _ + 1 => .error .uninit
  | some b :: bs, n + 1 => do
    let r ← readRange bs n
    .ok (b :: r)

/-- `buf[i] = b` -/
def bufSet (buf : Buf) (i : Nat) (b : UInt8) : Except Err Buf :=
  if i < buf.length then .ok (buf.set i (some b)) else .error .oob

/-- between the formatter and `fwrite`.
orig: nothing (`ret` is used as it is).
fixed: `if (ret >= (int)sizeof(buf)) { ret = sizeof(buf) - 1; buf[ret - 1] = '\n'; }` -/
def clamp : Variant → Buf → Nat → Except Err (Buf × Nat)
  | .orig, buf, ret => .ok (buf, ret)
  | .fixed, buf, ret =>
    if ret ≥ maxLen then do
      let buf' ← bufSet buf (maxLen - 2) 10
      .ok (buf', maxLen - 1)
    else .ok (buf, ret)

/-- the common part of every built-in handler's `write`: format into `char buf[4096]`
(`line` = what the formatter's `snprintf` was asked to print), fixed: clamp, then
`fwrite(buf, 1, n, fp)`; returns the bytes `fwrite` reads and `n` -/
def emit (v : Variant) (line : Bytes) : Except Err (Bytes × Nat) := do
  let (buf, ret) := snprintfBuf maxLen line
  let (buf, n) ← clamp v buf ret
  let bytes ← readRange buf n
  .ok (bytes, n)

/-- `muggle_log_msg_t` -/
structure Msg where
  hd      : Meta
  payload : Bytes
  deriving Repr, DecidableEq

def Msg.level (m : Msg) : Int := m.hd.level

inductive HKind where
  | file | rot | trot          -- log_file_handler.c, log_file_rotate_handler.c, log_file_time_rot_handler.c
  | console (color : Bool)     -- log_console_handler.c
  | cap                        -- a user handler (the harness's capturing one)
  deriving Repr, DecidableEq

/-- one observable action of a handler -/
inductive Rec where
  /-- `fwrite(bytes)` to stream 0 = the handler's file, 1 = stdout, 2 = stderr -/
  | fw (stream : Nat) (bytes : Bytes)
  /-- the capturing handler saw this message; `wanted` = return value of the formatter
  (`-1` = no formatter) -/
  | cap (hd : Meta) (payload : Bytes) (wanted : Int)
  deriving Repr, DecidableEq

structure Handler where
  kind  : HKind
  level : Int
  fmt   : Option FmtKind
  out   : List Rec := []       -- everything this handler did so far, in order
  deriving Repr, DecidableEq

def colRed : Bytes := [27, 91, 51, 49, 109]   -- "\x1B[31m"
def colYel : Bytes := [27, 91, 51, 51, 109]   -- "\x1B[33m"
def colRst : Bytes := [27, 91, 48, 109]       -- "\x1B[0m"

def lvlWarning : Int := 768
def lvlError : Int := 1024
def lvlFatal : Int := 1280

/-- the `fwrite` calls of one handler for one line (`bytes` = `buf[0..n)`) -/
def chunksOf (kind : HKind) (level : Int) (bytes : Bytes) : List Rec :=
  match kind with
  | .console color =>
    let s := if level ≥ lvlWarning then 2 else 1
    if color && decide (level ≥ lvlWarning) then
      [.fw s (if level ≥ lvlError then colRed else colYel), .fw s bytes, .fw s colRst]
    else [.fw s bytes]
  | _ => [.fw 0 bytes]

/-- `handler->write(handler, msg)`; returns the new handler state and the return value -/
def handlerWrite (v : Variant) (h : Handler) (m : Msg) : Except Err (Handler × Int) :=
  match h.kind with
  | .cap =>
    -- user handler: looks at the message, asks the formatter for the length only
    let wanted : Int := match h.fmt with
      | none => -1
      | some k => ((formatted k m.hd m.payload).length : Nat)
    .ok ({ h with out := h.out ++ [.cap m.hd m.payload wanted] }, 0)
  | kind =>
    match h.fmt with
    | none => .ok (h, -1)
    | some k => do
      let (bytes, n) ← emit v (formatted k m.hd m.payload)
      .ok ({ h with out := h.out ++ chunksOf kind m.level bytes }, (n : Nat))

/-- `muggle_log_handler_should_write` -/
def shouldWrite (h : Handler) (level : Int) : Bool := !decide (level < h.level)

/-- `muggle_logger_write`: every handler in order; also returns the handlers' return values -/
def writeAll (v : Variant) (m : Msg) : List Handler → Except Err (List Handler × List (Option Int))
  | [] => .ok ([], [])
  | h :: hs => do
    let (h', r) ← if shouldWrite h m.level then (fun p => (p.1, some p.2)) <$> handlerWrite v h m
                  else pure (h, none)
    let (hs', rs) ← writeAll v m hs
    .ok (h' :: hs', r :: rs)

structure Logger where
  handlers : List Handler := []
  wantTs   : Bool := false     -- fmt_hint & MUGGLE_LOG_FMT_TIME
  wantTid  : Bool := false     -- fmt_hint & MUGGLE_LOG_FMT_THREAD
  lowest   : Int := lvlFatal   -- lowest_log_level
  deriving Repr, DecidableEq

def maxHandlers : Nat := 8

/-- `muggle_{sync,async}_logger_add_handler`; `none` = MUGGLE_ERR_BEYOND_RANGE -/
def addHandler (lg : Logger) (h : Handler) : Option Logger :=
  if lg.handlers.length ≥ maxHandlers then none
  else
    let all := h.fmt = some .complicated
    some { handlers := lg.handlers ++ [h],
           wantTs := lg.wantTs || all, wantTid := lg.wantTid || all,
           lowest := if h.level < lg.lowest then h.level else lg.lowest }

/-- one call of `logger->log(logger, level, &src_loc, format, ...)`; `expansion` is what
libc makes of `format` and the arguments -/
structure Call where
  level : Int
  file  : String
  line  : Nat
  func  : String
  expansion : Bytes
  deriving Repr, DecidableEq

/-- what the clock and the thread id are when the call is made -/
structure Env where
  sec  : Int := 0
  nsec : Nat := 0
  tid  : Nat := 0
  deriving Repr, DecidableEq

/-- the message both loggers build (`memset` to zero, then the hinted fields) -/
def mkMsg (lg : Logger) (e : Env) (c : Call) : Msg :=
  { hd := { level := c.level,
              sec := if lg.wantTs then e.sec else 0, nsec := if lg.wantTs then e.nsec else 0,
              tid := if lg.wantTid then e.tid else 0,
              file := c.file, line := c.line, func := c.func },
    payload := payloadOf c.expansion }

/-- `muggle_sync_logger_log` -/
def syncLog (v : Variant) (lg : Logger) (e : Env) (c : Call) :
    Except Err (Logger × List (Option Int)) :=
  if lg.lowest > c.level then .ok (lg, [])
  else do
    let (hs, rs) ← writeAll v (mkMsg lg e c) lg.handlers
    .ok ({ lg with handlers := hs }, rs)

/-! ## Specification -/

/-- what handler `h` has to do for message `m` when `m.level ≥ h.level`: exactly one line,
the formatted line cut at the maximum -/
def specRecs (h : Handler) (m : Msg) : List Rec :=
  match h.kind with
  | .cap =>
    [.cap m.hd m.payload (match h.fmt with
      | none => -1 | some k => ((formatted k m.hd m.payload).length : Nat))]
  | kind =>
    match h.fmt with
    | none => []
    | some k => chunksOf kind m.level (cut (formatted k m.hd m.payload))

/-- specified return value of `handler->write`: the number of bytes written -/
def specRet (h : Handler) (m : Msg) : Int :=
  match h.kind with
  | .cap => 0
  | _ =>
    match h.fmt with
    | none => -1
    | some k => ((cut (formatted k m.hd m.payload)).length : Nat)

/-- the specified new output of every handler for one call -/
def specLog (lg : Logger) (e : Env) (c : Call) : List (List Rec) :=
  lg.handlers.map fun h => if c.level ≥ h.level then specRecs h (mkMsg lg e c) else []

/-- the logger's threshold is not above any handler's (true as long as levels are set
before `add_handler`, which is how every caller in the repository does it) -/
def Logger.Wf (lg : Logger) : Prop := ∀ h ∈ lg.handlers, lg.lowest ≤ h.level

/-- a single thread making a sequence of calls through the synchronous logger -/
def runSync (v : Variant) : Logger → List (Env × Call) → Except Err Logger
  | lg, [] => .ok lg
  | lg, (e, c) :: cs => do
    let (lg', _) ← syncLog v lg e c
    runSync v lg' cs

end MgModel.C16
