import MgModel.Common.Conc
import MgModel.C16.Logger
/-!
# C16 — many threads logging through one synchronous logger, interleaving model

`n` threads (token `i` = thread `i`) call `muggle_sync_logger_log` on the same logger.
A call is thread-local (payload and line buffers live on the caller's stack) except for
the handlers: `muggle_logger_write` visits them in order and every built-in `write` does

    format into the local buffer;  muggle_mutex_lock(&handler->mtx);
    fwrite ... (one or three calls);  muggle_mutex_unlock(&handler->mtx);

One step = one of: start the next call (filter on `lowest_log_level`), look at handler
`j` (`should_write`, format, **lock** — enabled only while the mutex is free), one
`fwrite` (one `Rec` appended to the handler's output), unlock.  A handler without
formatter returns before the lock.  The capturing user handler records under the same
mutex.  `hist j` is ghost state: who locked handler `j`, in lock order.
-/
namespace MgModel.C16
open MgModel.Conc

inductive SPc where
  | idle
  | disp (m : Msg) (j : Nat)                        -- `muggle_logger_write`, about to look at handler j
  | locked (m : Msg) (j : Nat) (todo : List Rec)    -- holds handler j's mutex, `todo` still to be written
  deriving Repr, DecidableEq

structure HEntry where
  tid : Nat
  seq : Nat          -- index of the call in the thread's call list
  msg : Msg
  deriving Repr, DecidableEq

structure SState where
  v     : Variant
  lg    : Logger                                  -- configuration: never changes during the run
  outs  : Nat → List Rec                          -- output of handler j so far
  n     : Nat
  prog  : Nat → List (Env × Call)
  cnt   : Nat → Nat := fun _ => 0
  pc    : Nat → SPc := fun _ => .idle
  mtx   : Nat → Option Nat := fun _ => none       -- owner of handler j's mutex
  fault : Option Err := none
  hist  : Nat → List HEntry := fun _ => []        -- ghost

/-- what one `handler->write` passes to `fwrite` (or records), computed on the caller's stack -/
def handlerRecs (v : Variant) (h : Handler) (m : Msg) : Except Err (List Rec) :=
  (fun p => p.1.out) <$> handlerWrite v { h with out := [] } m

def sstep (s : SState) (t : Tok) : Option (SState × List String) :=
  let i := t.tid
  if i ≥ s.n then none else
  match s.pc i with
  | .idle =>
    match s.prog i with
    | [] => none
    | (e, c) :: rest =>
      let s1 := { s with prog := upd s.prog i rest, cnt := upd s.cnt i (s.cnt i + 1) }
      if s.lg.lowest > c.level then some (s1, [])
      else some ({ s1 with pc := upd s.pc i (.disp (mkMsg s.lg e c) 0) }, [])
  | .disp m j =>
    match s.lg.handlers[j]? with
    | none => some ({ s with pc := upd s.pc i .idle }, [])
    | some h =>
      if !shouldWrite h m.level then some ({ s with pc := upd s.pc i (.disp m (j + 1)) }, [])
      else match handlerRecs s.v h m with
        | .error e => some ({ s with fault := some e, pc := upd s.pc i (.disp m (j + 1)) }, [])
        | .ok [] => some ({ s with pc := upd s.pc i (.disp m (j + 1)) }, [])
        | .ok (r :: rs) =>
          match s.mtx j with
          | some _ => none                                   -- muggle_mutex_lock blocks
          | none =>
            some ({ s with mtx := upd s.mtx j (some i), pc := upd s.pc i (.locked m j (r :: rs)),
                           hist := upd s.hist j (s.hist j ++ [{ tid := i, seq := s.cnt i - 1, msg := m }]) }, [])
  | .locked m j (r :: rs) =>
    some ({ s with outs := upd s.outs j (s.outs j ++ [r]), pc := upd s.pc i (.locked m j rs) }, [])
  | .locked m j [] =>
    some ({ s with mtx := upd s.mtx j none, pc := upd s.pc i (.disp m (j + 1)) }, [])

def sinit (v : Variant) (lg : Logger) (n : Nat) (prog : Nat → List (Env × Call)) : SState :=
  { v := v, lg := lg, outs := fun j => (lg.handlers[j]?.map (·.out)).getD [], n := n, prog := prog }

/-- what handler `j` has to write for message `m` (nothing when there is no such handler) -/
def recsAt (lg : Logger) (j : Nat) (m : Msg) : List Rec :=
  match lg.handlers[j]? with
  | some h => specRecs h m
  | none => []

/-- every thread has returned from its last call -/
def allDone (s : SState) : Prop := ∀ i < s.n, s.prog i = [] ∧ s.pc i = .idle

end MgModel.C16
