/-!
# C16 — log formatters (muggle/c/log/log_fmt.c, log_level.c) and the payload buffer

Byte-level model of what the two built-in formatters hand to `snprintf`.
libc's formatting itself is a parameter: a call carries the *expansion* of its
format string and arguments (what an unbounded `vsprintf` would produce); the model
decides what is kept of it (`vsnprintf` into the 4096-byte payload, `snprintf` into
the 4096-byte line buffer).  The prefix fields (level name, time stamp, file, line,
function, thread id) are computed here concretely so that the driver prints real
lines; every theorem treats the prefix as an arbitrary byte string.
-/
namespace MgModel.C16

abbrev Bytes := List UInt8

/-- `MUGGLE_LOG_MSG_MAX_LEN` -/
def maxLen : Nat := 4096

def strBytes (s : String) : Bytes := s.toUTF8.toList

/-- `muggle_log_level_to_str`: `level >> 8` indexes the table, everything else is UNKNOWN
(`>>` on a negative `int` is an arithmetic shift = floor division). -/
def levelStr (level : Int) : String :=
  let l := level / 256
  if l = 0 then "TRACE" else if l = 1 then "DEBUG" else if l = 2 then "INFO"
  else if l = 3 then "WARNING" else if l = 4 then "ERROR" else if l = 5 then "FATAL"
  else "UNKNOWN"

def padLeft (w : Nat) (s : String) : String :=
  String.ofList (List.replicate (w - s.length) '0') ++ s

/-- days since 1970-01-01 → (year, month 1..12, day 1..31); proleptic Gregorian
(Hinnant's algorithm, `/` is floor division for a positive divisor). Validated against
libc's `gmtime_r` by the correspondence check. -/
def civilFromDays (z0 : Int) : Int × Int × Int :=
  let z := z0 + 719468
  let era := z / 146097
  let doe := z - era * 146097
  let yoe := (doe - doe / 1460 + doe / 36524 - doe / 146096) / 365
  let y := yoe + era * 400
  let doy := doe - (365 * yoe + yoe / 4 - yoe / 100)
  let mp := (5 * doy + 2) / 153
  let d := doy - (153 * mp + 2) / 5 + 1
  let m := if mp < 10 then mp + 3 else mp - 9
  (if m ≤ 2 then y + 1 else y, m, d)

/-- the two built-in formatters -/
inductive FmtKind where
  | simple        -- muggle_log_fmt_get_simple
  | complicated   -- muggle_log_fmt_get_complicated
  deriving Repr, DecidableEq

/-- `muggle_log_msg_t` without the payload -/
structure Meta where
  level : Int
  sec   : Int := 0      -- ts.tv_sec
  nsec  : Nat := 0      -- ts.tv_nsec
  tid   : Nat := 0
  file  : String := "" -- basename of src_loc.file
  line  : Nat := 0
  func  : String := ""
  deriving Repr, DecidableEq

/-- everything the formatter prints before the payload -/
def linePrefix (k : FmtKind) (m : Meta) : Bytes :=
  match k with
  | .simple =>
    -- "%s|%s:%u - %s\n"
    strBytes (levelStr m.level ++ "|" ++ m.file ++ ":" ++ toString m.line ++ " - ")
  | .complicated =>
    -- "%s|%d-%02d-%02dT%02d:%02d:%02d.%03d|%s:%u|%s|%llu - %s\n"
    let days := m.sec / 86400
    let rem := m.sec % 86400
    let (y, mo, d) := civilFromDays days
    let p2 (x : Int) : String := padLeft 2 (toString x)
    strBytes (levelStr m.level ++ "|" ++ toString y ++ "-" ++ p2 mo ++ "-" ++ p2 d ++ "T"
      ++ p2 (rem / 3600) ++ ":" ++ p2 ((rem / 60) % 60) ++ ":" ++ p2 (rem % 60) ++ "."
      ++ padLeft 3 (toString (m.nsec / 1000000)) ++ "|" ++ m.file ++ ":" ++ toString m.line
      ++ "|" ++ m.func ++ "|" ++ toString m.tid ++ " - ")

/-- the line the formatter's `snprintf` is asked to produce: prefix, payload, newline -/
def formatted (k : FmtKind) (m : Meta) (payload : Bytes) : Bytes :=
  linePrefix k m ++ payload ++ [10]

/-- `vsnprintf(payload, MUGGLE_LOG_MSG_MAX_LEN, format, args)` read back as a C string:
the first 4095 bytes of the expansion (the expansion contains no NUL). -/
def payloadOf (expansion : Bytes) : Bytes := expansion.take (maxLen - 1)

/-! ## Specification: the formatted line cut at the maximum

A line that fits (`< 4096` bytes, so that the terminating NUL fits too) is emitted as it
is; a longer one is emitted as its first 4094 bytes followed by the newline, 4095 bytes in
total — still exactly one line. -/
def cut (line : Bytes) : Bytes :=
  if line.length < maxLen then line else line.take (maxLen - 2) ++ [10]

end MgModel.C16
