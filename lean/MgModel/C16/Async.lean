import MgModel.Common.Conc
import MgModel.C16.Logger
/-!
# C16 — the asynchronous logger (muggle/c/log/log_async_logger.c), interleaving model

Threads: the writer thread (`muggle_async_logger_run`, token `0`), the thread that calls
`muggle_async_logger_destroy` (token `1`) and `n` producers (`muggle_async_logger_log`,
tokens `2 + i`), each with its own list of calls.  One step = one visible action:

producer   `idle`    filter on `lowest_log_level`; `p_alloc(msg)`, `malloc(payload)`, fill in
           `built`   `muggle_channel_write(chan, msg)` — accepted, or `MUGGLE_ERR_FULL`
           `full`    (fixed only) `free(payload); p_free(msg)`
writer     `reading` `muggle_channel_read` — blocks while the queue is empty; `NULL` = exit
           `holding` `muggle_logger_write(logger, msg)` (the handlers are touched by this thread only)
           `wrote`   `free(payload); p_free(msg)`
destroy    `notCalled → sending` (all producers have returned), `sending`: `channel_write(NULL)`
           — fixed: repeated while the channel is full, orig: tried once —, `joining`:
           `muggle_thread_join` (enabled when the writer has exited), then `done`.

The channel is its specification: a bounded FIFO with atomic enqueue / dequeue holding
`capacity - 1` elements (capacity = requested capacity rounded up to a power of two).
That `muggle_channel_write/read` (mutex writer lock, futex reader) refine exactly this
object is property C01's theorem; C16 depends on it and does not re-prove it.

`Variant.orig` is the pinned tree (message leaked on `ERR_FULL`, sentinel written once),
`Variant.fixed` the tree after `fixes/C16-async-logger-full-queue.patch`.

Token `1~` is not part of the library: it toggles the harness's gate (while the gate is
closed the writer does not enter a handler), which is how the sequential harness makes
queue-full states reproducible.
-/
namespace MgModel.C16
open MgModel.Conc

/-- a message travelling through the channel, with its ghost origin -/
structure QMsg where
  msg : Msg
  src : Nat        -- producer index
  seq : Nat        -- position in the producer's call list
  deriving Repr, DecidableEq

inductive PPc where
  | idle
  | built (q : QMsg)
  | full (q : QMsg)
  deriving Repr, DecidableEq

inductive WPc where
  | reading
  | holding (q : QMsg)
  | wrote (q : QMsg)
  | exited
  deriving Repr, DecidableEq

inductive DPc where
  | notCalled | sending | joining | done
  deriving Repr, DecidableEq

structure AState where
  v      : Variant
  lg     : Logger
  slots  : Nat                          -- usable slots of the channel
  queue  : List (Option QMsg) := []     -- `none` = the NULL sentinel
  live   : Nat := 0                     -- live allocations of the logger (structs + payloads)
  fault  : Option Err := none           -- a handler went out of bounds
  dblFree : Bool := false               -- a free without a matching allocation
  n      : Nat                          -- number of producers
  prog   : Nat → List (Env × Call)      -- remaining calls
  cnt    : Nat → Nat := fun _ => 0      -- calls started so far
  ppc    : Nat → PPc := fun _ => .idle
  wpc    : WPc := .reading
  dpc    : DPc := .notCalled
  gate   : Bool := true                 -- harness gate, `true` = open
  -- ghost history
  accepted : List QMsg := []            -- in the order the channel accepted them
  dropped  : List QMsg := []            -- refused with ERR_FULL
  written  : List QMsg := []            -- in the order the writer handed them to the handlers

def isIdle : PPc → Bool
  | .idle => true
  | _ => false

/-- every producer has returned from its last call -/
def producersDone (s : AState) : Bool :=
  (List.range s.n).all fun i => (s.prog i).isEmpty && isIdle (s.ppc i)

def release (s : AState) : AState :=
  if s.live < 2 then { s with dblFree := true, live := 0 } else { s with live := s.live - 2 }

def producerStep (s : AState) (i : Nat) : Option AState :=
  match s.ppc i with
  | .idle =>
    match s.prog i with
    | [] => none
    | (e, c) :: rest =>
      let s1 := { s with prog := upd s.prog i rest, cnt := upd s.cnt i (s.cnt i + 1) }
      if s.lg.lowest > c.level then some s1
      else some { s1 with live := s.live + 2,
                          ppc := upd s.ppc i (.built { msg := mkMsg s.lg e c, src := i, seq := s.cnt i }) }
  | .built q =>
    if s.queue.length < s.slots then
      some { s with queue := s.queue ++ [some q], accepted := s.accepted ++ [q],
                    ppc := upd s.ppc i .idle }
    else match s.v with
      | .fixed => some { s with ppc := upd s.ppc i (.full q) }
      | .orig => some { s with dropped := s.dropped ++ [q], ppc := upd s.ppc i .idle }
  | .full q =>
    some { release s with dropped := s.dropped ++ [q], ppc := upd s.ppc i .idle }

def writerStep (s : AState) : Option AState :=
  match s.wpc with
  | .reading =>
    match s.queue with
    | [] => none
    | some q :: rest => some { s with queue := rest, wpc := .holding q }
    | none :: rest => some { s with queue := rest, wpc := .exited }
  | .holding q =>
    if !s.gate && s.lg.handlers.any (fun h => shouldWrite h q.msg.level) then none
    else match writeAll s.v q.msg s.lg.handlers with
      | .ok (hs, _) => some { s with lg := { s.lg with handlers := hs },
                                     written := s.written ++ [q], wpc := .wrote q }
      | .error e => some { s with fault := some e, written := s.written ++ [q], wpc := .wrote q }
  | .wrote _ => some { release s with wpc := .reading }
  | .exited => none

def destroyStep (s : AState) : Option AState :=
  match s.dpc with
  | .notCalled => if producersDone s then some { s with dpc := .sending } else none
  | .sending =>
    if s.queue.length < s.slots then some { s with queue := s.queue ++ [none], dpc := .joining }
    else match s.v with
      | .fixed => some s                          -- `muggle_thread_yield()` and try again
      | .orig => some { s with dpc := .joining }  -- the sentinel is lost
  | .joining =>
    match s.wpc with
    | .exited => some { s with dpc := .done }
    | _ => none
  | .done => none

def astep (s : AState) (t : Tok) : Option (AState × List String) :=
  if t.tid = 0 then (writerStep s).map (·, [])
  else if t.tid = 1 then
    match t.flag with
    | .wake => some ({ s with gate := !s.gate }, [])
    | _ => (destroyStep s).map (·, [])
  else if t.tid - 2 < s.n then (producerStep s (t.tid - 2)).map (·, [])
  else none

/-- `muggle_async_logger_init(logger, capacity)` + the handlers added before the first call.
`slots` = (capacity rounded up to a power of two) - 1. -/
def ainit (v : Variant) (lg : Logger) (slots n : Nat) (prog : Nat → List (Env × Call)) : AState :=
  { v := v, lg := lg, slots := slots, n := n, prog := prog }

/-- smallest power of two `≥ c` (for `c ≥ 1`), `muggle_next_pow_of_2` on the values used here -/
def nextPow2 (c : Nat) : Nat := Id.run do
  let mut p := 1
  for _ in [0:64] do
    if p < c then p := p * 2
  return p

/-! ## Specification: the synchronous logger on the same messages -/

/-- `muggle_logger_write` for a list of messages, one after the other -/
def replay (v : Variant) : List Handler → List Msg → Except Err (List Handler)
  | hs, [] => .ok hs
  | hs, m :: ms => do
    let (hs', _) ← writeAll v m hs
    replay v hs' ms

end MgModel.C16
