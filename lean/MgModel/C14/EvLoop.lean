import MgModel.Common.Conc
/-!
# C14 — cross-thread wake-up, hand-over and exit of the event loop

Executable model of

* `muggle/c/event/event_loop.c`        `muggle_evloop_run`, `muggle_evloop_exit`, `muggle_evloop_wakeup`,
                                        `muggle_evloop_add_ctx`
* `muggle/c/event/event_signal.c`      eventfd `wakeup` (write 1) / `clearup` (read, counter := 0)
* `muggle/c/event/internal/event_loop_{poll,epoll,select}.c`   the loop body and `handle_wakeup`
* `muggle/c/net/socket_evloop_handle.c` `muggle_socket_evloop_add_ctx`, `_on_wake`, `_on_clear`, `_on_exit`,
                                        `_release_ctx`, `muggle_socket_evloop_handle_destroy`

driven by the most general client of harness/c14/conc_evloop.c: one loop thread, any number of
exit / waker / hand-over / I/O threads; thread 0 created the loop (so `evloop->tid` initially names
thread 0).  One `step` = one scheduling point of the real object code under harness/tsanshim:
an access to `evloop->tid` / `evloop->to_exit`, a mutex operation on `handle->mtx`, a write to the
eventfd or to the peer of the I/O context, the read of the eventfd, a call of poll/epoll_wait/select,
and parking / resuming inside that call.  Event strings are the shim's.

Kernel objects (trusted semantics, DESIGN.md §6.4): the eventfd is a counter (`write` adds one,
`read` returns it and zeroes it, readable iff > 0); poll and select are level-triggered and report
in the order the back-end iterates; epoll keeps a ready list to which a descriptor is appended when
it is written while not on the list (and when it is added while readable), `epoll_wait` reports the
listed descriptors that are still readable, in list order, and empties the list.

Three places where the code under test has a repaired variant are flags of the configuration
(`Fix`); the check reads from the source which variant the tree has:

* `exitWake`  — `muggle_evloop_exit` on the `tid == self` branch also wakes the loop
                (fixes/C14-exit-before-run-lost.patch);
* `addFail`   — `on_wake` releases a handed-over context whose registration failed instead of
                dropping it (fixes/C14-on-wake-add-ctx-failure.patch);
* `lateQueue` — `handle_destroy` releases contexts still queued (handed over after `on_exit` drained
                the queue) instead of leaking them (fixes/C14-late-handover-leak.patch).
-/
namespace MgModel.C14
open MgModel.Conc

inductive Backend where
  | poll | epoll | select
  deriving Repr, DecidableEq

/-- event sources the loop can be woken by: the eventfd, the I/O context `c0` -/
inductive Src where
  | ev | io
  deriving Repr, DecidableEq

inductive Role where
  | loop (selfExitAt : Nat)  -- `L` (0) / `X<k>`: the wake callback calls `muggle_evloop_exit` in its k-th run
  | exit                     -- `E`
  | waker (k : Nat)          -- `W<k>`
  | hand (prog : List Bool)  -- `H<prog>`: one context per entry, `true` = good descriptor, `false` = bad (-1)
  | io (k : Nat)             -- `I<k>`
  deriving Repr, DecidableEq

structure Fix where
  exitWake  : Bool := true
  addFail   : Bool := true
  lateQueue : Bool := true
  deriving Repr, DecidableEq

inductive Pc where
  -- loop thread
  | runStart                -- `evloop->tid = self` (and, epoll: add the eventfd)
  | poll                    -- about to call poll / epoll_wait / select
  | fwait (s : Nat)         -- nothing was ready: about to park on sequence value `s`
  | blocked                 -- parked inside poll
  | woken                   -- made runnable by a writer, about to return into poll
  | clearup                 -- handle_wakeup: about to read the eventfd
  | wkLock                  -- on_wake: about to lock `handle->mtx`
  | wkAdd                   -- on_wake: about to register the front of the queue (`r tid`)
  | wkUnlock                -- on_wake: about to unlock, then the user's wake callback
  | wkChk                   -- handle_wakeup: about to read `to_exit` (== WAKE ?)
  | wkSet                   -- handle_wakeup: about to store EXIT
  | chkExit                 -- end of the iteration: about to read `to_exit` (== EXIT ?)
  | exLock                  -- on_exit: about to lock
  | exUnlock                -- on_exit: about to unlock; then `run` returns
  -- muggle_evloop_exit (exit threads, and the loop thread inside its wake callback)
  | eRead                   -- about to read `evloop->tid`
  | eSetW                   -- about to store WAKE
  | eSetE                   -- about to store EXIT
  | eWake                   -- about to write the eventfd
  -- waker
  | wWrite (left : Nat)     -- `left` wake-ups still to issue (≥ 1)
  -- hand-over of context `c`, `rest` = contexts still to hand over afterwards
  | hLock (c : Nat) (rest : List Bool)
  | hUnlock (c : Nat) (rest : List Bool)
  | hWake (c : Nat) (rest : List Bool)
  -- I/O
  | iWrite (left : Nat)
  | done
  deriving Repr, DecidableEq

def WAKE : Nat := 2
def EXIT : Nat := 1

structure St where
  -- configuration (never changes)
  backend : Backend
  cap     : Nat
  ioCtx   : Bool
  fix     : Fix
  n       : Nat
  role    : Nat → Role
  lt      : Nat                    -- index of the loop thread
  -- shared memory of the code under test
  tid     : Nat := 0               -- `evloop->tid` (as a thread index; thread 0 created the loop)
  toExit  : Nat := 0               -- `evloop->to_exit`
  mtx     : Option Nat := none     -- owner of `handle->mtx`
  queue   : List Nat := []         -- `handle->ctx_queue`
  reg     : List Nat := []         -- `evloop->ctx_list` (registered contexts, in list order)
  -- kernel objects
  counter : Nat := 0               -- eventfd counter
  ioPend  : Nat := 0               -- bytes waiting in the I/O context's socket
  seq     : Nat := 0               -- harness: number of wake-ups of pollers so far (futex word `evfd`)
  evAdded : Bool := false          -- epoll: the eventfd has been added to the epoll set
  rdl     : List Src := []         -- epoll: ready list
  -- control
  pc      : Nat → Pc
  plan    : List Src := []         -- loop thread: sources reported by the last poll, still to dispatch
  cbWakes : Nat := 0               -- invocations of the user's wake callback so far
  -- contexts
  nextCtx : Nat := 0
  bad     : List Nat := []         -- contexts whose descriptor is invalid
  -- ghost
  unserved : Nat := 0              -- wake-up requests since the wake callback was last entered
  handed   : List Nat := []        -- contexts enqueued by hand-over threads, in order
  regLog   : List Nat := []        -- contexts registered by on_wake, in order
  relLog   : List Nat := []        -- contexts released (cb_release; close; cb_free), in order
  lost     : List Nat := []        -- contexts dropped by on_wake (neither registered nor released)
  uaf      : Nat := 0              -- touches of a context after its release
  exitCalls : Nat := 0             -- completed calls of `muggle_evloop_exit` by exit threads
  clears   : Nat := 0              -- executions of the clear phase (cb_clear over the list)
  exits    : Nat := 0              -- executions of the exit callback

/-! ## Initial state -/

def initPc : Role → Pc
  | .loop _ => .runStart
  | .exit => .eRead
  | .waker k => if k = 0 then .done else .wWrite k
  | .hand _ => .done          -- replaced by `allocFirst`
  | .io k => if k = 0 then .done else .iWrite k

/-- hand-over threads create their first context before anything runs, in thread order -/
def allocFirst (roles : List Role) (t : Nat) (s : St) (notes : List String) : St × List String :=
  match roles with
  | [] => (s, notes)
  | r :: rs =>
    match r with
    | .hand (g :: rest) =>
      let c := s.nextCtx
      let s1 := { s with nextCtx := c + 1, bad := if g then s.bad else c :: s.bad,
                         pc := upd s.pc t (.hLock c rest) }
      allocFirst rs (t + 1) s1 (notes ++ [s!"T{t} note hand c{c}"])
    | _ => allocFirst rs (t + 1) s notes

def findLoop : List Role → Nat → Nat
  | [], i => i
  | .loop _ :: _, i => i
  | _ :: rs, i => findLoop rs (i + 1)

def mkInit (b : Backend) (cap : Nat) (io : Bool) (fix : Fix) (roles : List Role) : St × List String :=
  let s0 : St :=
    { backend := b, cap := cap, ioCtx := io, fix := fix, n := roles.length,
      role := fun t => roles.getD t (.waker 0), lt := findLoop roles 0,
      pc := fun t => initPc (roles.getD t (.waker 0)),
      reg := if io then [0] else [], nextCtx := if io then 1 else 0 }
  allocFirst roles 0 s0 []

/-! ## Helpers -/

def St.enabled (s : St) (t : Nat) : Bool :=
  t < s.n &&
  match s.pc t with
  | .done => false
  | .blocked => false
  | .wkLock | .exLock | .hLock _ _ => s.mtx.isNone
  | _ => true

def St.ready (s : St) : Src → Bool
  | .ev => s.counter > 0
  | .io => s.ioCtx && s.ioPend > 0

/-- what the real poll / epoll_wait / select call (zero time-out) reports, in dispatch order -/
def harvest (s : St) : St × List Src :=
  match s.backend with
  | .poll => (s, (if s.ready .io then [Src.io] else []) ++ (if s.ready .ev then [Src.ev] else []))
  | .select => (s, (if s.ready .ev then [Src.ev] else []) ++ (if s.ready .io then [Src.io] else []))
  | .epoll => ({ s with rdl := [] }, s.rdl.filter s.ready)

/-- a writer made `x` readable: wake the parked loop, bump the sequence word, epoll ready list -/
def signal (s : St) (x : Src) : St × Nat :=
  let woke := if s.pc s.lt = .blocked then 1 else 0
  let inSet : Bool := match x with | .ev => s.evAdded | .io => s.ioCtx
  let rdl := if s.backend = .epoll ∧ inSet = true ∧ x ∉ s.rdl then s.rdl ++ [x] else s.rdl
  ({ s with seq := s.seq + 1, rdl := rdl,
            pc := if s.pc s.lt = .blocked then upd s.pc s.lt .woken else s.pc }, woke)

/-- `muggle_ev_signal_wakeup`: write 1 to the eventfd -/
def evWrite (s : St) (t : Nat) : St × String :=
  let (s1, woke) := signal s .ev
  ({ s1 with counter := s1.counter + 1, unserved := s1.unserved + 1 },
   s!"T{t} futex-wake evfd all woke={woke}")

def releaseNotes (t : Nat) (cs : List Nat) : List String :=
  cs.flatMap fun c => [s!"T{t} note cb_release c{c}", s!"T{t} note cb_free c{c}"]

/-- `muggle_socket_evloop_release_ctx` on each of `cs` (reference count 1 → 0) -/
def release (s : St) (cs : List Nat) : St :=
  { s with relLog := s.relLog ++ cs, uaf := s.uaf + (cs.filter (· ∈ s.relLog)).length }

/-- dispatch the reported sources up to the next scheduling point of the loop thread:
a readable I/O context is read by the message callback (no scheduling point), the eventfd leads
to `handle_wakeup` (first step: `clearup`), an exhausted plan to the exit check -/
def advance (s : St) (t : Nat) : List Src → St × List String
  | [] => ({ s with plan := [], pc := upd s.pc t .chkExit }, [])
  | .ev :: rest => ({ s with plan := rest, pc := upd s.pc t .clearup }, [])
  | .io :: rest =>
    let u := if 0 ∈ s.relLog then 1 else 0
    let (s', evs) := advance { s with ioPend := 0, uaf := s.uaf + u } t rest
    (s', s!"T{t} note cb_msg c0 n={s.ioPend}" :: evs)

/-- the real poll call inside our wrapper: dispatch if something is ready, else prepare to park -/
def pollNow (s : St) (t : Nat) : St × List String :=
  let (s1, plan) := harvest s
  match plan with
  | [] => ({ s1 with pc := upd s1.pc t (.fwait s1.seq) }, [])
  | _ => advance s1 t plan

/-- `muggle_evloop_add_ctx` called by thread `t` for context `c` -/
def addOk (s : St) (t c : Nat) : Bool :=
  s.tid = t && !(c ∈ s.bad) && !(s.backend = .poll && s.reg.length ≥ s.cap)

/-- return from `muggle_evloop_exit` -/
def exitReturn (s : St) (t : Nat) : St × List String :=
  match s.role t with
  | .loop _ => ({ s with pc := upd s.pc t .wkChk }, [])
  | _ => ({ s with pc := upd s.pc t .done, exitCalls := s.exitCalls + 1 }, [s!"T{t} note exit-done"])

/-! ## The step function -/

def step (s : St) (tok : Tok) : Option (St × List String) :=
  let t := tok.tid
  if !s.enabled t then none else
  match s.pc t with
  | .runStart =>
    let rdl := if s.backend = .epoll ∧ s.counter > 0 ∧ Src.ev ∉ s.rdl then s.rdl ++ [Src.ev] else s.rdl
    some ({ s with tid := t, evAdded := true, rdl := rdl, pc := upd s.pc t .poll },
          [s!"T{t} w tid tid{t}"])
  | .poll =>
    let (s', evs) := pollNow s t
    some (s', s!"T{t} note poll" :: evs)
  | .fwait s0 =>
    if s.seq = s0 then
      some ({ s with pc := upd s.pc t .blocked }, [s!"T{t} futex-wait evfd {s0} blocked"])
    else
      let (s', evs) := pollNow s t
      some (s', s!"T{t} futex-wait evfd {s0} eagain" :: evs)
  | .woken =>
    let (s', evs) := pollNow s t
    some (s', s!"T{t} futex-resume evfd" :: evs)
  | .clearup =>
    let v : Int := if s.counter = 0 then -1 else s.counter
    some ({ s with counter := 0, pc := upd s.pc t .wkLock },
          [s!"T{t} note clearup", s!"T{t} note evfd-read v={v}"])
  | .wkLock =>
    some ({ s with mtx := some t, unserved := 0,
                   pc := upd s.pc t (if s.queue.isEmpty then .wkUnlock else .wkAdd) },
          [s!"T{t} mtx-lock mtx"])
  | .wkAdd =>
    match s.queue with
    | [] => some ({ s with pc := upd s.pc t .wkUnlock }, [s!"T{t} r tid tid{s.tid}"])  -- unreachable
    | c :: q =>
      let nxt : Pc := if q.isEmpty then .wkUnlock else .wkAdd
      let u := if c ∈ s.relLog then 1 else 0
      let ev := s!"T{t} r tid tid{s.tid}"
      if addOk s t c then
        some ({ s with queue := q, reg := s.reg ++ [c], regLog := s.regLog ++ [c], uaf := s.uaf + u,
                       pc := upd s.pc t nxt },
              [ev, s!"T{t} note cb_add_ctx c{c} reg=1"])
      else if s.fix.addFail then
        some ({ release s [c] with queue := q, pc := upd s.pc t nxt }, ev :: releaseNotes t [c])
      else
        some ({ s with queue := q, lost := s.lost ++ [c], uaf := s.uaf + u, pc := upd s.pc t nxt },
              [ev, s!"T{t} note cb_add_ctx c{c} reg=0"])
  | .wkUnlock =>
    let k := s.cbWakes + 1
    let selfExit : Bool := match s.role t with | .loop a => a != 0 && a == k | _ => false
    some ({ s with mtx := none, cbWakes := k, pc := upd s.pc t (if selfExit then .eRead else .wkChk) },
          [s!"T{t} mtx-unlock mtx", s!"T{t} note cb_wake"])
  | .wkChk =>
    if s.toExit = WAKE then
      some ({ s with pc := upd s.pc t .wkSet }, [s!"T{t} r to_exit {s.toExit}"])
    else
      let (s', evs) := advance s t s.plan
      some (s', s!"T{t} r to_exit {s.toExit}" :: evs)
  | .wkSet =>
    let (s', evs) := advance { s with toExit := EXIT } t s.plan
    some (s', s!"T{t} w to_exit {EXIT}" :: evs)
  | .chkExit =>
    if s.toExit = EXIT then
      -- leave the loop; clear phase: cb_clear on every registered context, in list order
      some ({ release s s.reg with reg := [], clears := s.clears + 1, pc := upd s.pc t .exLock },
            s!"T{t} r to_exit {s.toExit}" :: releaseNotes t s.reg)
    else
      some ({ s with pc := upd s.pc t .poll }, [s!"T{t} r to_exit {s.toExit}"])
  | .exLock =>
    -- on_exit: lock, release everything still queued
    some ({ release s s.queue with mtx := some t, queue := [], exits := s.exits + 1,
                                   pc := upd s.pc t .exUnlock },
          s!"T{t} mtx-lock mtx" :: releaseNotes t s.queue)
  | .exUnlock =>
    some ({ s with mtx := none, pc := upd s.pc t .done },
          [s!"T{t} mtx-unlock mtx", s!"T{t} note run-returned"])
  | .eRead =>
    some ({ s with pc := upd s.pc t (if s.tid = t then .eSetE else .eSetW) }, [s!"T{t} r tid tid{s.tid}"])
  | .eSetW =>
    some ({ s with toExit := WAKE, pc := upd s.pc t .eWake }, [s!"T{t} w to_exit {WAKE}"])
  | .eSetE =>
    if s.fix.exitWake then
      some ({ s with toExit := EXIT, pc := upd s.pc t .eWake }, [s!"T{t} w to_exit {EXIT}"])
    else
      let (s', evs) := exitReturn { s with toExit := EXIT } t
      some (s', s!"T{t} w to_exit {EXIT}" :: evs)
  | .eWake =>
    let (s1, ev) := evWrite s t
    let (s', evs) := exitReturn s1 t
    some (s', ev :: evs)
  | .wWrite left =>
    let (s1, ev) := evWrite s t
    some ({ s1 with pc := upd s1.pc t (if left ≤ 1 then .done else .wWrite (left - 1)) },
          [ev, s!"T{t} note wake-done"])
  | .hLock c rest =>
    some ({ s with mtx := some t, queue := s.queue ++ [c], handed := s.handed ++ [c],
                   pc := upd s.pc t (.hUnlock c rest) },
          [s!"T{t} mtx-lock mtx"])
  | .hUnlock c rest =>
    some ({ s with mtx := none, pc := upd s.pc t (.hWake c rest) }, [s!"T{t} mtx-unlock mtx"])
  | .hWake c rest =>
    let (s1, ev) := evWrite s t
    match rest with
    | [] => some ({ s1 with pc := upd s1.pc t .done }, [ev, s!"T{t} note hand-done c{c}"])
    | g :: rest' =>
      let j := s1.nextCtx
      some ({ s1 with nextCtx := j + 1, bad := if g then s1.bad else j :: s1.bad,
                      pc := upd s1.pc t (.hLock j rest') },
            [ev, s!"T{t} note hand-done c{c}", s!"T{t} note hand c{j}"])
  | .iWrite left =>
    let (s1, woke) := signal s .io
    some ({ s1 with ioPend := s1.ioPend + 1,
                    pc := upd s1.pc t (if left ≤ 1 then .done else .iWrite (left - 1)) },
          [s!"T{t} futex-wake evfd all woke={woke}", s!"T{t} note io-done"])
  | .blocked => none
  | .done => none

/-! ## `muggle_socket_evloop_handle_destroy` after every thread has returned -/

def finalize (s : St) : St :=
  if s.fix.lateQueue then { release s s.queue with queue := [] } else s

/-! ## What the harness reports at the end -/

def allDone (s : St) : Bool := (List.range s.n).all fun t => s.pc t == .done
def anyEnabled (s : St) : Bool := (List.range s.n).any fun t => s.enabled t

def stateLines (s : St) : List String :=
  (List.range s.n).map fun t =>
    match s.pc t with
    | .done => s!"state T{t} done -"
    | .blocked => s!"state T{t} futex evfd"
    | .wkLock | .exLock | .hLock _ _ =>
      if s.mtx.isNone then s!"state T{t} ready -" else s!"state T{t} mutex mtx"
    | _ => s!"state T{t} ready -"

def showB (b : Bool) : String := if b then "1" else "0"

/-- per context: p|h (pre-registered / handed over), #registrations, #releases, freed, #use-after-free -/
def ctxSummary (s : St) : List String :=
  let f := finalize s
  (List.range s.nextCtx).map fun c =>
    let kind := if s.ioCtx ∧ c = 0 then "p" else "h"
    let regs := (if s.ioCtx ∧ c = 0 then 1 else 0) + f.regLog.count c
    s!"c{c}:{kind}{regs}{f.relLog.count c}{showB (c ∈ f.relLog)}0"

def outcome (s : St) : String :=
  let rr := showB (s.pc s.lt == .done)
  let head := s!"outcome run_returned={rr} exit_done={s.exitCalls} cb_wake={s.cbWakes} queued={s.queue.length}"
  " ".intercalate (head :: ctxSummary s)

end MgModel.C14
