import MgModel.Common.Conc
/-!
# C14 — cross-thread wake-up, hand-over and exit of the event loop

Executable model of

* `muggle/c/event/event_loop.c`        `muggle_evloop_run`, `muggle_evloop_exit`, `muggle_evloop_wakeup`,
                                        `muggle_evloop_add_ctx`
* `muggle/c/event/event_signal.c`      eventfd `wakeup` (write 1) / `clearup` (read, counter := 0)
* `muggle/c/event/internal/event_loop_{poll,epoll,select}.c`   the loop body and `handle_wakeup`
* `muggle/c/net/socket_evloop_handle.c` `muggle_socket_evloop_add_ctx`, `_on_wake`, `_on_clear`, `_on_exit`,
                                        `_release_ctx`, `muggle_socket_evloop_handle_destroy`

driven by the most general client of harness/c14/conc_evloop.c: one loop thread, any number of
exit / waker / hand-over / I/O threads; thread 0 created the loop (so `evloop->tid` initially names
thread 0).  One `step` = one scheduling point of the real object code under harness/tsanshim:
an access to `evloop->tid` / `evloop->to_exit`, a mutex operation on `handle->mtx`, a write to the
eventfd or to the peer of the I/O context, the read of the eventfd, a call of poll/epoll_wait/select,
and parking / resuming inside that call.  Event strings are the shim's.

Kernel objects (trusted semantics, DESIGN.md §6.4): the eventfd is a counter (`write` adds one,
`read` returns it and zeroes it, readable iff > 0); poll and select are level-triggered and report
in the order the back-end iterates; epoll keeps a ready list to which a descriptor is appended when
it is written while not on the list (and when it is added while readable), `epoll_wait` reports the
listed descriptors that are still readable, in list order, and empties the list.

Three places where the code under test has a repaired variant are flags of the configuration
(`Fix`); the check reads from the source which variant the tree has:

* `exitWake`  — `muggle_evloop_exit` on the `tid == self` branch also wakes the loop
                (fixes/C14-exit-before-run-lost.patch);
* `addFail`   — `on_wake` releases a handed-over context whose registration failed instead of
                dropping it (fixes/C15-on-wake-add-failure.patch);
* `lateQueue` — `handle_destroy` releases contexts still queued (handed over after `on_exit` drained
                the queue) instead of leaking them (fixes/C14-late-handover-leak.patch).
-/
namespace MgModel.C14
open MgModel.Conc

inductive Backend where
  | poll | epoll | select
  deriving Repr, DecidableEq

/-- event sources the loop can be woken by: the eventfd, the pre-registered I/O context -/
inductive Src where
  | ev | io
  deriving Repr, DecidableEq

inductive Role where
  | loop (selfExitAt : Nat)  -- `L` (0) / `X<k>`: the wake callback calls `muggle_evloop_exit` in its k-th run
  | exit                     -- `E`
  | waker (k : Nat)          -- `W<k>`
  | hand (prog : List Bool)  -- `H<prog>`: one context per entry, `true` = good descriptor, `false` = bad (-1)
  | io (k : Nat)             -- `I<k>`
  deriving Repr, DecidableEq

structure Fix where
  exitWake  : Bool := true
  addFail   : Bool := true
  lateQueue : Bool := true
  deriving Repr, DecidableEq

/-- the configuration of a run: never changes -/
structure Cfg where
  backend : Backend
  cap     : Nat            -- `hints_max_fd`: registration capacity of the poll back-end
  ioCtx   : Bool           -- one context is registered by the creator before anything runs
  fix     : Fix
  n       : Nat
  role    : Nat → Role
  lt      : Nat            -- index of the loop thread

/-- a context: (handing thread, position in its program); the I/O context is `(n, 0)` -/
abbrev Ctx := Nat × Nat

def Cfg.ioId (cfg : Cfg) : Ctx := (cfg.n, 0)

/-- the descriptor of the context is invalid (`muggle_ev_fd_set_nonblock` fails) -/
def Cfg.isBad (cfg : Cfg) (c : Ctx) : Bool :=
  match cfg.role c.1 with
  | .hand prog => !(prog.getD c.2 true)
  | _ => false

def Cfg.cname (cfg : Cfg) (c : Ctx) : String :=
  if c.1 = cfg.n then "cio" else s!"c{c.1}.{c.2}"

inductive Pc where
  -- loop thread
  | runStart                -- `evloop->tid = self` (and, epoll: add the eventfd)
  | poll                    -- about to call poll / epoll_wait / select
  | fwait (s : Nat)         -- nothing was ready: about to park on sequence value `s`
  | blocked                 -- parked inside poll
  | woken                   -- made runnable by a writer, about to return into poll
  | clearup                 -- handle_wakeup: about to read the eventfd
  | wkLock                  -- on_wake: about to lock `handle->mtx`
  | wkAdd                   -- on_wake: about to register the front of the queue (`r tid`)
  | wkUnlock                -- on_wake: about to unlock, then the user's wake callback
  | wkChk                   -- handle_wakeup: about to read `to_exit` (== WAKE ?)
  | wkSet                   -- handle_wakeup: about to store EXIT
  | chkExit                 -- end of the iteration: about to read `to_exit` (== EXIT ?)
  | exLock                  -- on_exit: about to lock
  | exUnlock                -- on_exit: about to unlock; then `run` returns
  -- muggle_evloop_exit (exit threads, and the loop thread inside its wake callback)
  | eRead                   -- about to read `evloop->tid`
  | eSetW                   -- about to store WAKE
  | eSetE                   -- about to store EXIT
  | eWake                   -- about to write the eventfd
  -- waker
  | wWrite (left : Nat)     -- `left` wake-ups still to issue (≥ 1)
  -- hand-over of the thread's `i`-th context; `rest` = contexts still to hand over afterwards
  | hLock (i : Nat) (rest : List Bool)
  | hUnlock (i : Nat) (rest : List Bool)
  | hWake (i : Nat) (rest : List Bool)
  -- I/O
  | iWrite (left : Nat)
  | done
  deriving Repr, DecidableEq

def WAKE : Nat := 2
def EXIT : Nat := 1

structure St where
  -- shared memory of the code under test
  tid     : Nat := 0               -- `evloop->tid` (as a thread index; thread 0 created the loop)
  toExit  : Nat := 0               -- `evloop->to_exit`
  mtx     : Option Nat := none     -- owner of `handle->mtx`
  queue   : List Ctx := []         -- `handle->ctx_queue`
  reg     : List Ctx := []         -- `evloop->ctx_list` (registered contexts, in list order)
  -- kernel objects
  counter : Nat := 0               -- eventfd counter
  ioPend  : Nat := 0               -- bytes waiting in the I/O context's socket
  seq     : Nat := 0               -- harness: number of wake-ups of pollers so far (futex word `evfd`)
  evAdded : Bool := false          -- the loop has started (epoll: the eventfd is in the epoll set)
  rdl     : List Src := []         -- epoll: ready list
  -- control
  pc      : Nat → Pc
  plan    : List Src := []         -- loop thread: sources reported by the last poll, still to dispatch
  cbWakes : Nat := 0               -- invocations of the user's wake callback so far
  -- ghost
  unserved : Nat := 0              -- wake-up requests since the wake callback was last entered
  handed   : List Ctx := []        -- contexts enqueued by hand-over threads, in order
  regLog   : List Ctx := []        -- contexts registered by on_wake, in order
  relLog   : List Ctx := []        -- contexts released (cb_release; close; cb_free), in order
  lost     : List Ctx := []        -- contexts dropped by on_wake (neither registered nor released)
  uaf      : Nat := 0              -- touches of a context after its release
  exitCalls : Nat := 0             -- completed calls of `muggle_evloop_exit` by exit threads
  clears   : Nat := 0              -- executions of the clear phase (cb_clear over the list)
  exits    : Nat := 0              -- executions of the exit callback

/-! ## Initial state -/

def initPc : Role → Pc
  | .loop _ => .runStart
  | .exit => .eRead
  | .waker k => if k = 0 then .done else .wWrite k
  | .hand [] => .done
  | .hand (_ :: rest) => .hLock 0 rest
  | .io k => if k = 0 then .done else .iWrite k

def findLoop : List Role → Nat → Nat
  | [], i => i
  | .loop _ :: _, i => i
  | _ :: rs, i => findLoop rs (i + 1)

def mkCfg (b : Backend) (cap : Nat) (io : Bool) (fix : Fix) (roles : List Role) : Cfg :=
  { backend := b, cap := cap, ioCtx := io, fix := fix, n := roles.length,
    role := fun t => roles.getD t (.waker 0), lt := findLoop roles 0 }

def mkInit (cfg : Cfg) : St :=
  { pc := fun t => if t < cfg.n then initPc (cfg.role t) else .done,
    reg := if cfg.ioCtx then [cfg.ioId] else [] }

/-- hand-over threads create their first context before anything runs -/
def initNotes (cfg : Cfg) : List String :=
  (List.range cfg.n).filterMap fun t =>
    match cfg.role t with
    | .hand (_ :: _) => some s!"T{t} note hand {cfg.cname (t, 0)}"
    | _ => none

/-! ## Helpers -/

def St.enabled (cfg : Cfg) (s : St) (t : Nat) : Bool :=
  t < cfg.n &&
  match s.pc t with
  | .done => false
  | .blocked => false
  | .wkLock => s.mtx.isNone
  | .exLock => s.mtx.isNone
  | .hLock _ _ => s.mtx.isNone
  | _ => true

def St.ready (cfg : Cfg) (s : St) : Src → Bool
  | .ev => s.counter > 0
  | .io => cfg.ioCtx && s.ioPend > 0

/-- what the real poll / epoll_wait / select call (zero time-out) reports, in dispatch order -/
def harvest (cfg : Cfg) (s : St) : List Src :=
  match cfg.backend with
  | .poll => (if s.ready cfg .io then [Src.io] else []) ++ (if s.ready cfg .ev then [Src.ev] else [])
  | .select => (if s.ready cfg .ev then [Src.ev] else []) ++ (if s.ready cfg .io then [Src.io] else [])
  | .epoll => s.rdl.filter (s.ready cfg)

def inSet (cfg : Cfg) (s : St) : Src → Bool
  | .ev => s.evAdded
  | .io => cfg.ioCtx

/-- a writer made `x` readable: wake the parked loop, bump the sequence word, epoll ready list -/
def signal (cfg : Cfg) (s : St) (x : Src) : St :=
  { s with seq := s.seq + 1,
           rdl := if cfg.backend = .epoll ∧ inSet cfg s x = true ∧ x ∉ s.rdl then s.rdl ++ [x] else s.rdl,
           pc := upd s.pc cfg.lt (if s.pc cfg.lt = .blocked then .woken else s.pc cfg.lt) }

def woke (cfg : Cfg) (s : St) : Nat := if s.pc cfg.lt = .blocked then 1 else 0

/-- `muggle_ev_signal_wakeup`: write 1 to the eventfd -/
def evWrite (cfg : Cfg) (s : St) : St :=
  let s1 := signal cfg s .ev
  { s1 with counter := s1.counter + 1, unserved := s1.unserved + 1 }

def evWriteNote (cfg : Cfg) (s : St) (t : Nat) : String :=
  s!"T{t} futex-wake evfd all woke={woke cfg s}"

def releaseNotes (cfg : Cfg) (t : Nat) (cs : List Ctx) : List String :=
  cs.flatMap fun c => [s!"T{t} note cb_release {cfg.cname c}", s!"T{t} note cb_free {cfg.cname c}"]

/-- `muggle_socket_evloop_release_ctx` on each of `cs` (reference count 1 → 0) -/
def release (s : St) (cs : List Ctx) : St :=
  { s with relLog := s.relLog ++ cs, uaf := s.uaf + (cs.filter (· ∈ s.relLog)).length }

/-- where the loop thread stands after dispatching the reported sources up to its next scheduling
point: a readable I/O context is read by the message callback (no scheduling point), the eventfd
leads to `handle_wakeup` (first step: `clearup`), an exhausted plan to the exit check -/
def advPc : List Src → Pc
  | [] => .chkExit
  | .ev :: _ => .clearup
  | .io :: rest => advPc rest

/-- what remains to dispatch after `handle_wakeup` -/
def advPlan : List Src → List Src
  | [] => []
  | .ev :: rest => rest
  | .io :: rest => advPlan rest

/-- number of invocations of the message callback on the I/O context -/
def advIo : List Src → Nat
  | [] => 0
  | .ev :: _ => 0
  | .io :: rest => advIo rest + 1

def advance (cfg : Cfg) (s : St) (t : Nat) (pl : List Src) : St :=
  { s with ioPend := if advIo pl = 0 then s.ioPend else 0,
           uaf := s.uaf + (if cfg.ioId ∈ s.relLog then advIo pl else 0),
           plan := advPlan pl, pc := upd s.pc t (advPc pl) }

def advanceNotes (t : Nat) (ioPend : Nat) : List Src → List String
  | [] => []
  | .ev :: _ => []
  | .io :: rest => s!"T{t} note cb_msg cio n={ioPend}" :: advanceNotes t 0 rest

/-- the real poll call inside our wrapper: dispatch if something is ready, else prepare to park -/
def pollNow (cfg : Cfg) (s : St) (t : Nat) : St :=
  { s with rdl := if cfg.backend = .epoll then [] else s.rdl,
           ioPend := if advIo (harvest cfg s) = 0 then s.ioPend else 0,
           uaf := s.uaf + (if cfg.ioId ∈ s.relLog then advIo (harvest cfg s) else 0),
           plan := advPlan (harvest cfg s),
           pc := upd s.pc t (if harvest cfg s = [] then .fwait s.seq else advPc (harvest cfg s)) }

def pollNotes (cfg : Cfg) (s : St) (t : Nat) : List String := advanceNotes t s.ioPend (harvest cfg s)

/-- `muggle_evloop_add_ctx` called by thread `t` for context `c` -/
def addOk (cfg : Cfg) (s : St) (t : Nat) (c : Ctx) : Bool :=
  s.tid = t && !(cfg.isBad c) && !(cfg.backend = .poll && s.reg.length ≥ cfg.cap)

/-- return from `muggle_evloop_exit` -/
def exitReturn (cfg : Cfg) (s : St) (t : Nat) : St :=
  { s with pc := upd s.pc t (if t = cfg.lt then .wkChk else .done),
           exitCalls := s.exitCalls + (if t = cfg.lt then 0 else 1) }

def exitNotes (cfg : Cfg) (t : Nat) : List String :=
  if t = cfg.lt then [] else [s!"T{t} note exit-done"]

def selfExitNow (cfg : Cfg) (t k : Nat) : Bool :=
  match cfg.role t with
  | .loop a => a != 0 && a == k
  | _ => false

/-! ## The step function -/

/-- the step of thread `t` standing at `pc` (the caller checked that it is enabled) -/
def stepAt (cfg : Cfg) (s : St) (t : Nat) : Pc → St × List String
  | .runStart =>
    ({ s with tid := t, evAdded := true,
              rdl := if cfg.backend = .epoll ∧ s.counter > 0 ∧ Src.ev ∉ s.rdl then s.rdl ++ [Src.ev] else s.rdl,
              pc := upd s.pc t .poll },
     [s!"T{t} w tid tid{t}"])
  | .poll => (pollNow cfg s t, s!"T{t} note poll" :: pollNotes cfg s t)
  | .fwait s0 =>
    if s.seq = s0 then
      ({ s with pc := upd s.pc t .blocked }, [s!"T{t} futex-wait evfd {s0} blocked"])
    else (pollNow cfg s t, s!"T{t} futex-wait evfd {s0} eagain" :: pollNotes cfg s t)
  | .woken => (pollNow cfg s t, s!"T{t} futex-resume evfd" :: pollNotes cfg s t)
  | .clearup =>
    ({ s with counter := 0, pc := upd s.pc t .wkLock },
     [s!"T{t} note clearup", s!"T{t} note evfd-read v={if s.counter = 0 then (-1 : Int) else s.counter}"])
  | .wkLock =>
    ({ s with mtx := some t, unserved := 0,
              pc := upd s.pc t (if s.queue.isEmpty then .wkUnlock else .wkAdd) },
     [s!"T{t} mtx-lock mtx"])
  | .wkAdd =>
    match s.queue with
    | [] => ({ s with pc := upd s.pc t .wkUnlock }, [s!"T{t} r tid tid{s.tid}"])  -- unreachable
    | c :: q =>
      let nxt : Pc := if q.isEmpty then .wkUnlock else .wkAdd
      let u := if c ∈ s.relLog then 1 else 0
      if addOk cfg s t c then
        ({ s with queue := q, reg := s.reg ++ [c], regLog := s.regLog ++ [c], uaf := s.uaf + u,
                  pc := upd s.pc t nxt },
         [s!"T{t} r tid tid{s.tid}", s!"T{t} note cb_add_ctx {cfg.cname c} reg=1"])
      else if cfg.fix.addFail then
        ({ release s [c] with queue := q, pc := upd s.pc t nxt },
         s!"T{t} r tid tid{s.tid}" :: releaseNotes cfg t [c])
      else
        ({ s with queue := q, lost := s.lost ++ [c], uaf := s.uaf + u, pc := upd s.pc t nxt },
         [s!"T{t} r tid tid{s.tid}", s!"T{t} note cb_add_ctx {cfg.cname c} reg=0"])
  | .wkUnlock =>
    ({ s with mtx := none, cbWakes := s.cbWakes + 1,
              pc := upd s.pc t (if selfExitNow cfg t (s.cbWakes + 1) then .eRead else .wkChk) },
     [s!"T{t} mtx-unlock mtx", s!"T{t} note cb_wake"])
  | .wkChk =>
    if s.toExit = WAKE then
      ({ s with pc := upd s.pc t .wkSet }, [s!"T{t} r to_exit {s.toExit}"])
    else (advance cfg s t s.plan, s!"T{t} r to_exit {s.toExit}" :: advanceNotes t s.ioPend s.plan)
  | .wkSet =>
    (advance cfg { s with toExit := EXIT } t s.plan,
     s!"T{t} w to_exit {EXIT}" :: advanceNotes t s.ioPend s.plan)
  | .chkExit =>
    if s.toExit = EXIT then
      -- leave the loop; clear phase: cb_clear on every registered context, in list order
      ({ release s s.reg with reg := [], clears := s.clears + 1, pc := upd s.pc t .exLock },
       s!"T{t} r to_exit {s.toExit}" :: releaseNotes cfg t s.reg)
    else ({ s with pc := upd s.pc t .poll }, [s!"T{t} r to_exit {s.toExit}"])
  | .exLock =>
    -- on_exit: lock, release everything still queued
    ({ release s s.queue with mtx := some t, queue := [], exits := s.exits + 1,
                              pc := upd s.pc t .exUnlock },
     s!"T{t} mtx-lock mtx" :: releaseNotes cfg t s.queue)
  | .exUnlock =>
    ({ s with mtx := none, pc := upd s.pc t .done },
     [s!"T{t} mtx-unlock mtx", s!"T{t} note run-returned"])
  | .eRead =>
    ({ s with pc := upd s.pc t (if s.tid = t then .eSetE else .eSetW) }, [s!"T{t} r tid tid{s.tid}"])
  | .eSetW => ({ s with toExit := WAKE, pc := upd s.pc t .eWake }, [s!"T{t} w to_exit {WAKE}"])
  | .eSetE =>
    if cfg.fix.exitWake then
      ({ s with toExit := EXIT, pc := upd s.pc t .eWake }, [s!"T{t} w to_exit {EXIT}"])
    else (exitReturn cfg { s with toExit := EXIT } t, s!"T{t} w to_exit {EXIT}" :: exitNotes cfg t)
  | .eWake => (exitReturn cfg (evWrite cfg s) t, evWriteNote cfg s t :: exitNotes cfg t)
  | .wWrite left =>
    let s1 := evWrite cfg s
    ({ s1 with pc := upd s1.pc t (if left ≤ 1 then .done else .wWrite (left - 1)) },
     [evWriteNote cfg s t, s!"T{t} note wake-done"])
  | .hLock i rest =>
    ({ s with mtx := some t, queue := s.queue ++ [(t, i)], handed := s.handed ++ [(t, i)],
              pc := upd s.pc t (.hUnlock i rest) },
     [s!"T{t} mtx-lock mtx"])
  | .hUnlock i rest =>
    ({ s with mtx := none, pc := upd s.pc t (.hWake i rest) }, [s!"T{t} mtx-unlock mtx"])
  | .hWake i rest =>
    let s1 := evWrite cfg s
    match rest with
    | [] => ({ s1 with pc := upd s1.pc t .done },
             [evWriteNote cfg s t, s!"T{t} note hand-done {cfg.cname (t, i)}"])
    | _ :: rest' =>
      ({ s1 with pc := upd s1.pc t (.hLock (i + 1) rest') },
       [evWriteNote cfg s t, s!"T{t} note hand-done {cfg.cname (t, i)}",
        s!"T{t} note hand {cfg.cname (t, i + 1)}"])
  | .iWrite left =>
    let s1 := signal cfg s .io
    ({ s1 with ioPend := s1.ioPend + 1,
               pc := upd s1.pc t (if left ≤ 1 then .done else .iWrite (left - 1)) },
     [s!"T{t} futex-wake evfd all woke={woke cfg s}", s!"T{t} note io-done"])
  | .blocked => (s, [])
  | .done => (s, [])

def step (cfg : Cfg) (s : St) (tok : Tok) : Option (St × List String) :=
  if s.enabled cfg tok.tid then some (stepAt cfg s tok.tid (s.pc tok.tid)) else none

/-! ## `muggle_socket_evloop_handle_destroy` after every thread has returned -/

def finalize (cfg : Cfg) (s : St) : St :=
  if cfg.fix.lateQueue then { release s s.queue with queue := [] } else s

/-! ## What the harness reports at the end -/

def allDone (cfg : Cfg) (s : St) : Bool := (List.range cfg.n).all fun t => s.pc t == .done
def anyEnabled (cfg : Cfg) (s : St) : Bool := (List.range cfg.n).any fun t => s.enabled cfg t

def stateLines (cfg : Cfg) (s : St) : List String :=
  (List.range cfg.n).map fun t =>
    match s.pc t with
    | .done => s!"state T{t} done -"
    | .blocked => s!"state T{t} futex evfd"
    | .wkLock | .exLock | .hLock _ _ =>
      if s.mtx.isNone then s!"state T{t} ready -" else s!"state T{t} mutex mtx"
    | _ => s!"state T{t} ready -"

def showB (b : Bool) : String := if b then "1" else "0"

/-- every context of the configuration, in the harness' order: the I/O context, then per thread -/
def allCtx (cfg : Cfg) : List Ctx :=
  (if cfg.ioCtx then [cfg.ioId] else []) ++
  (List.range cfg.n).flatMap fun t =>
    match cfg.role t with
    | .hand prog => (List.range prog.length).map fun i => (t, i)
    | _ => []

/-- per context: #registrations, #releases, freed, #use-after-free -/
def ctxSummary (cfg : Cfg) (s : St) : List String :=
  let f := finalize cfg s
  (allCtx cfg).map fun c =>
    let regs := (if c = cfg.ioId then 1 else 0) + f.regLog.count c
    s!"{cfg.cname c}:{regs}{f.relLog.count c}{showB (c ∈ f.relLog)}0"

def outcome (cfg : Cfg) (s : St) : String :=
  let rr := showB (s.pc cfg.lt == .done)
  let head := s!"outcome run_returned={rr} exit_done={s.exitCalls} cb_wake={s.cbWakes} queued={s.queue.length}"
  " ".intercalate (head :: ctxSummary cfg s)

end MgModel.C14
