import MgModel.C11.DMem
/-!
# C11 — pointer slot (muggle/c/memory/pointer_slot.c)

State = the C struct: `slots[]` (cells of `mem`, linked between the embedded
`head`/`tail` in insertion order), `pp_slots[]` (ring of pointers to free slot
descriptors; a pointer `&slots[k]` is the number `k`), the rounded `capacity`
and the two free-running 32-bit counters.

`init` is the code **with fixes/C11-pointer-slot-capacity.patch applied**: both
arrays have `capacity` (rounded) entries. `initOrig` is the code as it stands in
the pinned tree: the arrays have only the *requested* number of entries while all
ring arithmetic uses the rounded capacity (DESIGN.md §4 #7).
-/
namespace MgModel.C11.PS

structure SlotVal where
  slotIdx : Nat
  inUsed  : Nat
  data    : Val
  deriving Repr, DecidableEq

structure PS where
  mem        : DMem SlotVal
  ppSlots    : List Nat
  capacity   : Nat
  allocIndex : BitVec 32
  freeIndex  : BitVec 32
  deriving Repr, DecidableEq

/-- `MUGGLE_IS_POW_OF_2(x)`: `!(x & (x - 1))` -/
def isPow2 (x : Nat) : Bool := x &&& (x - 1) = 0

/-- `muggle_next_pow_of_2` on `uint64_t` (as called here: `x < 2^32`) -/
def nextPow2 (x : Nat) : Nat :=
  if isPow2 x then x
  else
    let x := x ||| (x >>> 1)
    let x := x ||| (x >>> 2)
    let x := x ||| (x >>> 4)
    let x := x ||| (x >>> 8)
    let x := x ||| (x >>> 16)
    (x + 1) % 2 ^ 64

def sentinel : SlotVal := { slotIdx := 0, inUsed := 0, data := 0 }

/-- the state after the initialisation loop, with `n` allocated entries per array -/
def initWith (n capacity : Nat) (start : BitVec 32) : PS :=
  { mem := { head := { prev := none, next := some .tail, val := sentinel },
             tail := { prev := some .head, next := none, val := sentinel },
             cells := (List.range n).map (fun i =>
               some { prev := none, next := none, val := { slotIdx := i, inUsed := 0, data := 0 } }) },
    ppSlots := List.range n,
    capacity := capacity,
    allocIndex := start, freeIndex := start }

/-- the rounded capacity: `(unsigned int)muggle_next_pow_of_2(capacity > 0 ? capacity : 1)` -/
def roundCap (req : Nat) : Nat := nextPow2 (if req > 0 then req else 1) % 2 ^ 32

/-- `muggle_pointer_slot_init` (fixed code). `start` presets both counters (the C
code starts them at 0; the harness may overwrite them right after init). -/
def init (req : Nat) (start : BitVec 32 := 0) : PS :=
  initWith (roundCap req) (roundCap req) start

/-- `muggle_pointer_slot_init` as in the pinned tree: arrays sized by the request -/
def initOrig (req : Nat) (start : BitVec 32 := 0) : PS :=
  initWith (if req > 0 then req else 1) (roundCap req) start

/-- `MUGGLE_IDX_IN_POW_OF_2_RING(idx, capacity)` on `unsigned int` -/
def ringIdx (idx : BitVec 32) (capacity : Nat) : Nat :=
  (idx &&& (BitVec.ofNat 32 capacity - 1)).toNat

/-- `muggle_pointer_slot_insert`: `some idx` = success with `*slot_idx = idx`,
`none` = `MUGGLE_ERR_MEM_ALLOC` -/
def insert (s : PS) (data : Val) : Except Err (PS × Option Nat) := do
  let allocIdx := ringIdx s.allocIndex s.capacity
  let k ← match s.ppSlots[allocIdx]? with
    | some k => pure k
    | none => throw Err.oob
  let c ← s.mem.get (.node k)
  if c.val.inUsed = 1 then return (s, none)
  let m ← s.mem.linkTail (.node k)
  let c ← m.get (.node k)
  let m ← m.setVal (.node k) { c.val with data := data, inUsed := 1 }
  return ({ s with mem := m, allocIndex := s.allocIndex + 1 }, some c.val.slotIdx)

inductive RmResult where
  | ok            -- 0
  | beyondRange   -- MUGGLE_ERR_BEYOND_RANGE
  | dupFree       -- MUGGLE_ERR_MEM_DUPLICATE_FREE
  deriving Repr, DecidableEq

/-- `muggle_pointer_slot_remove` -/
def remove (s : PS) (idx : Nat) : Except Err (PS × RmResult) := do
  if idx ≥ s.capacity then return (s, .beyondRange)
  let c ← s.mem.get (.node idx)
  if c.val.inUsed = 0 then return (s, .dupFree)
  let freeIdx := ringIdx s.freeIndex s.capacity
  if freeIdx ≥ s.ppSlots.length then throw Err.oob
  let pp := s.ppSlots.set freeIdx idx                  -- pp_slots[free_idx] = p_slot
  let m ← s.mem.unlink (.node idx)
  let m ← m.setPrev (.node idx) none
  let m ← m.setNext (.node idx) none
  let c ← m.get (.node idx)
  let m ← m.setVal (.node idx) { c.val with inUsed := 0, data := 0 }
  return ({ s with mem := m, ppSlots := pp, freeIndex := s.freeIndex + 1 }, .ok)

/-- `muggle_pointer_slot_get` (`0` = NULL) -/
def get (s : PS) (idx : Nat) : Except Err Val := do
  if idx ≥ s.capacity then return 0
  let c ← s.mem.get (.node idx)
  if c.val.inUsed = 0 then return 0
  return c.val.data

/-- iteration `iter_begin … iter_end`: `(slot_idx, data)` of every entry passed -/
def iterate (s : PS) : Except Err (List (Nat × Val)) := do
  let first ← deref s.mem.head.next
  let refs ← s.mem.walkFwd (s.mem.cells.length + 1) first
  let cells ← refs.mapM s.mem.readCell
  pure (cells.map (fun (_, v) => (v.slotIdx, v.data)))

/-! ## Specification: the live entries in insertion order -/

abbrev Spec := List (Nat × Val)

def specGet (l : Spec) (idx : Nat) : Val :=
  match l.find? (·.1 = idx) with
  | some (_, v) => v
  | none => 0

def specLive (l : Spec) (idx : Nat) : Bool := (l.map (·.1)).contains idx

/-- an insert may return any index that is below the capacity and not live -/
def specInsertOk (cap : Nat) (l : Spec) (r : Option Nat) : Bool :=
  match r with
  | some idx => decide (l.length < cap) && decide (idx < cap) && !specLive l idx
  | none => decide (l.length ≥ cap)

def specInsert (l : Spec) (r : Option Nat) (v : Val) : Spec :=
  match r with
  | some idx => l ++ [(idx, v)]
  | none => l

def specRemove (cap : Nat) (l : Spec) (idx : Nat) : Spec × RmResult :=
  if idx ≥ cap then (l, .beyondRange)
  else if specLive l idx then (l.filter (·.1 ≠ idx), .ok)
  else (l, .dupFree)

/-! ## Operation histories -/

inductive Op where
  | insert (v : Val)
  | remove (idx : Nat)
  | get (idx : Nat)
  | iter
  deriving Repr, DecidableEq

inductive Res where
  | inserted (r : Option Nat)
  | removed (r : RmResult)
  | got (v : Val)
  | entries (l : List (Nat × Val))
  deriving Repr, DecidableEq

def step (s : PS) : Op → Except Err (PS × Res)
  | .insert v => do let (s, r) ← insert s v; pure (s, .inserted r)
  | .remove i => do let (s, r) ← remove s i; pure (s, .removed r)
  | .get i => do let v ← get s i; pure (s, .got v)
  | .iter => do let l ← iterate s; pure (s, .entries l)

def run (s : PS) : List Op → Except Err (PS × List Res)
  | [] => .ok (s, [])
  | op :: ops => do
    let (s1, r) ← step s op
    let (s2, rs) ← run s1 ops
    pure (s2, r :: rs)

/-- the answers `rs` to the calls `ops` are what the property allows, starting from
the live entries `l` and ending with `l'`: an insert returns an index that is below
the capacity and not live (or is refused exactly when `capacity` entries are live),
remove / get / iteration answer as the list of live entries dictates -/
def Conforms (cap : Nat) : Spec → List Op → List Res → Spec → Prop
  | l, [], [], l' => l' = l
  | l, .insert v :: ops, .inserted r :: rs, l' =>
    specInsertOk cap l r = true ∧ Conforms cap (specInsert l r v) ops rs l'
  | l, .remove i :: ops, .removed r :: rs, l' =>
    r = (specRemove cap l i).2 ∧ Conforms cap (specRemove cap l i).1 ops rs l'
  | l, .get i :: ops, .got v :: rs, l' => v = specGet l i ∧ Conforms cap l ops rs l'
  | l, .iter :: ops, .entries e :: rs, l' => e = l ∧ Conforms cap l ops rs l'
  | _, _, _, _ => False

end MgModel.C11.PS
