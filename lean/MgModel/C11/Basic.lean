/-!
# C11 — common definitions for the sequence containers and the pointer slot

`Val` is a data pointer (`void*`), `0` is `NULL`. All models return an explicit
`Err` where the C code would read/write out of bounds, dereference `NULL`, touch a
freed node, read never-written storage, or hit undefined behaviour — there are no
totalising defaults.
-/
namespace MgModel.C11

inductive Err where
  | oob      -- array index outside the allocated storage
  | null     -- NULL pointer dereferenced
  | uaf      -- freed (or never allocated) node dereferenced
  | uninit   -- storage read before it was ever written
  | ub       -- undefined behaviour (signed overflow)
  deriving Repr, DecidableEq

/-- a `void*` datum; `0` is `NULL` -/
abbrev Val := Nat

/-- `MUGGLE_DS_CAP_IS_VALID(capacity)`: `(uint64_t)capacity < 2^31` -/
def capValid (c : Nat) : Bool := decide (c < 2 ^ 31)

/-- raw array storage as returned by `malloc`: `none` = never written -/
abbrev Store := List (Option Val)

/-- read `a[i].data` -/
def rd (a : Store) (i : Nat) : Except Err Val :=
  match a[i]? with
  | none => .error .oob
  | some none => .error .uninit
  | some (some v) => .ok v

/-- write `a[i].data = v` -/
def wr (a : Store) (i : Nat) (v : Val) : Except Err Store :=
  if i < a.length then .ok (a.set i (some v)) else .error .oob

/-- `for (i = 0; i < n; i++) dst[i] = src[i];` -/
def copyLoop (src dst : Store) (n : Nat) : Except Err Store :=
  (List.range n).foldlM (fun d i => do
    let v ← rd src i
    wr d i v) dst

/-- the `free` callbacks issued by `clear`:
`for (i = 0; i < n; i++) if (nodes[i].data) func_free(pool, nodes[i].data);` -/
def clearLoop (a : Store) (n : Nat) : Except Err (List Val) :=
  (List.range n).foldlM (fun fr i => do
    let v ← rd a i
    pure (if v ≠ 0 then fr ++ [v] else fr)) []

end MgModel.C11
