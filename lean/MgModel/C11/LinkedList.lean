import MgModel.C11.DMem
/-!
# C11 — linked list (muggle/c/dsaa/linked_list.c)

State = the C struct: sentinels `head`/`tail` and the heap nodes (`mem`), the
optional node pool (counters only) and `size`. Nodes are addressed by `Ref.node k`
where `k` numbers the allocations (the harness numbers the nodes it receives the
same way). Every pointer assignment of the C functions is one `setPrev`/`setNext`
(in `DMem.linkBefore` / `linkAfter` / `unlink`), in the same order, with the same
re-reads.
-/
namespace MgModel.C11.LL

structure LL where
  mem  : DMem Val
  pool : Option Pool
  size : Nat
  deriving Repr, DecidableEq

def emptyMem : DMem Val :=
  { head := { prev := none, next := some .tail, val := 0 },
    tail := { prev := some .head, next := none, val := 0 },
    cells := [] }

/-- `muggle_linked_list_init`; `none` = returns false -/
def init (capacity : Nat) : Option LL :=
  if capacity > 0 then
    if !capValid capacity then none
    else some { mem := emptyMem, pool := some { used := 0, capacity := capacity }, size := 0 }
  else some { mem := emptyMem, pool := none, size := 0 }

/-- `muggle_linked_list_allocate_node` (allocation failure is not modelled) -/
def allocateNode (s : LL) : LL × Ref :=
  let (m, r) := s.mem.alloc 0
  ({ mem := m, pool := s.pool.map Pool.alloc, size := s.size + 1 }, r)

/-- `muggle_linked_list_free_node` -/
def freeNode (s : LL) (node : Ref) : Except Err LL := do
  let m ← s.mem.unlink node
  let m ← m.free node
  pure { mem := m, pool := s.pool.map Pool.free, size := (s.size + 2 ^ 64 - 1) % 2 ^ 64 }

/-- `muggle_linked_list_free_data` -/
def freeData (s : LL) (node : Ref) (fr : Bool) : Except Err (LL × List Val) := do
  let c ← s.mem.get node
  if c.val ≠ 0 then
    let m ← s.mem.setVal node 0
    pure ({ s with mem := m }, if fr then [c.val] else [])
  else pure (s, [])

def isEmpty (s : LL) : Bool := s.mem.head.next = some .tail
def size (s : LL) : Nat := s.size

/-- the loop of `muggle_linked_list_clear` -/
def clearLoop (fr : Bool) : Nat → LL → Ref → List Val → Except Err (LL × List Val)
  | 0, _, _, _ => .error .ub
  | fuel + 1, s, node, freed =>
    if node = .tail then pure (s, freed)
    else do
      let c ← s.mem.get node
      let next ← deref c.next
      let (s, f) ← freeData s node fr
      let s ← freeNode s node
      clearLoop fr fuel s next (freed ++ f)

/-- `muggle_linked_list_clear` -/
def clear (s : LL) (fr : Bool) : Except Err (LL × List Val) := do
  let first ← deref s.mem.head.next
  let (s, freed) ← clearLoop fr (s.mem.cells.length + 1) s first []
  pure ({ s with size := 0 }, freed)

/-- the loop of `muggle_linked_list_find` (comparison = equality of the data) -/
def findLoop (m : DMem Val) (data : Val) : Nat → Ref → Except Err (Option Ref)
  | 0, _ => .error .ub
  | fuel + 1, node =>
    if node = .tail then pure none
    else do
      let c ← m.get node
      if c.val = data then pure (some node)
      else do
        let n ← deref c.next
        findLoop m data fuel n

/-- `muggle_linked_list_find` -/
def find (s : LL) (node : Option Ref) (data : Val) : Except Err (Option Ref) := do
  let start ← match node with
    | some n => pure n
    | none => deref s.mem.head.next
  findLoop s.mem data (s.mem.cells.length + 1) start

/-- `muggle_linked_list_next` -/
def next (s : LL) (node : Ref) : Except Err (Option Ref) := do
  let c ← s.mem.get node
  pure (if c.next = some .tail then none else c.next)

/-- `muggle_linked_list_prev` -/
def prev (s : LL) (node : Ref) : Except Err (Option Ref) := do
  let c ← s.mem.get node
  pure (if c.prev = some .head then none else c.prev)

/-- `muggle_linked_list_first` -/
def first (s : LL) : Option Ref :=
  if s.mem.head.next = some .tail then none else s.mem.head.next

/-- `muggle_linked_list_last` -/
def last (s : LL) : Option Ref :=
  if s.mem.tail.prev = some .head then none else s.mem.tail.prev

/-- `muggle_linked_list_insert`: link a new node before `node` (`NULL` = before the first) -/
def insert (s : LL) (node : Option Ref) (data : Val) : Except Err (LL × Ref) := do
  let (s, nw) := allocateNode s
  let m ← s.mem.setVal nw data
  let node ← match node with
    | some n => pure n
    | none => deref m.head.next
  let m ← m.linkBefore node nw
  pure ({ s with mem := m }, nw)

/-- `muggle_linked_list_append`: link a new node after `node` (`NULL` = after the last) -/
def append (s : LL) (node : Option Ref) (data : Val) : Except Err (LL × Ref) := do
  let (s, nw) := allocateNode s
  let m ← s.mem.setVal nw data
  let node ← match node with
    | some n => pure n
    | none => deref m.tail.prev
  let m ← m.linkAfter node nw
  pure ({ s with mem := m }, nw)

/-- `muggle_linked_list_remove`: returns the following node (`none` = NULL) -/
def remove (s : LL) (node : Ref) (fr : Bool) : Except Err (LL × Option Ref × List Val) := do
  let nx ← next s node
  let (s, freed) ← freeData s node fr
  let s ← freeNode s node
  pure (s, nx, freed)

/-- forward traversal as the harness does it: the nodes from `head.next` to `tail` -/
def toList (s : LL) : Except Err (List (Ref × Val)) := do
  let first ← deref s.mem.head.next
  let refs ← s.mem.walkFwd (s.mem.cells.length + 1) first
  refs.mapM s.mem.readCell

/-- backward traversal: the nodes from `tail.prev` to `head` -/
def toListRev (s : LL) : Except Err (List Ref) := do
  let last ← deref s.mem.tail.prev
  s.mem.walkBwd (s.mem.cells.length + 1) last

/-! ## Specification: a sequence of (node handle, datum) pairs -/

abbrev Spec := List (Ref × Val)

/-- put `x` before the element with handle `n` -/
def insBefore (n : Ref) (x : Ref × Val) : Spec → Spec
  | [] => []
  | a :: l => if a.1 = n then x :: a :: l else a :: insBefore n x l

/-- put `x` after the element with handle `n` -/
def insAfter (n : Ref) (x : Ref × Val) : Spec → Spec
  | [] => []
  | a :: l => if a.1 = n then a :: x :: l else a :: insAfter n x l

/-- handle of the element following `n` -/
def succOf (n : Ref) : Spec → Option Ref
  | [] => none
  | a :: l => if a.1 = n then l.head?.map (·.1) else succOf n l

/-- handle of the element preceding `n` -/
def predOf (n : Ref) : Spec → Option Ref
  | [] => none
  | [_] => none
  | a :: b :: l => if b.1 = n then some a.1 else predOf n (b :: l)

/-- datum stored under handle `n` -/
def dataOf (n : Ref) : Spec → Option Val
  | [] => none
  | a :: l => if a.1 = n then some a.2 else dataOf n l

/-- insert before handle `node` (`none`: at the front) -/
def specInsert (l : Spec) (node : Option Ref) (nw : Ref) (v : Val) : Spec :=
  match node with
  | none => (nw, v) :: l
  | some n => insBefore n (nw, v) l

/-- insert after handle `node` (`none`: at the back) -/
def specAppend (l : Spec) (node : Option Ref) (nw : Ref) (v : Val) : Spec :=
  match node with
  | none => l ++ [(nw, v)]
  | some n => insAfter n (nw, v) l

/-- remove handle `node`: new sequence, the following handle, the freed data -/
def specRemove (l : Spec) (node : Ref) (fr : Bool) : Spec × Option Ref × List Val :=
  (l.filter (fun a => a.1 ≠ node), succOf node l,
    match dataOf node l with
    | some v => if fr ∧ v ≠ 0 then [v] else []
    | none => [])

def specNext (l : Spec) (node : Ref) : Option Ref := succOf node l
def specPrev (l : Spec) (node : Ref) : Option Ref := predOf node l

/-- first handle at or after `node` (`none`: from the front) whose datum is `v` -/
def specFind (l : Spec) (node : Option Ref) (v : Val) : Option Ref :=
  match node with
  | none => (l.find? (·.2 = v)).map (·.1)
  | some n => ((l.dropWhile (fun a => a.1 ≠ n)).find? (·.2 = v)).map (·.1)

def specClear (l : Spec) (fr : Bool) : Spec × List Val :=
  ([], if fr then (l.map (·.2)).filter (· ≠ 0) else [])

/-! ## Operation histories

Handles are the `Ref`s returned by earlier insert/append calls. The reference
side keeps, besides the sequence, the number `k` of nodes allocated so far (the
next handle is `Ref.node k`); it is undefined (`none`) exactly when a call is given
a handle that is not in the sequence — the API cannot check that and the C code
would touch freed memory. -/

inductive Op where
  | insert (node : Option Ref) (v : Val)
  | append (node : Option Ref) (v : Val)
  | remove (node : Ref) (fr : Bool)
  | next (node : Ref)
  | prev (node : Ref)
  | first
  | last
  | find (node : Option Ref) (v : Val)
  | clear (fr : Bool)
  | dump
  deriving Repr, DecidableEq

inductive Res where
  | node (r : Ref)
  | optNode (r : Option Ref)
  | removed (next : Option Ref) (freed : List Val)
  | cleared (freed : List Val)
  | contents (size : Nat) (fwd : List (Ref × Val)) (bwd : List Ref)
  deriving Repr, DecidableEq

def step (s : LL) : Op → Except Err (LL × Res)
  | .insert n v => do let (s, r) ← insert s n v; pure (s, .node r)
  | .append n v => do let (s, r) ← append s n v; pure (s, .node r)
  | .remove n fr => do let (s, nx, f) ← remove s n fr; pure (s, .removed nx f)
  | .next n => do let r ← next s n; pure (s, .optNode r)
  | .prev n => do let r ← prev s n; pure (s, .optNode r)
  | .first => pure (s, .optNode (first s))
  | .last => pure (s, .optNode (last s))
  | .find n v => do let r ← find s n v; pure (s, .optNode r)
  | .clear fr => do let (s, f) ← clear s fr; pure (s, .cleared f)
  | .dump => do
    let fw ← toList s
    let bw ← toListRev s
    pure (s, .contents s.size fw bw)

def handleOk (l : Spec) : Option Ref → Bool
  | none => true
  | some r => (l.map (·.1)).contains r

def specStep (l : Spec) (k : Nat) : Op → Option (Spec × Nat × Res)
  | .insert n v => if handleOk l n then some (specInsert l n (.node k) v, k + 1, .node (.node k)) else none
  | .append n v => if handleOk l n then some (specAppend l n (.node k) v, k + 1, .node (.node k)) else none
  | .remove n fr =>
    if handleOk l (some n) then
      let (l', nx, f) := specRemove l n fr
      some (l', k, .removed nx f)
    else none
  | .next n => if handleOk l (some n) then some (l, k, .optNode (specNext l n)) else none
  | .prev n => if handleOk l (some n) then some (l, k, .optNode (specPrev l n)) else none
  | .first => some (l, k, .optNode (l.head?.map (·.1)))
  | .last => some (l, k, .optNode (l.getLast?.map (·.1)))
  | .find n v => if handleOk l n then some (l, k, .optNode (specFind l n v)) else none
  | .clear fr => let (l', f) := specClear l fr; some (l', k, .cleared f)
  | .dump => some (l, k, .contents l.length l (l.map (·.1)).reverse)

def run (s : LL) : List Op → Except Err (LL × List Res)
  | [] => .ok (s, [])
  | op :: ops => do
    let (s1, r) ← step s op
    let (s2, rs) ← run s1 ops
    pure (s2, r :: rs)

def specRun (l : Spec) (k : Nat) : List Op → Option (Spec × Nat × List Res)
  | [] => some (l, k, [])
  | op :: ops =>
    match specStep l k op with
    | none => none
    | some (l1, k1, r) =>
      match specRun l1 k1 ops with
      | none => none
      | some (l2, k2, rs) => some (l2, k2, r :: rs)

end MgModel.C11.LL
