import MgModel.C11.DMem
/-!
# C11 — linked list (muggle/c/dsaa/linked_list.c)

State = the C struct: sentinels `head`/`tail` and the heap nodes (`mem`), the
optional node pool (counters only) and `size`. Nodes are addressed by `Ref.node k`
where `k` numbers the allocations (the harness numbers the nodes it receives the
same way). Every pointer assignment of the C functions is one `setPrev`/`setNext`
here, in the same order, with the same re-reads.
-/
namespace MgModel.C11.LL

structure LL where
  mem  : DMem Val
  pool : Option Pool
  size : Nat
  deriving Repr, DecidableEq

def emptyMem : DMem Val :=
  { head := { prev := none, next := some .tail, val := 0 },
    tail := { prev := some .head, next := none, val := 0 },
    cells := [] }

/-- `muggle_linked_list_init`; `none` = returns false -/
def init (capacity : Nat) : Option LL :=
  if capacity > 0 then
    if !capValid capacity then none
    else some { mem := emptyMem, pool := some { used := 0, capacity := capacity }, size := 0 }
  else some { mem := emptyMem, pool := none, size := 0 }

/-- `muggle_linked_list_allocate_node` (allocation failure is not modelled) -/
def allocateNode (s : LL) : LL × Ref :=
  let (m, r) := s.mem.alloc 0
  ({ mem := m, pool := s.pool.map Pool.alloc, size := s.size + 1 }, r)

/-- `muggle_linked_list_free_node` -/
def freeNode (s : LL) (node : Ref) : Except Err LL := do
  let c ← s.mem.get node
  let p ← deref c.prev
  let m ← s.mem.setNext p c.next            -- node->prev->next = node->next
  let c ← m.get node
  let n ← deref c.next
  let m ← m.setPrev n c.prev                -- node->next->prev = node->prev
  let m ← m.free node
  pure { mem := m, pool := s.pool.map Pool.free, size := (s.size + 2 ^ 64 - 1) % 2 ^ 64 }

/-- `muggle_linked_list_free_data` -/
def freeData (s : LL) (node : Ref) (fr : Bool) : Except Err (LL × List Val) := do
  let c ← s.mem.get node
  if c.val ≠ 0 then
    let m ← s.mem.setVal node 0
    pure ({ s with mem := m }, if fr then [c.val] else [])
  else pure (s, [])

def isEmpty (s : LL) : Bool := s.mem.head.next = some .tail
def size (s : LL) : Nat := s.size

/-- the loop of `muggle_linked_list_clear` -/
def clearLoop (fr : Bool) : Nat → LL → Ref → List Val → Except Err (LL × List Val)
  | 0, _, _, _ => .error .ub
  | fuel + 1, s, node, freed =>
    if node = .tail then pure (s, freed)
    else do
      let c ← s.mem.get node
      let next ← deref c.next
      let (s, f) ← freeData s node fr
      let s ← freeNode s node
      clearLoop fr fuel s next (freed ++ f)

/-- `muggle_linked_list_clear` -/
def clear (s : LL) (fr : Bool) : Except Err (LL × List Val) := do
  let first ← deref s.mem.head.next
  let (s, freed) ← clearLoop fr (s.mem.cells.length + 1) s first []
  pure ({ s with size := 0 }, freed)

/-- the loop of `muggle_linked_list_find` (comparison = equality of the data) -/
def findLoop (m : DMem Val) (data : Val) : Nat → Ref → Except Err (Option Ref)
  | 0, _ => .error .ub
  | fuel + 1, node =>
    if node = .tail then pure none
    else do
      let c ← m.get node
      if c.val = data then pure (some node)
      else do
        let n ← deref c.next
        findLoop m data fuel n

/-- `muggle_linked_list_find` -/
def find (s : LL) (node : Option Ref) (data : Val) : Except Err (Option Ref) := do
  let start ← match node with
    | some n => pure n
    | none => deref s.mem.head.next
  findLoop s.mem data (s.mem.cells.length + 1) start

/-- `muggle_linked_list_next` -/
def next (s : LL) (node : Ref) : Except Err (Option Ref) := do
  let c ← s.mem.get node
  pure (if c.next = some .tail then none else c.next)

/-- `muggle_linked_list_prev` -/
def prev (s : LL) (node : Ref) : Except Err (Option Ref) := do
  let c ← s.mem.get node
  pure (if c.prev = some .head then none else c.prev)

/-- `muggle_linked_list_first` -/
def first (s : LL) : Option Ref :=
  if s.mem.head.next = some .tail then none else s.mem.head.next

/-- `muggle_linked_list_last` -/
def last (s : LL) : Option Ref :=
  if s.mem.tail.prev = some .head then none else s.mem.tail.prev

/-- `muggle_linked_list_insert`: link a new node before `node` (`NULL` = before the first) -/
def insert (s : LL) (node : Option Ref) (data : Val) : Except Err (LL × Ref) := do
  let (s, nw) := allocateNode s
  let m ← s.mem.setVal nw data
  let node ← match node with
    | some n => pure n
    | none => deref m.head.next
  let c ← m.get node
  let p ← deref c.prev
  let m ← m.setNext p (some nw)             -- node->prev->next = new_node
  let c ← m.get node
  let m ← m.setPrev nw c.prev               -- new_node->prev = node->prev
  let m ← m.setNext nw (some node)          -- new_node->next = node
  let m ← m.setPrev node (some nw)          -- node->prev = new_node
  pure ({ s with mem := m }, nw)

/-- `muggle_linked_list_append`: link a new node after `node` (`NULL` = after the last) -/
def append (s : LL) (node : Option Ref) (data : Val) : Except Err (LL × Ref) := do
  let (s, nw) := allocateNode s
  let m ← s.mem.setVal nw data
  let node ← match node with
    | some n => pure n
    | none => deref m.tail.prev
  let c ← m.get node
  let n ← deref c.next
  let m ← m.setPrev n (some nw)             -- node->next->prev = new_node
  let c ← m.get node
  let m ← m.setNext nw c.next               -- new_node->next = node->next
  let m ← m.setPrev nw (some node)          -- new_node->prev = node
  let m ← m.setNext node (some nw)          -- node->next = new_node
  pure ({ s with mem := m }, nw)

/-- `muggle_linked_list_remove`: returns the following node (`none` = NULL) -/
def remove (s : LL) (node : Ref) (fr : Bool) : Except Err (LL × Option Ref × List Val) := do
  let nx ← next s node
  let (s, freed) ← freeData s node fr
  let s ← freeNode s node
  pure (s, nx, freed)

/-- forward traversal as the harness does it: the nodes from `head.next` to `tail` -/
def toList (s : LL) : Except Err (List (Ref × Val)) := do
  let first ← deref s.mem.head.next
  let refs ← s.mem.walkFwd (s.mem.cells.length + 1) first
  refs.mapM (fun r => do let c ← s.mem.get r; pure (r, c.val))

/-- backward traversal: the nodes from `tail.prev` to `head` -/
def toListRev (s : LL) : Except Err (List Ref) := do
  let last ← deref s.mem.tail.prev
  s.mem.walkBwd (s.mem.cells.length + 1) last

/-! ## Specification: a sequence of (node handle, datum) pairs -/

abbrev Spec := List (Ref × Val)

/-- position of a handle -/
def specPos (l : Spec) (r : Ref) : Option Nat := (l.map (·.1)).idxOf? r

/-- insert before handle `node` (`none`: at the front) -/
def specInsert (l : Spec) (node : Option Ref) (nw : Ref) (v : Val) : Option Spec :=
  match node with
  | none => some ((nw, v) :: l)
  | some n => (specPos l n).map (fun k => l.take k ++ (nw, v) :: l.drop k)

/-- insert after handle `node` (`none`: at the back) -/
def specAppend (l : Spec) (node : Option Ref) (nw : Ref) (v : Val) : Option Spec :=
  match node with
  | none => some (l ++ [(nw, v)])
  | some n => (specPos l n).map (fun k => l.take (k + 1) ++ (nw, v) :: l.drop (k + 1))

/-- remove handle `node`: new sequence, the following handle, the freed data -/
def specRemove (l : Spec) (node : Ref) (fr : Bool) : Option (Spec × Option Ref × List Val) :=
  (specPos l node).map (fun k =>
    (l.eraseIdx k, (l[k + 1]?).map (·.1),
      match l[k]? with
      | some (_, v) => if fr ∧ v ≠ 0 then [v] else []
      | none => []))

def specNext (l : Spec) (node : Ref) : Option (Option Ref) :=
  (specPos l node).map (fun k => (l[k + 1]?).map (·.1))

def specPrev (l : Spec) (node : Ref) : Option (Option Ref) :=
  (specPos l node).map (fun k => if k = 0 then none else (l[k - 1]?).map (·.1))

def specFind (l : Spec) (node : Option Ref) (v : Val) : Option (Option Ref) :=
  match node with
  | none => some ((l.find? (·.2 = v)).map (·.1))
  | some n => (specPos l n).map (fun k => ((l.drop k).find? (·.2 = v)).map (·.1))

def specClear (l : Spec) (fr : Bool) : Spec × List Val :=
  ([], if fr then (l.map (·.2)).filter (· ≠ 0) else [])

end MgModel.C11.LL
