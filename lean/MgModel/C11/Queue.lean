import MgModel.C11.DMem
/-!
# C11 — queue (muggle/c/dsaa/queue.c)

Same memory layout as the linked list (sentinels + heap nodes, optional pool).
-/
namespace MgModel.C11.Q

structure Queue where
  mem  : DMem Val
  pool : Option Pool
  size : Nat
  deriving Repr, DecidableEq

def emptyMem : DMem Val :=
  { head := { prev := none, next := some .tail, val := 0 },
    tail := { prev := some .head, next := none, val := 0 },
    cells := [] }

/-- `muggle_queue_init`; `none` = returns false -/
def init (capacity : Nat) : Option Queue :=
  if capacity > 0 then
    if !capValid capacity then none
    else some { mem := emptyMem, pool := some { used := 0, capacity := capacity }, size := 0 }
  else some { mem := emptyMem, pool := none, size := 0 }

/-- `muggle_queue_free_node` -/
def freeNode (s : Queue) (node : Ref) : Except Err Queue := do
  let m ← s.mem.unlink node
  let m ← m.free node
  pure { mem := m, pool := s.pool.map Pool.free, size := (s.size + 2 ^ 64 - 1) % 2 ^ 64 }

/-- `muggle_queue_free_data` -/
def freeData (s : Queue) (node : Ref) (fr : Bool) : Except Err (Queue × List Val) := do
  let c ← s.mem.get node
  if c.val ≠ 0 then
    let m ← s.mem.setVal node 0
    pure ({ s with mem := m }, if fr then [c.val] else [])
  else pure (s, [])

def isEmpty (s : Queue) : Bool := s.mem.head.next = some .tail
def size (s : Queue) : Nat := s.size

/-- the loop of `muggle_queue_clear` -/
def clearLoop (fr : Bool) : Nat → Queue → Ref → List Val → Except Err (Queue × List Val)
  | 0, _, _, _ => .error .ub
  | fuel + 1, s, node, freed =>
    if node = .tail then pure (s, freed)
    else do
      let c ← s.mem.get node
      let next ← deref c.next
      let (s, f) ← freeData s node fr
      let s ← freeNode s node
      clearLoop fr fuel s next (freed ++ f)

/-- `muggle_queue_clear` -/
def clear (s : Queue) (fr : Bool) : Except Err (Queue × List Val) := do
  let first ← deref s.mem.head.next
  let (s, freed) ← clearLoop fr (s.mem.cells.length + 1) s first []
  pure ({ s with size := 0 }, freed)

/-- `muggle_queue_enqueue` (allocation failure is not modelled) -/
def enqueue (s : Queue) (data : Val) : Except Err (Queue × Ref) := do
  let (m, nw) := s.mem.alloc 0
  let m ← m.setVal nw data
  let size := s.size + 1
  let node ← deref m.tail.prev
  let m ← m.linkAfter node nw
  pure ({ mem := m, pool := s.pool.map Pool.alloc, size := size }, nw)

/-- `muggle_queue_dequeue` -/
def dequeue (s : Queue) (fr : Bool) : Except Err (Queue × List Val) :=
  if isEmpty s then pure (s, [])
  else do
    let node ← deref s.mem.head.next
    let (s, freed) ← freeData s node fr
    let s ← freeNode s node
    pure (s, freed)

/-- `muggle_queue_front` with the datum of the returned node -/
def front (s : Queue) : Except Err (Option (Ref × Val)) :=
  if isEmpty s then pure none
  else do
    let node ← deref s.mem.head.next
    let c ← s.mem.get node
    pure (some (node, c.val))

/-- forward traversal: the nodes from `head.next` to `tail` -/
def toList (s : Queue) : Except Err (List (Ref × Val)) := do
  let first ← deref s.mem.head.next
  let refs ← s.mem.walkFwd (s.mem.cells.length + 1) first
  refs.mapM s.mem.readCell

/-- backward traversal -/
def toListRev (s : Queue) : Except Err (List Ref) := do
  let last ← deref s.mem.tail.prev
  s.mem.walkBwd (s.mem.cells.length + 1) last

/-! ## Specification: a FIFO sequence of (node handle, datum) -/

abbrev Spec := List (Ref × Val)

def specEnqueue (l : Spec) (nw : Ref) (v : Val) : Spec := l ++ [(nw, v)]
def specDequeue (l : Spec) (fr : Bool) : Spec × List Val :=
  match l with
  | [] => ([], [])
  | (_, v) :: rest => (rest, if fr ∧ v ≠ 0 then [v] else [])
def specFront (l : Spec) : Option (Ref × Val) := l.head?
def specClear (l : Spec) (fr : Bool) : Spec × List Val :=
  ([], if fr then (l.map (·.2)).filter (· ≠ 0) else [])

/-! ## Operation histories -/

inductive Op where
  | enq (v : Val)
  | deq (fr : Bool)
  | front
  | clear (fr : Bool)
  | dump
  deriving Repr, DecidableEq

inductive Res where
  | node (r : Ref)
  | front (r : Option (Ref × Val))
  | freed (f : List Val)
  | contents (size : Nat) (fwd : List (Ref × Val)) (bwd : List Ref)
  deriving Repr, DecidableEq

def step (s : Queue) : Op → Except Err (Queue × Res)
  | .enq v => do let (s, r) ← enqueue s v; pure (s, .node r)
  | .deq fr => do let (s, f) ← dequeue s fr; pure (s, .freed f)
  | .front => do let r ← front s; pure (s, .front r)
  | .clear fr => do let (s, f) ← clear s fr; pure (s, .freed f)
  | .dump => do
    let fw ← toList s
    let bw ← toListRev s
    pure (s, .contents s.size fw bw)

/-- the reference side: the FIFO sequence and the number `k` of nodes allocated so far -/
def specStep (l : Spec) (k : Nat) : Op → Spec × Nat × Res
  | .enq v => (specEnqueue l (.node k) v, k + 1, .node (.node k))
  | .deq fr => let (l', f) := specDequeue l fr; (l', k, .freed f)
  | .front => (l, k, .front (specFront l))
  | .clear fr => let (l', f) := specClear l fr; (l', k, .freed f)
  | .dump => (l, k, .contents l.length l (l.map (·.1)).reverse)

def run (s : Queue) : List Op → Except Err (Queue × List Res)
  | [] => .ok (s, [])
  | op :: ops => do
    let (s1, r) ← step s op
    let (s2, rs) ← run s1 ops
    pure (s2, r :: rs)

def specRun (l : Spec) (k : Nat) : List Op → Spec × Nat × List Res
  | [] => (l, k, [])
  | op :: ops =>
    let (l1, k1, r) := specStep l k op
    let (l2, k2, rs) := specRun l1 k1 ops
    (l2, k2, r :: rs)

end MgModel.C11.Q
