import MgModel.C11.Basic
/-!
# C11 — array list (muggle/c/dsaa/array_list.c)

State = the C struct: `nodes` (the malloc'ed storage, one entry per allocated
node), `capacity`, `size`. One function per C function; the shifting loops are
executed element by element on the storage. `index` arguments are C `int`s, i.e.
the functions are meant for `-2^31 ≤ index < 2^31`.

Every operation that may call the `func_free` callback returns the list of data
pointers the callback was invoked with, in call order (`fr = false` is
`func_free == NULL`).
-/
namespace MgModel.C11.AL

structure AL where
  nodes    : Store
  capacity : Nat
  size     : Nat
  deriving Repr, DecidableEq

/-- `muggle_array_list_get_index` **with fixes/C11-array-list-int-min.patch applied**
(the negation is done in 64 bits); `none` is the C result `-1`. -/
def getIndex (size : Nat) (index : Int) : Option Nat :=
  if index ≥ 0 then
    if index.toNat ≥ size then none else some index.toNat
  else if (-index).toNat > size then none
  else some (size - (-index).toNat)

/-- `muggle_array_list_get_index` as in the pinned tree: `-index` is evaluated in
`int` and overflows for `index = INT_MIN` (undefined behaviour). -/
def getIndexOrig (size : Nat) (index : Int) : Except Err (Option Nat) :=
  if index ≥ 0 then .ok (getIndex size index)
  else if index = -(2 : Int) ^ 31 then .error .ub
  else .ok (getIndex size index)

/-- `muggle_array_list_init`; `none` = returns false (malloc failure is not modelled) -/
def init (capacity : Nat) : Option AL :=
  let capacity := if capacity = 0 then 8 else capacity
  if !capValid capacity then none
  else some { nodes := List.replicate capacity none, capacity := capacity, size := 0 }

def isEmpty (s : AL) : Bool := s.size = 0
def size (s : AL) : Nat := s.size

/-- `muggle_array_list_clear` -/
def clear (s : AL) (fr : Bool) : Except Err (AL × List Val) := do
  let freed ← if fr then clearLoop s.nodes s.size else pure []
  pure ({ s with size := 0 }, freed)

/-- `muggle_array_list_ensure_capacity` -/
def ensureCapacity (s : AL) (capacity : Nat) : Except Err (AL × Bool) :=
  if s.capacity ≥ capacity then pure (s, true)
  else if !capValid capacity then pure (s, false)
  else do
    let nodes ← copyLoop s.nodes (List.replicate capacity none) s.size
    pure ({ s with nodes := nodes, capacity := capacity }, true)

/-- `muggle_array_list_index`: the node index (offset from `nodes`) or `none` = NULL,
together with the datum stored there -/
def index (s : AL) (index : Int) : Except Err (Option (Nat × Val)) := do
  match getIndex s.size index with
  | none => pure none
  | some i =>
    let v ← rd s.nodes i
    pure (some (i, v))

/-- one iteration of the search loop of `find` (`r` = already found) -/
def findStep (a : Store) (idx : Nat) (data : Val) (r : Option Nat) (k : Nat) :
    Except Err (Option Nat) :=
  match r with
  | some j => pure (some j)
  | none => do
    let v ← rd a (idx + k)
    pure (if v = data then some (idx + k) else none)

/-- `muggle_array_list_find` with a comparison callback that is equality of the data -/
def find (s : AL) (index : Int) (data : Val) : Except Err (Option Nat) :=
  match getIndex s.size index with
  | none => pure none
  | some idx => (List.range (s.size - idx)).foldlM (findStep s.nodes idx data) none

/-- the growth step at the start of insert/append -/
def growIfFull (s : AL) : Except Err (AL × Bool) :=
  if s.size = s.capacity then ensureCapacity s (s.capacity * 2) else pure (s, true)

/-- the position decision shared by insert and append -/
def position (s : AL) (index : Int) : Option Nat :=
  match getIndex s.size index with
  | some i => some i
  | none => if (index = 0 ∨ index = -1) ∧ s.size = 0 then some 0 else none

/-- `for (int i = hi - 1; i >= lo /* or > lo */; i--) nodes[i+1] = nodes[i];`
as `cnt` iterations starting at `i = hi - 1` -/
def shiftUp (a : Store) (hi cnt : Nat) : Except Err Store :=
  (List.range cnt).foldlM (fun a k => do
    let v ← rd a (hi - 1 - k)
    wr a (hi - 1 - k + 1) v) a

/-- `for (int i = lo; i < hi - 1; i++) nodes[i] = nodes[i+1];` -/
def shiftDown (a : Store) (lo cnt : Nat) : Except Err Store :=
  (List.range cnt).foldlM (fun a k => do
    let v ← rd a (lo + k + 1)
    wr a (lo + k) v) a

/-- `muggle_array_list_insert`: returns the offset of the returned node, `none` = NULL -/
def insert (s : AL) (index : Int) (data : Val) : Except Err (AL × Option Nat) := do
  let (s, ok) ← growIfFull s
  if !ok then return (s, none)
  match position s index with
  | none => return (s, none)
  | some idx =>
    let nodes ← shiftUp s.nodes s.size (s.size - idx)
    let nodes ← wr nodes idx data
    return ({ s with nodes := nodes, size := s.size + 1 }, some idx)

/-- `muggle_array_list_append` -/
def append (s : AL) (index : Int) (data : Val) : Except Err (AL × Option Nat) := do
  let (s, ok) ← growIfFull s
  if !ok then return (s, none)
  match position s index with
  | none => return (s, none)
  | some idx =>
    let nodes ← shiftUp s.nodes s.size (s.size - 1 - idx)
    let idx := if s.size = 0 then 0 else idx + 1
    let nodes ← wr nodes idx data
    return ({ s with nodes := nodes, size := s.size + 1 }, some idx)

/-- `muggle_array_list_remove` (the callback is invoked even for a NULL datum) -/
def remove (s : AL) (index : Int) (fr : Bool) : Except Err (AL × Bool × List Val) := do
  match getIndex s.size index with
  | none => return (s, false, [])
  | some idx =>
    let freed ← if fr then (do let v ← rd s.nodes idx; pure [v]) else pure []
    let nodes ← shiftDown s.nodes idx (s.size - 1 - idx)
    return ({ s with nodes := nodes, size := s.size - 1 }, true, freed)

/-- contents as the harness dumps them: `nodes[0..size)` -/
def contents (s : AL) : Except Err (List Val) :=
  (List.range s.size).mapM (fun i => rd s.nodes i)

/-! ## Specification: a plain sequence -/

/-- normalised position: `i ≥ 0` counts from the front, `i < 0` from the back -/
def normIndex (n : Nat) (i : Int) : Option Nat :=
  if 0 ≤ i then (if i < n then some i.toNat else none)
  else (if -i ≤ n then some (n - (-i).toNat) else none)

/-- position accepted by insert/append: a valid one, or `0`/`-1` on the empty list -/
def specPos (l : List Val) (i : Int) : Option Nat :=
  match normIndex l.length i with
  | some k => some k
  | none => if l = [] ∧ (i = 0 ∨ i = -1) then some 0 else none

/-- insert before the addressed element -/
def specInsert (l : List Val) (i : Int) (v : Val) : List Val × Option Nat :=
  match specPos l i with
  | some k => (l.insertIdx k v, some k)
  | none => (l, none)

/-- insert after the addressed element -/
def specAppend (l : List Val) (i : Int) (v : Val) : List Val × Option Nat :=
  match specPos l i with
  | some k => if l = [] then ([v], some 0) else (l.insertIdx (k + 1) v, some (k + 1))
  | none => (l, none)

def specRemove (l : List Val) (i : Int) (fr : Bool) : List Val × Bool × List Val :=
  match normIndex l.length i with
  | some k => (l.eraseIdx k, true, if fr then (l.drop k).take 1 else [])
  | none => (l, false, [])

def specIndex (l : List Val) (i : Int) : Option (Nat × Val) :=
  match normIndex l.length i with
  | some k => (l[k]?).map (fun v => (k, v))
  | none => none

/-- first position `≥` the addressed one holding `v` -/
def specFind (l : List Val) (i : Int) (v : Val) : Option Nat :=
  match normIndex l.length i with
  | some k => match (l.drop k).idxOf? v with
    | some j => some (k + j)
    | none => none
  | none => none

def specClear (l : List Val) (fr : Bool) : List Val × List Val :=
  ([], if fr then l.filter (· ≠ 0) else [])

/-! ## Operation histories -/

inductive Op where
  | insert (i : Int) (v : Val)
  | append (i : Int) (v : Val)
  | remove (i : Int) (fr : Bool)
  | get (i : Int)
  | find (i : Int) (v : Val)
  | clear (fr : Bool)
  | ensure (c : Nat)
  | dump
  deriving Repr, DecidableEq

/-- what a caller observes of one call (node offsets, booleans, callback log, contents) -/
inductive Res where
  | pos (r : Option Nat)
  | removed (ok : Bool) (freed : List Val)
  | cell (r : Option (Nat × Val))
  | found (r : Option Nat)
  | cleared (freed : List Val)
  | ensured
  | contents (size : Nat) (l : List Val)
  deriving Repr, DecidableEq

/-- one API call on the model -/
def step (s : AL) : Op → Except Err (AL × Res)
  | .insert i v => do let (s, r) ← insert s i v; pure (s, .pos r)
  | .append i v => do let (s, r) ← append s i v; pure (s, .pos r)
  | .remove i fr => do let (s, ok, f) ← remove s i fr; pure (s, .removed ok f)
  | .get i => do let r ← index s i; pure (s, .cell r)
  | .find i v => do let r ← find s i v; pure (s, .found r)
  | .clear fr => do let (s, f) ← clear s fr; pure (s, .cleared f)
  | .ensure c => do let (s, _) ← ensureCapacity s c; pure (s, .ensured)
  | .dump => do let c ← contents s; pure (s, .contents s.size c)

/-- the same call on the reference sequence -/
def specStep (l : List Val) : Op → List Val × Res
  | .insert i v => let (l', r) := specInsert l i v; (l', .pos r)
  | .append i v => let (l', r) := specAppend l i v; (l', .pos r)
  | .remove i fr => let (l', ok, f) := specRemove l i fr; (l', .removed ok f)
  | .get i => (l, .cell (specIndex l i))
  | .find i v => (l, .found (specFind l i v))
  | .clear fr => let (l', f) := specClear l fr; (l', .cleared f)
  | .ensure _ => (l, .ensured)
  | .dump => (l, .contents l.length l)

def run (s : AL) : List Op → Except Err (AL × List Res)
  | [] => .ok (s, [])
  | op :: ops => do
    let (s1, r) ← step s op
    let (s2, rs) ← run s1 ops
    pure (s2, r :: rs)

def specRun (l : List Val) : List Op → List Val × List Res
  | [] => (l, [])
  | op :: ops =>
    let (l1, r) := specStep l op
    let (l2, rs) := specRun l1 ops
    (l2, r :: rs)

/-! ## Ownership bookkeeping of a history (used by the ownership theorem) -/

/-- the data the history stored successfully (insert/append that returned a node) -/
def stored : List Op → List Res → List Val
  | .insert _ v :: ops, .pos (some _) :: rs => v :: stored ops rs
  | .append _ v :: ops, .pos (some _) :: rs => v :: stored ops rs
  | _ :: ops, _ :: rs => stored ops rs
  | _, _ => []

/-- the data handed to the free callback, in call order -/
def freedBy : List Res → List Val
  | .removed _ f :: rs => f ++ freedBy rs
  | .cleared f :: rs => f ++ freedBy rs
  | _ :: rs => freedBy rs
  | [] => []

/-- every remove / clear of the history passes the free callback -/
def AllFree : List Op → Prop
  | .remove _ fr :: ops => fr = true ∧ AllFree ops
  | .clear fr :: ops => fr = true ∧ AllFree ops
  | _ :: ops => AllFree ops
  | [] => True

end MgModel.C11.AL
