import MgModel.C11.Basic
/-!
# C11 — memory of doubly linked cells

`linked_list.c`, `queue.c` and `pointer_slot.c` all keep a doubly linked list
between two sentinel cells (`head`, `tail`) embedded in the container struct.
`DMem α` is that memory: the two sentinels plus the individually addressable
cells (heap nodes / the `slots[]` array), each with `prev`, `next` and a payload.
A pointer is a `Ref`; `Option Ref` is a possibly-NULL pointer. A freed heap node
is `none` in `cells`; touching it is `Err.uaf`.
-/
namespace MgModel.C11

inductive Ref where
  | head
  | tail
  | node (i : Nat)
  deriving Repr, DecidableEq

structure Cell (α : Type) where
  prev : Option Ref
  next : Option Ref
  val  : α
  deriving Repr, DecidableEq

structure DMem (α : Type) where
  head  : Cell α
  tail  : Cell α
  cells : List (Option (Cell α))
  deriving Repr, DecidableEq

namespace DMem
variable {α : Type}

/-- dereference a pointer for reading -/
def get (m : DMem α) : Ref → Except Err (Cell α)
  | .head => .ok m.head
  | .tail => .ok m.tail
  | .node i =>
    match m.cells[i]? with
    | none => .error .oob
    | some none => .error .uaf
    | some (some c) => .ok c

/-- store a whole cell through a pointer (the cell must be allocated) -/
def set (m : DMem α) (r : Ref) (c : Cell α) : Except Err (DMem α) :=
  match r with
  | .head => .ok { m with head := c }
  | .tail => .ok { m with tail := c }
  | .node i =>
    match m.cells[i]? with
    | none => .error .oob
    | some none => .error .uaf
    | some (some _) => .ok { m with cells := m.cells.set i (some c) }

/-- `r->prev = p` -/
def setPrev (m : DMem α) (r : Ref) (p : Option Ref) : Except Err (DMem α) := do
  let c ← m.get r
  m.set r { c with prev := p }

/-- `r->next = n` -/
def setNext (m : DMem α) (r : Ref) (n : Option Ref) : Except Err (DMem α) := do
  let c ← m.get r
  m.set r { c with next := n }

/-- `r-><payload> = v` -/
def setVal (m : DMem α) (r : Ref) (v : α) : Except Err (DMem α) := do
  let c ← m.get r
  m.set r { c with val := v }

/-- a freshly allocated node (its `prev`/`next` are written before they are read) -/
def alloc (m : DMem α) (v : α) : DMem α × Ref :=
  ({ m with cells := m.cells ++ [some { prev := none, next := none, val := v }] },
   .node m.cells.length)

/-- `free(node)` -/
def free (m : DMem α) (r : Ref) : Except Err (DMem α) :=
  match r with
  | .node i =>
    match m.cells[i]? with
    | some (some _) => .ok { m with cells := m.cells.set i none }
    | some none => .error .uaf
    | none => .error .oob
  | _ => .error .ub

/-- follow `next` from `cur` until `tail`, collecting the cells passed;
`fuel` bounds the walk (running out of fuel means a cycle: `Err.ub`) -/
def walkFwd (m : DMem α) : Nat → Ref → Except Err (List Ref)
  | 0, _ => .error .ub
  | fuel + 1, cur =>
    if cur = .tail then .ok []
    else do
      let c ← m.get cur
      match c.next with
      | none => .error .null
      | some n => do
        let rest ← walkFwd m fuel n
        pure (cur :: rest)

/-- follow `prev` from `cur` until `head` -/
def walkBwd (m : DMem α) : Nat → Ref → Except Err (List Ref)
  | 0, _ => .error .ub
  | fuel + 1, cur =>
    if cur = .head then .ok []
    else do
      let c ← m.get cur
      match c.prev with
      | none => .error .null
      | some n => do
        let rest ← walkBwd m fuel n
        pure (cur :: rest)

end DMem

/-- dereferencing a possibly-NULL pointer -/
def deref (p : Option Ref) : Except Err Ref :=
  match p with
  | some r => .ok r
  | none => .error .null

namespace DMem
variable {α : Type}

/-- read the payload behind a pointer, keeping the pointer -/
def readCell (m : DMem α) (r : Ref) : Except Err (Ref × α) := do
  let c ← m.get r
  pure (r, c.val)

/-- insert-before surgery of `muggle_linked_list_insert`:
`node->prev->next = new; new->prev = node->prev; new->next = node; node->prev = new;` -/
def linkBefore (m : DMem α) (node nw : Ref) : Except Err (DMem α) := do
  let c ← m.get node
  let p ← deref c.prev
  let m ← m.setNext p (some nw)             -- node->prev->next = new_node
  let c ← m.get node
  let m ← m.setPrev nw c.prev               -- new_node->prev = node->prev
  let m ← m.setNext nw (some node)          -- new_node->next = node
  m.setPrev node (some nw)                  -- node->prev = new_node

/-- insert-after surgery of `muggle_linked_list_append` / `muggle_queue_enqueue`:
`node->next->prev = new; new->next = node->next; new->prev = node; node->next = new;` -/
def linkAfter (m : DMem α) (node nw : Ref) : Except Err (DMem α) := do
  let c ← m.get node
  let n ← deref c.next
  let m ← m.setPrev n (some nw)             -- node->next->prev = new_node
  let c ← m.get node
  let m ← m.setNext nw c.next               -- new_node->next = node->next
  let m ← m.setPrev nw (some node)          -- new_node->prev = node
  m.setNext node (some nw)                  -- node->next = new_node

/-- link-at-tail surgery of `muggle_pointer_slot_insert`:
`p->prev = tail.prev; p->next = &tail; tail.prev->next = p; tail.prev = p;` -/
def linkTail (m : DMem α) (nw : Ref) : Except Err (DMem α) := do
  let m ← m.setPrev nw m.tail.prev          -- p_slot->prev = tail.prev
  let m ← m.setNext nw (some .tail)         -- p_slot->next = &tail
  let tp ← deref m.tail.prev
  let m ← m.setNext tp (some nw)            -- tail.prev->next = p_slot
  m.setPrev .tail (some nw)                 -- tail.prev = p_slot

/-- unlink surgery of `*_free_node` / `muggle_pointer_slot_remove`:
`node->prev->next = node->next; node->next->prev = node->prev;` -/
def unlink (m : DMem α) (node : Ref) : Except Err (DMem α) := do
  let c ← m.get node
  let p ← deref c.prev
  let m ← m.setNext p c.next                -- node->prev->next = node->next
  let c ← m.get node
  let n ← deref c.next
  m.setPrev n c.prev                        -- node->next->prev = node->prev

end DMem

/-- element counters of the node pool (`muggle_memory_pool_t`) as far as the
containers can observe them -/
structure Pool where
  used     : Nat
  capacity : Nat
  deriving Repr, DecidableEq

/-- `muggle_memory_pool_alloc`, counters only: grow by `min(capacity, max_delta_cap)`
(`max_delta_cap = 512·1024` for blocks ≤ 8 KiB) when every block is in use -/
def Pool.alloc (p : Pool) : Pool :=
  let p := if p.used = p.capacity then
      { p with capacity := p.capacity + (if p.capacity > 512 * 1024 then 512 * 1024 else p.capacity) }
    else p
  { p with used := p.used + 1 }

/-- `muggle_memory_pool_free`, counters only (`--used` on a `uint32_t`) -/
def Pool.free (p : Pool) : Pool :=
  { p with used := (p.used + 2 ^ 32 - 1) % 2 ^ 32 }

end MgModel.C11
