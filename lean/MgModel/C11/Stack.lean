import MgModel.C11.Basic
/-!
# C11 — stack (muggle/c/dsaa/stack.c)

State = the C struct: `nodes` (malloc'ed storage), `capacity`, `top`.
-/
namespace MgModel.C11.Stk

structure Stack where
  nodes    : Store
  capacity : Nat
  top      : Nat
  deriving Repr, DecidableEq

/-- `muggle_stack_init`; `none` = returns false -/
def init (capacity : Nat) : Option Stack :=
  let capacity := if capacity = 0 then 8 else capacity
  if !capValid capacity then none
  else some { nodes := List.replicate capacity none, capacity := capacity, top := 0 }

def isEmpty (s : Stack) : Bool := s.top = 0
def size (s : Stack) : Nat := s.top

/-- `muggle_stack_clear` -/
def clear (s : Stack) (fr : Bool) : Except Err (Stack × List Val) := do
  let freed ← if fr then clearLoop s.nodes s.top else pure []
  pure ({ s with top := 0 }, freed)

/-- `muggle_stack_ensure_capacity` -/
def ensureCapacity (s : Stack) (capacity : Nat) : Except Err (Stack × Bool) :=
  if s.capacity ≥ capacity then pure (s, true)
  else if !capValid capacity then pure (s, false)
  else do
    let nodes ← copyLoop s.nodes (List.replicate capacity none) s.top
    pure ({ s with nodes := nodes, capacity := capacity }, true)

/-- `muggle_stack_push`: offset of the returned node, `none` = NULL -/
def push (s : Stack) (data : Val) : Except Err (Stack × Option Nat) := do
  let (s, ok) ← if s.top = s.capacity then ensureCapacity s (s.capacity * 2) else pure (s, true)
  if !ok then return (s, none)
  let nodes ← wr s.nodes s.top data
  return ({ s with nodes := nodes, top := s.top + 1 }, some s.top)

/-- `muggle_stack_top`: offset and datum of the top node, `none` = NULL -/
def top (s : Stack) : Except Err (Option (Nat × Val)) :=
  if s.top = 0 then pure none
  else do
    let v ← rd s.nodes (s.top - 1)
    pure (some (s.top - 1, v))

/-- `muggle_stack_pop` -/
def pop (s : Stack) (fr : Bool) : Except Err (Stack × List Val) :=
  if s.top = 0 then pure (s, [])
  else do
    let s := { s with top := s.top - 1 }
    if fr then
      let v ← rd s.nodes s.top
      pure (s, if v ≠ 0 then [v] else [])
    else pure (s, [])

def contents (s : Stack) : Except Err (List Val) :=
  (List.range s.top).mapM (fun i => rd s.nodes i)

/-! ## Specification: a list whose last element is the top -/

def specPush (l : List Val) (v : Val) : List Val × Option Nat := (l ++ [v], some l.length)
def specTop (l : List Val) : Option (Nat × Val) :=
  match l.getLast? with
  | some v => some (l.length - 1, v)
  | none => none
def specPop (l : List Val) (fr : Bool) : List Val × List Val :=
  (l.dropLast, if fr then (match l.getLast? with | some v => if v ≠ 0 then [v] else [] | none => []) else [])
def specClear (l : List Val) (fr : Bool) : List Val × List Val :=
  ([], if fr then l.filter (· ≠ 0) else [])

end MgModel.C11.Stk
