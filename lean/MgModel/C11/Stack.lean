import MgModel.C11.Basic
/-!
# C11 — stack (muggle/c/dsaa/stack.c)

State = the C struct: `nodes` (malloc'ed storage), `capacity`, `top`.
-/
namespace MgModel.C11.Stk

structure Stack where
  nodes    : Store
  capacity : Nat
  top      : Nat
  deriving Repr, DecidableEq

/-- `muggle_stack_init`; `none` = returns false -/
def init (capacity : Nat) : Option Stack :=
  let capacity := if capacity = 0 then 8 else capacity
  if !capValid capacity then none
  else some { nodes := List.replicate capacity none, capacity := capacity, top := 0 }

def isEmpty (s : Stack) : Bool := s.top = 0
def size (s : Stack) : Nat := s.top

/-- `muggle_stack_clear` -/
def clear (s : Stack) (fr : Bool) : Except Err (Stack × List Val) := do
  let freed ← if fr then clearLoop s.nodes s.top else pure []
  pure ({ s with top := 0 }, freed)

/-- `muggle_stack_ensure_capacity` -/
def ensureCapacity (s : Stack) (capacity : Nat) : Except Err (Stack × Bool) :=
  if s.capacity ≥ capacity then pure (s, true)
  else if !capValid capacity then pure (s, false)
  else do
    let nodes ← copyLoop s.nodes (List.replicate capacity none) s.top
    pure ({ s with nodes := nodes, capacity := capacity }, true)

/-- the growth step at the start of push -/
def growIfFull (s : Stack) : Except Err (Stack × Bool) :=
  if s.top = s.capacity then ensureCapacity s (s.capacity * 2) else pure (s, true)

/-- `muggle_stack_push`: offset of the returned node, `none` = NULL -/
def push (s : Stack) (data : Val) : Except Err (Stack × Option Nat) := do
  let (s, ok) ← growIfFull s
  if !ok then return (s, none)
  let nodes ← wr s.nodes s.top data
  return ({ s with nodes := nodes, top := s.top + 1 }, some s.top)

/-- `muggle_stack_top`: offset and datum of the top node, `none` = NULL -/
def top (s : Stack) : Except Err (Option (Nat × Val)) :=
  if s.top = 0 then pure none
  else do
    let v ← rd s.nodes (s.top - 1)
    pure (some (s.top - 1, v))

/-- `muggle_stack_pop` -/
def pop (s : Stack) (fr : Bool) : Except Err (Stack × List Val) :=
  if s.top = 0 then pure (s, [])
  else do
    let s := { s with top := s.top - 1 }
    if fr then
      let v ← rd s.nodes s.top
      pure (s, if v ≠ 0 then [v] else [])
    else pure (s, [])

def contents (s : Stack) : Except Err (List Val) :=
  (List.range s.top).mapM (fun i => rd s.nodes i)

/-! ## Specification: a list whose last element is the top -/

def specPush (l : List Val) (v : Val) : List Val × Option Nat := (l ++ [v], some l.length)
def specTop (l : List Val) : Option (Nat × Val) :=
  match l.getLast? with
  | some v => some (l.length - 1, v)
  | none => none
def specPop (l : List Val) (fr : Bool) : List Val × List Val :=
  (l.dropLast, if fr then (match l.getLast? with | some v => if v ≠ 0 then [v] else [] | none => []) else [])
def specClear (l : List Val) (fr : Bool) : List Val × List Val :=
  ([], if fr then l.filter (· ≠ 0) else [])

/-! ## Operation histories -/

inductive Op where
  | push (v : Val)
  | top
  | pop (fr : Bool)
  | clear (fr : Bool)
  | ensure (c : Nat)
  | dump
  deriving Repr, DecidableEq

inductive Res where
  | pos (r : Option Nat)
  | cell (r : Option (Nat × Val))
  | freed (f : List Val)
  | ensured
  | contents (size : Nat) (l : List Val)
  deriving Repr, DecidableEq

def step (s : Stack) : Op → Except Err (Stack × Res)
  | .push v => do let (s, r) ← push s v; pure (s, .pos r)
  | .top => do let r ← top s; pure (s, .cell r)
  | .pop fr => do let (s, f) ← pop s fr; pure (s, .freed f)
  | .clear fr => do let (s, f) ← clear s fr; pure (s, .freed f)
  | .ensure c => do let (s, _) ← ensureCapacity s c; pure (s, .ensured)
  | .dump => do let c ← contents s; pure (s, .contents s.top c)

def specStep (l : List Val) : Op → List Val × Res
  | .push v => let (l', r) := specPush l v; (l', .pos r)
  | .top => (l, .cell (specTop l))
  | .pop fr => let (l', f) := specPop l fr; (l', .freed f)
  | .clear fr => let (l', f) := specClear l fr; (l', .freed f)
  | .ensure _ => (l, .ensured)
  | .dump => (l, .contents l.length l)

def run (s : Stack) : List Op → Except Err (Stack × List Res)
  | [] => .ok (s, [])
  | op :: ops => do
    let (s1, r) ← step s op
    let (s2, rs) ← run s1 ops
    pure (s2, r :: rs)

def specRun (l : List Val) : List Op → List Val × List Res
  | [] => (l, [])
  | op :: ops =>
    let (l1, r) := specStep l op
    let (l2, rs) := specRun l1 ops
    (l2, r :: rs)

end MgModel.C11.Stk
