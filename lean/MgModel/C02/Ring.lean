import MgModel.Common.Conc
/-!
# C02 / C03 — `muggle_ring_buffer_*` under W writers and R readers

Model of `muggle/c/sync/ring_buffer.c` (`MUGGLE_RING_BUFFER_USE_SYNC` branch: futex on
`cursor`), `spinlock.c`, the pthread `read_mutex`, driven by the most general client that
respects the documented no-lapping precondition (harness/c02/conc_ring.c):

    writer w:  vs_step("start");
               for k < nw: { while (!can_write()) sched_yield(); started++;
                             payload[id] = ..; muggle_ring_buffer_write(&rb, &payload[id]); }
    reader r:  vs_step("start");
               for j < nr: { d = muggle_ring_buffer_read(&rb, (uint32_t)(base + j)); note "got j d" }

One step = one shared-memory access / blocking primitive of the real object code (the
granularity of the tsanshim scheduler); the event strings are the shim's.

* write_lock:   `spinlock_lock; blocks[cursor] = data; cursor =rel (cursor+1)&(cap-1); spinlock_unlock`
* write_single: the same without the spinlock
* wake:         wait → futex-wake all; single-wait, once → futex-wake 1; busy → nothing
* read_wait:    `rpos = idx&(cap-1); loop { wpos =acq cursor; if (wpos != rpos) return blocks[rpos]; futex_wait(cursor, wpos) }`
* read_busy:    the same without the futex
* read_once:    `mutex_lock; loop { wpos =acq cursor; if (read_cursor != wpos) { ret = blocks[read_cursor];
                 read_cursor = (read_cursor+1)&(cap-1); break }; futex_wait(cursor, wpos) }; mutex_unlock`

Ghost state: `written` (messages in order of the release store of `cursor` — the
linearisation point), `got t` (what reader `t` was handed), `delivered` (read-once: messages
with their reader in `read_mutex` order), `started`/`totalDone` (the harness's throttle
counters), release/acquire knowledge sets (`know`, `relCursor`, `relSpin`, `relMtx`) and
`hbViol` (a reader was handed a message whose payload it is not guaranteed to see),
`oob` (a slot index outside `[0, cap)` — undefined behaviour in C).
-/
namespace MgModel.C02
open MgModel.Conc

inductive WMode where
  | lock | single
  deriving Repr, DecidableEq

inductive RMode where
  | wait | singleWait | busy | once
  deriving Repr, DecidableEq

/-- `muggle_ring_buffer_get_mode`: `none` = MUGGLE_ERR_INVALID_PARAM -/
def getMode (flag : Nat) : Option (WMode × RMode) :=
  let w := if flag &&& 0x01 ≠ 0 then WMode.single else WMode.lock
  if flag &&& 0x02 ≠ 0 then
    if flag &&& 0x08 ≠ 0 then some (w, .busy) else some (w, .singleWait)
  else if flag &&& 0x10 ≠ 0 then
    if flag &&& 0x08 ≠ 0 then none else some (w, .once)
  else
    if flag &&& 0x08 ≠ 0 then some (w, .busy) else some (w, .wait)

/-- smallest power of two `≥ x` among `1, 2, 4, …, 2^fuel` -/
def nextPow2Aux (x : Nat) : Nat → Nat → Nat
  | 0, p => p
  | fuel + 1, p => if x ≤ p then p else nextPow2Aux x fuel (2 * p)

/-- `muggle_next_pow_of_2` on its 32-bit argument range (`1 ≤ x ≤ 2^32`) -/
def nextPow2 (x : Nat) : Nat := nextPow2Aux x 32 1

/-- `muggle_ring_buffer_init`: the rounded capacity and the modes, or the error code.
`capacity` is a `uint32_t`; the rounded value is cast to `int` and must stay positive. -/
def initRing (capreq flag : Nat) : Except Nat (Nat × WMode × RMode) :=
  if capreq = 0 then .error 6 else
  let cap := nextPow2 capreq
  if cap ≥ 2 ^ 31 then .error 6 else
  match getMode flag with
  | none => .error 6
  | some (w, r) => .ok (cap, w, r)

def wmodeNum : WMode → Nat | .lock => 0 | .single => 1
def rmodeNum : RMode → Nat | .wait => 0 | .singleWait => 1 | .busy => 2 | .once => 3

/-- `MUGGLE_IDX_IN_POW_OF_2_RING(x, cap)` -/
def ringIdx (x cap : Nat) : Nat := x &&& (cap - 1)

structure Cfg where
  cap  : Nat
  wm   : WMode
  rm   : RMode
  nW   : Nat
  nR   : Nat
  nw   : Nat      -- messages per writer
  nr   : Nat      -- reads per reader
  base : Nat      -- first index asked for by the readers (32-bit)
  lim  : Nat      -- writers may run at most `lim` messages ahead (no-lapping: lim ≤ cap - 1)
  deriving Repr

/-- number of messages written before the threads start, so that index `base` is next -/
def Cfg.pre (c : Cfg) : Nat := if c.rm = .once then 0 else c.base % c.cap

def Cfg.nT (c : Cfg) : Nat := c.nW + c.nR

inductive Pc where
  | start                      -- parked in vs_step("start")
  | thr                        -- writer: throttled, parked in sched_yield()
  | wSpin                      -- spinlock: about to test_and_set
  | wYield                     -- spinlock: TAS failed, about to sched_yield
  | wRdCur1                    -- about to read cursor (slot index)
  | wSlot (c : Nat)            -- about to store blocks[c]
  | wRdCur2                    -- about to read cursor (for cursor + 1)
  | wStCur (c : Nat)           -- about to release-store cursor := (c+1)&(cap-1)
  | wUnlock                    -- about to clear the spinlock
  | wWake                      -- about to futex-wake
  | rLdCur                     -- reader (wait/busy): about to acquire-load cursor
  | rSlot                      -- reader (wait/busy): about to read blocks[rpos]
  | rFwait (v : Nat)           -- about to futex_wait(cursor, v)
  | rBlocked                   -- parked in the futex
  | rWoken                     -- woken, about to return from futex_wait
  | oLock                      -- read-once: about to lock read_mutex
  | oLdCur                     -- read-once: about to acquire-load cursor
  | oRc1 (v : Nat)             -- read-once: about to read read_cursor (comparison with wpos = v)
  | oRc2                       -- read-once: about to read read_cursor (slot index)
  | oSlot (rc : Nat)           -- read-once: about to read blocks[rc]
  | oRc3 (m : Nat)             -- read-once: about to read read_cursor (for + 1)
  | oWrRc (m rc : Nat)         -- read-once: about to store read_cursor := (rc+1)&(cap-1)
  | oUnlock (m : Nat)          -- read-once: about to unlock read_mutex
  | done
  deriving Repr, DecidableEq

structure St where
  spin       : Nat := 0
  cursor     : Nat := 0
  readCursor : Nat := 0
  rmtx       : Nat := 0
  blocks     : Nat → Nat := fun _ => 0
  pc         : Nat → Pc
  wk         : Nat → Nat := fun _ => 0    -- writer: messages completed
  rk         : Nat → Nat := fun _ => 0    -- reader: reads completed
  -- ghost
  started    : Nat := 0
  totalDone  : Nat := 0
  written    : List Nat := []
  got        : Nat → List Nat := fun _ => []
  delivered  : List (Nat × Nat) := []
  know       : Nat → List Nat := fun _ => []
  relCursor  : List Nat := []
  relSpin    : List Nat := []
  relMtx     : List Nat := []
  hbViol     : Nat := 0
  oob        : Nat := 0

def msgId (t k : Nat) : Nat := (t + 1) * 100 + k

/-- union of two knowledge sets (kept duplicate-free so that the lists stay small) -/
def join (a b : List Nat) : List Nat := a ++ b.filter (fun m => !a.contains m)

/-- ids of the prefilled messages: 1..p -/
def preMsgs (p : Nat) : List Nat := (List.range p).map (· + 1)

def mkInit (c : Cfg) : St :=
  let p := c.pre
  { cursor := ringIdx p c.cap,
    blocks := fun i => if i < p then i + 1 else 0,
    pc := fun t => if t < c.nT then .start else .done,
    started := p,
    written := preMsgs p,
    know := fun _ => preMsgs p,
    relCursor := preMsgs p,
    relSpin := preMsgs p }

def isReader (c : Cfg) (t : Nat) : Bool := c.nW ≤ t && t < c.nT

/-- the harness's throttle `can_write()` -/
def canWrite (c : Cfg) (s : St) : Bool :=
  let rs := (List.range c.nT).filter (isReader c)
  if rs.all (fun t => c.nr ≤ s.rk t) then true
  else if c.rm = .once then s.started < s.totalDone + c.lim
  else rs.all (fun t => c.nr ≤ s.rk t || s.started < c.pre + s.rk t + c.lim)

def firstWritePc (c : Cfg) : Pc := match c.wm with | .lock => .wSpin | .single => .wRdCur1

/-- top of the writer's loop: next message, throttle, or done -/
def writerNext (c : Cfg) (s : St) (t : Nat) : St :=
  if c.nw ≤ s.wk t then { s with pc := upd s.pc t .done }
  else if canWrite c s then
    { s with started := s.started + 1,
             know := upd s.know t (msgId t (s.wk t) :: s.know t),
             pc := upd s.pc t (firstWritePc c) }
  else { s with pc := upd s.pc t .thr }

/-- return of `muggle_ring_buffer_write` -/
def finishWrite (c : Cfg) (s : St) (t : Nat) : St :=
  writerNext c { s with wk := upd s.wk t (s.wk t + 1) } t

def firstReadPc (c : Cfg) : Pc := match c.rm with | .once => .oLock | _ => .rLdCur

def readerNext (c : Cfg) (s : St) (t : Nat) : St :=
  if c.nr ≤ s.rk t then { s with pc := upd s.pc t .done }
  else { s with pc := upd s.pc t (firstReadPc c) }

/-- return of `muggle_ring_buffer_read` with result `m` -/
def finishRead (c : Cfg) (s : St) (t : Nat) (m : Nat) : St :=
  readerNext c { s with rk := upd s.rk t (s.rk t + 1), totalDone := s.totalDone + 1,
                        hbViol := s.hbViol + (if m ∈ s.know t then 0 else 1) } t

/-- slot position the (wait/busy) reader `t` is looking at: the index is masked in
`muggle_ring_buffer_read` and again in the mode function -/
def rposOf (c : Cfg) (s : St) (t : Nat) : Nat :=
  ringIdx (ringIdx ((c.base + s.rk t) % 2 ^ 32) c.cap) c.cap

def wakeAll (pc : Nat → Pc) : Nat → Pc := fun i => if pc i = .rBlocked then .rWoken else pc i

def countBlocked (pc : Nat → Pc) (n : Nat) : Nat :=
  ((List.range n).filter (fun i => pc i = .rBlocked)).length

/-- lowest-numbered thread parked in the futex, among `i, i+1, …, i+k-1` -/
def firstBlocked (pc : Nat → Pc) : Nat → Nat → Option Nat
  | 0, _ => none
  | k + 1, i => if pc i = .rBlocked then some i else firstBlocked pc k (i + 1)

def afterFutex (c : Cfg) : Pc := match c.rm with | .once => .oLdCur | _ => .rLdCur

def St.enabled (s : St) (t : Nat) : Bool :=
  match s.pc t with
  | .done => false
  | .rBlocked => false
  | .oLock => s.rmtx == 0
  | _ => true

def mname (m : Nat) : String := if m = 0 then "0" else s!"m{m}"

/-- the state transformer of one step of thread `t` -/
def stepSt (c : Cfg) (s : St) (t : Nat) : Option St :=
  if !s.enabled t then none else
  match s.pc t with
  | .start => some (if t < c.nW then writerNext c s t else readerNext c s t)
  | .thr => some (writerNext c s t)
  | .wSpin =>
    if s.spin = 0 then
      some { s with spin := 1, know := upd s.know t (join (s.know t) s.relSpin), pc := upd s.pc t .wRdCur1 }
    else some { s with pc := upd s.pc t .wYield }
  | .wYield => some { s with pc := upd s.pc t .wSpin }
  | .wRdCur1 => some { s with pc := upd s.pc t (.wSlot s.cursor) }
  | .wSlot i =>
    if i < c.cap then
      some { s with blocks := upd s.blocks i (msgId t (s.wk t)), pc := upd s.pc t .wRdCur2 }
    else some { s with oob := s.oob + 1, pc := upd s.pc t .wRdCur2 }
  | .wRdCur2 => some { s with pc := upd s.pc t (.wStCur s.cursor) }
  | .wStCur i =>
    let s1 := { s with cursor := ringIdx (i + 1) c.cap, written := s.written ++ [msgId t (s.wk t)],
                       relCursor := s.know t }
    match c.wm with
    | .lock => some { s1 with pc := upd s.pc t .wUnlock }
    | .single =>
      if c.rm = .busy then some (finishWrite c s1 t) else some { s1 with pc := upd s.pc t .wWake }
  | .wUnlock =>
    let s1 := { s with spin := 0, relSpin := s.know t }
    if c.rm = .busy then some (finishWrite c s1 t) else some { s1 with pc := upd s.pc t .wWake }
  | .wWake =>
    if c.rm = .wait then some (finishWrite c { s with pc := wakeAll s.pc } t)
    else
      match firstBlocked s.pc c.nT 0 with
      | some r => some (finishWrite c { s with pc := upd s.pc r .rWoken } t)
      | none => some (finishWrite c s t)
  | .rLdCur =>
    let s1 := { s with know := upd s.know t (join (s.know t) s.relCursor) }
    if s.cursor ≠ rposOf c s t then some { s1 with pc := upd s.pc t .rSlot }
    else if c.rm = .busy then some { s1 with pc := upd s.pc t .rLdCur }
    else some { s1 with pc := upd s.pc t (.rFwait s.cursor) }
  | .rSlot =>
    let i := rposOf c s t
    if i < c.cap then
      let m := s.blocks i
      some (finishRead c { s with got := upd s.got t (s.got t ++ [m]) } t m)
    else some (finishRead c { s with oob := s.oob + 1, got := upd s.got t (s.got t ++ [0]) } t 0)
  | .rFwait v =>
    if s.cursor = v then some { s with pc := upd s.pc t .rBlocked }
    else some { s with pc := upd s.pc t (afterFutex c) }
  | .rWoken => some { s with pc := upd s.pc t (afterFutex c) }
  | .oLock =>
    some { s with rmtx := 1, know := upd s.know t (join (s.know t) s.relMtx), pc := upd s.pc t .oLdCur }
  | .oLdCur =>
    some { s with know := upd s.know t (join (s.know t) s.relCursor), pc := upd s.pc t (.oRc1 s.cursor) }
  | .oRc1 v =>
    if s.readCursor ≠ v then some { s with pc := upd s.pc t .oRc2 }
    else some { s with pc := upd s.pc t (.rFwait v) }
  | .oRc2 => some { s with pc := upd s.pc t (.oSlot s.readCursor) }
  | .oSlot i =>
    if i < c.cap then some { s with pc := upd s.pc t (.oRc3 (s.blocks i)) }
    else some { s with oob := s.oob + 1, pc := upd s.pc t (.oRc3 0) }
  | .oRc3 m => some { s with pc := upd s.pc t (.oWrRc m s.readCursor) }
  | .oWrRc m i =>
    -- the message is consumed when `read_cursor` moves on (still under `read_mutex`)
    some { s with readCursor := ringIdx (i + 1) c.cap, got := upd s.got t (s.got t ++ [m]),
                  delivered := s.delivered ++ [(m, t)], pc := upd s.pc t (.oUnlock m) }
  | .oUnlock m => some (finishRead c { s with rmtx := 0, relMtx := s.know t } t m)
  | .rBlocked => none
  | .done => none

/-- the trace events of the same step (the shim's format) -/
def stepEv (c : Cfg) (s : St) (t : Nat) : List String :=
  match s.pc t with
  | .start => [s!"T{t} note start"]
  | .thr => [s!"T{t} yield"]
  | .wSpin => [s!"T{t} xchg spin {s.spin}->1 acq"]
  | .wYield => [s!"T{t} yield"]
  | .wRdCur1 => [s!"T{t} r cursor {s.cursor}"]
  | .wSlot i => [s!"T{t} w blocks[{i}] {mname (msgId t (s.wk t))}"]
  | .wRdCur2 => [s!"T{t} r cursor {s.cursor}"]
  | .wStCur i => [s!"T{t} st cursor {ringIdx (i + 1) c.cap} rel"]
  | .wUnlock => [s!"T{t} st spin 0 rel"]
  | .wWake =>
    if c.rm = .wait then [s!"T{t} futex-wake cursor all woke={countBlocked s.pc c.nT}"]
    else
      match firstBlocked s.pc c.nT 0 with
      | some _ => [s!"T{t} futex-wake cursor 1 woke=1"]
      | none => [s!"T{t} futex-wake cursor 1 woke=0"]
  | .rLdCur => [s!"T{t} ld cursor {s.cursor} acq"]
  | .rSlot =>
    let i := rposOf c s t
    let m := s.blocks i
    [s!"T{t} r blocks[{i}] {mname m}",
     s!"T{t} note got {s.rk t} {mname m} {if m = 0 then "BAD" else "ok"}"]
  | .rFwait v =>
    if s.cursor = v then [s!"T{t} futex-wait cursor {v} blocked"]
    else [s!"T{t} futex-wait cursor {v} eagain"]
  | .rWoken => [s!"T{t} futex-resume cursor"]
  | .oLock => [s!"T{t} mtx-lock rmtx"]
  | .oLdCur => [s!"T{t} ld cursor {s.cursor} acq"]
  | .oRc1 _ => [s!"T{t} r read_cursor {s.readCursor}"]
  | .oRc2 => [s!"T{t} r read_cursor {s.readCursor}"]
  | .oSlot i => [s!"T{t} r blocks[{i}] {mname (s.blocks i)}"]
  | .oRc3 _ => [s!"T{t} r read_cursor {s.readCursor}"]
  | .oWrRc _ i => [s!"T{t} w read_cursor {ringIdx (i + 1) c.cap}"]
  | .oUnlock m =>
    [s!"T{t} mtx-unlock rmtx",
     s!"T{t} note got {s.rk t} {mname m} {if m = 0 then "BAD" else "ok"}"]
  | .rBlocked => []
  | .done => []

/-- schedule flag `~` on a thread parked in the futex: `futex_wait` returns -1/EINTR although
nobody woke it (a signal without SA_RESTART — legal Linux behaviour). `muggle_sync_wait`'s result
is ignored by `ring_buffer.c`: the reader goes round its loop and re-checks the cursor. -/
def spurSt (c : Cfg) (s : St) (t : Nat) : Option St :=
  if s.pc t = .rBlocked then some { s with pc := upd s.pc t (afterFutex c) } else none

def step (c : Cfg) (s : St) (tok : Tok) : Option (St × List String) :=
  if tok.flag = .wake then
    (spurSt c s tok.tid).map fun s' => (s', [s!"T{tok.tid} futex-resume cursor spurious"])
  else (stepSt c s tok.tid).map fun s' => (s', stepEv c s tok.tid)

/-! ## what the harness reports at the end -/

def allDone (c : Cfg) (s : St) : Bool := (List.range c.nT).all fun t => s.pc t == .done
def anyEnabled (c : Cfg) (s : St) : Bool := (List.range c.nT).any fun t => s.enabled t

def stateLines (c : Cfg) (s : St) : List String :=
  (List.range c.nT).map fun t =>
    match s.pc t with
    | .done => s!"state T{t} done -"
    | .rBlocked => s!"state T{t} futex cursor"
    | .oLock => if s.rmtx == 0 then s!"state T{t} ready -" else s!"state T{t} mutex rmtx"
    | _ => s!"state T{t} ready -"

def outcome (c : Cfg) (s : St) : String :=
  let rs := (List.range c.nR).map fun r =>
    let t := c.nW + r
    let g := (s.got t).take (s.rk t)
    s!" r{r}=" ++ (if g.isEmpty then "-" else ",".intercalate (g.map fun m => if m = 0 then "?" else s!"m{m}"))
  let bad := ((List.range c.nR).map fun r => (((s.got (c.nW + r)).take (s.rk (c.nW + r))).filter (· = 0)).length).sum
  "outcome" ++ String.join rs ++ s!" bad={bad}"

/-! ## executable specification (what the property says about a finished or unfinished run) -/

/-- wait/busy modes: reader `t` was handed exactly the messages number `pre, pre+1, …` of the
single write order -/
def readerOk (c : Cfg) (s : St) (t : Nat) : Bool :=
  s.got t == (s.written.drop c.pre).take (s.got t).length

/-- read-once: the messages in `read_mutex` order are a prefix of the write order -/
def onceOk (s : St) : Bool :=
  s.delivered.map Prod.fst == s.written.take s.delivered.length

def specOk (c : Cfg) (s : St) : Bool :=
  s.hbViol == 0 && s.oob == 0 &&
  (if c.rm = .once then onceOk s else (List.range c.nT).all fun t => !isReader c t || readerOk c s t)

end MgModel.C02
