/-!
# C06 — growable memory pool (muggle/c/memory/memory_pool.c)

Executable model, one total function per C function, decision by decision.

* A block pointer is modelled by its identity `BlockId = (slab, index)`: the block
  `index` of data buffer `slab`, i.e. the address
  `memory_pool_data_bufs[slab] + index * block_size`. Data buffers are never moved
  or freed before `destroy` (the harness checks the real base addresses after every
  operation), so an identity denotes one fixed address for the life of the pool.
* `ptrBuf` is the whole pointer ring `memory_pool_ptr_buf[0 .. capacity)`, *including*
  the stale slots (the harness dumps the real ring and it is compared slot by slot).
* `slabs` is the number of blocks of every data buffer, `slabBytes` the number of
  bytes requested from `malloc` for it.
* `Env` is what the pool cannot decide itself: the answer of `malloc` for a request
  of a given size, and which variant of the source is modelled — the tree *as found*
  (two defects, see `/verif/fixes/C06-*.patch`) or the repaired one. The theorems
  are about the repaired variant (`Env.fixed`), the `_fails` witnesses about the
  variant as found.
* Out of bounds accesses / unsigned wrap-around of a length are explicit errors
  (`Err`), never defaults.
-/
namespace MgModel.C06

/-- identity of a block: (data buffer number, index inside the data buffer) -/
abbrev BlockId := Nat × Nat

inductive Err where
  | oob        -- read / write / memcpy outside the pointer ring
  | underflow  -- `--pool->used` at `used == 0` (free without a live block)
  | assert     -- `assert(alloc_index == free_index)` fails
  deriving Repr, DecidableEq

/-- `2^32`: range of the `uint32_t` fields -/
def U32 : Nat := 4294967296
/-- `SIZE_MAX` of the 64-bit target the harness is compiled for -/
def SIZE_MAX : Nat := 18446744073709551615
/-- `sizeof(void*)` -/
def PTR : Nat := 8

structure Env where
  /-- does `malloc(n)` succeed? -/
  mal      : Nat → Bool
  /-- source variant: `ensure_space` treats an all-free ring as the alloc section -/
  fixEmpty : Bool
  /-- source variant: `block_size * n` computed in `size_t` with an overflow check -/
  fixBytes : Bool

/-- the repaired source with a given allocator behaviour -/
def Env.fixed (mal : Nat → Bool) : Env := { mal := mal, fixEmpty := true, fixBytes := true }
/-- the source as found with a given allocator behaviour -/
def Env.orig (mal : Nat → Bool) : Env := { mal := mal, fixEmpty := false, fixBytes := false }

structure Pool where
  ptrBuf    : List BlockId
  allocIdx  : Nat
  freeIdx   : Nat
  capacity  : Nat
  used      : Nat
  blockSize : Nat
  slabs     : List Nat
  slabBytes : List Nat
  flag      : Nat
  maxDelta  : Nat
  deriving Repr, DecidableEq

/-- `MUGGLE_MEMORY_POOL_CONSTANT_SIZE` is bit 0 of `flag` -/
def Pool.isConst (p : Pool) : Bool := p.flag % 2 = 1

/-- pointers to the `n` blocks of data buffer `s`, in index order -/
def newBlocks (s n : Nat) : List BlockId := (List.range n).map (fun i => (s, i))

/-- bytes requested for a data buffer of `n` blocks; `none` = the (repaired) code
    refuses because the product does not fit `size_t`. As found, the product is
    evaluated in 32 bits. -/
def slabRequest (E : Env) (bs n : Nat) : Option Nat :=
  if E.fixBytes then
    if n > SIZE_MAX / bs then none else some (bs * n)
  else some ((bs * n) % U32)

/-- `muggle_memory_pool_init`; `none` = returns false. -/
def init (E : Env) (cap0 bs : Nat) : Option Pool :=
  let cap := if cap0 = 0 then 8 else cap0
  if bs = 0 then none
  else match slabRequest E bs cap with
    | none => none
    | some bytes =>
      if !E.mal PTR then none
      else if !E.mal (PTR * cap) then none
      else if !E.mal bytes then none
      else some
        { ptrBuf := newBlocks 0 cap, allocIdx := 0, freeIdx := 0, capacity := cap, used := 0,
          blockSize := bs, slabs := [cap], slabBytes := [bytes], flag := 0,
          maxDelta := if bs > 8 * 1024 then cap else 512 * 1024 }

/-- `memcpy(dst, &ring[s], n * sizeof(void*))` as a value; reading past the ring is an error -/
def slice (l : List BlockId) (s n : Nat) : Except Err (List BlockId) :=
  if s + n ≤ l.length then .ok ((l.drop s).take n) else .error .oob

/-- `a - b` on `uint32_t` lengths: a wrap-around would make the following `memcpy`
    run out of bounds -/
def usub (a b : Nat) : Except Err Nat :=
  if b ≤ a then .ok (a - b) else .error .oob

/-- the "get alloc and free section" part of `muggle_memory_pool_ensure_space`:
    returns (copied free sections, copied alloc sections) in copy order. -/
def sections (E : Env) (p : Pool) : Except Err (List BlockId × List BlockId) :=
  if p.used = p.capacity then
    if p.allocIdx ≠ p.freeIdx then .error .assert
    else do
      let n1 ← usub p.capacity p.freeIdx
      let f1 ← slice p.ptrBuf p.freeIdx n1
      let f2 ← slice p.ptrBuf 0 p.freeIdx
      return (f1 ++ f2, [])
  else if p.allocIdx > p.freeIdx || (E.fixEmpty && p.used = 0) then do
    let nf ← usub p.allocIdx p.freeIdx
    let f1 ← slice p.ptrBuf p.freeIdx nf
    let na ← usub p.capacity p.allocIdx
    let a1 ← slice p.ptrBuf p.allocIdx na
    let a2 ← slice p.ptrBuf 0 p.freeIdx
    -- `if (num_alloc_section1 > 0) { copy a1; if (num_alloc_section2 > 0) copy a2; }`
    return (f1, if na > 0 then a1 ++ a2 else [])
  else do
    let n1 ← usub p.capacity p.freeIdx
    let f1 ← slice p.ptrBuf p.freeIdx n1
    let f2 ← slice p.ptrBuf 0 p.allocIdx
    let na ← usub p.freeIdx p.allocIdx
    let a1 ← slice p.ptrBuf p.allocIdx na
    return (f1 ++ f2, a1)

/-- `muggle_memory_pool_ensure_space`; the Bool is the return value. -/
def ensureSpace (E : Env) (p : Pool) (n : Nat) : Except Err (Pool × Bool) :=
  if n ≤ p.capacity then .ok (p, true)
  else if p.isConst then .ok (p, false)
  else
    let delta := n - p.capacity
    match slabRequest E p.blockSize delta with
    | none => .ok (p, false)
    | some bytes =>
      if !E.mal (PTR * (p.slabs.length + 1)) then .ok (p, false)
      else if !E.mal bytes then .ok (p, false)
      else if !E.mal (PTR * n) then .ok (p, false)
      else do
        let (fr, al) ← sections E p
        -- the new pointers are written at `offset + i`, `offset` = number of copied slots:
        -- anything but `offset + delta = capacity` leaves slots unwritten or overruns
        if fr.length + al.length ≠ p.capacity then .error .oob
        else
          return ({ p with ptrBuf := fr ++ al ++ newBlocks p.slabs.length delta,
                           freeIdx := 0, allocIdx := fr.length, capacity := n,
                           slabs := p.slabs ++ [delta],
                           slabBytes := p.slabBytes ++ [bytes] }, true)

/-- automatic growth step of `muggle_memory_pool_alloc` (`delta_cap`) -/
def growStep (p : Pool) : Nat :=
  if p.maxDelta > 0 ∧ p.capacity > p.maxDelta then p.maxDelta else p.capacity

/-- second half of `muggle_memory_pool_alloc`: `++used; ret = ring[alloc_index]; ++alloc_index` -/
def take (p : Pool) : Except Err (Pool × Option BlockId) :=
  match p.ptrBuf[p.allocIdx]? with
  | none => .error .oob
  | some b =>
    .ok ({ p with used := p.used + 1,
                  allocIdx := if p.allocIdx + 1 = p.capacity then 0 else p.allocIdx + 1 }, some b)

/-- `muggle_memory_pool_alloc`; `none` = returns NULL. `new_cap` is a `uint32_t` sum. -/
def alloc (E : Env) (p : Pool) : Except Err (Pool × Option BlockId) :=
  if p.used = p.capacity then
    match ensureSpace E p ((p.capacity + growStep p) % U32) with
    | .error e => .error e
    | .ok (q, true) => take q
    | .ok (q, false) => .ok (q, none)
  else take p

/-- `muggle_memory_pool_free` -/
def free (p : Pool) (b : BlockId) : Except Err Pool :=
  if p.used = 0 then .error .underflow
  else if p.freeIdx < p.ptrBuf.length then
    .ok { p with ptrBuf := p.ptrBuf.set p.freeIdx b,
                 freeIdx := if p.freeIdx + 1 = p.capacity then 0 else p.freeIdx + 1,
                 used := p.used - 1 }
  else .error .oob

/-- `muggle_memory_pool_set_flag` -/
def setFlag (p : Pool) (f : Nat) : Pool := { p with flag := f }
/-- `muggle_memory_pool_set_max_delta_cap` -/
def setMaxDelta (p : Pool) (d : Nat) : Pool := { p with maxDelta := d }

/-! ## Operations and results (shared by driver, specification and theorems) -/

inductive Op where
  | alloc
  | free (b : BlockId)
  | ensure (n : Nat)
  | setFlag (f : Nat)
  | setMaxDelta (d : Nat)
  deriving Repr, DecidableEq

inductive Res where
  | blk (b : Option BlockId)   -- result of alloc
  | bool (b : Bool)            -- result of ensure_space
  | unit
  deriving Repr, DecidableEq

def step (E : Env) (p : Pool) : Op → Except Err (Pool × Res)
  | .alloc => (alloc E p).map (fun (q, b) => (q, .blk b))
  | .free b => (free p b).map (fun q => (q, .unit))
  | .ensure n => (ensureSpace E p n).map (fun (q, b) => (q, .bool b))
  | .setFlag f => .ok (setFlag p f, .unit)
  | .setMaxDelta d => .ok (setMaxDelta p d, .unit)

/-! ## Specification: the reference model the property speaks about

The reference state knows nothing about rings and cursors: it is the list of live
blocks (in allocation order), the sizes of the data buffers obtained so far and the
three configuration words. `used` is the number of live blocks, `capacity` the
total number of blocks. The identity of an allocated block is not determined by
the specification — any block of the pool that is not live is acceptable — so the
specification is an *acceptor*: `Ref.step` takes the observed result and says
whether it is allowed, and what the next reference state is. -/

structure Ref where
  live      : List BlockId
  slabs     : List Nat
  blockSize : Nat
  flag      : Nat
  maxDelta  : Nat
  deriving Repr, DecidableEq

def Ref.used (r : Ref) : Nat := r.live.length
def Ref.cap (r : Ref) : Nat := r.slabs.sum

/-- `b` names a block of one of the data buffers -/
def validB (slabs : List Nat) (b : BlockId) : Bool :=
  match slabs[b.1]? with
  | some n => b.2 < n
  | none => false

/-- reference `init`: fails, or a pool of `cap` blocks none of which is live -/
def Ref.init (mal : Nat → Bool) (cap0 bs : Nat) : Option Ref :=
  let cap := if cap0 = 0 then 8 else cap0
  if bs = 0 ∨ cap > SIZE_MAX / bs ∨ !mal PTR ∨ !mal (PTR * cap) ∨ !mal (bs * cap) then none
  else some { live := [], slabs := [cap], blockSize := bs, flag := 0,
              maxDelta := if bs > 8 * 1024 then cap else 512 * 1024 }

/-- may the pool grow to `n > cap` blocks? (not constant-size, sizes representable,
    every allocation succeeds) -/
def Ref.canGrow (mal : Nat → Bool) (r : Ref) (n : Nat) : Bool :=
  r.flag % 2 ≠ 1 && decide (n - r.cap ≤ SIZE_MAX / r.blockSize) &&
  mal (PTR * (r.slabs.length + 1)) && mal (r.blockSize * (n - r.cap)) && mal (PTR * n)

/-- reference `ensure_space` -/
def Ref.ensure (mal : Nat → Bool) (r : Ref) (n : Nat) : Ref × Bool :=
  if n ≤ r.cap then (r, true)
  else if r.canGrow mal n then ({ r with slabs := r.slabs ++ [n - r.cap] }, true)
  else (r, false)

/-- automatic growth step: the capacity, limited by `maxDelta` when that is non-zero -/
def Ref.growStep (r : Ref) : Nat :=
  if r.maxDelta > 0 ∧ r.cap > r.maxDelta then r.maxDelta else r.cap

/-- reference step as an acceptor of the observed result; `none` = not allowed -/
def Ref.step (mal : Nat → Bool) (r : Ref) : Op → Res → Option Ref
  | .alloc, .blk res =>
    let (r1, ok) := if r.used = r.cap then r.ensure mal ((r.cap + r.growStep) % U32) else (r, true)
    match ok, res with
    | false, none => some r1
    | true, some b =>
      if r1.used < r1.cap && validB r1.slabs b && !r1.live.contains b then
        some { r1 with live := r1.live ++ [b] }
      else none
    | _, _ => none
  | .free b, .unit => if r.live.contains b then some { r with live := r.live.erase b } else none
  | .ensure n, .bool res =>
    let (r1, ok) := r.ensure mal n
    if ok = res then some r1 else none
  | .setFlag f, .unit => some { r with flag := f }
  | .setMaxDelta d, .unit => some { r with maxDelta := d }
  | _, _ => none

end MgModel.C06
