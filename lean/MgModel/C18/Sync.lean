import MgModel.C18.Resource
/-!
# C18 — sync: channel, ring buffer, double buffer, array blocking queue, ma_ring thread context

One Lean function per C function, one branch per decision of the C code that concerns an
acquisition.  Labels of the C code (`goto channel_init_except`) are separate functions.
The models describe the code *with the fixes of /verif/fixes/C18-*.patch applied*.
-/
namespace MgModel.C18

/-! ## muggle/c/sync/channel.c -/

structure Chan where
  wm : Cell := .null       -- write_mutex
  rm : Cell := .null       -- read_mutex
  rc : Cell := .null       -- read_cv
  blocks : Cell := .null
  deriving DecidableEq, Repr

def Chan.owned (c : Chan) : Int := c.wm.owned + c.rm.owned + c.rc.owned + c.blocks.owned
def Chan.safe (c : Chan) : Bool := c.wm.safe && c.rm.safe && c.rc.safe && c.blocks.safe
def Chan.show (c : Chan) : String := c.wm.ch ++ c.rm.ch ++ c.rc.ch ++ c.blocks.ch

/-- `muggle_channel_destroy`: every field is tested, released and reset to NULL -/
def chanDestroy (c : Chan) (h : Heap) : Except Err (Chan × Heap) := do
  let h ← free c.blocks h
  let h ← free c.rc h
  let h ← free c.rm h
  let h ← free c.wm h
  pure ({}, h)

/-- label `channel_init_except`: destroy, return the (non-zero) error code -/
def chanExcept (c : Chan) (h : Heap) : Except Err (Chan × Bool × Heap) := do
  let (c, h) ← chanDestroy c h
  pure (c, false, h)

/-- the tail of `muggle_channel_init`: the slot array -/
def chanInitBlocks (f : Sched) (c : Chan) (h : Heap) : Except Err (Chan × Bool × Heap) :=
  let (p, h) := alloc f h
  let c := { c with blocks := p }
  if p = .null then chanExcept c h else .ok (c, true, h)

/-- `switch (r_flags)`: the mutex reader allocates a mutex and a condition variable -/
def chanInitRead (f : Sched) (rMutex : Bool) (c : Chan) (h : Heap) : Except Err (Chan × Bool × Heap) :=
  if rMutex then
    let (p, h) := alloc f h
    let c := { c with rm := p }
    if p = .null then chanExcept c h
    else
      let (q, h) := alloc f h
      let c := { c with rc := q }
      if q = .null then chanExcept c h
      else chanInitBlocks f c h
  else chanInitBlocks f c h

/-- `muggle_channel_init(chan, capacity, flags)`; `valid` = `capacity > 0` (and its rounding) -/
def chanInit (f : Sched) (valid wMutex rMutex : Bool) (h : Heap) : Except Err (Chan × Bool × Heap) :=
  if !valid then .ok ({}, false, h)
  else if wMutex then
    let (p, h) := alloc f h
    let c : Chan := { wm := p }
    if p = .null then chanExcept c h
    else chanInitRead f rMutex c h
  else chanInitRead f rMutex {} h

/-- acquisitions on the success path -/
def chanN (wMutex rMutex : Bool) : Nat := (if wMutex then 1 else 0) + (if rMutex then 2 else 0) + 1

/-! ## a single owned array: ring_buffer, array_blocking_queue and many others

`init` makes one allocation after validating its arguments; on failure the field is NULL
(the object was `memset`).  `destroy` either resets the field (`nulls = true`) or leaves it
dangling (`free(r->blocks)` only). -/

structure One where
  p : Cell := .null
  deriving DecidableEq, Repr

def One.owned (o : One) : Int := o.p.owned
def One.safe (o : One) : Bool := o.p.safe
def One.show (o : One) : String := o.p.ch

def oneInit (f : Sched) (valid : Bool) (h : Heap) : Except Err (One × Bool × Heap) :=
  if !valid then .ok ({}, false, h)
  else
    let (p, h) := alloc f h
    if p = .null then .ok ({}, false, h) else .ok ({ p := p }, true, h)

def oneDestroy (nulls : Bool) (o : One) (h : Heap) : Except Err (One × Heap) := do
  let h ← free o.p h
  pure ({ p := if nulls then .null else o.p.released }, h)

/-! ## muggle/c/sync/double_buffer.c -/

structure DBuf where
  b0 : Cell := .null
  b1 : Cell := .null
  deriving DecidableEq, Repr

def DBuf.owned (d : DBuf) : Int := d.b0.owned + d.b1.owned
def DBuf.safe (d : DBuf) : Bool := d.b0.safe && d.b1.safe
def DBuf.show (d : DBuf) : String := d.b0.ch ++ d.b1.ch

/-- `muggle_double_buffer_init`: the loop `for i in 0,1` unrolled; when the second array
cannot be allocated the first is released **and reset** (fix C18-double-buffer) -/
def dbufInit (f : Sched) (valid : Bool) (h : Heap) : Except Err (DBuf × Bool × Heap) :=
  if !valid then .ok ({}, false, h)
  else
    let (p, h) := alloc f h
    if p = .null then .ok ({}, false, h)
    else
      let (q, h) := alloc f h
      if q = .null then do
        let h ← free p h
        pure ({ b0 := .null, b1 := .null }, false, h)
      else .ok ({ b0 := p, b1 := q }, true, h)

/-- `muggle_double_buffer_destroy`: two `free`, fields keep their value -/
def dbufDestroy (d : DBuf) (h : Heap) : Except Err (DBuf × Heap) := do
  let h ← free d.b0 h
  let h ← free d.b1 h
  pure ({ b0 := d.b0.released, b1 := d.b1.released }, h)

/-! ## muggle/c/sync/ma_ring.c — per-thread ring registered with the backend thread -/

structure MaRing where
  ring : Cell := .null      -- s_muggle_ma_ring_thread_ctx
  buffer : Cell := .null    -- ring->buffer
  node : Cell := .null      -- list node handed to the backend (freed by the backend on removal)
  deriving DecidableEq, Repr

def MaRing.owned (m : MaRing) : Int := m.ring.owned + m.buffer.owned + m.node.owned
def MaRing.safe (m : MaRing) : Bool := m.ring.safe && m.buffer.safe && m.node.safe
def MaRing.show (m : MaRing) : String :=
  if m.ring = .null then "n" else m.ring.ch ++ m.buffer.ch

/-- `muggle_ma_ring_thread_ctx_cleanup`: wait until consumed, ask the backend to drop the
ring (the backend frees the list node and answers DONE — it can only answer for a ring that
is in its list), then release buffer and ring (fix C18-ma-ring). -/
def maRingCleanup (m : MaRing) (h : Heap) : Except Err (MaRing × Heap) :=
  if m.ring = .null then .ok (m, h)
  else do
    deref m.ring
    if m.node = .null then throw .hang      -- nobody will ever set MUGGLE_MA_RING_STATUS_DONE
    let h ← free m.node h                    -- done by the backend thread
    let h ← free m.buffer h
    let h ← free m.ring h
    pure ({}, h)

/-- `muggle_ma_ring_thread_ctx_init` (fix C18-ma-ring: failures before the ring is known to the
backend release directly instead of calling cleanup) -/
def maRingInit (f : Sched) (m : MaRing) (h : Heap) : Except Err (MaRing × Bool × Heap) :=
  if m.ring ≠ .null then .ok (m, true, h)
  else
    let (r, h) := alloc f h
    if r = .null then .ok ({}, false, h)
    else
      let (b, h) := alloc f h
      if b = .null then do
        let h ← free r h
        pure ({}, false, h)
      else
        let (n, h) := alloc f h
        if n = .null then do
          let h ← free b h
          let h ← free r h
          pure ({}, false, h)
        else .ok ({ ring := r, buffer := b, node := n }, true, h)

end MgModel.C18
