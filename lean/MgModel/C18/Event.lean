import MgModel.C18.Dsaa
/-!
# C18 — event loop, event signal, socket event-loop handle, async logger
-/
namespace MgModel.C18

/-! ## event/event_signal.c (Linux: one eventfd) -/

def evsigInit (f : Sched) (h : Heap) : Except Err (One × Bool × Heap) :=
  let (d, h) := openFd f h
  if d = .null then .ok ({}, false, h) else .ok ({ p := d }, true, h)

def evsigDestroy (o : One) (h : Heap) : Except Err (One × Heap) := do
  let h ← closeFd o.p h
  pure ({}, h)

/-! ## event/event_loop.c + event/internal/event_loop_{select,poll,epoll}.c -/

structure EvLoop where
  self : Cell := .null       -- the muggle_event_loop_*_t block
  list : Cell := .null       -- evloop->ctx_list
  ll   : NC := {}            -- *ctx_list
  sig  : Cell := .null       -- evloop->ev_signal
  evfd : Cell := .null       -- ev_signal->evfd (descriptor)
  kind : Nat := 0            -- 1 select, 2 poll, 3 epoll
  b1   : Cell := .null       -- poll: fds           epoll: epfd (descriptor)
  b2   : Cell := .null       -- poll: nodes         epoll: events
  nfd  : Nat := 0            -- poll: fds in use
  pcap : Nat := 0            -- poll: capacity
  deriving DecidableEq, Repr

def EvLoop.ownedMem (e : EvLoop) : Int :=
  e.self.owned + e.list.owned + e.ll.owned + e.sig.owned +
    (if e.kind = 2 then e.b1.owned + e.b2.owned else if e.kind = 3 then e.b2.owned else 0)
def EvLoop.ownedFds (e : EvLoop) : Int := e.evfd.owned + (if e.kind = 3 then e.b1.owned else 0)

/-- `muggle_evloop_get_type` on Linux -/
def evloopType (t : Int) : Nat := if t = 1 then 1 else if t = 2 then 2 else 3

/-- static `muggle_evloop_destroy`: signal, then context list -/
def evloopDestroyBase (e : EvLoop) (h : Heap) : Except Err (EvLoop × Heap) := do
  let (e, h) ← (if e.sig ≠ .null then do
      deref e.sig
      let h ← closeFd e.evfd h
      let h ← free e.sig h
      pure ({ e with sig := .null, evfd := .null }, h)
    else pure (e, h) : Except Err (EvLoop × Heap))
  if e.list ≠ .null then do
    deref e.list
    let (ll, h) ← ncDestroy e.ll h
    let h ← free e.list h
    pure ({ e with list := .null, ll := ll }, h)
  else pure (e, h)

/-- `muggle_evloop_destroy_{select,poll,epoll}` -/
def evloopDestroyBackend (e : EvLoop) (h : Heap) : Except Err (EvLoop × Heap) :=
  if e.kind = 2 then do
    let h ← free e.b1 h
    let h ← free e.b2 h
    pure ({ e with b1 := .null, b2 := .null }, h)
  else if e.kind = 3 then do
    let h ← free e.b2 h
    let h ← closeFd e.b1 h
    pure ({ e with b1 := .null, b2 := .null }, h)
  else .ok (e, h)

/-- failure inside `muggle_evloop_init`: `goto muggle_evloop_init_except` → destroy, `-1`;
`muggle_evloop_new` then releases the block itself (fix C18-evloop-new) and returns NULL -/
def evloopInitExcept (e : EvLoop) (h : Heap) : Except Err (EvLoop × Bool × Heap) := do
  let (e, h) ← evloopDestroyBase e h
  let h ← free e.self h
  pure ({}, false, h)

/-- failure of the backend `fn_init`: backend destroy, base destroy, free, NULL -/
def evloopBackendExcept (e : EvLoop) (h : Heap) : Except Err (EvLoop × Bool × Heap) := do
  let (e, h) ← evloopDestroyBackend e h
  let (e, h) ← evloopDestroyBase e h
  let h ← free e.self h
  pure ({}, false, h)

/-- `s_evloop_fn[type].fn_init` -/
def evloopInitBackend (f : Sched) (hints : Nat) (e : EvLoop) (h : Heap) : Except Err (EvLoop × Bool × Heap) :=
  if e.kind = 2 then
    let (a, h) := alloc f h
    let e := { e with b1 := a, pcap := hints + 1 }
    if a = .null then evloopBackendExcept e h
    else
      let (b, h) := alloc f h
      let e := { e with b2 := b }
      if b = .null then evloopBackendExcept e h
      else .ok ({ e with nfd := 1 }, true, h)
  else if e.kind = 3 then
    let (a, h) := openFd f h
    let e := { e with b1 := a }
    if a = .null then evloopBackendExcept e h
    else
      let (b, h) := alloc f h
      let e := { e with b2 := b }
      if b = .null then evloopBackendExcept e h
      else .ok (e, true, h)
  else .ok (e, true, h)

/-- the part of `muggle_evloop_init` after the context list: the event signal -/
def evloopInitSignal (f : Sched) (hints : Nat) (e : EvLoop) (h : Heap) : Except Err (EvLoop × Bool × Heap) :=
  let (s, h) := alloc f h
  let e := { e with sig := s }
  if s = .null then evloopInitExcept e h
  else
    let (d, h) := openFd f h
    if d = .null then do
      let h ← free s h
      evloopInitExcept { e with sig := .null } h
    else evloopInitBackend f hints { e with evfd := d } h

/-- `muggle_evloop_new(args)`: `t` = requested type, `mempool` = `use_mem_pool`,
`hints` = `hints_max_fd`; `nodeSize` = sizeof(muggle_linked_list_node_t) -/
def evloopNew (f : Sched) (t : Int) (mempool : Bool) (hints : Int) (nodeSize : Nat) (h : Heap) :
    Except Err (EvLoop × Bool × Heap) :=
  let hints : Nat := if hints < 1 then 8 else hints.toNat
  let (s, h) := alloc f h
  if s = .null then .ok ({}, false, h)
  else
    let e : EvLoop := { self := s, kind := evloopType t }
    let (l, h) := alloc f h
    let e := { e with list := l }
    if l = .null then evloopInitExcept e h
    else
      match ncInit f (if mempool then hints else 0) nodeSize h with
      | .error er => .error er
      | .ok (_, false, h) => do
        let h ← free l h
        evloopInitExcept { e with list := .null } h
      | .ok (ll, true, h) => evloopInitSignal f hints { e with ll := ll } h

/-- `muggle_evloop_delete`: `if (evloop) { backend destroy; base destroy; free }` -/
def evloopDelete (e : EvLoop) (h : Heap) : Except Err (EvLoop × Heap) :=
  if e.self = .null then .ok ({}, h)
  else do
    deref e.self
    let (e, h) ← evloopDestroyBackend e h
    let (e, h) ← evloopDestroyBase e h
    let h ← free e.self h
    pure ({}, h)

/-- `muggle_evloop_add_ctx` from the loop's own thread: list node, then backend registration;
the poll backend refuses when its array is full and the node is removed again -/
def evloopAdd (f : Sched) (e : EvLoop) (h : Heap) : Except Err (EvLoop × Bool × Heap) :=
  match deref e.self, deref e.list with
  | .error er, _ => .error er
  | _, .error er => .error er
  | .ok _, .ok _ =>
    match ncInsert f e.ll h with
    | .error er => .error er
    | .ok (ll, false, h) => .ok ({ e with ll := ll }, false, h)
    | .ok (ll, true, h) =>
      if e.kind = 2 then
        if e.nfd = e.pcap then
          match ncRemoveFirst ll h with
          | .error er => .error er
          | .ok (ll, h) => .ok ({ e with ll := ll }, false, h)
        else .ok ({ e with ll := ll, nfd := e.nfd + 1 }, true, h)
      else .ok ({ e with ll := ll }, true, h)

/-! ## net/socket_evloop_handle.c -/

structure SockH where
  q : Cell := .null          -- handle->ctx_queue
  mtx : Cell := .null        -- handle->mtx
  queue : NC := {}           -- *ctx_queue (no node pool); every node carries one handed-over context
  deriving DecidableEq, Repr

/-- blocks owned by the handle: its two blocks, the queue nodes, and the contexts that were handed
over and are still queued (one block and one descriptor each) -/
def SockH.owned (s : SockH) : Int := s.q.owned + s.mtx.owned + s.queue.owned + s.queue.size
def SockH.ownedFd (s : SockH) : Int := s.queue.size
def SockH.show (s : SockH) : String := s!"{s.q.ch}{s.mtx.ch},n={s.queue.size}"

/-- `muggle_socket_evloop_handle_destroy`: the contexts still in the hand-over queue are released
(last reference: close the descriptor, `cb_free` the block) and dequeued; then the mutex block,
the queue and the queue block -/
def sockhDestroy (s : SockH) (h : Heap) : Except Err (SockH × Heap) := do
  let (queue, h) ← (if s.q ≠ .null then do
      deref s.q
      let n := s.queue.size
      ncClear s.queue { h with mem := h.mem - n, fds := h.fds - n }
    else pure (s.queue, h) : Except Err (NC × Heap))
  let h ← free s.mtx h
  if s.q ≠ .null then do
    deref s.q
    let (_, h) ← ncDestroy queue h
    let h ← free s.q h
    pure ({}, h)
  else pure ({}, h)

/-- `muggle_socket_evloop_handle_init`: context queue (no node pool: `muggle_queue_init(q, 0)`
cannot fail), then the mutex block; any failure goes through `…_handle_destroy` -/
def sockhInit (f : Sched) (h : Heap) : Except Err (SockH × Bool × Heap) :=
  let (q, h) := alloc f h
  if q = .null then .ok ({}, false, h)
  else
    let (m, h) := alloc f h
    if m = .null then do
      let (s, h) ← sockhDestroy { q := q } h
      pure (s, false, h)
    else .ok ({ q := q, mtx := m }, true, h)

/-- the caller creates a context (one block, one descriptor — the caller's own acquisitions, not
subject to the schedule) and hands it over with `muggle_socket_evloop_add_ctx`: one queue node,
then the wake-up.  When the node cannot be allocated the call says so and the context still belongs
to the caller, who releases it. -/
def sockhAddCtx (f : Sched) (s : SockH) (h : Heap) : Except Err (SockH × Bool × Heap) :=
  match deref s.q, deref s.mtx with
  | .error e, _ => .error e
  | _, .error e => .error e
  | .ok _, .ok _ =>
    let h := { h with mem := h.mem + 1, fds := h.fds + 1 }
    match ncInsert f s.queue h with
    | .error e => .error e
    | .ok (qu, true, h) => .ok ({ s with queue := qu }, true, h)
    | .ok (qu, false, h) => .ok ({ s with queue := qu }, false, { h with mem := h.mem - 1, fds := h.fds - 1 })

/-! ## net/socket_evloop_pipe.c, net/socket.c -/

/-- `muggle_socket_evloop_pipe_init`: `pipe(fds)`; the two contexts hold the descriptors
(`a` = reader, `b` = writer); on failure both stay `MUGGLE_INVALID_SOCKET` -/
def evpipeInit (f : Sched) (h : Heap) : Except Err (Two × Bool × Heap) :=
  let (r, w, h) := openPipe f h
  if r = .null then .ok ({}, false, h) else .ok ({ a := r, b := w }, true, h)

/-- `muggle_socket_evloop_pipe_destroy`: close what is open, reset to invalid -/
def evpipeDestroy (t : Two) (h : Heap) : Except Err (Two × Heap) := do
  let h ← closeFd t.a h
  let h ← closeFd t.b h
  pure ({}, h)

/-- `muggle_socket_create` -/
def sockCreate (f : Sched) (h : Heap) : Except Err (One × Bool × Heap) :=
  let (d, h) := openFd f h
  if d = .null then .ok ({}, false, h) else .ok ({ p := d }, true, h)

/-- `muggle_socket_close` (the harness then forgets the descriptor) -/
def sockClose (o : One) (h : Heap) : Except Err (One × Heap) := do
  let h ← closeFd o.p h
  pure ({}, h)

/-! ## log/log_async_logger.c -/

/-- `muggle_async_logger_init`: channel with mutex writer / futex reader, then the thread -/
def alogInit (f : Sched) (valid : Bool) (h : Heap) : Except Err (Chan × Bool × Heap) :=
  chanInit f valid true false h

/-- `muggle_async_logger_log` followed by the consumer thread having written the message:
message block, payload block (checked: fix C18-async-logger-payload), both released by the
consumer -/
def alogLog (f : Sched) (c : Chan) (h : Heap) : Except Err Heap :=
  let (m, h) := alloc f h
  if m = .null then .ok h
  else
    let (p, h) := alloc f h
    if p = .null then free m h
    else do
      deref c.blocks
      let h ← free p h
      free m h

/-- `muggle_async_logger_destroy`: nothing to do when the channel was never built (fix
C18-async-logger-destroy); else NULL sentinel, join, channel destroy -/
def alogDestroy (c : Chan) (h : Heap) : Except Err (Chan × Heap) :=
  if c.blocks = .null then .ok (c, h)
  else do
    deref c.blocks
    chanDestroy c h

end MgModel.C18
