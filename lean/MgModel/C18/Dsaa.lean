import MgModel.C18.Memory
/-!
# C18 — dsaa: array list / heap / stack (one growable array), linked list / queue / AVL tree /
hash table / trie (one node per element, from `malloc` or from an optional node pool),
merge sort (scratch array).
-/
namespace MgModel.C18

def dsCapValid (c : Nat) : Bool := c < 2 ^ 31       -- MUGGLE_DS_CAP_IS_VALID

/-! ## one growable array: array_list.c, heap.c, stack.c -/

structure Arr where
  p : Cell := .null
  cap : Nat := 0
  size : Nat := 0
  deriving DecidableEq, Repr

def Arr.owned (a : Arr) : Int := a.p.owned
def Arr.safe (a : Arr) : Bool := a.p.safe
def Arr.show (a : Arr) : String := s!"{a.p.ch},c={a.cap},n={a.size}"

/-- `muggle_array_list_init` / `muggle_heap_init` / `muggle_stack_init` -/
def arrInit (f : Sched) (cap : Nat) (h : Heap) : Except Err (Arr × Bool × Heap) :=
  let cap := if cap = 0 then 8 else cap
  if !dsCapValid cap then .ok ({}, false, h)
  else
    let (p, h) := alloc f h
    if p = .null then .ok ({}, false, h) else .ok ({ p := p, cap := cap, size := 0 }, true, h)

/-- `*_ensure_capacity`: allocate the new array, copy, free the old one -/
def arrEnsure (f : Sched) (a : Arr) (c : Nat) (h : Heap) : Except Err (Arr × Bool × Heap) :=
  if a.cap ≥ c then .ok (a, true, h)
  else if !dsCapValid c then .ok (a, false, h)
  else
    let (n, h) := alloc f h
    if n = .null then .ok (a, false, h)
    else do
      if a.size > 0 then deref a.p
      let h ← free a.p h
      pure ({ a with p := n, cap := c }, true, h)

/-- `muggle_array_list_insert/append`, `muggle_heap_insert`, `muggle_stack_push` -/
def arrPush (f : Sched) (a : Arr) (h : Heap) : Except Err (Arr × Bool × Heap) :=
  if a.size = a.cap then
    match arrEnsure f a (a.cap * 2) h with
    | .error e => .error e
    | .ok (a, false, h) => .ok (a, false, h)
    | .ok (a, true, h) =>
      match deref a.p with
      | .error e => .error e
      | .ok _ => .ok ({ a with size := a.size + 1 }, true, h)
  else
    match deref a.p with
    | .error e => .error e
    | .ok _ => .ok ({ a with size := a.size + 1 }, true, h)

/-- `muggle_array_list_remove(0)`, `muggle_heap_extract`, `muggle_stack_pop`: `false` / no-op
when empty -/
def arrPop (a : Arr) (h : Heap) : Except Err (Arr × Bool × Heap) :=
  if a.size = 0 then .ok (a, false, h)
  else
    match deref a.p with
    | .error e => .error e
    | .ok _ => .ok ({ a with size := a.size - 1 }, true, h)

/-- `*_destroy`: clear, free the array; `muggle_heap_destroy` resets the pointer, the other
two leave it dangling -/
def arrDestroy (nulls : Bool) (a : Arr) (h : Heap) : Except Err (Arr × Heap) := do
  let h ← free a.p h
  pure ({ a with p := if nulls then .null else a.p.released, size := 0 }, h)

/-! ## optional node pool of the node containers -/

structure NPool where
  cell : Cell := .null        -- `->pool`
  pool : MPool := {}
  deriving DecidableEq, Repr

def NPool.owned (n : NPool) : Int := n.cell.owned + n.pool.owned
def NPool.safe (n : NPool) : Bool := n.cell.safe && n.pool.safe
def NPool.show (n : NPool) : String :=
  match n.cell with
  | .null => "-"
  | .dang => "(d)"
  | .own => s!"(o:{n.pool.show})"

/-- the `if (capacity > 0) { … }` block common to the five `*_init`; after a failed
`muggle_memory_pool_init` the pool pointer is released **and reset** (fix C18-dsaa-pool) -/
def npInit (f : Sched) (cap nodeSize : Nat) (h : Heap) : Except Err (NPool × Bool × Heap) :=
  if cap = 0 then .ok ({}, true, h)
  else if !dsCapValid cap then .ok ({}, false, h)
  else
    let (c, h) := alloc f h
    if c = .null then .ok ({}, false, h)
    else
      match mpoolInit f cap nodeSize h with
      | .error e => .error e
      | .ok (_, false, h) => do
        let h ← free c h
        pure ({}, false, h)
      | .ok (p, true, h) => .ok ({ cell := c, pool := p }, true, h)

/-- `if (x->pool) { muggle_memory_pool_destroy(x->pool); free(x->pool); }` — pointer not reset -/
def npDestroy (n : NPool) (h : Heap) : Except Err (NPool × Heap) :=
  match n.cell with
  | .null => .ok (n, h)
  | .dang => .error .useAfterFree
  | .own => do
    let (p, h) ← mpoolDestroy n.pool h
    let h ← free n.cell h
    pure ({ cell := .dang, pool := p }, h)

/-! ## node containers: linked_list.c, queue.c, avl_tree.c, hash_table.c, trie.c -/

structure NC where
  np : NPool := {}
  nodes : Nat := 0          -- nodes obtained from `malloc` (no pool)
  size : Nat := 0           -- elements (= nodes in use)
  table : Cell := .null     -- hash table: the bucket array
  keys : List Nat := []     -- AVL / hash table: keys present
  paths : List String := [] -- trie: prefixes that have a node
  deriving DecidableEq, Repr

def NC.owned (c : NC) : Int := c.np.owned + c.nodes + c.table.owned
def NC.safe (c : NC) : Bool := c.np.safe && c.table.safe

/-- `*_allocate_node`: from the pool if there is one, else `malloc` -/
def ncAllocNode (f : Sched) (c : NC) (h : Heap) : Except Err (NC × Bool × Heap) :=
  match c.np.cell with
  | .dang => .error .useAfterFree
  | .own =>
    match mpoolAlloc f c.np.pool h with
    | .error e => .error e
    | .ok (p, ok, h) => .ok ({ c with np := { c.np with pool := p }, size := if ok then c.size + 1 else c.size }, ok, h)
  | .null =>
    let (n, h) := alloc f h
    if n = .null then .ok (c, false, h)
    else .ok ({ c with nodes := c.nodes + 1, size := c.size + 1 }, true, h)

/-- `*_free_node` of one node that is in the container -/
def ncFreeNode (c : NC) (h : Heap) : Except Err (NC × Heap) :=
  match c.np.cell with
  | .dang => .error .useAfterFree
  | .own =>
    match mpoolFree c.np.pool h with
    | .error e => .error e
    | .ok (p, h) => .ok ({ c with np := { c.np with pool := p }, size := c.size - 1 }, h)
  | .null => .ok ({ c with nodes := c.nodes - 1, size := c.size - 1 }, freeMany 1 h)

/-- `*_clear`: every node goes back to where it came from -/
def ncClear (c : NC) (h : Heap) : Except Err (NC × Heap) :=
  if c.size = 0 then .ok (c, h)
  else
    match c.np.cell with
    | .dang => .error .useAfterFree
    | .own =>
      match deref c.np.pool.ptrs with
      | .error e => .error e
      | .ok _ =>
        .ok ({ c with np := { c.np with pool := { c.np.pool with used := c.np.pool.used - c.size } },
                      size := 0, keys := [], paths := [] }, h)
    | .null => .ok ({ c with nodes := 0, size := 0, keys := [], paths := [] }, freeMany c.nodes h)

/-- `muggle_linked_list_init`, `muggle_queue_init`, `muggle_avl_tree_init`, `muggle_trie_init` -/
def ncInit (f : Sched) (cap nodeSize : Nat) (h : Heap) : Except Err (NC × Bool × Heap) :=
  match npInit f cap nodeSize h with
  | .error e => .error e
  | .ok (np, ok, h) => .ok ({ np := np }, ok, h)

/-- `muggle_linked_list_destroy`, `muggle_queue_destroy`, `muggle_avl_tree_destroy`,
`muggle_trie_destroy`: clear, then drop the pool -/
def ncDestroy (c : NC) (h : Heap) : Except Err (NC × Heap) := do
  let (c, h) ← ncClear c h
  let (np, h) ← npDestroy c.np h
  pure ({ c with np := np }, h)

/-- `muggle_linked_list_insert/append`, `muggle_queue_enqueue` -/
def ncInsert (f : Sched) (c : NC) (h : Heap) : Except Err (NC × Bool × Heap) := ncAllocNode f c h

/-- remove the first element if there is one (`void`) -/
def ncRemoveFirst (c : NC) (h : Heap) : Except Err (NC × Heap) :=
  if c.size = 0 then .ok (c, h) else ncFreeNode c h

/-- `muggle_avl_tree_insert`, `muggle_hash_table_put`: a key that is present is refused before
any allocation -/
def ncInsertKey (f : Sched) (c : NC) (k : Nat) (h : Heap) : Except Err (NC × Bool × Heap) :=
  if k ∈ c.keys then .ok (c, false, h)
  else
    match ncAllocNode f c h with
    | .error e => .error e
    | .ok (c, false, h) => .ok (c, false, h)
    | .ok (c, true, h) => .ok ({ c with keys := k :: c.keys }, true, h)

/-- `find` + `remove` of a key (`void`) -/
def ncRemoveKey (c : NC) (k : Nat) (h : Heap) : Except Err (NC × Heap) :=
  if k ∈ c.keys then
    match ncFreeNode c h with
    | .error e => .error e
    | .ok (c, h) => .ok ({ c with keys := c.keys.erase k }, h)
  else .ok (c, h)

/-- `muggle_hash_table_init(table_size, capacity)`; when the bucket array cannot be allocated
the node pool is destroyed, released and reset, and `table_size` is reset (fix C18-hash-table) -/
def htabInit (f : Sched) (cap nodeSize : Nat) (h : Heap) : Except Err (NC × Bool × Heap) :=
  match npInit f cap nodeSize h with
  | .error e => .error e
  | .ok (np, false, h) => .ok ({ np := np }, false, h)
  | .ok (np, true, h) =>
    let (t, h) := alloc f h
    if t = .null then
      match npDestroy np h with
      | .error e => .error e
      | .ok (_, h) => .ok ({}, false, h)
    else .ok ({ np := np, table := t }, true, h)

/-- `muggle_hash_table_destroy`: clear (walks the bucket array), drop the pool, free the array -/
def htabDestroy (c : NC) (h : Heap) : Except Err (NC × Heap) := do
  if c.table ≠ .null then deref c.table
  let (c, h) ← ncClear c h
  let (np, h) ← npDestroy c.np h
  let h ← free c.table h
  pure ({ c with np := np, table := c.table.released }, h)

/-- `muggle_trie_insert`: walk the key; every missing prefix gets a node; when a node cannot
be allocated the function returns NULL and the nodes created so far stay in the trie -/
def trieInsertPaths (f : Sched) : List String → NC → Heap → Except Err (NC × Bool × Heap)
  | [], c, h => .ok (c, true, h)
  | p :: ps, c, h =>
    if p ∈ c.paths then trieInsertPaths f ps c h
    else
      match ncAllocNode f c h with
      | .error e => .error e
      | .ok (c, false, h) => .ok (c, false, h)
      | .ok (c, true, h) => trieInsertPaths f ps { c with paths := p :: c.paths } h

/-- the prefixes of a key, shortest first; the empty key has its own node (`children['\0']`) -/
def triePaths (key : String) : List String :=
  if key.isEmpty then ["\x00"]
  else (List.range key.length).map fun i => (key.take (i + 1)).toString

def trieInsert (f : Sched) (c : NC) (key : String) (h : Heap) : Except Err (NC × Bool × Heap) :=
  trieInsertPaths f (triePaths key) c h

/-! ## sort.c -/

/-- `muggle_merge_sort(ptr, count, cmp)`: nothing to do for fewer than two elements; else scratch
array, sort, free -/
def mergeSort (f : Sched) (count : Nat) (h : Heap) : Except Err (Bool × Heap) :=
  if count < 2 then .ok (true, h)
  else
    let (a, h) := alloc f h
    if a = .null then .ok (false, h)
    else do
      let h ← free a h
      pure (true, h)

end MgModel.C18
