/-!
# C18 — resource semantics shared by all function models

The property is about *acquisitions* (`malloc/calloc/realloc/aligned_alloc`, `eventfd`,
`epoll_create`, `pipe`, `socket`) and what the library does when one of them fails.
A function model therefore keeps, of the C state, exactly

* the pointer / descriptor fields that hold acquired resources, each abstracted to a
  `Cell` (`null`, `own` = refers to a live acquisition, `dang` = refers to a released one),
* the counters that decide *whether* an acquisition happens (capacity, size, used, …),
* the allocator accounting `Heap` (live memory blocks, live descriptors, and the position in
  the fault schedule).

A fault schedule is any function `Nat → Bool`: `f k = true` means the acquisition with
(0-based) index `k` since the schedule was armed fails.  Nothing bounds the number of faults.

No totalising defaults: releasing a dangling cell is `Err.doubleFree`, dereferencing a NULL
cell is `Err.nullDeref`, dereferencing a dangling one is `Err.useAfterFree`, waiting for a
backend that will never answer is `Err.hang`.
-/
namespace MgModel.C18

inductive Cell where
  | null | own | dang
  deriving DecidableEq, Repr, Inhabited

inductive Err where
  | nullDeref | doubleFree | useAfterFree | hang
  deriving DecidableEq, Repr

/-- allocator accounting as observed by the harness (`live=<mem>/<fds>`, `acq=`, `inj=`) -/
structure Heap where
  mem  : Int := 0     -- live memory blocks
  fds  : Int := 0     -- live descriptors
  nacq : Nat := 0     -- acquisitions attempted since the schedule was armed
  inj  : Nat := 0     -- acquisitions that were made to fail
  deriving DecidableEq, Repr

abbrev Sched := Nat → Bool

/-- `malloc` / `calloc` / `aligned_alloc` under the schedule -/
def alloc (f : Sched) (h : Heap) : Cell × Heap :=
  if f h.nacq then (.null, { h with nacq := h.nacq + 1, inj := h.inj + 1 })
  else (.own, { h with nacq := h.nacq + 1, mem := h.mem + 1 })

/-- `eventfd` / `epoll_create` / `socket` under the schedule -/
def openFd (f : Sched) (h : Heap) : Cell × Heap :=
  if f h.nacq then (.null, { h with nacq := h.nacq + 1, inj := h.inj + 1 })
  else (.own, { h with nacq := h.nacq + 1, fds := h.fds + 1 })

/-- `pipe(fds)`: ONE acquisition in the schedule, two descriptors on success -/
def openPipe (f : Sched) (h : Heap) : Cell × Cell × Heap :=
  if f h.nacq then (.null, .null, { h with nacq := h.nacq + 1, inj := h.inj + 1 })
  else (.own, .own, { h with nacq := h.nacq + 1, fds := h.fds + 2 })

/-- `free(p)`: `free(NULL)` is a no-op, freeing a released block is a double free -/
def free (c : Cell) (h : Heap) : Except Err Heap :=
  match c with
  | .null => .ok h
  | .own  => .ok { h with mem := h.mem - 1 }
  | .dang => .error .doubleFree

/-- `if (fd != -1) close(fd)` -/
def closeFd (c : Cell) (h : Heap) : Except Err Heap :=
  match c with
  | .null => .ok h
  | .own  => .ok { h with fds := h.fds - 1 }
  | .dang => .error .doubleFree

/-- `*p` / `p->field` -/
def deref (c : Cell) : Except Err Unit :=
  match c with
  | .own  => .ok ()
  | .null => .error .nullDeref
  | .dang => .error .useAfterFree

/-- release `n` blocks of a collection (loop of `free`) -/
def freeMany (n : Nat) (h : Heap) : Heap := { h with mem := h.mem - n }

def Cell.owned : Cell → Int
  | .own => 1
  | _ => 0

def Cell.safe : Cell → Bool
  | .dang => false
  | _ => true

def Cell.ch : Cell → String
  | .null => "n" | .own => "o" | .dang => "d"

/-- `after free(p)` without `p = NULL` the field dangles (unless it was NULL) -/
def Cell.released : Cell → Cell
  | .null => .null
  | _ => .dang

end MgModel.C18
