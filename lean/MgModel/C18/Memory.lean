import MgModel.C18.Sync
/-!
# C18 — memory: growable memory pool, thread-safe pool, pointer slot
(`sowr_memory_pool`, `ring_memory_pool`, `bytes_buffer`, `flow_controller` are single-array
objects: `oneInit` / `oneDestroy` of `Sync.lean`.)
-/
namespace MgModel.C18

/-! ## muggle/c/memory/memory_pool.c -/

structure MPool where
  bufs : Cell := .null      -- memory_pool_data_bufs (array of buffer pointers)
  ptrs : Cell := .null      -- memory_pool_ptr_buf
  nbuf : Nat := 0           -- num_buf: data buffers owned through `bufs`
  cap  : Nat := 0
  used : Nat := 0
  flag : Nat := 0
  maxDelta : Nat := 0
  deriving DecidableEq, Repr

def MPool.owned (p : MPool) : Int := p.bufs.owned + p.ptrs.owned + p.nbuf
def MPool.safe (p : MPool) : Bool := p.bufs.safe && p.ptrs.safe
def MPool.show (p : MPool) : String :=
  s!"{p.bufs.ch}{p.ptrs.ch},b={p.nbuf},c={p.cap},u={p.used}"

/-- `muggle_memory_pool_init(pool, init_capacity, block_size)` -/
def mpoolInit (f : Sched) (cap bs : Nat) (h : Heap) : Except Err (MPool × Bool × Heap) :=
  let cap := if cap = 0 then 8 else cap
  if bs = 0 then .ok ({}, false, h)
  else
    let (b, h) := alloc f h
    if b = .null then .ok ({}, false, h)
    else
      let (p, h) := alloc f h
      if p = .null then do
        let h ← free b h
        pure ({}, false, h)
      else
        let (d, h) := alloc f h
        if d = .null then do
          let h ← free b h
          let h ← free p h
          pure ({}, false, h)
        else
          .ok ({ bufs := b, ptrs := p, nbuf := 1, cap := cap, used := 0, flag := 0,
                 maxDelta := if bs > 8 * 1024 then cap else 512 * 1024 }, true, h)

/-- `muggle_memory_pool_destroy`: loop over `num_buf` buffers, then the two arrays, then memset -/
def mpoolDestroy (p : MPool) (h : Heap) : Except Err (MPool × Heap) := do
  if p.nbuf > 0 then deref p.bufs
  let h := freeMany p.nbuf h
  let h ← free p.bufs h
  let h ← free p.ptrs h
  pure ({}, h)

/-- `muggle_memory_pool_ensure_space(pool, capacity)` -/
def mpoolEnsure (f : Sched) (p : MPool) (capacity : Nat) (h : Heap) : Except Err (MPool × Bool × Heap) :=
  if capacity ≤ p.cap then .ok (p, true, h)
  else if p.flag % 2 = 1 then .ok (p, false, h)
  else
    let (nb, h) := alloc f h                 -- new_bufs
    if nb = .null then .ok (p, false, h)
    else do
      deref p.bufs                           -- memcpy(new_bufs, pool->memory_pool_data_bufs, …)
      let (d, h) := alloc f h                -- new_bufs[num_buf]
      if d = .null then do
        let h ← free nb h
        pure (p, false, h)
      else
        let (np, h) := alloc f h             -- new_ptr_buf
        if np = .null then do
          let h ← free d h
          let h ← free nb h
          pure (p, false, h)
        else do
          let h ← free p.bufs h              -- free old array of buffers
          deref p.ptrs                       -- copy the free / alloc sections
          let h ← free p.ptrs h
          pure ({ p with bufs := nb, ptrs := np, nbuf := p.nbuf + 1, cap := capacity }, true, h)

/-- `muggle_memory_pool_alloc` -/
def mpoolAlloc (f : Sched) (p : MPool) (h : Heap) : Except Err (MPool × Bool × Heap) :=
  if p.used = p.cap then
    let delta := if p.maxDelta > 0 ∧ p.cap > p.maxDelta then p.maxDelta else p.cap
    match mpoolEnsure f p (p.cap + delta) h with
    | .error e => .error e
    | .ok (p, false, h) => .ok (p, false, h)
    | .ok (p, true, h) =>
      match deref p.ptrs with
      | .error e => .error e
      | .ok _ => .ok ({ p with used := p.used + 1 }, true, h)
  else
    match deref p.ptrs with
    | .error e => .error e
    | .ok _ => .ok ({ p with used := p.used + 1 }, true, h)

/-- `muggle_memory_pool_free` (of a block that is in use) -/
def mpoolFree (p : MPool) (h : Heap) : Except Err (MPool × Heap) := do
  deref p.ptrs
  pure ({ p with used := p.used - 1 }, h)

/-! ## two arrays allocated back to back, tested afterwards:
`threadsafe_memory_pool.c`, `pointer_slot.c` -/

structure Two where
  a : Cell := .null
  b : Cell := .null
  deriving DecidableEq, Repr

def Two.owned (t : Two) : Int := t.a.owned + t.b.owned
def Two.safe (t : Two) : Bool := t.a.safe && t.b.safe
def Two.show (t : Two) : String := t.a.ch ++ t.b.ch

/-- `muggle_ts_memory_pool_init` / `muggle_pointer_slot_init`: both allocations are made, then
`if (a == NULL || b == NULL)` releases the survivor and resets it (fix C18-ts-memory-pool) -/
def twoInit (f : Sched) (valid : Bool) (h : Heap) : Except Err (Two × Bool × Heap) :=
  if !valid then .ok ({}, false, h)
  else
    let (a, h) := alloc f h
    let (b, h) := alloc f h
    if a = .null ∨ b = .null then do
      let h ← free a h
      let h ← free b h
      pure ({}, false, h)
    else .ok ({ a := a, b := b }, true, h)

/-- both destroy functions test, free and reset each field -/
def twoDestroy (t : Two) (h : Heap) : Except Err (Two × Heap) := do
  let h ← free t.a h
  let h ← free t.b h
  pure ({}, h)

end MgModel.C18
