import MgModel.Common.Conc
/-!
# C04 — spinlock, synclock, mutex under N competing threads

Model of `muggle/c/sync/spinlock.c`, `synclock.c`, `mutex.c` driven by the most general
client (harness/c04/conc_locks.c `lock_worker`): every thread runs `rounds` times

    lock(); tmp = data; data = tmp + 1; unlock();

One step = one shared-memory access / blocking primitive of the real object code
(the granularity of the tsanshim scheduler); the event strings are the shim's.

* spinlock: `while (!test_and_set(lock, acquire)) yield();` / `clear(lock, release)`
  (`test_and_set` is an 8-bit exchange of 1, `clear` a store of 0)
* synclock: `expected = 0; while (!cas(lock, &expected, 1, acquire) && expected != 0)
  { futex_wait(lock, expected); expected = 0; }` / `store(lock, 0, release); futex_wake(lock, 1)`
  `weak = true` models a weak CAS (may fail spuriously, C11); the repaired code uses a
  strong CAS (`weak = false`).
* mutex: pthread mutex = the abstract POSIX lock (`mtx-lock` enabled iff free).

Happens-before is tracked with release/acquire knowledge sets: every write of `data`
gets a fresh id; `know t` = ids thread `t` is guaranteed to see; a release store
publishes `know t` on the lock word (`rel`), an acquire read-modify-write joins it.
-/
namespace MgModel.C04
open MgModel.Conc

inductive Kind where
  | spin
  | sync (weak : Bool)
  | mutex
  deriving Repr, DecidableEq

inductive Pc where
  | acq                 -- about to try the lock (xchg / cas / mtx-lock)
  | yld                 -- spinlock: TAS failed, about to sched_yield
  | fwait (exp : Nat)   -- synclock: about to futex_wait(lock, exp)
  | blocked             -- synclock: parked in the futex
  | woken               -- synclock: woken, about to return from futex_wait
  | csRead              -- holds the lock: about to read data
  | csWrite (tmp : Nat) -- holds the lock: about to write data
  | rel                 -- holds the lock: about to release (store 0 / mtx-unlock)
  | wake                -- synclock: lock word cleared, about to futex_wake
  | done
  deriving Repr, DecidableEq

structure St where
  kind   : Kind
  n      : Nat
  rounds : Nat
  lock   : Nat := 0
  data   : Nat := 0
  pc     : Nat → Pc
  round  : Nat → Nat := fun _ => 0
  /-- ghost: threads between a successful acquire and the end of the data update -/
  inCs   : Nat := 0
  viol   : Nat := 0
  /-- happens-before bookkeeping -/
  dataW  : Nat := 0               -- id of the latest write of `data` (0 = initial value)
  nextW  : Nat := 1
  relSet : List Nat := []         -- knowledge published on the lock by the last release
  know   : Nat → List Nat := fun _ => []
  /-- ghost: a read of `data` that was not guaranteed to see the latest write -/
  staleReads : Nat := 0

def mkInit (k : Kind) (n rounds : Nat) : St :=
  { kind := k, n := n, rounds := rounds, pc := fun _ => if rounds = 0 then .done else .acq }

def St.enabled (s : St) (t : Nat) : Bool :=
  t < s.n &&
  match s.pc t with
  | .done => false
  | .blocked => false
  | .acq => (match s.kind with | .mutex => s.lock == 0 | _ => true)
  | _ => true

/-- after a successful acquire by `t` -/
def enterCs (s : St) (t : Nat) : St × List String :=
  let inside := s.inCs + 1
  let s1 := { s with inCs := inside, pc := upd s.pc t .csRead,
                     know := upd s.know t (kmerge (s.know t) s.relSet) }
  if inside ≠ 1 then
    ({ s1 with viol := s1.viol + 1 }, [s!"T{t} note EXCLUSION-VIOLATED inside={inside}"])
  else (s1, [])

/-- lowest-numbered thread parked in the futex, below `n` -/
def firstBlocked (pc : Nat → Pc) : Nat → Nat → Option Nat
  | 0, _ => none
  | k + 1, i => if pc i = .blocked then some i else firstBlocked pc k (i + 1)

/-- schedule flag `~` on a thread parked in the futex: `futex_wait` returns -1/EINTR although
nobody woke it (signal without SA_RESTART). `synclock.c` ignores the result of `muggle_sync_wait`:
`expected` is reset to UNLOCK and the compare-exchange is retried — the same as after a wake-up. -/
def isInterrupt (s : St) (tok : Tok) : Bool :=
  tok.flag == .wake && decide (tok.tid < s.n) && (s.pc tok.tid == .blocked)

def step (s : St) (tok : Tok) : Option (St × List String) :=
  let t := tok.tid
  if isInterrupt s tok then
    some ({ s with pc := upd s.pc t .acq }, [s!"T{t} futex-resume lock spurious"])
  else
  if !s.enabled t then none else
  match s.pc t with
  | .acq =>
    match s.kind with
    | .spin =>
      -- test_and_set = exchange(lock, 1, acquire)
      let ev := s!"T{t} xchg lock {s.lock}->1 acq"
      if s.lock = 0 then
        let (s', evs) := enterCs { s with lock := 1 } t
        some (s', ev :: evs)
      else some ({ s with pc := upd s.pc t .yld }, [ev])
    | .sync weak =>
      if weak && tok.flag == .spur then
        -- weak CAS fails spuriously; `expected` stays 0, so the loop exits: the
        -- thread proceeds as if it owned the lock
        let (s', evs) := enterCs s t
        some (s', s!"T{t} cas lock 0->1 spurious acq" :: evs)
      else if s.lock = 0 then
        let (s', evs) := enterCs { s with lock := 1 } t
        some (s', s!"T{t} cas lock 0->1 ok acq" :: evs)
      else some ({ s with pc := upd s.pc t (.fwait s.lock) }, [s!"T{t} cas lock 0->1 fail={s.lock} acq"])
    | .mutex =>
      let (s', evs) := enterCs { s with lock := 1 } t
      some (s', s!"T{t} mtx-lock lock" :: evs)
  | .yld => some ({ s with pc := upd s.pc t .acq }, [s!"T{t} yield"])
  | .fwait e =>
    if s.lock = e then some ({ s with pc := upd s.pc t .blocked }, [s!"T{t} futex-wait lock {e} blocked"])
    else some ({ s with pc := upd s.pc t .acq }, [s!"T{t} futex-wait lock {e} eagain"])
  | .woken => some ({ s with pc := upd s.pc t .acq }, [s!"T{t} futex-resume lock"])
  | .csRead =>
    let stale := if s.dataW = 0 ∨ s.dataW ∈ s.know t then 0 else 1
    some ({ s with pc := upd s.pc t (.csWrite s.data), staleReads := s.staleReads + stale },
          [s!"T{t} r data {s.data}"])
  | .csWrite tmp =>
    some ({ s with data := tmp + 1, pc := upd s.pc t .rel, inCs := s.inCs - 1,
                   dataW := s.nextW, nextW := s.nextW + 1,
                   know := upd s.know t (s.nextW :: s.know t) },
          [s!"T{t} w data {tmp + 1}"])
  | .rel =>
    let r := s.round t + 1
    let next : Pc := if r < s.rounds then .acq else .done
    match s.kind with
    | .spin => some ({ s with lock := 0, relSet := s.know t, round := upd s.round t r,
                              pc := upd s.pc t next }, [s!"T{t} st lock 0 rel"])
    | .sync _ => some ({ s with lock := 0, relSet := s.know t, pc := upd s.pc t .wake },
                       [s!"T{t} st lock 0 rel"])
    | .mutex => some ({ s with lock := 0, relSet := s.know t, round := upd s.round t r,
                               pc := upd s.pc t next }, [s!"T{t} mtx-unlock lock"])
  | .wake =>
    let r := s.round t + 1
    let next : Pc := if r < s.rounds then .acq else .done
    let s1 := { s with round := upd s.round t r, pc := upd s.pc t next }
    match firstBlocked s.pc s.n 0 with
    | some w => some ({ s1 with pc := upd s1.pc w .woken }, [s!"T{t} futex-wake lock 1 woke=1"])
    | none => some (s1, [s!"T{t} futex-wake lock 1 woke=0"])
  | .blocked => none
  | .done => none

/-! ## what the harness reports at the end -/

def allDone (s : St) : Bool := (List.range s.n).all fun t => s.pc t == .done
def anyEnabled (s : St) : Bool := (List.range s.n).any fun t => s.enabled t

def stateLines (s : St) : List String :=
  (List.range s.n).map fun t =>
    match s.pc t with
    | .done => s!"state T{t} done -"
    | .blocked => s!"state T{t} futex lock"
    | .acq => (match s.kind with
               | .mutex => if s.lock == 0 then s!"state T{t} ready -" else s!"state T{t} mutex lock"
               | _ => s!"state T{t} ready -")
    | _ => s!"state T{t} ready -"

def outcome (s : St) : String := s!"outcome data={s.data} exclusion_violations={s.viol}"

end MgModel.C04
