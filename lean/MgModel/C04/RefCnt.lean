import MgModel.Common.Conc
/-!
# C04 — reference counter (muggle/c/sync/ref_cnt.c) under concurrent retain / release

    do { v = *ref; if (v == 0) return -1; desired = v ± 1; } while (!cas_strong(ref, &v, desired, relaxed));
    return desired;

Each thread runs a program over `Op.retain` / `Op.release`; every result is logged.
-/
namespace MgModel.C04.RefCnt
open MgModel.Conc

inductive Op where
  | retain | release
  deriving Repr, DecidableEq

inductive Pc where
  | read                 -- about to read *ref
  | cas (v : Nat)        -- about to CAS v -> v±1
  deriving Repr, DecidableEq

structure St where
  n     : Nat
  ref   : Nat
  prog  : Nat → List Op          -- remaining operations of each thread (head = current)
  pc    : Nat → Pc := fun _ => .read
  /-- ghost: log of completed operations, in completion order: (op, result), result -1 ↦ none -/
  log   : List (Op × Option Nat) := []

def mkInit (init : Nat) (progs : List (List Op)) : St :=
  { n := progs.length, ref := init, prog := fun t => progs.getD t [] }

def St.enabled (s : St) (t : Nat) : Bool := t < s.n && !(s.prog t).isEmpty

def opName : Op → String
  | .retain => "retain" | .release => "release"

def step (s : St) (tok : Tok) : Option (St × List String) :=
  let t := tok.tid
  if !s.enabled t then none else
  match s.prog t with
  | [] => none
  | op :: rest =>
    match s.pc t with
    | .read =>
      if s.ref = 0 then
        some ({ s with prog := upd s.prog t rest, log := s.log ++ [(op, none)] },
              [s!"T{t} r ref 0", s!"T{t} note {opName op}=-1"])
      else some ({ s with pc := upd s.pc t (.cas s.ref) }, [s!"T{t} r ref {s.ref}"])
    | .cas v =>
      let d := match op with | .retain => v + 1 | .release => v - 1
      if s.ref = v then
        some ({ s with ref := d, pc := upd s.pc t .read, prog := upd s.prog t rest,
                       log := s.log ++ [(op, some d)] },
              [s!"T{t} cas ref {v}->{d} ok rlx", s!"T{t} note {opName op}={d}"])
      else some ({ s with pc := upd s.pc t .read }, [s!"T{t} cas ref {v}->{d} fail={s.ref} rlx"])

def allDone (s : St) : Bool := (List.range s.n).all fun t => (s.prog t).isEmpty
def anyEnabled (s : St) : Bool := (List.range s.n).any fun t => s.enabled t
def stateLines (s : St) : List String :=
  (List.range s.n).map fun t => if (s.prog t).isEmpty then s!"state T{t} done -" else s!"state T{t} ready -"
def outcome (s : St) : String := s!"outcome ref={s.ref}"

end MgModel.C04.RefCnt
