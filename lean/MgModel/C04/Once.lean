import MgModel.Common.Conc
/-!
# C04 — `muggle_call_once` raced by N threads (muggle/c/sync/call_once.c)

    v = INIT; if (cas_strong(flag, &v, WAIT, relaxed)) { func(); store(flag, READY, release); }
    else do { v = load(flag, acquire); } while (v != READY);

The body `func` of the harness does `body_runs = body_runs + 1; body_done = 1;` and each
caller reads `body_done` after `call_once` returned.
-/
namespace MgModel.C04.Once
open MgModel.Conc

inductive Pc where
  | cas | b1 | b2 (tmp : Nat) | b3 | pub | spin | ret | done
  deriving Repr, DecidableEq

structure St where
  n        : Nat
  flag     : Nat := 0          -- 0 INIT, 1 WAIT, 2 READY
  bodyRuns : Nat := 0
  bodyDone : Nat := 0
  pc       : Nat → Pc := fun _ => .cas
  early    : Nat := 0          -- callers that returned before the body completed
  /-- HB: knowledge sets; id 1 = the write `body_done = 1` -/
  relSet   : List Nat := []
  know     : Nat → List Nat := fun _ => []
  staleReads : Nat := 0

def mkInit (n : Nat) : St := { n := n }

def St.enabled (s : St) (t : Nat) : Bool := t < s.n && s.pc t != .done

def step (s : St) (tok : Tok) : Option (St × List String) :=
  let t := tok.tid
  if !s.enabled t then none else
  match s.pc t with
  | .cas =>
    if s.flag = 0 then some ({ s with flag := 1, pc := upd s.pc t .b1 }, [s!"T{t} cas flag 0->1 ok rlx"])
    else some ({ s with pc := upd s.pc t .spin }, [s!"T{t} cas flag 0->1 fail={s.flag} rlx"])
  | .b1 => some ({ s with pc := upd s.pc t (.b2 s.bodyRuns) }, [s!"T{t} r body_runs {s.bodyRuns}"])
  | .b2 tmp => some ({ s with bodyRuns := tmp + 1, pc := upd s.pc t .b3 }, [s!"T{t} w body_runs {tmp + 1}"])
  | .b3 => some ({ s with bodyDone := 1, pc := upd s.pc t .pub, know := upd s.know t (1 :: s.know t) },
                 [s!"T{t} w body_done 1"])
  | .pub => some ({ s with flag := 2, relSet := s.know t, pc := upd s.pc t .ret }, [s!"T{t} st flag 2 rel"])
  | .spin =>
    if s.flag = 2 then
      some ({ s with pc := upd s.pc t .ret, know := upd s.know t (s.know t ++ s.relSet) },
            [s!"T{t} ld flag 2 acq"])
    else some (s, [s!"T{t} ld flag {s.flag} acq"])
  | .ret =>
    let stale := if s.bodyDone = 1 ∧ 1 ∉ s.know t then 1 else 0
    some ({ s with pc := upd s.pc t .done, early := s.early + (if s.bodyDone = 0 then 1 else 0),
                   staleReads := s.staleReads + stale },
          [s!"T{t} r body_done {s.bodyDone}", s!"T{t} note once-returned done={s.bodyDone}"])
  | .done => none

def allDone (s : St) : Bool := (List.range s.n).all fun t => s.pc t == .done
def anyEnabled (s : St) : Bool := (List.range s.n).any fun t => s.enabled t
def stateLines (s : St) : List String :=
  (List.range s.n).map fun t => if s.pc t == .done then s!"state T{t} done -" else s!"state T{t} ready -"
def outcome (s : St) : String := s!"outcome body_runs={s.bodyRuns} early_returns={s.early}"

end MgModel.C04.Once
