import MgModel.Common.Conc
import MgModel.C01.Channel
/-!
# C01 / C03 — `muggle_double_buffer_t` (mutex + two condition variables)

Monitor-granularity model of `muggle/c/sync/double_buffer.c` (see `ABQ.lean` for why the
pthread calls are the only scheduling points).

    write: lock; p = back; while (p->cnt == capacity) {
               if (non_blocking) { unlock; return FULL; }
               wait(cv_not_full); p = back; }
           p->datas[p->cnt++] = data; notify_one(cv_not_empty); unlock
    read:  lock; while (back->cnt == 0) wait(cv_not_empty);
           front->cnt = 0; swap(front, back); notify_one(cv_not_full); unlock; return front

A buffer is modelled by the list of its first `cnt` entries. W producers (tid 0..W-1) as for
the channel (`tries`, `sched_yield` after FULL), one consumer (tid W) that calls `read` until
it has seen `reads` items and reads the payload of every item of the buffer it got.
-/
namespace MgModel.C01.DBuf
open MgModel.Conc MgModel.C01

structure Cfg where
  cap   : Nat
  nonblocking : Bool
  tries : Nat
  reads : Nat
  ns    : List Nat
  deriving Repr

def Cfg.W (c : Cfg) : Nat := c.ns.length
def Cfg.n (c : Cfg) (w : Nat) : Nat := c.ns.getD w 0
def Cfg.gid (c : Cfg) (m : Msg) : Nat := (c.ns.take m.w).sum + m.k

inductive Pc where
  | dPay | dLock | dCvWait | dCvBlocked | dCvSignaled | dSignal | dUnlock (r : Ret) | dYield
  | rLock | rCvWait | rCvBlocked | rCvSignaled | rSignal | rUnlock | rItem (i : Nat)
  | done
  deriving Repr, DecidableEq

structure St where
  cfg   : Cfg
  front : List Msg := []
  back  : List Msg := []
  mtx   : Option Nat := none
  pc    : Nat → Pc
  k     : Nat → Nat := fun _ => 0     -- writer: current message; reader: items seen
  att   : Nat → Nat := fun _ => 0
  /- ghost -/
  written   : List Msg := []          -- in order of the append to `back`
  delivered : List Msg := []          -- items in the order the consumer saw them
  handed    : List Msg := []          -- concatenation of the buffers returned by read
  fulls     : List Nat := []          -- |back| at each FULL
  know      : Nat → List Msg := fun _ => []
  relM      : List Msg := []
  hbViol    : Nat := 0

def mkInit (c : Cfg) : St :=
  { cfg := c,
    pc := fun t =>
      if t < c.W then (if c.n t = 0 then .done else .dPay)
      else if t = c.W then (if c.reads = 0 then .done else .rLock)
      else .done }

def St.enabled (s : St) (tok : Tok) : Bool :=
  let t := tok.tid
  t ≤ s.cfg.W &&
  match s.pc t with
  | .done => false
  | .dLock | .rLock | .dCvSignaled | .rCvSignaled => s.mtx.isNone && tok.flag != .wake
  | .dCvBlocked | .rCvBlocked => s.mtx.isNone && tok.flag == .wake
  | _ => tok.flag != .wake

def cur (s : St) (t : Nat) : Msg := { w := t, k := s.k t }

/-- producer `t` holds the mutex: evaluate `while (p_back->cnt == capacity)` -/
def dEnter (s : St) (t : Nat) : St :=
  let s := { s with mtx := some t, know := upd s.know t (joinK (s.know t) s.relM) }
  if s.back.length = s.cfg.cap then
    if s.cfg.nonblocking then { s with fulls := s.fulls ++ [s.back.length], pc := upd s.pc t (.dUnlock .full) }
    else { s with pc := upd s.pc t .dCvWait }
  else { s with back := s.back ++ [cur s t], written := s.written ++ [cur s t], pc := upd s.pc t .dSignal }

/-- the consumer holds the mutex: evaluate `while (back->cnt == 0)`, swap if it fails -/
def rEnter (s : St) (t : Nat) : St :=
  let s := { s with mtx := some t, know := upd s.know t (joinK (s.know t) s.relM) }
  if s.back.length = 0 then { s with pc := upd s.pc t .rCvWait }
  else { s with front := s.back, back := [], handed := s.handed ++ s.back, pc := upd s.pc t .rSignal }

def firstWaiting (pc : Nat → Pc) : Nat → Nat → Option Nat
  | 0, _ => none
  | n + 1, i => if pc i = .dCvBlocked then some i else firstWaiting pc n (i + 1)

def nextMsg (s : St) (t : Nat) : St :=
  let k' := s.k t + 1
  { s with k := upd s.k t k', att := upd s.att t 0, pc := upd s.pc t (if k' < s.cfg.n t then .dPay else .done) }

def step (s : St) (tok : Tok) : Option (St × List String) :=
  let t := tok.tid
  if !s.enabled tok then none else
  let c := s.cfg
  match s.pc t with
  | .dPay =>
    let m := cur s t
    let g := c.gid m
    some ({ s with know := upd s.know t (m :: s.know t), pc := upd s.pc t .dLock },
          [s!"T{t} w payload[{g}] {100 + g}"])
  | .dLock => some (dEnter s t, [s!"T{t} mtx-lock mutex"])
  | .dCvWait =>
    some ({ s with mtx := none, relM := s.know t, pc := upd s.pc t .dCvBlocked }, [s!"T{t} cv-wait cv_not_full"])
  | .dCvBlocked => some (dEnter s t, [s!"T{t} cv-resume cv_not_full spurious"])
  | .dCvSignaled => some (dEnter s t, [s!"T{t} cv-resume cv_not_full"])
  | .dSignal =>
    match s.pc c.W with
    | .rCvBlocked => some ({ s with pc := upd (upd s.pc c.W .rCvSignaled) t (.dUnlock .ok) }, [s!"T{t} cv-signal cv_not_empty woke=1"])
    | _ => some ({ s with pc := upd s.pc t (.dUnlock .ok) }, [s!"T{t} cv-signal cv_not_empty woke=0"])
  | .dUnlock r =>
    let s1 := { s with mtx := none, relM := s.know t }
    let g := c.gid (cur s t)
    match r with
    | .ok => some (nextMsg s1 t, [s!"T{t} mtx-unlock mutex", s!"T{t} note write=ok m{g}"])
    | .full =>
      let a := s.att t + 1
      let ev := [s!"T{t} mtx-unlock mutex", s!"T{t} note write=full m{g}"]
      if c.tries ≠ 0 ∧ a ≥ c.tries then some (nextMsg s1 t, ev)
      else some ({ s1 with att := upd s.att t a, pc := upd s.pc t .dYield }, ev)
  | .dYield => some ({ s with pc := upd s.pc t .dLock }, [s!"T{t} yield"])
  | .rLock => some (rEnter s t, [s!"T{t} mtx-lock mutex"])
  | .rCvWait =>
    some ({ s with mtx := none, relM := s.know t, pc := upd s.pc t .rCvBlocked }, [s!"T{t} cv-wait cv_not_empty"])
  | .rCvBlocked => some (rEnter s t, [s!"T{t} cv-resume cv_not_empty spurious"])
  | .rCvSignaled => some (rEnter s t, [s!"T{t} cv-resume cv_not_empty"])
  | .rSignal =>
    match firstWaiting s.pc c.W 0 with
    | some w => some ({ s with pc := upd (upd s.pc w .dCvSignaled) t .rUnlock }, [s!"T{t} cv-signal cv_not_full woke=1"])
    | none => some ({ s with pc := upd s.pc t .rUnlock }, [s!"T{t} cv-signal cv_not_full woke=0"])
  | .rUnlock =>
    let s1 := { s with mtx := none, relM := s.know t }
    let next : Pc := if s.front.length = 0 then (if s.k t < c.reads then .rLock else .done) else .rItem 0
    some ({ s1 with pc := upd s.pc t next },
          [s!"T{t} mtx-unlock mutex", s!"T{t} note read cnt={s.front.length}"])
  | .rItem i =>
    match s.front[i]? with
    | none => none
    | some m =>
      let g := c.gid m
      let bad := if m ∈ s.know t then 0 else 1
      let k' := s.k t + 1
      let next : Pc := if i + 1 < s.front.length then .rItem (i + 1)
                       else if k' < c.reads then .rLock else .done
      some ({ s with k := upd s.k t k', delivered := s.delivered ++ [m], hbViol := s.hbViol + bad,
                     pc := upd s.pc t next },
            [s!"T{t} r payload[{g}] {100 + g}", s!"T{t} note item=m{g} stamp={100 + g}"])
  | .done => none

def allDone (s : St) : Bool := (List.range (s.cfg.W + 1)).all fun t => s.pc t == .done
def anyEnabled (s : St) : Bool := (List.range (s.cfg.W + 1)).any fun t => s.enabled { tid := t }

def stateLines (s : St) : List String :=
  (List.range (s.cfg.W + 1)).map fun t =>
    let lk := if s.mtx.isNone then s!"state T{t} ready -" else s!"state T{t} mutex mutex"
    match s.pc t with
    | .done => s!"state T{t} done -"
    | .dCvBlocked => s!"state T{t} cv cv_not_full"
    | .rCvBlocked => s!"state T{t} cv cv_not_empty"
    | .dLock | .rLock | .dCvSignaled | .rCvSignaled => lk
    | _ => s!"state T{t} ready -"

def outcome (s : St) : String :=
  let ids (l : List Msg) := showIds (l.map fun m => toString (s.cfg.gid m))
  s!"outcome back_cnt={s.back.length} delivered={ids s.delivered} left={ids s.back}"

end MgModel.C01.DBuf
