import MgModel.Common.Conc
import MgModel.C01.Channel
/-!
# C01 / C03 — `muggle_array_blocking_queue_t` (mutex + two condition variables)

Monitor-granularity model of `muggle/c/sync/array_blocking_queue.c`: the only scheduling
points are the pthread calls (`mtx-lock`, `cv-wait`, `cv-resume`, `cv-signal`, `mtx-unlock`);
the plain accesses to `datas/put_idx/take_idx/cnt` between two of them happen atomically
with the preceding one. This is sound because every such access lies between
`muggle_mutex_lock` and `muggle_mutex_unlock` — checked on every run of the `fine` variant of
the harness (lock-coverage check in checks/C01/check.py).

    put:  lock; while (cnt == capacity) wait(cv_not_full);
          datas[put_idx] = data; if (++put_idx == capacity) put_idx = 0; ++cnt;
          notify_one(cv_not_empty); unlock
    take: lock; while (cnt == 0) wait(cv_not_empty);
          data = datas[take_idx]; if (++take_idx == capacity) take_idx = 0; --cnt;
          notify_one(cv_not_full); unlock; return data

P producers (tid 0..P-1, producer w puts its n_w messages), C consumers (tid P..P+C-1,
consumer c takes k_c messages, then reads the payload).
-/
namespace MgModel.C01.ABQ
open MgModel.Conc MgModel.C01

structure Cfg where
  cap : Nat
  ns  : List Nat
  ks  : List Nat
  deriving Repr

def Cfg.P (c : Cfg) : Nat := c.ns.length
def Cfg.C (c : Cfg) : Nat := c.ks.length
def Cfg.n (c : Cfg) (w : Nat) : Nat := c.ns.getD w 0
def Cfg.kk (c : Cfg) (t : Nat) : Nat := c.ks.getD (t - c.P) 0
def Cfg.gid (c : Cfg) (m : Msg) : Nat := (c.ns.take m.w).sum + m.k

inductive Pc where
  | pPay | pLock | pCvWait | pCvBlocked | pCvSignaled | pSignal | pUnlock
  | cLock | cCvWait | cCvBlocked | cCvSignaled
  | cSignal (d : Option Msg) | cUnlock (d : Option Msg) | cPay (m : Msg)
  | done
  deriving Repr, DecidableEq

structure St where
  cfg     : Cfg
  datas   : Nat → Option Msg := fun _ => none
  takeIdx : Nat := 0
  putIdx  : Nat := 0
  cnt     : Nat := 0
  mtx     : Option Nat := none
  pc      : Nat → Pc
  k       : Nat → Nat := fun _ => 0
  /- ghost -/
  puts    : List Msg := []            -- in order of the enqueue
  taken   : List (Option Msg) := []   -- in order of the dequeue
  know    : Nat → List Msg := fun _ => []
  relM    : List Msg := []
  hbViol  : Nat := 0
  /-- enqueue into a slot that still holds an untaken message / beyond capacity -/
  overflow : Nat := 0

def mkInit (c : Cfg) : St :=
  { cfg := c,
    pc := fun t =>
      if t < c.P then (if c.n t = 0 then .done else .pPay)
      else if t < c.P + c.C then (if c.kk t = 0 then .done else .cLock)
      else .done }

def St.enabled (s : St) (tok : Tok) : Bool :=
  let t := tok.tid
  t < s.cfg.P + s.cfg.C &&
  match s.pc t with
  | .done => false
  | .pLock | .cLock | .pCvSignaled | .cCvSignaled => s.mtx.isNone && tok.flag != .wake
  | .pCvBlocked | .cCvBlocked => s.mtx.isNone && tok.flag == .wake
  | _ => tok.flag != .wake

def cur (s : St) (t : Nat) : Msg := { w := t, k := s.k t }

/-- producer `t` holds the mutex: evaluate `while (cnt == capacity)`, enqueue if it fails -/
def pEnter (s : St) (t : Nat) : St :=
  let s := { s with mtx := some t, know := upd s.know t (joinK (s.know t) s.relM) }
  if s.cnt = s.cfg.cap then { s with pc := upd s.pc t .pCvWait }
  else
    let p' := s.putIdx + 1
    { s with datas := upd s.datas s.putIdx (some (cur s t)),
             putIdx := if p' = s.cfg.cap then 0 else p', cnt := s.cnt + 1,
             puts := s.puts ++ [cur s t],
             pc := upd s.pc t .pSignal }

/-- consumer `t` holds the mutex: evaluate `while (cnt == 0)`, dequeue if it fails -/
def cEnter (s : St) (t : Nat) : St :=
  let s := { s with mtx := some t, know := upd s.know t (joinK (s.know t) s.relM) }
  if s.cnt = 0 then { s with pc := upd s.pc t .cCvWait }
  else
    let d := s.datas s.takeIdx
    let t' := s.takeIdx + 1
    { s with takeIdx := if t' = s.cfg.cap then 0 else t', cnt := s.cnt - 1,
             taken := s.taken ++ [d],
             pc := upd s.pc t (.cSignal d) }

/-- lowest-numbered thread waiting on a condition variable (`which` = its blocked pc) -/
def firstWaiting (pc : Nat → Pc) (which : Pc) : Nat → Nat → Option Nat
  | 0, _ => none
  | n + 1, i => if pc i = which then some i else firstWaiting pc which n (i + 1)

def nextConsumer (s : St) (t : Nat) : St :=
  let k' := s.k t + 1
  { s with k := upd s.k t k', pc := upd s.pc t (if k' < s.cfg.kk t then .cLock else .done) }

def step (s : St) (tok : Tok) : Option (St × List String) :=
  let t := tok.tid
  if !s.enabled tok then none else
  let c := s.cfg
  let nthr := c.P + c.C
  match s.pc t with
  | .pPay =>
    let m := cur s t
    let g := c.gid m
    some ({ s with know := upd s.know t (m :: s.know t), pc := upd s.pc t .pLock },
          [s!"T{t} w payload[{g}] {100 + g}"])
  | .pLock => some (pEnter s t, [s!"T{t} mtx-lock mutex"])
  | .pCvWait =>
    some ({ s with mtx := none, relM := s.know t, pc := upd s.pc t .pCvBlocked }, [s!"T{t} cv-wait cv_not_full"])
  | .pCvBlocked => some (pEnter s t, [s!"T{t} cv-resume cv_not_full spurious"])
  | .pCvSignaled => some (pEnter s t, [s!"T{t} cv-resume cv_not_full"])
  | .pSignal =>
    match firstWaiting s.pc .cCvBlocked nthr 0 with
    | some w => some ({ s with pc := upd (upd s.pc w .cCvSignaled) t .pUnlock }, [s!"T{t} cv-signal cv_not_empty woke=1"])
    | none => some ({ s with pc := upd s.pc t .pUnlock }, [s!"T{t} cv-signal cv_not_empty woke=0"])
  | .pUnlock =>
    let k' := s.k t + 1
    some ({ s with mtx := none, relM := s.know t, k := upd s.k t k',
                   pc := upd s.pc t (if k' < c.n t then .pPay else .done) },
          [s!"T{t} mtx-unlock mutex", s!"T{t} note put=ok m{c.gid (cur s t)}"])
  | .cLock => some (cEnter s t, [s!"T{t} mtx-lock mutex"])
  | .cCvWait =>
    some ({ s with mtx := none, relM := s.know t, pc := upd s.pc t .cCvBlocked }, [s!"T{t} cv-wait cv_not_empty"])
  | .cCvBlocked => some (cEnter s t, [s!"T{t} cv-resume cv_not_empty spurious"])
  | .cCvSignaled => some (cEnter s t, [s!"T{t} cv-resume cv_not_empty"])
  | .cSignal d =>
    match firstWaiting s.pc .pCvBlocked nthr 0 with
    | some w => some ({ s with pc := upd (upd s.pc w .pCvSignaled) t (.cUnlock d) }, [s!"T{t} cv-signal cv_not_full woke=1"])
    | none => some ({ s with pc := upd s.pc t (.cUnlock d) }, [s!"T{t} cv-signal cv_not_full woke=0"])
  | .cUnlock d =>
    let s1 := { s with mtx := none, relM := s.know t }
    match d with
    | some m => some ({ s1 with pc := upd s.pc t (.cPay m) }, [s!"T{t} mtx-unlock mutex"])
    | none => some (nextConsumer s1 t, [s!"T{t} mtx-unlock mutex", s!"T{t} note take=BAD -1"])
  | .cPay m =>
    let g := c.gid m
    let bad := if m ∈ s.know t then 0 else 1
    some (nextConsumer { s with hbViol := s.hbViol + bad } t,
          [s!"T{t} r payload[{g}] {100 + g}", s!"T{t} note take=m{g} stamp={100 + g}"])
  | .done => none

def allDone (s : St) : Bool := (List.range (s.cfg.P + s.cfg.C)).all fun t => s.pc t == .done
def anyEnabled (s : St) : Bool := (List.range (s.cfg.P + s.cfg.C)).any fun t => s.enabled { tid := t }

def stateLines (s : St) : List String :=
  (List.range (s.cfg.P + s.cfg.C)).map fun t =>
    let lk := if s.mtx.isNone then s!"state T{t} ready -" else s!"state T{t} mutex mutex"
    match s.pc t with
    | .done => s!"state T{t} done -"
    | .pCvBlocked => s!"state T{t} cv cv_not_full"
    | .cCvBlocked => s!"state T{t} cv cv_not_empty"
    | .pLock | .cLock | .pCvSignaled | .cCvSignaled => lk
    | _ => s!"state T{t} ready -"

/-- contents of the ring from `take_idx`, `cnt` entries (what the harness dumps) -/
def ringDump (s : St) : List (Option Msg) :=
  (List.range s.cnt).map fun j =>
    let i := s.takeIdx + j
    s.datas (if i < s.cfg.cap then i else i - s.cfg.cap)

def outcome (s : St) : String :=
  s!"outcome cnt={s.cnt} take_idx={s.takeIdx} put_idx={s.putIdx} " ++
  s!"left={showIds ((ringDump s).map fun d => match d with | none => "-1" | some m => toString (s.cfg.gid m))}"

end MgModel.C01.ABQ
