import MgModel.Common.Conc
/-!
# C01 / C03 — `muggle_channel_t` under W writers and one reader

Step model of `muggle/c/sync/channel.c` (all 4 writer locks x 3 reader modes) driven by the
client of `harness/c01/conc_chan.c`:

    writer w, for each of its n_w messages m:      reader, `reads` times:
        payload[m] = 100 + m;                          p = muggle_channel_read(chan);
        do rc = muggle_channel_write(chan, &payload[m]);   s = p->stamp;
        while (rc == FULL && ++attempts != tries && (sched_yield(), 1));

One step = one shared-memory access or blocking primitive of the real object code (the
granularity of the tsanshim scheduler); the event strings are the shim's. The spin lock and
the sync (futex) lock are inlined as their own steps, the pthread mutex / condition variable
are the abstract POSIX objects of the scheduler.

`muggle_channel_write` = `fn_lock; ret = fn_write; fn_unlock; if (ret == 0) fn_wake;`

* `fn_write` for the sync reader (`muggle_channel_write_sync`):
  `rpos = load(read_cursor, relaxed); wpos = (write_cursor + 1) & (cap - 1);`
  `if (wpos == rpos) return FULL; blocks[write_cursor] = data; store(write_cursor, wpos, release)`
* for the busy reader (`_write_busy`): the same with `cached_r_cur` in place of the load,
  refreshed from `read_cursor` (relaxed) only when the cached value says full;
* for the mutex reader (`_write_mutex`): everything under `read_mutex`, plain accesses.
* readers: `rpos = (read_cursor + 1) & (cap - 1)`; loop { `wpos = load(write_cursor, acquire)`;
  if `wpos != rpos`: `data = blocks[rpos]; store(read_cursor, rpos, release); return data`;
  else futex-wait on `write_cursor` (sync) / spin (busy) }; the mutex reader does the same
  under `read_mutex` with a condition-variable wait.

Ghost state (never influences a step): `accepted` (messages in order of publication of
`write_cursor`), `delivered` (in order of the reader's `read_cursor` store), `fulls` (unread
count at the instant that decided a FULL), `overwrites`, happens-before knowledge sets
(`know`, `rel*`) and `hbViol`, `holder` for the non-mutex locks, `obs`/`cachedObs`.
-/
namespace MgModel.C01
open MgModel.Conc

inductive WLock where
  | mutex | sync | spin | single
  deriving Repr, DecidableEq

inductive RMode where
  | sync | mutex | busy
  deriving Repr, DecidableEq

/-- a message: `k`-th message of writer `w` -/
structure Msg where
  w : Nat
  k : Nat
  deriving Repr, DecidableEq

structure Cfg where
  wl    : WLock
  rm    : RMode
  /-- capacity after `muggle_next_pow_of_2` = `2 ^ capLog` -/
  capLog : Nat
  tries : Nat
  reads : Nat
  ns    : List Nat
  deriving Repr

def Cfg.cap (c : Cfg) : Nat := 2 ^ c.capLog
def Cfg.W (c : Cfg) : Nat := c.ns.length
def Cfg.n (c : Cfg) (w : Nat) : Nat := c.ns.getD w 0
/-- global id of a message = index into the harness's `payload[]` -/
def Cfg.gid (c : Cfg) (m : Msg) : Nat := (c.ns.take m.w).sum + m.k

/-- `muggle_next_pow_of_2` restricted to what `muggle_channel_init` passes (1 ≤ x < 2^31):
the exponent of the least power of two ≥ x -/
def log2ceil (x : Nat) : Nat := go x 0 x
where
  go (x k : Nat) : Nat → Nat
    | 0 => k
    | fuel + 1 => if 2 ^ k ≥ x then k else go x (k + 1) fuel

/-- `MUGGLE_IDX_IN_POW_OF_2_RING(idx, capacity)` -/
def ring (i cap : Nat) : Nat := i &&& (cap - 1)

inductive Ret where
  | ok | full
  deriving Repr, DecidableEq

inductive Pc where
  /- ---------------- writer ---------------- -/
  | wPay                        -- about to store the payload of its current message
  | wLock                       -- fn_lock: xchg (spin) / cas (sync) / mtx-lock (mutex)
  | wSpinYield                  -- spin: test-and-set failed, about to sched_yield
  | wFwait (e : Nat)            -- sync: about to futex_wait(wlock, e)
  | wBlocked                    -- sync: parked on wlock
  | wWoken                      -- sync: woken, about to return from futex_wait
  -- fn_write, sync reader
  | sLdR                        -- load(read_cursor, relaxed)
  | sRdW (rpos : Nat)           -- read write_cursor -> wpos; compare
  -- common tail of write_sync / write_busy
  | cRdW2 (wpos : Nat)          -- read write_cursor -> slot index
  | cWrB (wpos idx : Nat)       -- blocks[idx].data = data
  | cSt (wpos : Nat)            -- store(write_cursor, wpos, release)
  -- fn_write, busy reader
  | bRdW                        -- read write_cursor -> wpos
  | bRdC (wpos : Nat)           -- read cached_r_cur; compare
  | bLdR (wpos : Nat)           -- load(read_cursor, relaxed)
  | bWrC (wpos v : Nat)         -- cached_r_cur = v
  | bRdC2 (wpos : Nat)          -- read cached_r_cur; compare
  -- fn_write, mutex reader
  | mLock                       -- mtx-lock rmutex
  | mRdW                        -- read write_cursor -> wpos
  | mRdR (wpos : Nat)           -- read read_cursor; compare
  | mRdW2 (wpos : Nat)          -- read write_cursor -> slot index
  | mWrB (wpos idx : Nat)       -- blocks[idx].data = data
  | mWrW (wpos : Nat)           -- write_cursor = wpos (plain)
  | mUnlock (r : Ret)           -- mtx-unlock rmutex
  -- fn_unlock / fn_wake
  | wUnlock (r : Ret)           -- st wlock 0 release / mtx-unlock wmutex
  | wUnlockWake (r : Ret)       -- sync: futex_wake(wlock, 1)
  | wWake                       -- futex_wake(write_cursor, 1) / cv-signal rcv
  | wYield                      -- harness: sched_yield() after FULL
  /- ---------------- reader ---------------- -/
  | rRdR                        -- read read_cursor -> rpos
  | rLdW (rpos : Nat)           -- load(write_cursor, acquire); compare
  | rFwait (rpos wpos : Nat)    -- futex_wait(write_cursor, wpos)
  | rBlocked (rpos : Nat)       -- parked on write_cursor
  | rWoken (rpos : Nat)         -- woken, about to return from futex_wait
  | rRdB (rpos : Nat)           -- data = blocks[rpos].data
  | rStR (rpos : Nat) (d : Option Msg)  -- store(read_cursor, rpos, release)
  | rPay (m : Msg)              -- harness: read the payload of the message received
  | rmLock                      -- mtx-lock rmutex
  | rmRdR                       -- read read_cursor -> rpos
  | rmRdW (rpos : Nat)          -- read write_cursor; compare
  | rmCvWait                    -- cv-wait rcv (releases rmutex)
  | rmCvBlocked                 -- waiting on rcv
  | rmCvSignaled                -- signalled, waiting to re-acquire rmutex
  | rmRdB (rpos : Nat)          -- data = blocks[rpos].data
  | rmWrR (rpos : Nat) (d : Option Msg) -- read_cursor = rpos (plain)
  | rmUnlock (d : Option Msg)   -- mtx-unlock rmutex
  | done
  deriving Repr, DecidableEq

structure St where
  cfg    : Cfg
  /- real state -/
  wc     : Nat                       -- write_cursor
  rc     : Nat                       -- read_cursor
  cached : Nat                       -- cached_r_cur
  blocks : Nat → Option Msg := fun _ => none
  wlock  : Nat := 0                  -- write_synclock / write_spinlock word
  /-- owner of the write lock: the pthread mutex owner for `WLock.mutex` (real), ghost for
  the other kinds (set on acquisition, cleared by the releasing step) -/
  holder : Option Nat := none
  rmtx   : Option Nat := none        -- owner of read_mutex
  pc     : Nat → Pc
  k      : Nat → Nat := fun _ => 0   -- index of the writer's current message / reads done
  att    : Nat → Nat := fun _ => 0   -- failed attempts for the current message
  /- ghost -/
  accepted  : List Msg := []
  delivered : List (Option Msg) := []
  fulls     : List Nat := []
  overwrites : Nat := 0
  okNotes   : List Msg := []
  fullNotes : Nat := 0
  obs       : Nat → Nat := fun _ => 0  -- |delivered| when the thread last loaded read_cursor
  cachedObs : Nat := 0                 -- |delivered| the value in cached_r_cur stands for
  know      : Nat → List Msg := fun _ => []
  relWC     : List Msg := []           -- published by the last release store of write_cursor
  relWL     : List Msg := []           -- ... by the last release of the write lock
  relRM     : List Msg := []           -- ... by the last unlock of read_mutex
  hbViol    : Nat := 0

def Cfg.reader (c : Cfg) : Nat := c.W

def entryFn (rm : RMode) : Pc :=
  match rm with
  | .sync => .sLdR
  | .busy => .bRdW
  | .mutex => .mLock

def mkInit (c : Cfg) : St :=
  { cfg := c, wc := 0, rc := c.cap - 1, cached := c.cap - 1,
    pc := fun t =>
      if t < c.W then (if c.n t = 0 then .done else .wPay)
      else if t = c.W then
        (if c.reads = 0 then .done else match c.rm with | .mutex => .rmLock | _ => .rRdR)
      else .done }

def St.enabled (s : St) (tok : Tok) : Bool :=
  let t := tok.tid
  t ≤ s.cfg.W &&
  match s.pc t with
  | .done => false
  | .wBlocked => false
  | .rBlocked _ => false
  | .wLock => (match s.cfg.wl with | .mutex => s.holder.isNone | _ => true) && tok.flag != .wake
  | .mLock => s.rmtx.isNone && tok.flag != .wake
  | .rmLock => s.rmtx.isNone && tok.flag != .wake
  | .rmCvSignaled => s.rmtx.isNone && tok.flag != .wake
  | .rmCvBlocked => s.rmtx.isNone && tok.flag == .wake
  | _ => tok.flag != .wake

def showData (c : Cfg) : Option Msg → String
  | none => "0"
  | some m => s!"&payload[{c.gid m}]"

def cur (s : St) (t : Nat) : Msg := { w := t, k := s.k t }

/-- enter `fn_write` (the write lock is held, or there is none) -/
def enterCall (s : St) (t : Nat) : St :=
  match s.cfg.wl with
  | .single => { s with holder := some t, pc := upd s.pc t (entryFn s.cfg.rm) }
  | _ => { s with pc := upd s.pc t .wLock }

/-- the harness after `muggle_channel_write` returned `r` -/
def finishCall (s : St) (t : Nat) (r : Ret) : St × List String :=
  let m := cur s t
  let nextMsg (s : St) : St :=
    let k' := s.k t + 1
    { s with k := upd s.k t k', att := upd s.att t 0,
             pc := upd s.pc t (if k' < s.cfg.n t then .wPay else .done) }
  match r with
  | .ok => (nextMsg { s with okNotes := s.okNotes ++ [m] }, [s!"T{t} note write=ok m{s.cfg.gid m}"])
  | .full =>
    let a := s.att t + 1
    let ev := [s!"T{t} note write=full m{s.cfg.gid m}"]
    let s := { s with fullNotes := s.fullNotes + 1 }
    if s.cfg.tries ≠ 0 ∧ a ≥ s.cfg.tries then (nextMsg s, ev)
    else ({ s with att := upd s.att t a, pc := upd s.pc t .wYield }, ev)

/-- after `fn_unlock`: `if (ret == 0) fn_wake(chan)` -/
def afterUnlock (s : St) (t : Nat) (r : Ret) : St × List String :=
  match r, s.cfg.rm with
  | .ok, .sync => ({ s with pc := upd s.pc t .wWake }, [])
  | .ok, .mutex => ({ s with pc := upd s.pc t .wWake }, [])
  | _, _ => finishCall s t r

/-- `fn_write` returned `r` -/
def leaveFn (s : St) (t : Nat) (r : Ret) : St × List String :=
  match s.cfg.wl with
  | .single => afterUnlock { s with holder := none } t r
  | _ => ({ s with pc := upd s.pc t (.wUnlock r) }, [])

/-- lowest-numbered writer parked on the write lock -/
def firstBlocked (pc : Nat → Pc) : Nat → Nat → Option Nat
  | 0, _ => none
  | n + 1, i => if pc i = .wBlocked then some i else firstBlocked pc n (i + 1)

/-- is slot `idx` holding an accepted message that has not been consumed? -/
def liveSlot (s : St) (idx : Nat) : Bool :=
  (List.range' s.delivered.length (s.accepted.length - s.delivered.length)).any
    fun j => j % s.cfg.cap == idx

/-- union of knowledge sets (no duplicates added, so the lists stay small) -/
def joinK (a b : List Msg) : List Msg := a ++ b.filter (fun m => !a.contains m)

/-- the write lock was acquired by `t` -/
def acquired (s : St) (t : Nat) : St :=
  { s with holder := some t, know := upd s.know t (joinK (s.know t) s.relWL),
           pc := upd s.pc t (entryFn s.cfg.rm) }

/-- publication of the message of `t`: ghost bookkeeping at the store of `write_cursor` -/
def publish (s : St) (t : Nat) (wpos : Nat) : St :=
  { s with wc := wpos, accepted := s.accepted ++ [cur s t] }

def wstep (s : St) (t : Nat) : Option (St × List String) :=
  let c := s.cfg
  let cap := c.cap
  match s.pc t with
  | .wPay =>
    let m := cur s t
    let g := c.gid m
    let s1 := { s with know := upd s.know t (m :: s.know t) }
    some (enterCall s1 t, [s!"T{t} w payload[{g}] {100 + g}"])
  | .wLock =>
    match c.wl with
    | .spin =>
      let ev := s!"T{t} xchg wlock {s.wlock}->1 acq"
      if s.wlock = 0 then some (acquired { s with wlock := 1 } t, [ev])
      else some ({ s with pc := upd s.pc t .wSpinYield }, [ev])
    | .sync =>
      if s.wlock = 0 then some (acquired { s with wlock := 1 } t, [s!"T{t} cas wlock 0->1 ok acq"])
      else some ({ s with pc := upd s.pc t (.wFwait s.wlock) }, [s!"T{t} cas wlock 0->1 fail={s.wlock} acq"])
    | .mutex => some (acquired s t, [s!"T{t} mtx-lock wmutex"])
    | .single => none
  | .wSpinYield => some ({ s with pc := upd s.pc t .wLock }, [s!"T{t} yield"])
  | .wFwait e =>
    if s.wlock = e then some ({ s with pc := upd s.pc t .wBlocked }, [s!"T{t} futex-wait wlock {e} blocked"])
    else some ({ s with pc := upd s.pc t .wLock }, [s!"T{t} futex-wait wlock {e} eagain"])
  | .wWoken => some ({ s with pc := upd s.pc t .wLock }, [s!"T{t} futex-resume wlock"])
  /- write_sync -/
  | .sLdR =>
    some ({ s with obs := upd s.obs t s.delivered.length, pc := upd s.pc t (.sRdW s.rc) },
          [s!"T{t} ld read_cursor {s.rc} rlx"])
  | .sRdW rpos =>
    let wpos := ring (s.wc + 1) cap
    let ev := s!"T{t} r write_cursor {s.wc}"
    if wpos = rpos then
      let r := leaveFn { s with fulls := s.fulls ++ [s.accepted.length - s.obs t] } t .full
      some (r.1, ev :: r.2)
    else some ({ s with pc := upd s.pc t (.cRdW2 wpos) }, [ev])
  | .cRdW2 wpos =>
    some ({ s with pc := upd s.pc t (.cWrB wpos s.wc) }, [s!"T{t} r write_cursor {s.wc}"])
  | .cWrB wpos idx =>
    let ow := if liveSlot s idx then 1 else 0
    some ({ s with blocks := upd s.blocks idx (some (cur s t)), overwrites := s.overwrites + ow,
                   pc := upd s.pc t (.cSt wpos) },
          [s!"T{t} w blocks[{idx}] {showData c (some (cur s t))}"])
  | .cSt wpos =>
    let s1 := publish { s with relWC := s.know t } t wpos
    let r := leaveFn s1 t .ok
    some (r.1, s!"T{t} st write_cursor {wpos} rel" :: r.2)
  /- write_busy -/
  | .bRdW =>
    some ({ s with pc := upd s.pc t (.bRdC (ring (s.wc + 1) cap)) }, [s!"T{t} r write_cursor {s.wc}"])
  | .bRdC wpos =>
    let ev := s!"T{t} r cached_r_cur {s.cached}"
    if wpos ≠ s.cached then some ({ s with pc := upd s.pc t (.cRdW2 wpos) }, [ev])
    else some ({ s with pc := upd s.pc t (.bLdR wpos) }, [ev])
  | .bLdR wpos =>
    some ({ s with obs := upd s.obs t s.delivered.length, pc := upd s.pc t (.bWrC wpos s.rc) },
          [s!"T{t} ld read_cursor {s.rc} rlx"])
  | .bWrC wpos v =>
    some ({ s with cached := v, cachedObs := s.obs t, pc := upd s.pc t (.bRdC2 wpos) },
          [s!"T{t} w cached_r_cur {v}"])
  | .bRdC2 wpos =>
    let ev := s!"T{t} r cached_r_cur {s.cached}"
    if wpos ≠ s.cached then some ({ s with pc := upd s.pc t (.cRdW2 wpos) }, [ev])
    else
      let r := leaveFn { s with fulls := s.fulls ++ [s.accepted.length - s.cachedObs] } t .full
      some (r.1, ev :: r.2)
  /- write_mutex -/
  | .mLock =>
    some ({ s with rmtx := some t, know := upd s.know t (joinK (s.know t) s.relRM),
                   pc := upd s.pc t .mRdW }, [s!"T{t} mtx-lock rmutex"])
  | .mRdW =>
    some ({ s with pc := upd s.pc t (.mRdR (ring (s.wc + 1) cap)) }, [s!"T{t} r write_cursor {s.wc}"])
  | .mRdR wpos =>
    let ev := s!"T{t} r read_cursor {s.rc}"
    if wpos = s.rc then
      some ({ s with fulls := s.fulls ++ [s.accepted.length - s.delivered.length],
                     pc := upd s.pc t (.mUnlock .full) }, [ev])
    else some ({ s with pc := upd s.pc t (.mRdW2 wpos) }, [ev])
  | .mRdW2 wpos =>
    some ({ s with pc := upd s.pc t (.mWrB wpos s.wc) }, [s!"T{t} r write_cursor {s.wc}"])
  | .mWrB wpos idx =>
    let ow := if liveSlot s idx then 1 else 0
    some ({ s with blocks := upd s.blocks idx (some (cur s t)), overwrites := s.overwrites + ow,
                   pc := upd s.pc t (.mWrW wpos) },
          [s!"T{t} w blocks[{idx}] {showData c (some (cur s t))}"])
  | .mWrW wpos =>
    some ({ publish s t wpos with pc := upd s.pc t (.mUnlock .ok) }, [s!"T{t} w write_cursor {wpos}"])
  | .mUnlock r =>
    let r := leaveFn { s with rmtx := none, relRM := s.know t } t r
    some (r.1, s!"T{t} mtx-unlock rmutex" :: r.2)
  /- fn_unlock, fn_wake -/
  | .wUnlock r =>
    match c.wl with
    | .spin =>
      let r := afterUnlock { s with wlock := 0, holder := none, relWL := s.know t } t r
      some (r.1, s!"T{t} st wlock 0 rel" :: r.2)
    | .sync =>
      some ({ s with wlock := 0, holder := none, relWL := s.know t, pc := upd s.pc t (.wUnlockWake r) },
            [s!"T{t} st wlock 0 rel"])
    | .mutex =>
      let r := afterUnlock { s with holder := none, relWL := s.know t } t r
      some (r.1, s!"T{t} mtx-unlock wmutex" :: r.2)
    | .single => none
  | .wUnlockWake r =>
    match firstBlocked s.pc c.W 0 with
    | some w =>
      let r := afterUnlock { s with pc := upd s.pc w .wWoken } t r
      some (r.1, s!"T{t} futex-wake wlock 1 woke=1" :: r.2)
    | none =>
      let r := afterUnlock s t r
      some (r.1, s!"T{t} futex-wake wlock 1 woke=0" :: r.2)
  | .wWake =>
    let rd := c.reader
    match c.rm with
    | .sync =>
      match s.pc rd with
      | .rBlocked rpos =>
        let r := finishCall { s with pc := upd s.pc rd (.rWoken rpos) } t .ok
        some (r.1, s!"T{t} futex-wake write_cursor 1 woke=1" :: r.2)
      | _ =>
        let r := finishCall s t .ok
        some (r.1, s!"T{t} futex-wake write_cursor 1 woke=0" :: r.2)
    | .mutex =>
      match s.pc rd with
      | .rmCvBlocked =>
        let r := finishCall { s with pc := upd s.pc rd .rmCvSignaled } t .ok
        some (r.1, s!"T{t} cv-signal rcv woke=1" :: r.2)
      | _ =>
        let r := finishCall s t .ok
        some (r.1, s!"T{t} cv-signal rcv woke=0" :: r.2)
    | .busy => none
  | .wYield => some (enterCall s t, [s!"T{t} yield"])
  | _ => none

/-- the reader's call returned `d`: harness bookkeeping -/
def readReturned (s : St) (t : Nat) (d : Option Msg) : St × List String :=
  match d with
  | some m => ({ s with pc := upd s.pc t (.rPay m) }, [])
  | none =>
    let k' := s.k t + 1
    ({ s with k := upd s.k t k',
              pc := upd s.pc t (if k' < s.cfg.reads then
                (match s.cfg.rm with | .mutex => .rmLock | _ => .rRdR) else .done) },
     [s!"T{t} note read=BAD -1"])

def rstep (s : St) (t : Nat) (flag : Flag) : Option (St × List String) :=
  let c := s.cfg
  let cap := c.cap
  match s.pc t with
  | .rRdR => some ({ s with pc := upd s.pc t (.rLdW (ring (s.rc + 1) cap)) }, [s!"T{t} r read_cursor {s.rc}"])
  | .rLdW rpos =>
    let ev := s!"T{t} ld write_cursor {s.wc} acq"
    let s1 := { s with know := upd s.know t (joinK (s.know t) s.relWC) }
    if s.wc ≠ rpos then some ({ s1 with pc := upd s.pc t (.rRdB rpos) }, [ev])
    else match c.rm with
      | .busy => some (s1, [ev])
      | _ => some ({ s1 with pc := upd s.pc t (.rFwait rpos s.wc) }, [ev])
  | .rFwait rpos wpos =>
    if s.wc = wpos then
      some ({ s with pc := upd s.pc t (.rBlocked rpos) }, [s!"T{t} futex-wait write_cursor {wpos} blocked"])
    else some ({ s with pc := upd s.pc t (.rLdW rpos) }, [s!"T{t} futex-wait write_cursor {wpos} eagain"])
  | .rWoken rpos => some ({ s with pc := upd s.pc t (.rLdW rpos) }, [s!"T{t} futex-resume write_cursor"])
  | .rRdB rpos =>
    some ({ s with pc := upd s.pc t (.rStR rpos (s.blocks rpos)) },
          [s!"T{t} r blocks[{rpos}] {showData c (s.blocks rpos)}"])
  | .rStR rpos d =>
    let r := readReturned { s with rc := rpos, delivered := s.delivered ++ [d] } t d
    some (r.1, s!"T{t} st read_cursor {rpos} rel" :: r.2)
  | .rPay m =>
    let g := c.gid m
    let k' := s.k t + 1
    let bad := if m ∈ s.know t then 0 else 1
    some ({ s with k := upd s.k t k', hbViol := s.hbViol + bad,
                   pc := upd s.pc t (if k' < c.reads then
                     (match c.rm with | .mutex => .rmLock | _ => .rRdR) else .done) },
          [s!"T{t} r payload[{g}] {100 + g}", s!"T{t} note read=m{g} stamp={100 + g}"])
  /- read_mutex -/
  | .rmLock =>
    some ({ s with rmtx := some t, know := upd s.know t (joinK (s.know t) s.relRM),
                   pc := upd s.pc t .rmRdR }, [s!"T{t} mtx-lock rmutex"])
  | .rmRdR => some ({ s with pc := upd s.pc t (.rmRdW (ring (s.rc + 1) cap)) }, [s!"T{t} r read_cursor {s.rc}"])
  | .rmRdW rpos =>
    let ev := s!"T{t} r write_cursor {s.wc}"
    if rpos ≠ s.wc then some ({ s with pc := upd s.pc t (.rmRdB rpos) }, [ev])
    else some ({ s with pc := upd s.pc t .rmCvWait }, [ev])
  | .rmCvWait =>
    some ({ s with rmtx := none, relRM := s.know t, pc := upd s.pc t .rmCvBlocked }, [s!"T{t} cv-wait rcv"])
  | .rmCvBlocked =>
    -- only reachable with the `~` flag (spurious wake-up), see `St.enabled`
    if flag = .wake then
      some ({ s with rmtx := some t, know := upd s.know t (joinK (s.know t) s.relRM),
                     pc := upd s.pc t .rmRdR }, [s!"T{t} cv-resume rcv spurious"])
    else none
  | .rmCvSignaled =>
    some ({ s with rmtx := some t, know := upd s.know t (joinK (s.know t) s.relRM),
                   pc := upd s.pc t .rmRdR }, [s!"T{t} cv-resume rcv"])
  | .rmRdB rpos =>
    some ({ s with pc := upd s.pc t (.rmWrR rpos (s.blocks rpos)) },
          [s!"T{t} r blocks[{rpos}] {showData c (s.blocks rpos)}"])
  | .rmWrR rpos d =>
    some ({ s with rc := rpos, delivered := s.delivered ++ [d], pc := upd s.pc t (.rmUnlock d) },
          [s!"T{t} w read_cursor {rpos}"])
  | .rmUnlock d =>
    let r := readReturned { s with rmtx := none, relRM := s.know t } t d
    some (r.1, s!"T{t} mtx-unlock rmutex" :: r.2)
  | _ => none

/-- a regular step (everything except the interrupted futex wait) -/
def stepMain (s : St) (tok : Tok) : Option (St × List String) :=
  if !s.enabled tok then none
  else if tok.tid < s.cfg.W then wstep s tok.tid
  else rstep s tok.tid tok.flag

/-- pcs parked in `futex_wait` -/
def isFutexParked : Pc → Bool
  | .rBlocked _ | .wBlocked => true
  | _ => false

/-- schedule flag `~` on a thread parked in a futex: `futex_wait` returns -1/EINTR although nobody
woke it (a signal without SA_RESTART — legal Linux behaviour). `muggle_sync_wait`'s result is
ignored by `channel.c` and `synclock.c`: the reader goes round its loop and re-loads
`write_cursor`; the writer goes round the lock loop and retries its compare-exchange. -/
def spurStep (s : St) (t : Nat) : Option (St × List String) :=
  match s.pc t with
  | .rBlocked rpos =>
    some ({ s with pc := upd s.pc t (.rLdW rpos) }, [s!"T{t} futex-resume write_cursor spurious"])
  | .wBlocked => some ({ s with pc := upd s.pc t .wLock }, [s!"T{t} futex-resume wlock spurious"])
  | _ => none

def step (s : St) (tok : Tok) : Option (St × List String) :=
  if tok.flag = .wake ∧ tok.tid ≤ s.cfg.W ∧ isFutexParked (s.pc tok.tid) = true then spurStep s tok.tid
  else stepMain s tok

/-! ## what the harness reports at the end -/

def allDone (s : St) : Bool := (List.range (s.cfg.W + 1)).all fun t => s.pc t == .done
def anyEnabled (s : St) : Bool := (List.range (s.cfg.W + 1)).any fun t => s.enabled { tid := t }

def stateLines (s : St) : List String :=
  (List.range (s.cfg.W + 1)).map fun t =>
    match s.pc t with
    | .done => s!"state T{t} done -"
    | .wBlocked => s!"state T{t} futex wlock"
    | .rBlocked _ => s!"state T{t} futex write_cursor"
    | .rmCvBlocked => s!"state T{t} cv rcv"
    | .wLock => (match s.cfg.wl with
                 | .mutex => if s.holder.isNone then s!"state T{t} ready -" else s!"state T{t} mutex wmutex"
                 | _ => s!"state T{t} ready -")
    | .mLock => if s.rmtx.isNone then s!"state T{t} ready -" else s!"state T{t} mutex rmutex"
    | .rmLock => if s.rmtx.isNone then s!"state T{t} ready -" else s!"state T{t} mutex rmutex"
    | .rmCvSignaled => if s.rmtx.isNone then s!"state T{t} ready -" else s!"state T{t} mutex rmutex"
    | _ => s!"state T{t} ready -"

def showIds (l : List String) : String := if l.isEmpty then "-" else ",".intercalate l

def showOpt (c : Cfg) : Option Msg → String
  | none => "-1"
  | some m => toString (c.gid m)

/-- what the harness saw returned by `muggle_channel_read` (a read that stored `read_cursor`
under the mutex but has not unlocked yet has not returned) -/
def returned (s : St) : List (Option Msg) :=
  match s.pc s.cfg.reader with
  | .rmUnlock _ => s.delivered.dropLast
  | _ => s.delivered

/-- the harness prints `accepted` as (what the reads returned) ++ (what is still in the ring
between the cursors); the model prints its ghost list (minus a message in flight between the
reader's cursor store and its unlock, which the harness cannot see) -/
def outcome (s : St) : String :=
  let c := s.cfg
  let ret := returned s
  let acc := (s.accepted.take ret.length) ++ (s.accepted.drop s.delivered.length)
  s!"outcome cap={c.cap} wc={s.wc} rc={s.rc} accepted={showIds (acc.map fun m => toString (c.gid m))} " ++
  s!"delivered={showIds (ret.map (showOpt c))} ok={s.okNotes.length} full={s.fullNotes}"

end MgModel.C01
