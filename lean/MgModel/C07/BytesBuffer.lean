/-!
# C07 — bytes buffer (muggle/c/memory/bytes_buffer.c)

Executable model. One total function per C function, decision by decision. The
cursors `c w r t` are C `int`s modelled on unbounded `Int` (theorem
`MgProof.C07.cursors_bounded`: every value stays in `[0, c]`, so nothing overflows
when `c ≤ INT_MAX`). The storage `buf` is the `malloc(capacity)` block; every
`memcpy` of the C code is one `rd` / `wr` below, and both are bounds-checked against
the real block: an access outside `[0, buf.length)` (or with a negative size) is
`Err.oob`, never a default value.

The model is of the code WITH fixes/C07-stale-truncation.patch applied (the extra
conjunct `r > w` in the wrap test of `read`, marked FIX; the truncation mark `t` is
deliberately left alone when the reader wraps — the existing unit test
`fc_and_move_n_case2` pins that — so in the contiguous layout `t` may be a stale
mark and is never consulted). `Orig.read` is the function as it is in the pinned tree; `MgProof.C07.stale_truncation_duplicates` shows that it breaks
the FIFO property.
-/
namespace MgModel.C07

abbrev Byte := UInt8

inductive Err where
  | oob            -- memcpy outside the malloc'ed block / negative size
  | pre            -- caller broke the documented contract of the zero-copy pair
  deriving Repr, DecidableEq

/-- `muggle_bytes_buffer_t` (`buffer` = the malloc'ed block, as a list of bytes) -/
structure BB where
  c : Int
  w : Int
  r : Int
  t : Int
  buf : List Byte
  deriving Repr, DecidableEq

/-! ## memory primitives (Nat level) -/

/-- bytes `[off, off+n)` of `b` -/
def slice (b : List Byte) (off n : Nat) : List Byte := (b.drop off).take n

/-- `b` with `src` copied to `[off, off + src.length)` -/
def store (b : List Byte) (off : Nat) (src : List Byte) : List Byte :=
  b.take off ++ src ++ b.drop (off + src.length)

/-- `memcpy(dst, buffer + off, n)` -/
def rd (s : BB) (off n : Int) : Except Err (List Byte) :=
  if 0 ≤ off ∧ 0 ≤ n ∧ off + n ≤ s.buf.length then .ok (slice s.buf off.toNat n.toNat)
  else .error .oob

/-- `memcpy(buffer + off, src, src.length)` -/
def wr (s : BB) (off : Int) (src : List Byte) : Except Err BB :=
  if 0 ≤ off ∧ off + src.length ≤ s.buf.length then
    .ok { s with buf := store s.buf off.toNat src }
  else .error .oob

/-! ## the static helpers -/

/-- `muggle_bytes_buffer_contiguous_writable` -/
def contiguousWritable (s : BB) : Int :=
  if s.w ≥ s.r then
    if s.r ≠ 0 then s.c - s.w else s.c - s.w - 1
  else s.r - s.w - 1

/-- `muggle_bytes_buffer_jump_writable` -/
def jumpWritable (s : BB) : Int :=
  if s.w ≥ s.r then
    if s.r ≠ 0 then s.r - 1 else 0
  else 0

/-- `muggle_bytes_buffer_jump_readable` -/
def jumpReadable (s : BB) : Int :=
  if s.w ≥ s.r then 0 else s.w

/-- `muggle_bytes_buffer_contiguous_readable` -/
def contiguousReadable (s : BB) : Int :=
  if s.w ≥ s.r then s.w - s.r else s.t - s.r

/-- `muggle_bytes_buffer_writable` -/
def writable (s : BB) : Int := contiguousWritable s + jumpWritable s

/-- `muggle_bytes_buffer_readable` -/
def readable (s : BB) : Int := contiguousReadable s + jumpReadable s

/-- `muggle_bytes_buffer_clear` -/
def clear (s : BB) : BB := { s with w := 0, r := 0, t := s.c }

/-- `muggle_bytes_buffer_refresh` -/
def refresh (s : BB) : BB := if s.w = s.r then clear s else s

/-- `muggle_bytes_buffer_init` (`none`: malloc of a negative size fails → false).
    The harness zero-fills the block so that dumps are canonical. -/
def init (capacity : Int) : Option BB :=
  if capacity < 0 then none
  else some { c := capacity, w := 0, r := 0, t := capacity,
              buf := List.replicate capacity.toNat 0 }

/-! ## API functions. `none` = the C function returned `false` / `NULL`. -/

/-- the two-piece copy shared by `fetch` and `read`:
    `if (cr > 0) memcpy(dst, buffer + r, cr); memcpy(dst + cr, buffer, remain)` -/
def copySplit (s : BB) (cr remain : Int) : Except Err (List Byte) := do
  let d1 ← if cr > 0 then rd s s.r cr
           else if cr = 0 then pure [] else throw .oob   -- `dst + cr` before `dst`
  let d2 ← rd s 0 remain
  return d1 ++ d2

/-- `muggle_bytes_buffer_fetch` -/
def fetch (s : BB) (n : Int) : Except Err (Option (List Byte)) :=
  let cr := contiguousReadable s
  if cr ≥ n then do
    let d ← rd s s.r n
    return some d
  else
    let jr := jumpReadable s
    if cr + jr < n then return none
    else do
      let d ← copySplit s cr (n - cr)
      return some d

/-- `muggle_bytes_buffer_read` (fixed: the `r == t` wrap fires only for a wrapped
    reader, `r > w`) -/
def read (s : BB) (n : Int) : Except Err (BB × Option (List Byte)) :=
  let cr := contiguousReadable s
  if cr ≥ n then do
    let d ← rd s s.r n
    let s1 := { s with r := s.r + n }
    let s2 := if s1.r = s1.t ∧ s1.r > s1.w /- FIX: second conjunct -/ then { s1 with r := 0 } else s1
    return (refresh s2, some d)
  else
    let jr := jumpReadable s
    if cr + jr < n then return (s, none)
    else do
      let d ← copySplit s cr (n - cr)
      let s1 := { s with r := n - cr }
      return (refresh s1, some d)

/-- the writer advance shared by `write`, `writer_move`, `writer_move_n`:
    `w += n; if (t < w) t = c; if (w == c) w = 0;` -/
def advanceW (s : BB) (n : Int) : BB :=
  let s1 := { s with w := s.w + n }
  let s2 := if s1.t < s1.w then { s1 with t := s1.c } else s1
  if s2.w = s2.c then { s2 with w := 0 } else s2

/-- `muggle_bytes_buffer_write` (`num_bytes = src.length`) -/
def write (s : BB) (src : List Byte) : Except Err (BB × Bool) :=
  let n : Int := src.length
  let cw := contiguousWritable s
  if cw ≥ n then do
    let s1 ← wr s s.w src
    return (advanceW s1 n, true)
  else
    let jw := jumpWritable s
    if cw + jw < n then return (s, false)
    else if jw ≥ n then do
      let s1 := { s with t := s.w }
      let s2 ← wr s1 0 src
      return ({ s2 with w := n }, true)
    else do
      let s1 := { s with t := s.c }
      let s2 ← if cw > 0 then wr s1 s1.w (src.take cw.toNat)
               else if cw = 0 then pure s1 else throw .oob   -- `src + cw` before `src`
      let remain := n - cw
      let s3 ← wr s2 0 (src.drop cw.toNat)
      return ({ s3 with w := remain }, true)

/-- `muggle_bytes_buffer_writer_fc`: offset of the returned pointer into the block -/
def writerFc (s : BB) (n : Int) : Option Int :=
  let cw := contiguousWritable s
  if cw ≥ n then some s.w
  else
    let jw := jumpWritable s
    if jw ≥ n then some 0 else none

/-- `muggle_bytes_buffer_writer_move` (deprecated) -/
def writerMove (s : BB) (n : Int) : BB × Bool :=
  let cw := contiguousWritable s
  if cw ≥ n then (advanceW s n, true)
  else
    let jw := jumpWritable s
    if jw ≥ n then ({ s with t := s.w, w := n }, true)
    else (s, false)

/-- `muggle_bytes_buffer_writer_move_n`; `off` = `ptr - buffer` -/
def writerMoveN (s : BB) (off : Int) (n : Int) : BB × Bool :=
  if off = 0 then
    let s1 := if s.w > 0 then { s with t := s.w } else s
    ({ s1 with w := n }, true)
  else (advanceW s n, true)

/-- `muggle_bytes_buffer_reader_fc`: offset of the returned pointer -/
def readerFc (s : BB) (n : Int) : Option Int :=
  if contiguousReadable s ≥ n then some s.r else none

/-- `muggle_bytes_buffer_reader_move` -/
def readerMove (s : BB) (n : Int) : BB × Bool :=
  if contiguousReadable s ≥ n then (refresh { s with r := s.r + n }, true)
  else (s, false)

/-! ## Operations as the harness issues them -/

inductive Op where
  /-- `write(src.length, src)` -/
  | write (src : List Byte)
  /-- `read(n, dst)` -/
  | read (n : Int)
  /-- `fetch(n, dst)` -/
  | fetch (n : Int)
  /-- `p = writer_fc(data.length)`; if non-NULL the caller fills all `data.length`
      claimed bytes with `data` and calls `writer_move_n(p, k)` (partial advance) -/
  | wz (data : List Byte) (k : Int)
  /-- same with the deprecated `writer_move(data.length)` (full advance only: the
      header documents that a partial advance after a jump is wrong) -/
  | wd (data : List Byte)
  /-- `p = reader_fc(n)`; if non-NULL the caller looks at the `n` bytes and calls
      `reader_move(k)` -/
  | rz (n k : Int)
  | clear
  deriving Repr, DecidableEq

inductive Res where
  | fail                                  -- false / NULL, nothing obtained
  | ok (bytes : List Byte)                -- true; bytes obtained by the reader ([] for writer ops)
  | seen (bytes : List Byte)              -- `rz`: reader_fc succeeded, reader_move returned false
  deriving Repr, DecidableEq

def Res.isOk : Res → Bool
  | .ok _ => true
  | _ => false

/-- one harness operation on the model -/
def step (s : BB) : Op → Except Err (BB × Res)
  | .write src => do
    let (s', b) ← write s src
    return (s', if b then .ok [] else .fail)
  | .read n => do
    let (s', o) ← read s n
    return (s', match o with | some d => .ok d | none => .fail)
  | .fetch n => do
    let o ← fetch s n
    return (s, match o with | some d => .ok d | none => .fail)
  | .wz data k =>
    if k < 0 ∨ k > data.length then throw .pre
    else match writerFc s data.length with
    | none => return (s, .fail)
    | some off => do
      let s1 ← wr s off data
      let (s2, b) := writerMoveN s1 off k
      return (s2, if b then .ok [] else .fail)
  | .wd data =>
    match writerFc s data.length with
    | none => return (s, .fail)
    | some off => do
      let s1 ← wr s off data
      let (s2, b) := writerMove s1 data.length
      return (s2, if b then .ok [] else .fail)
  | .rz n k =>
    match readerFc s n with
    | none => return (s, .fail)
    | some off => do
      let d ← rd s off n
      let (s2, b) := readerMove s k
      return (s2, if b then .ok d else .seen d)
  | .clear => return (clear s, .ok [])

/-- a history -/
def run (s : BB) : List Op → Except Err (BB × List Res)
  | [] => .ok (s, [])
  | op :: ops => do
    let (s1, x) ← step s op
    let (s2, xs) ← run s1 ops
    return (s2, x :: xs)

/-! ## Specification: a queue of bytes

The space/contiguity an operation needs depends on the cursor layout (that is the
three-case accounting of the C file), so for the writer operations and the
zero-copy reader the specification takes the verdict (`ok`) as an input and says
what must then happen to the byte stream; `MgProof.C07.Props` characterises every
verdict separately. `read`/`fetch` are specified completely. -/

def specStep (q : List Byte) (ok : Bool) : Op → List Byte × Res
  | .write src => if ok then (q ++ src, .ok []) else (q, .fail)
  | .read n => if n ≤ q.length then (q.drop n.toNat, .ok (q.take n.toNat)) else (q, .fail)
  | .fetch n => if n ≤ q.length then (q, .ok (q.take n.toNat)) else (q, .fail)
  | .wz data k => if ok then (q ++ data.take k.toNat, .ok []) else (q, .fail)
  | .wd data => if ok then (q ++ data, .ok []) else (q, .fail)
  | .rz n k =>
    if ok then (q.drop k.toNat, .ok (q.take n.toNat)) else (q, .fail)
  | .clear => ([], .ok [])

/-- the contract of the API under which the theorems are stated: sizes are not
    negative; `writer_move_n` advances by at most what `writer_fc` granted;
    `reader_move` by at most what `reader_fc` exposed -/
def Op.Valid : Op → Prop
  | .write _ => True
  | .read n => 0 ≤ n
  | .fetch n => 0 ≤ n
  | .wz data k => 0 ≤ k ∧ k ≤ data.length
  | .wd _ => True
  | .rz n k => 0 ≤ n ∧ 0 ≤ k ∧ k ≤ n
  | .clear => True

instance : DecidablePred Op.Valid := fun op => by
  cases op <;> simp only [Op.Valid] <;> infer_instance

/-- the specification along a history; the verdicts are taken from `rs` -/
def specRun (q : List Byte) : List Op → List Res → List Byte × List Res
  | op :: ops, r :: rs =>
    let (q1, x) := specStep q r.isOk op
    let (q2, xs) := specRun q1 ops rs
    (q2, x :: xs)
  | _, _ => (q, [])

/-- bytes accepted from the writer by one operation (judged by its result) -/
def accepted (res : Res) : Op → List Byte
  | .write src => if res.isOk then src else []
  | .wz data k => if res.isOk then data.take k.toNat else []
  | .wd data => if res.isOk then data else []
  | _ => []

/-- bytes the reader obtained AND consumed by one operation (judged by its result):
    everything `read` copied out; the first `k` of the bytes exposed by the zero-copy
    pair. `fetch` consumes nothing. -/
def obtained (res : Res) : Op → List Byte
  | .read _ => match res with | .ok d => d | _ => []
  | .rz _ k => match res with | .ok d => d.take k.toNat | _ => []
  | _ => []

def acceptedAll : List Op → List Res → List Byte
  | op :: ops, r :: rs => accepted r op ++ acceptedAll ops rs
  | _, _ => []

def obtainedAll : List Op → List Res → List Byte
  | op :: ops, r :: rs => obtained r op ++ obtainedAll ops rs
  | _, _ => []

/-- bytes that leave the queue by one operation: obtained by the reader, or thrown
    away by an explicit `clear` -/
def departed (q : List Byte) (res : Res) : Op → List Byte
  | .clear => q
  | op => obtained res op

def departedAll (q : List Byte) : List Op → List Res → List Byte
  | op :: ops, r :: rs => departed q r op ++ departedAll (specStep q r.isOk op).1 ops rs
  | _, _ => []

/-- what the abstraction of a state is: the unread bytes, oldest first -/
def abs (s : BB) : List Byte :=
  if s.r ≤ s.w then slice s.buf s.r.toNat (s.w - s.r).toNat
  else slice s.buf s.r.toNat (s.t - s.r).toNat ++ slice s.buf 0 s.w.toNat

/-! ## The function as it is in the pinned tree (the wrap test is just `r == t`) -/
namespace Orig

def read (s : BB) (n : Int) : Except Err (BB × Option (List Byte)) :=
  let cr := contiguousReadable s
  if cr ≥ n then do
    let d ← rd s s.r n
    let s1 := { s with r := s.r + n }
    let s2 := if s1.r = s1.t then { s1 with r := 0 } else s1
    return (refresh s2, some d)
  else
    let jr := jumpReadable s
    if cr + jr < n then return (s, none)
    else do
      let d ← copySplit s cr (n - cr)
      let s1 := { s with r := n - cr }
      return (refresh s1, some d)

/-- `step` with the pinned tree's `read` -/
def step (s : BB) : Op → Except Err (BB × Res)
  | .read n => do
    let (s', o) ← Orig.read s n
    return (s', match o with | some d => .ok d | none => .fail)
  | op => MgModel.C07.step s op

def run (s : BB) : List Op → Except Err (BB × List Res)
  | [] => .ok (s, [])
  | op :: ops => do
    let (s1, x) ← Orig.step s op
    let (s2, xs) ← Orig.run s1 ops
    return (s2, x :: xs)

end Orig

end MgModel.C07
