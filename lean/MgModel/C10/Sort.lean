import MgModel.C10.Heap
/-!
# C10 — executable model of `muggle/c/dsaa/sort.c`

The five sort routines, mirrored loop for loop: one recursive function per C loop,
same index arithmetic, same comparisons (so the model reproduces the *exact* output
order of the C code, including the order of equal keys).  `ptr` is an `Array Elem`;
every access is bounds-checked (`Err.oob`).

`size_t` arithmetic is modelled on `Nat`; the only places where the C code can wrap
are `count - 1` in `muggle_merge_sort` / `muggle_quick_sort` (modelled explicitly in
the `…Orig` entry points, removed by `fixes/C10-sort-count-zero.patch`) and
`--j` / `i - 1` in quick sort (explicit `Err.oob` / `Err.range`).  `left + right`
is assumed not to overflow (`count < 2^63`).
-/
namespace MgModel.C10

/-- `SIZE_MAX + 1` -/
def sizeMod : Nat := 18446744073709551616

/-- `count - 1` evaluated in `size_t` -/
def wrapSub1 (n : Nat) : Nat := (n + sizeMod - 1) % sizeMod

/-! ## insertion sort (on the sub-array `ptr = a + base`, as quick sort calls it) -/

/-- `for (j = i; j > 0; j--) { if (cmp(ptr[j-1], tmp) > 0) ptr[j] = ptr[j-1]; else break; } ptr[j] = tmp;` -/
def insInner (a : Array Elem) (base : Nat) (tmp : Elem) : Nat → Except Err (Array Elem)
  | 0 => wr a base tmp
  | j + 1 =>
    match rd a (base + j) with
    | .error e => .error e
    | .ok x =>
      if cmp x tmp > 0 then
        match wr a (base + (j + 1)) x with
        | .error e => .error e
        | .ok a' => insInner a' base tmp j
      else wr a (base + (j + 1)) tmp

/-- `for (size_t i = …; i < count; i++)` -/
def insOuter (a : Array Elem) (base count i : Nat) : Except Err (Array Elem) :=
  if i < count then
    match rd a (base + i) with
    | .error e => .error e
    | .ok tmp =>
      match insInner a base tmp i with
      | .error e => .error e
      | .ok a' => insOuter a' base count (i + 1)
  else .ok a
termination_by count - i

/-- `muggle_insertion_sort(a + base, count, cmp)` -/
def insertionSortAt (a : Array Elem) (base count : Nat) : Except Err (Array Elem) :=
  insOuter a base count 1

/-- `muggle_insertion_sort(ptr, count, cmp)` -/
def insertionSort (a : Array Elem) : Except Err (Array Elem) :=
  insertionSortAt a 0 a.size

/-! ## shell sort -/

/-- `for (j = i; j >= increment; j -= increment) { if (cmp(tmp, ptr[j-increment]) < 0) ptr[j] = ptr[j-increment]; else break; } ptr[j] = tmp;` -/
def shellInner (a : Array Elem) (h : Nat) (hpos : 0 < h) (tmp : Elem) (j : Nat) :
    Except Err (Array Elem) :=
  if h ≤ j then
    match rd a (j - h) with
    | .error e => .error e
    | .ok x =>
      if cmp tmp x < 0 then
        match wr a j x with
        | .error e => .error e
        | .ok a' => shellInner a' h hpos tmp (j - h)
      else wr a j tmp
  else wr a j tmp
termination_by j
decreasing_by omega

/-- `for (size_t i = increment; i < count; i++)` -/
def shellMid (a : Array Elem) (h : Nat) (hpos : 0 < h) (count i : Nat) : Except Err (Array Elem) :=
  if i < count then
    match rd a i with
    | .error e => .error e
    | .ok tmp =>
      match shellInner a h hpos tmp i with
      | .error e => .error e
      | .ok a' => shellMid a' h hpos count (i + 1)
  else .ok a
termination_by count - i

/-- `for (size_t increment = …; increment > 0; increment /= 2)` -/
def shellOuter (a : Array Elem) (count inc : Nat) : Except Err (Array Elem) :=
  if hpos : 0 < inc then
    match shellMid a inc hpos count inc with
    | .error e => .error e
    | .ok a' => shellOuter a' count (inc / 2)
  else .ok a
termination_by inc
decreasing_by omega

/-- `muggle_shell_sort` -/
def shellSort (a : Array Elem) : Except Err (Array Elem) :=
  shellOuter a a.size (a.size / 2)

/-! ## heap sort (through the heap model; node = (key = ptr[i], value = NULL)) -/

/-- `for (i = 0; i < count; i++) muggle_heap_insert(&heap, ptr[i], NULL);` (result ignored) -/
def hsInsert (a : Array Elem) (count : Nat) (h : Heap) (i : Nat) : Except Err Heap :=
  if i < count then
    match rd a i with
    | .error e => .error e
    | .ok x =>
      match h.insert x with
      | .error e => .error e
      | .ok none => hsInsert a count h (i + 1)
      | .ok (some h') => hsInsert a count h' (i + 1)
  else .ok h
termination_by count - i

/-- `for (i = 0; i < count; i++) { muggle_heap_extract(&heap, &node); ptr[i] = node.key; }` -/
def hsExtract (a : Array Elem) (count : Nat) (h : Heap) (i : Nat) : Except Err (Array Elem) :=
  if i < count then
    match h.extract with
    | .error e => .error e
    | .ok none => .error .uninit          -- result ignored by the C code: `node` not written
    | .ok (some (r, h')) =>
      match wr a i r with
      | .error e => .error e
      | .ok a' => hsExtract a' count h' (i + 1)
  else .ok a
termination_by count - i

/-- `muggle_heap_sort` (`.ok none` = returns false: `(uint32_t)count + 1` is not a valid capacity) -/
def heapSort (a : Array Elem) : Except Err (Option (Array Elem)) :=
  match Heap.init ((a.size % 4294967296 + 1) % 4294967296) with
  | none => .ok none
  | some h =>
    match hsInsert a a.size h 0 with
    | .error e => .error e
    | .ok h' =>
      match hsExtract a a.size h' 0 with
      | .error e => .error e
      | .ok a' => .ok (some a')

/-! ## merge sort -/

/-- `while (l <= center && r <= right) { if (cmp(ptr[l], ptr[r]) <= 0) arr[idx++] = ptr[l++]; else arr[idx++] = ptr[r++]; }` -/
def mergeLoop (p arr : Array Elem) (center right l r idx : Nat) :
    Except Err (Array Elem × Nat × Nat × Nat) :=
  if l ≤ center ∧ r ≤ right then
    match rd p l with
    | .error e => .error e
    | .ok x =>
      match rd p r with
      | .error e => .error e
      | .ok y =>
        if cmp x y ≤ 0 then
          match wr arr idx x with
          | .error e => .error e
          | .ok arr' => mergeLoop p arr' center right (l + 1) r (idx + 1)
        else
          match wr arr idx y with
          | .error e => .error e
          | .ok arr' => mergeLoop p arr' center right l (r + 1) (idx + 1)
  else .ok (arr, l, r, idx)
termination_by (center + 1 - l) + (right + 1 - r)
decreasing_by all_goals omega

/-- `while (l <= hi) arr[idx++] = ptr[l++];` (used for both tails) -/
def copyTail (p arr : Array Elem) (hi l idx : Nat) : Except Err (Array Elem × Nat) :=
  if l ≤ hi then
    match rd p l with
    | .error e => .error e
    | .ok x =>
      match wr arr idx x with
      | .error e => .error e
      | .ok arr' => copyTail p arr' hi (l + 1) (idx + 1)
  else .ok (arr, idx)
termination_by hi + 1 - l

/-- `for (idx = left; idx <= right; idx++) ptr[idx] = arr[idx];` -/
def copyBack (p arr : Array Elem) (right idx : Nat) : Except Err (Array Elem) :=
  if idx ≤ right then
    match rd arr idx with
    | .error e => .error e
    | .ok x =>
      match wr p idx x with
      | .error e => .error e
      | .ok p' => copyBack p' arr right (idx + 1)
  else .ok p
termination_by right + 1 - idx

/-- the three filling loops of the merge step: merge, then the rest of the left run,
    then the rest of the right run -/
def mergeFill (p arr : Array Elem) (center right l r idx : Nat) : Except Err (Array Elem) :=
  match mergeLoop p arr center right l r idx with
  | .error e => .error e
  | .ok (arr1, l', r', idx') =>
    match copyTail p arr1 center l' idx' with
    | .error e => .error e
    | .ok (arr2, idx2) =>
      match copyTail p arr2 right r' idx2 with
      | .error e => .error e
      | .ok (arr3, _) => .ok arr3

/-- the merge step of `muggle_merge_sort_recursive` -/
def mergeStep (p arr : Array Elem) (left center right : Nat) :
    Except Err (Array Elem × Array Elem) :=
  match mergeFill p arr center right left (center + 1) left with
  | .error e => .error e
  | .ok arr3 =>
    match copyBack p arr3 right left with
    | .error e => .error e
    | .ok p' => .ok (p', arr3)

/-- `muggle_merge_sort_recursive` -/
def mergeRec (p arr : Array Elem) (left right : Nat) : Except Err (Array Elem × Array Elem) :=
  if left < right then
    match mergeRec p arr left ((left + right) / 2) with
    | .error e => .error e
    | .ok (p1, arr1) =>
      match mergeRec p1 arr1 ((left + right) / 2 + 1) right with
      | .error e => .error e
      | .ok (p2, arr2) => mergeStep p2 arr2 left ((left + right) / 2) right
  else .ok (p, arr)
termination_by right - left
decreasing_by all_goals omega

/-- the body of `muggle_merge_sort` after the scratch allocation: sort `[0, right]`.
    The scratch array `arr` (uninitialised in C, every slot written before it is read)
    starts as a copy of `ptr`; allocation failure is not modelled. -/
def mergeSortTo (a : Array Elem) (right : Nat) : Except Err (Array Elem) :=
  match mergeRec a a 0 right with
  | .error e => .error e
  | .ok (p, _) => .ok p

/-- `muggle_merge_sort` with `fixes/C10-sort-count-zero.patch` (`if (count < 2) return true;`) -/
def mergeSort (a : Array Elem) : Except Err (Array Elem) :=
  if a.size < 2 then .ok a else mergeSortTo a (a.size - 1)

/-- `muggle_merge_sort` as in the pinned tree: `count - 1` in `size_t` -/
def mergeSortOrig (a : Array Elem) : Except Err (Array Elem) :=
  mergeSortTo a (wrapSub1 a.size)

/-! ## quick sort -/

/-- `if (cmp(ptr[i], ptr[j]) > 0) swap(ptr[i], ptr[j])` -/
def condSwap (a : Array Elem) (i j : Nat) : Except Err (Array Elem) :=
  match rd a i with
  | .error e => .error e
  | .ok x =>
    match rd a j with
    | .error e => .error e
    | .ok y => if cmp x y > 0 then swp a i j else .ok a

/-- `muggle_quick_sort_median3`: returns the array and the pivot `ptr[right - 1]` -/
def median3 (a : Array Elem) (left right : Nat) : Except Err (Array Elem × Elem) :=
  match condSwap a left ((left + right) / 2) with
  | .error e => .error e
  | .ok a1 =>
    match condSwap a1 left right with
    | .error e => .error e
    | .ok a2 =>
      match condSwap a2 ((left + right) / 2) right with
      | .error e => .error e
      | .ok a3 =>
        match swp a3 ((left + right) / 2) (right - 1) with
        | .error e => .error e
        | .ok a4 =>
          match rd a4 (right - 1) with
          | .error e => .error e
          | .ok p => .ok (a4, p)

/-- `while (cmp(ptr[++i], pivot) < 0) {}`: returns the final `i` -/
def scanUp (a : Array Elem) (pivot : Elem) (i : Nat) : Except Err Nat :=
  if h : i + 1 < a.size then
    if cmp a[i + 1] pivot < 0 then scanUp a pivot (i + 1) else .ok (i + 1)
  else .error .oob
termination_by a.size - i

/-- `while (cmp(ptr[--j], pivot) > 0) {}`: returns the final `j` (`--j` at 0 wraps: `Err.oob`) -/
def scanDown (a : Array Elem) (pivot : Elem) : Nat → Except Err Nat
  | 0 => .error .oob
  | j + 1 =>
    match rd a j with
    | .error e => .error e
    | .ok x => if cmp x pivot > 0 then scanDown a pivot j else .ok j

theorem scanUp_gt {a : Array Elem} {pivot : Elem} {i i' : Nat}
    (h : scanUp a pivot i = .ok i') : i < i' := by
  fun_induction scanUp a pivot i with
  | case1 i hlt hc ih => have := ih h; omega
  | case2 i hlt hc => injection h with h; omega
  | case3 i hlt => cases h

theorem scanDown_lt {a : Array Elem} {pivot : Elem} {j j' : Nat}
    (h : scanDown a pivot j = .ok j') : j' < j := by
  induction j with
  | zero => simp [scanDown] at h
  | succ j ih =>
    unfold scanDown at h
    split at h
    · cases h
    · split at h
      · have := ih h; omega
      · injection h with h; omega

set_option linter.unusedVariables false in
/-- the `while (true)` partition loop of `muggle_quick_sort_recursive`; returns the array
    and the final `i` -/
def partLoop (a : Array Elem) (pivot : Elem) (i j : Nat) : Except Err (Array Elem × Nat) :=
  match hi : scanUp a pivot i with
  | .error e => .error e
  | .ok i' =>
    match hj : scanDown a pivot j with
    | .error e => .error e
    | .ok j' =>
      if i' < j' then
        match swp a i' j' with
        | .error e => .error e
        | .ok a' => partLoop a' pivot i' j'
      else .ok (a, i')
termination_by j - i
decreasing_by
  have h1 := scanUp_gt hi
  have h2 := scanDown_lt hj
  omega

/-- `muggle_quick_sort_recursive` (`QUICK_SORT_CUTOFF = 10`).  If the partition index
    left the open interval `(left, right)` the C code would recurse outside the range
    (`i - 1` wraps for `i = 0`): the model reports `Err.range`. -/
def quickRec (a : Array Elem) (left right : Nat) : Except Err (Array Elem) :=
  if left + 10 ≤ right then
    match median3 a left right with
    | .error e => .error e
    | .ok (a1, pivot) =>
      match partLoop a1 pivot left (right - 1) with
      | .error e => .error e
      | .ok (a2, i) =>
        match swp a2 i (right - 1) with       -- restore pivot
        | .error e => .error e
        | .ok a3 =>
          if left < i ∧ i < right then
            match quickRec a3 left (i - 1) with
            | .error e => .error e
            | .ok a4 => quickRec a4 (i + 1) right
          else .error .range
  else insertionSortAt a left (right + 1 - left)
termination_by right - left
decreasing_by all_goals omega

/-- `muggle_quick_sort` with `fixes/C10-sort-count-zero.patch` (`if (count < 2) return true;`) -/
def quickSort (a : Array Elem) : Except Err (Array Elem) :=
  if a.size < 2 then .ok a else quickRec a 0 (a.size - 1)

/-- `muggle_quick_sort` as in the pinned tree: `count - 1` in `size_t` -/
def quickSortOrig (a : Array Elem) : Except Err (Array Elem) :=
  quickRec a 0 (wrapSub1 a.size)

end MgModel.C10
