import MgModel.C10.Sort
/-!
# C10 — executable specification (what the property says)

* sorts: the output is `Sorted` (keys non-decreasing) and a permutation of the input;
* heap: the contents are a multiset of entries; `root`/`extract` return an entry whose
  key is a minimum of the multiset (stated as `SpecStep` in `MgProof/C10/HeapHistory.lean`);
  histories (`hrun`) and draining (`drain`) are defined here so that the theorems and the
  driver talk about the same functions.
-/
namespace MgModel.C10

/-- keys non-decreasing (executable) -/
def isSorted : List Elem → Bool
  | [] => true
  | [_] => true
  | x :: y :: l => decide (x.1 ≤ y.1) && isSorted (y :: l)

/-- the keys of the specified result of every sort routine: the input keys in
    non-decreasing order (the order of equal-key pointers is not specified) -/
def sortedKeys (a : Array Elem) : List Int :=
  (a.toList.map (·.1)).mergeSort (fun x y => decide (x ≤ y))

/-! ## heap histories -/

/-- one API call of a heap history -/
inductive HOp where
  | ins (x : Elem)       -- muggle_heap_insert
  | ext                  -- muggle_heap_extract
  | rm (key : Int)       -- muggle_heap_find + muggle_heap_remove of the node found
  | rmi (idx : Nat)      -- muggle_heap_remove(&nodes[idx])
  deriving Repr, DecidableEq

/-- the call on the model: new heap and the entry returned / released (`none`: the call
    returned false / found nothing) -/
def hstep (h : Heap) : HOp → Except Err (Heap × Option Elem)
  | .ins x =>
    match h.insert x with
    | .error e => .error e
    | .ok none => .ok (h, none)
    | .ok (some h') => .ok (h', some x)
  | .ext =>
    match h.extract with
    | .error e => .error e
    | .ok none => .ok (h, none)
    | .ok (some (r, h')) => .ok (h', some r)
  | .rm key =>
    match h.find key with
    | .error e => .error e
    | .ok none => .ok (h, none)
    | .ok (some i) =>
      match h.remove i with
      | .error e => .error e
      | .ok none => .ok (h, none)
      | .ok (some (r, h')) => .ok (h', some r)
  | .rmi idx =>
    match h.remove idx with
    | .error e => .error e
    | .ok none => .ok (h, none)
    | .ok (some (r, h')) => .ok (h', some r)

/-- a whole history -/
def hrun (h : Heap) : List HOp → Except Err (Heap × List (Option Elem))
  | [] => .ok (h, [])
  | op :: ops =>
    match hstep h op with
    | .error e => .error e
    | .ok (h1, r) =>
      match hrun h1 ops with
      | .error e => .error e
      | .ok (h2, rs) => .ok (h2, r :: rs)

/-- extract until the heap is empty (at most `n` times): the order in which the heap
    yields its entries -/
def drain : Nat → Heap → Except Err (List Elem)
  | 0, _ => .ok []
  | n + 1, h =>
    match h.extract with
    | .error e => .error e
    | .ok none => .ok []
    | .ok (some (r, h')) =>
      match drain n h' with
      | .error e => .error e
      | .ok l => .ok (r :: l)

end MgModel.C10
