import MgModel.C10.Sort
/-!
# C10 — executable specification (what the property says)

* sorts: the output is `Sorted` (keys non-decreasing) and a permutation of the input;
* heap: the contents are a multiset of entries; `root`/`extract` return an entry whose
  key is a minimum of the multiset; the live nodes satisfy the heap order.
-/
namespace MgModel.C10

/-- keys non-decreasing (executable) -/
def isSorted : List Elem → Bool
  | [] => true
  | [_] => true
  | x :: y :: l => decide (x.1 ≤ y.1) && isSorted (y :: l)

/-- the keys of the specified result of every sort routine: the input keys in
    non-decreasing order (the order of equal-key pointers is not specified) -/
def sortedKeys (a : Array Elem) : List Int :=
  (a.toList.map (·.1)).mergeSort (fun x y => decide (x ≤ y))

/-- minimum key of a multiset of entries -/
def minKey? : List Elem → Option Int
  | [] => none
  | x :: l => match minKey? l with
    | none => some x.1
    | some k => some (if x.1 ≤ k then x.1 else k)

/-- heap order on the live nodes `a[1..]` (executable): `a[i/2].key ≤ a[i].key` for `2 ≤ i` -/
def heapOrdered (a : Array Elem) : Bool :=
  (List.range a.size).all fun i =>
    if 2 ≤ i then
      match a[i / 2]?, a[i]? with
      | some p, some c => decide (p.1 ≤ c.1)
      | _, _ => false
    else true

end MgModel.C10
