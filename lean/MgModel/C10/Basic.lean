/-!
# C10 — common definitions for the heap / sort models

Elements are the *pointers* the C code moves around.  A pointer is modelled by the
pair `(key, id)`: `key` is what the user's comparison callback looks at, `id`
identifies the pointer (so that "the same multiset of pointers" and tie-breaking
between equal keys are visible).  Any consistent comparison callback on a finite set
of pointers is induced by such an integer rank, so fixing `Int` keys loses nothing.

Memory is an `Array Elem`; every read / write is bounds-checked and yields
`Err.oob` instead of a default (the C code would touch memory outside the object).
-/
namespace MgModel.C10

inductive Err where
  | oob      -- access outside the array / outside the live nodes
  | null     -- a NULL key handed to the comparison callback
  | range    -- recursion would leave the current range (size_t wrap of `i - 1`)
  | fuel     -- iteration bound of a modelled `while (true)` loop exhausted
  | uninit   -- an uninitialised local is used
  deriving Repr, DecidableEq

/-- a pointer: `(key, id)` -/
abbrev Elem := Int × Nat

/-- the user's comparison callback (`muggle_dsaa_data_cmp`): only its sign is used -/
def cmp (a b : Elem) : Int :=
  if a.1 < b.1 then -1 else if b.1 < a.1 then 1 else 0

/-- `ptr[i]` as an r-value -/
def rd (a : Array Elem) (i : Nat) : Except Err Elem :=
  match a[i]? with
  | some v => .ok v
  | none => .error .oob

/-- `ptr[i] = v` -/
def wr (a : Array Elem) (i : Nat) (v : Elem) : Except Err (Array Elem) :=
  if i < a.size then .ok (a.setIfInBounds i v) else .error .oob

/-- `tmp = ptr[i]; ptr[i] = ptr[j]; ptr[j] = tmp` -/
def swp (a : Array Elem) (i j : Nat) : Except Err (Array Elem) := do
  let x ← rd a i
  let y ← rd a j
  let a ← wr a i y
  wr a j x

end MgModel.C10
