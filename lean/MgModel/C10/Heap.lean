import MgModel.C10.Basic
/-!
# C10 — executable model of `muggle/c/dsaa/heap.c` (binary min-heap, root at index 1)

One function per C function, one recursive function per C loop, the same index
arithmetic as the C code.  `nodes[0]` is the slot the C code allocates but never
uses (`malloc(sizeof(node) * (capacity + 1))`); `nodes[1..size]` are the live nodes
and `size = nodes.size - 1`.  Slots beyond `size` (stale in C) are not part of the
model: reading one is `Err.oob`.  A node is the pair of pointers `(key, value)`,
modelled as `Elem = (key's rank, value id)`.

`muggle_heap_remove` is modelled twice:
* `Heap.remove`     — the code with `fixes/C10-heap-remove-last-slot.patch` applied
                      (early return when the removed node *is* the last node);
* `Heap.removeOrig` — the code as it is in the pinned tree: the removed node's key is
                      set to NULL *before* the last node is used as the filler, so when
                      both are the same slot the comparison callback receives NULL.
Both share the loop `rmLoop`; the filler's key is passed as `Option Elem` (`none` =
NULL) and dereferenced at every `cmp(last_node->key, …)`.
-/
namespace MgModel.C10

structure Heap where
  cap   : Nat
  nodes : Array Elem
  deriving Repr

def dummy : Elem := (0, 0)

def Heap.size (h : Heap) : Nat := h.nodes.size - 1

/-- `nodes[i]` read; slot 0 is not a node -/
def rdN (a : Array Elem) (i : Nat) : Except Err Elem :=
  if i = 0 then .error .oob else rd a i

/-- `nodes[i].key = …; nodes[i].value = …` -/
def wrN (a : Array Elem) (i : Nat) (v : Elem) : Except Err (Array Elem) :=
  if i = 0 then .error .oob else wr a i v

/-- `MUGGLE_DS_CAP_IS_VALID` -/
def capValid (c : Nat) : Bool := decide (c < 2147483648)

/-- `muggle_heap_init` (`none` = returns false); allocation failure is not modelled -/
def Heap.init (cap : Nat) : Option Heap :=
  let cap := if cap = 0 then 8 else cap
  if capValid cap then some { cap := cap, nodes := #[dummy] } else none

/-- `muggle_heap_ensure_capacity` (`none` = returns false) -/
def Heap.ensureCapacity (h : Heap) (c : Nat) : Option Heap :=
  if h.cap ≥ c then some h
  else if !capValid c then none
  else some { h with cap := c }

/-- `muggle_heap_clear` -/
def Heap.clear (h : Heap) : Heap := { h with nodes := #[dummy] }

/-- the `while (true)` loop of `muggle_heap_insert`: percolate the hole up -/
def siftUp (a : Array Elem) (x : Elem) (idx : Nat) : Except Err (Array Elem) :=
  if idx / 2 = 0 then wrN a idx x
  else
    match rdN a (idx / 2) with
    | .error e => .error e
    | .ok pk =>
      if cmp pk x ≤ 0 then wrN a idx x
      else
        match wrN a idx pk with
        | .error e => .error e
        | .ok a' => siftUp a' x (idx / 2)
termination_by idx
decreasing_by omega

/-- `muggle_heap_insert` (`.ok none` = returns false) -/
def Heap.insert (h : Heap) (x : Elem) : Except Err (Option Heap) :=
  match (if h.cap = h.size then h.ensureCapacity (h.cap * 2) else some h) with
  | none => .ok none
  | some h' =>
    -- `size++`: the new slot's stale content is never read before it is written;
    -- it is modelled as holding `x`
    let a := h'.nodes.push x
    match siftUp a x (a.size - 1) with
    | .error e => .error e
    | .ok a' => .ok (some { h' with nodes := a' })

/-- `muggle_heap_root`: index of the root node or NULL -/
def Heap.root (h : Heap) : Except Err (Option Elem) :=
  if h.size = 0 then .ok none
  else match rdN h.nodes 1 with
    | .error e => .error e
    | .ok r => .ok (some r)

/-- "find smaller child" of `muggle_heap_extract`: `child != size && cmp(nodes[child+1], nodes[child]) < 0` -/
def pickChildExt (a : Array Elem) (n c : Nat) : Except Err Bool :=
  if c ≠ n then
    match rdN a (c + 1) with
    | .error e => .error e
    | .ok c1 =>
      match rdN a c with
      | .error e => .error e
      | .ok c0 => .ok (decide (cmp c1 c0 < 0))
  else .ok false

/-- the `for (i = 1; i * 2 <= size; i = child)` loop of `muggle_heap_extract`;
    `n` is the already decremented size, `last` the filler `*last_node` -/
def extLoop (a : Array Elem) (last : Elem) (n i : Nat) : Except Err (Array Elem × Nat) :=
  if i = 0 then .error .oob
  else if i * 2 ≤ n then
    match pickChildExt a n (i * 2) with
    | .error e => .error e
    | .ok right =>
      match rdN a (if right then i * 2 + 1 else i * 2) with
      | .error e => .error e
      | .ok ck =>
        if cmp last ck ≥ 0 then
          match wrN a i ck with
          | .error e => .error e
          | .ok a' => extLoop a' last n (if right then i * 2 + 1 else i * 2)
        else .ok (a, i)
  else .ok (a, i)
termination_by n + 1 - i
decreasing_by all_goals (split <;> omega)

/-- `muggle_heap_extract` (`.ok none` = returns false) -/
def Heap.extract (h : Heap) : Except Err (Option (Elem × Heap)) :=
  if h.size = 0 then .ok none
  else
    match rdN h.nodes 1 with
    | .error e => .error e
    | .ok root =>
      match rdN h.nodes h.size with          -- last_node = &nodes[size--]
      | .error e => .error e
      | .ok last =>
        let a := h.nodes.pop
        let n := h.size - 1
        match extLoop a last n 1 with
        | .error e => .error e
        | .ok (a', i) =>
          -- `nodes[i] = *last_node`; when the heap became empty this is the
          -- self-assignment of the vacated slot 1, which is outside the model
          if n = 0 then .ok (some (root, { h with nodes := a' }))
          else
            match wrN a' i last with
            | .error e => .error e
            | .ok a'' => .ok (some (root, { h with nodes := a'' }))

/-- the `for` loop of `muggle_heap_find` over `nodes[i..n]` -/
def findLoop (a : Array Elem) (key : Int) (n i : Nat) : Except Err (Option Nat) :=
  if i ≤ n then
    match rdN a i with
    | .error e => .error e
    | .ok x => if cmp x (key, 0) = 0 then .ok (some i) else findLoop a key n (i + 1)
  else .ok none
termination_by n + 1 - i

/-- `muggle_heap_find`: index of the node found (the C code returns `&nodes[i]`) -/
def Heap.find (h : Heap) (key : Int) : Except Err (Option Nat) :=
  findLoop h.nodes key h.size 1

/-- `last_node->key` handed to the callback -/
def derefKey (l : Option Elem) : Except Err Elem :=
  match l with
  | some x => .ok x
  | none => .error .null

/-- "find smaller child" of `muggle_heap_remove`: `child_idx < size && cmp(nodes[child_idx+1], nodes[child_idx]) < 0` -/
def pickChildRm (a : Array Elem) (n c : Nat) : Except Err Bool :=
  if c < n then
    match rdN a (c + 1) with
    | .error e => .error e
    | .ok c1 =>
      match rdN a c with
      | .error e => .error e
      | .ok c0 => .ok (decide (cmp c1 c0 < 0))
  else .ok false

/-- the "percolate" half of one iteration of the `while (true)` loop of
    `muggle_heap_remove`: `.ok (some (a', child))` = moved down (`continue`),
    `.ok none` = `break` -/
def rmDown (a : Array Elem) (last : Option Elem) (n idx : Nat) :
    Except Err (Option (Array Elem × Nat)) :=
  if idx * 2 ≤ n then
    match pickChildRm a n (idx * 2) with
    | .error e => .error e
    | .ok right =>
      match derefKey last with
      | .error e => .error e
      | .ok l =>
        match rdN a (if right then idx * 2 + 1 else idx * 2) with
        | .error e => .error e
        | .ok ck =>
          if cmp l ck ≥ 0 then
            match wrN a idx ck with
            | .error e => .error e
            | .ok a' => .ok (some (a', if right then idx * 2 + 1 else idx * 2))
          else .ok none
  else .ok none

/-- the "move up" half of one iteration of the `while (true)` loop of
    `muggle_heap_remove`: `.ok (some a')` = moved up (`continue` with `idx / 2`) -/
def rmUp (a : Array Elem) (last : Option Elem) (idx : Nat) : Except Err (Option (Array Elem)) :=
  if idx / 2 ≠ 0 then
    match rdN a (idx / 2) with
    | .error e => .error e
    | .ok pk =>
      match derefKey last with
      | .error e => .error e
      | .ok l =>
        if cmp l pk < 0 then
          match wrN a idx pk with
          | .error e => .error e
          | .ok a' => .ok (some a')
        else .ok none
  else .ok none

/-- the `while (true)` loop of `muggle_heap_remove`; `n` is the decremented size.
    `fuel` bounds the number of iterations (every iteration moves the hole one level;
    the theorems show `2 * n + 2` is never exhausted). -/
def rmLoop (fuel : Nat) (a : Array Elem) (last : Option Elem) (n idx : Nat) :
    Except Err (Array Elem × Nat) :=
  match fuel with
  | 0 => .error .fuel
  | fuel + 1 =>
    match rmUp a last idx with
    | .error e => .error e
    | .ok (some a') => rmLoop fuel a' last n (idx / 2)
    | .ok none =>
      match rmDown a last n idx with
      | .error e => .error e
      | .ok (some (a', c)) => rmLoop fuel a' last n c
      | .ok none => .ok (a, idx)

/-- common part of `muggle_heap_remove`; `fixed` selects the patched code -/
def Heap.removeCore (fixed : Bool) (h : Heap) (idx : Nat) : Except Err (Option (Elem × Heap)) :=
  if h.size = 0 then .ok none
  else if idx = 0 ∨ idx > h.size then .ok none    -- tmp <= 0 || tmp > size
  else
    match rdN h.nodes idx with                     -- handed to the free callbacks, then NULLed
    | .error e => .error e
    | .ok removed =>
      match rdN h.nodes h.size with                -- last_node = &nodes[size--]
      | .error e => .error e
      | .ok lastv =>
        let a := h.nodes.pop
        let n := h.size - 1
        if fixed && idx = h.size then
          -- patched code: `if (node == last_node) return true;`
          .ok (some (removed, { h with nodes := a }))
        else
          -- unpatched code with node == last_node: the filler's key is the NULL just written
          let last : Option Elem := if idx = h.size then none else some lastv
          match rmLoop (2 * n + 2) a last n idx with
          | .error e => .error e
          | .ok (a', i) =>
            -- nodes[idx] = *last_node (a NULL/NULL node lands in the vacated slot when
            -- node == last_node and size was 1: outside the model)
            match last with
            | none => .ok (some (removed, { h with nodes := a' }))
            | some l =>
              match wrN a' i l with
              | .error e => .error e
              | .ok a'' => .ok (some (removed, { h with nodes := a'' }))

/-- `muggle_heap_remove` with the fix applied; returns the entry handed to the free
    callbacks (`.ok none` = returns false) -/
def Heap.remove (h : Heap) (idx : Nat) : Except Err (Option (Elem × Heap)) :=
  Heap.removeCore true h idx

/-- `muggle_heap_remove` as in the pinned tree -/
def Heap.removeOrig (h : Heap) (idx : Nat) : Except Err (Option (Elem × Heap)) :=
  Heap.removeCore false h idx

end MgModel.C10
