import MgModel.Common.Conc
/-!
# C15 (part 1) — socket event-loop handle: ownership life-cycle of socket contexts

Executable model of `muggle/c/net/socket_evloop_handle.c` (with the pieces of
`event_context.c`, `ref_cnt.c`, `event_loop.c` it calls). One function per C function;
a context is an identity (`Nat`); the memory of a context is `none | live | freed` and
*every* access the C code makes to a context goes through `St.live`, which returns
`Err.uaf` for freed memory and `Err.wild` for memory that was never allocated — no
totalising default.

The kernel is modelled as far as the handle can observe it: a listener backlog
(accepted in FIFO order), per connection an inbound byte queue and an end-of-file mark,
a descriptor that is open or closed. The three back-ends (select, poll, epoll) differ,
for this property, only in the order in which ready contexts get their turn and in the
registration capacity (poll: `hints_max_fd` slots); the order is left *free* here
(`Act.dispatch c`, `Act.wake` can be issued in any order — the theorems hold for all of
them), the capacity is `cap`.

`fixed = true` is the repaired `muggle_socket_evloop_on_wake` (a handed-over context
whose registration fails is released; fixes/C15-on-wake-add-failure.patch);
`fixed = false` is the code as found (result of `muggle_evloop_add_ctx` ignored).
-/
namespace MgModel.C15
open MgModel.Conc (upd)

inductive Err where
  | uaf (c : Nat)     -- a freed context is read or written
  | wild (c : Nat)    -- a context that was never allocated is read or written
  deriving Repr, DecidableEq

inductive Mem where
  | none | live | freed
  deriving Repr, DecidableEq

/-- ghost: how a context identity came into being -/
inductive Origin where
  | none | listener | accepted | handed
  deriving Repr, DecidableEq

structure Ctx where
  mem        : Mem := .none
  ref        : Nat := 0          -- ctx.ref_cnt
  flagClosed : Bool := false     -- MUGGLE_EV_CTX_FLAG_CLOSED
  isListener : Bool := false
  -- kernel side of the connection
  fdOpen     : Bool := false     -- the server-side descriptor is open
  inq        : List Nat := []    -- bytes received, not yet read
  eof        : Bool := false     -- after `inq`, read() returns 0 (peer closed / shut down)
  -- observation: what the user callbacks and the allocator saw
  nConn      : Nat := 0          -- cb_conn
  nAdd       : Nat := 0          -- cb_add_ctx
  nCls       : Nat := 0          -- cb_close
  nRel       : Nat := 0          -- cb_release (or the worker's own release of user data)
  nFdc       : Nat := 0          -- close() of the server-side descriptor
  nFree      : Nat := 0          -- cb_free (or the worker's free)
  sent       : List Nat := []    -- every byte the peer sent, in order
  got        : List Nat := []    -- every byte handed to cb_msg, in order
  -- ghost
  held       : Nat := 0          -- retains currently held by worker threads
  regFailed  : Bool := false     -- freed on the accept-time registration-failure path
  origin     : Origin := .none
  closing    : Bool := false     -- ghost: the loop is inside `cb_close` for this context
  -- the reference count as the user callbacks saw it (`muggle_socket_ctx_ref_num` inside the callback)
  oConn      : Nat := 0
  oAdd       : Nat := 0
  oCls       : Nat := 0
  oRel       : Nat := 0
  deriving Repr

structure St where
  ctx     : Nat → Ctx := fun _ => {}
  n       : Nat := 0                      -- identities handed out so far
  reg     : List Nat := []                -- evloop->ctx_list
  queue   : List Nat := []                -- handle->ctx_queue (front first)
  backlog : List (Nat × Bool) := []       -- completed connections not yet accepted: (id, cb_alloc succeeds)
  cap     : Option Nat := none            -- poll: number of contexts that can be registered
  exited  : Bool := false                 -- muggle_evloop_run has returned
  fixed   : Bool := true

def St.live (s : St) (c : Nat) : Except Err Ctx :=
  match (s.ctx c).mem with
  | .live => .ok (s.ctx c)
  | .freed => .error (.uaf c)
  | .none => .error (.wild c)

def St.set (s : St) (c : Nat) (x : Ctx) : St := { s with ctx := upd s.ctx c x }

/-! ## ref_cnt.c -/

/-- `muggle_ref_cnt_release`: −1 when already zero, else the decremented value -/
def refRelease (s : St) (c : Nat) : Except Err (St × Int) := do
  let x ← s.live c
  if x.ref = 0 then return (s, -1)
  else return (s.set c { x with ref := x.ref - 1 }, ((x.ref - 1 : Nat) : Int))

/-- `muggle_ref_cnt_retain`: −1 when zero, else the incremented value -/
def refRetain (s : St) (c : Nat) : Except Err (St × Int) := do
  let x ← s.live c
  if x.ref = 0 then return (s, -1)
  else return (s.set c { x with ref := x.ref + 1 }, ((x.ref + 1 : Nat) : Int))

/-! ## descriptors, allocator, user callbacks -/

/-- kernel `close(fd)` of the server-side descriptor of connection `c` (no access to the context) -/
def closeFd (s : St) (c : Nat) : St :=
  let x := s.ctx c
  if x.fdOpen then s.set c { x with fdOpen := false, nFdc := x.nFdc + 1 } else s

/-- `muggle_ev_ctx_close`: sets the flag, closes `ctx->fd`, stores −1 -/
def ctxClose (s : St) (c : Nat) : Except Err St := do
  let x ← s.live c
  return closeFd (s.set c { x with flagClosed := true }) c

/-- `handle->cb_free(pool, ctx)` -/
def cbFree (s : St) (c : Nat) : Except Err St := do
  let x ← s.live c
  return s.set c { x with mem := .freed, nFree := x.nFree + 1 }

def cbRelease (s : St) (c : Nat) : Except Err St := do
  let x ← s.live c
  return s.set c { x with nRel := x.nRel + 1, oRel := x.ref }

def cbClose (s : St) (c : Nat) : Except Err St := do
  let x ← s.live c
  return s.set c { x with nCls := x.nCls + 1, oCls := x.ref }

def cbConn (s : St) (c : Nat) : Except Err St := do
  let x ← s.live c
  return s.set c { x with nConn := x.nConn + 1, oConn := x.ref }

def cbAddCtx (s : St) (c : Nat) : Except Err St := do
  let x ← s.live c
  return s.set c { x with nAdd := x.nAdd + 1, oAdd := x.ref }

/-! ## socket_evloop_handle.c -/

/-- `muggle_socket_evloop_release_ctx` -/
def releaseCtx (s : St) (c : Nat) : Except Err St := do
  let (s1, r) ← refRelease s c
  if r = 0 then
    let s2 ← cbRelease s1 c
    let s3 ← ctxClose s2 c
    cbFree s3 c
  else return s1

/-- `muggle_evloop_add_ctx` on the loop thread: non-blocking mode needs a valid descriptor,
the back-end may be full (poll) -/
def evloopAddCtx (s : St) (c : Nat) : Except Err (St × Bool) := do
  let x ← s.live c
  if !x.fdOpen then return (s, false)
  match s.cap with
  | some k => if s.reg.length ≥ k then return (s, false) else return ({ s with reg := s.reg ++ [c] }, true)
  | none => return ({ s with reg := s.reg ++ [c] }, true)

/-- one turn of the accept loop of `muggle_socket_evloop_on_read` (listener case).
Returns the new state and whether the loop goes on. -/
def acceptOne (s : St) : Except Err (St × Bool) :=
  match s.backlog with
  | [] => return (s, false)                      -- accept: EWOULDBLOCK
  | (c, allocOk) :: rest =>
    let s := { s with backlog := rest }          -- accept() returned a descriptor
    if !allocOk then
      -- cb_alloc returned NULL: muggle_socket_close(fd); return
      return (closeFd s c, false)
    else do
      -- muggle_socket_ctx_init(new_ctx, fd, NULL, TCP_CLIENT)
      let x := s.ctx c
      let s := s.set c { x with mem := .live, ref := 1, flagClosed := false }
      let (s, ok) ← evloopAddCtx s c
      if !ok then
        let s ← cbFree s c
        let y := s.ctx c
        return (closeFd (s.set c { y with regFailed := true }) c, false)
      else
        let s ← cbConn s c
        return (s, true)

def acceptLoop : Nat → St → Except Err St
  | 0, s => return s
  | fuel + 1, s => do
    let (s, more) ← acceptOne s
    if more then acceptLoop fuel s else return s

/-- the read loop of the user's message callback:
`while ((n = muggle_socket_ctx_read(ctx, buf, chunk)) > 0) consume(buf, n);`
returns (bytes consumed in order, bytes left, read returned 0) -/
def drain (chunk : Nat) : Nat → List Nat → List Nat → List Nat × List Nat
  | 0, inq, acc => (acc, inq)
  | fuel + 1, inq, acc =>
    if inq.isEmpty ∨ chunk = 0 then (acc, inq)
    else drain chunk fuel (inq.drop chunk) (acc ++ inq.take chunk)

/-- `muggle_socket_evloop_on_read`, client case, with the draining message callback -/
def onReadClient (s : St) (c : Nat) (chunk : Nat) : Except Err St := do
  let x ← s.live c
  let (g, rest) := drain chunk x.inq.length x.inq x.got
  -- the read that ended the loop: 0 bytes requested or end of file -> flag closed
  let closedNow := (chunk = 0) || (rest.isEmpty && x.eof)
  return s.set c { x with got := g, inq := rest, flagClosed := x.flagClosed || closedNow }

/-- `muggle_socket_evloop_on_close` -/
def onClose (s : St) (c : Nat) : Except Err St := do
  let s ← cbClose s c
  releaseCtx s c

/-- what every back-end does when a registered context gets its turn: read callback when
readable, then, when the context is flagged closed, close callback and removal -/
def dispatchCtx (s : St) (c : Nat) (chunk : Nat) : Except Err St := do
  let x ← s.live c
  let s ←
    if x.isListener then
      (if s.backlog.isEmpty then pure s else acceptLoop (s.backlog.length + 1) s)
    else if !x.inq.isEmpty || x.eof then onReadClient s c chunk
    else pure s
  let y ← s.live c
  if y.flagClosed then
    let s ← onClose s c
    return { s with reg := s.reg.erase c }
  else return s

/-! The same turn in three pieces, so that acts of other threads can be placed *inside* it:
`turnRead` = the read callback, `closeBegin` = `muggle_socket_evloop_on_close` up to and
including the user's `cb_close` (the loop is now inside that callback), `closeEnd` = the rest
of `on_close` (the loop drops its reference) and the removal from the back-end. -/

def turnRead (s : St) (c : Nat) (chunk : Nat) : Except Err St := do
  let x ← s.live c
  if x.isListener then
    (if s.backlog.isEmpty then pure s else acceptLoop (s.backlog.length + 1) s)
  else if !x.inq.isEmpty || x.eof then onReadClient s c chunk
  else pure s

def closeBegin (s : St) (c : Nat) : Except Err St := do
  let s ← cbClose s c
  let x ← s.live c
  return s.set c { x with closing := true }

def closeEnd (s : St) (c : Nat) : Except Err St := do
  let x ← s.live c
  let s := s.set c { x with closing := false }
  let s ← releaseCtx s c
  return { s with reg := s.reg.erase c }

/-- one turn of the queue loop of `muggle_socket_evloop_on_wake` -/
def wakeOne (s : St) : Except Err St :=
  match s.queue with
  | [] => return s
  | c :: rest => do
    let s := { s with queue := rest }
    let (s, ok) ← evloopAddCtx s c
    if s.fixed then
      if ok then cbAddCtx s c else releaseCtx s c
    else cbAddCtx s c          -- as found: result ignored

def onWake : Nat → St → Except Err St
  | 0, s => return s
  | fuel + 1, s => if s.queue.isEmpty then return s else do
    let s ← wakeOne s
    onWake fuel s

/-- `cb_clear` for the first registered context (`muggle_evloop_run`, after the back-end returned) -/
def clearOne (s : St) : Except Err St :=
  match s.reg with
  | [] => return s
  | c :: rest => releaseCtx { s with reg := rest } c

def clearAll : Nat → St → Except Err St
  | 0, s => return s
  | fuel + 1, s => if s.reg.isEmpty then return s else do
    let s ← clearOne s
    clearAll fuel s

/-- one turn of the queue loop of `muggle_socket_evloop_on_exit` -/
def exitOne (s : St) : Except Err St :=
  match s.queue with
  | [] => return s
  | c :: rest => releaseCtx { s with queue := rest } c

def exitAll : Nat → St → Except Err St
  | 0, s => return s
  | fuel + 1, s => if s.queue.isEmpty then return s else do
    let s ← exitOne s
    exitAll fuel s

/-- the tail of `muggle_evloop_run`: `cb_clear` for every registered context, then `cb_exit` -/
def runExit (s : St) : Except Err St := do
  let s ← clearAll s.reg.length s
  let s ← exitAll s.queue.length s
  return { s with exited := true }

/-! ## what other threads and the peers do -/

/-- a new connection completes the handshake (identity = next free id) -/
def connect (s : St) (allocOk : Bool) : St :=
  let c := s.n
  { (s.set c { fdOpen := true, origin := .accepted }) with n := s.n + 1, backlog := s.backlog ++ [(c, allocOk)] }

/-- the peer writes; bytes written after the server side closed its descriptor go nowhere -/
def send (s : St) (c : Nat) (bytes : List Nat) : St :=
  let x := s.ctx c
  if x.fdOpen then s.set c { x with inq := x.inq ++ bytes, sent := x.sent ++ bytes } else s

def peerClose (s : St) (c : Nat) : St :=
  let x := s.ctx c
  s.set c { x with eof := true }

/-- `muggle_socket_ctx_shutdown` by a thread that owns a reference -/
def userShutdown (s : St) (c : Nat) : Except Err St := do
  let x ← s.live c
  return s.set c { x with flagClosed := true, eof := true }

/-- a worker (or a callback on behalf of a worker) takes a reference -/
def retain (s : St) (c : Nat) : Except Err St := do
  let (s, r) ← refRetain s c
  if r > 0 then
    let x := s.ctx c
    return s.set c { x with held := x.held + 1 }
  else return s

/-- a worker drops its reference; the documented protocol: when the result is 0 the
worker releases the user data, closes and frees the context itself -/
def workerRelease (s : St) (c : Nat) : Except Err St := do
  let x ← s.live c
  let s := s.set c { x with held := x.held - 1 }
  let (s, r) ← refRelease s c
  if r = 0 then
    let s ← cbRelease s c
    let s ← ctxClose s c
    cbFree s c
  else return s

/-- another thread creates a connected context (ref 1) and calls `muggle_socket_evloop_add_ctx` -/
def handOver (s : St) : St :=
  let c := s.n
  { (s.set c { mem := .live, ref := 1, fdOpen := true, origin := .handed }) with n := s.n + 1, queue := s.queue ++ [c] }

/-! ## histories -/

inductive Act where
  | connect (allocOk : Bool)
  | send (c : Nat) (bytes : List Nat)
  | peerClose (c : Nat)
  | shutdown (c : Nat)
  | retain (c : Nat)
  | workerRelease (c : Nat)
  | handOver
  | wake                                  -- the loop runs `on_wake`
  | dispatch (c : Nat) (chunk : Nat)      -- the loop gives registered context `c` its turn
  | turnRead (c : Nat) (chunk : Nat)      -- … only the read callback of that turn
  | closeBegin (c : Nat)                  -- … `on_close` up to the end of the user's `cb_close`
  | closeEnd (c : Nat)                    -- … the rest of `on_close`, removal from the back-end
  | exit                                  -- the loop returns: clear + `on_exit`
  deriving Repr, DecidableEq

def apply (s : St) : Act → Except Err St
  | .connect ok => return connect s ok
  | .send c b => return send s c b
  | .peerClose c => return peerClose s c
  | .shutdown c => userShutdown s c
  | .retain c => retain s c
  | .workerRelease c => workerRelease s c
  | .handOver => return handOver s
  | .wake => onWake s.queue.length s
  | .dispatch c k => dispatchCtx s c k
  | .turnRead c k => turnRead s c k
  | .closeBegin c => closeBegin s c
  | .closeEnd c => closeEnd s c
  | .exit => runExit s

def run (s : St) : List Act → Except Err St
  | [] => return s
  | a :: as => do
    let s ← apply s a
    run s as

/-- initial state: a listener (identity 0) registered before the loop starts -/
def init (cap : Option Nat) (fixed : Bool) : St :=
  { ctx := upd (fun _ => {}) 0 { mem := .live, ref := 1, fdOpen := true, isListener := true, origin := .listener },
    n := 1, reg := [0], cap := cap, fixed := fixed }

/-- the acts of one quiescing run of the loop in a canonical order (wake first, then the
registered contexts in list order), used by the driver; any other order is covered by
the theorems as well -/
def roundActs (s : St) (chunk : Nat) : List Act :=
  (if s.queue.isEmpty then [] else [Act.wake]) ++ s.reg.map (fun c => Act.dispatch c chunk)

def ready (s : St) : Bool :=
  !s.queue.isEmpty ||
  s.reg.any fun c =>
    let x := s.ctx c
    x.flagClosed || (if x.isListener then !s.backlog.isEmpty else (!x.inq.isEmpty || x.eof))

/-- run rounds until nothing is ready (level-triggered view) -/
def quiesce (chunk : Nat) : Nat → St → Except Err St
  | 0, s => return s
  | fuel + 1, s =>
    if s.exited || !ready s then return s else do
      let s ← run s (roundActs s chunk)
      quiesce chunk fuel s

end MgModel.C15
