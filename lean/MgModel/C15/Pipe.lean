import MgModel.Common.Conc
/-!
# C15 (part 2) — the event-loop pipe (`muggle/c/net/socket_evloop_pipe.c`)

`nw` writer threads call `muggle_socket_evloop_pipe_write(pipe, ptr)` for their own
sequence of pointers, one reader thread calls `muggle_socket_evloop_pipe_read` until it
has received as many pointers as were written. One step = one shared-memory access or one
system call of the real object code (the granularity of the tsanshim scheduler):

    write:  lock (test_and_set acquire, yield while taken); fence(release);
            block_write: { n = write(fd, p + (8 - rem), rem); n > 0: rem -= n;
                           EAGAIN: nsleep; } while (rem > 0);
            unlock (clear release)
    read:   { n = read(fd, (char*)&data + off, 8 - off); n > 0: off += n (8: done);
              EAGAIN: off == 0 ? return NULL : nsleep; } ; fence(acquire); return data

The kernel pipe is a byte FIFO of capacity `cap`; `write` of `rem` bytes transfers
`min rem room chunk` bytes (EAGAIN when there is no room), `read` of `k` bytes returns
`min k available chunk` (EAGAIN when empty) — the chunk limits come from the arbitrary
scripts `wchunks` / `rchunks` (0 = no limit), so every split of the byte stream into
partial writes and partial reads is covered. Pointer `m` is the 8 bytes `8m, 8m+1, …, 8m+7`
(mod 256) so that every byte identifies its pointer and its position.
-/
namespace MgModel.C15.Pipe
open MgModel.Conc

structure Conf where
  cap     : Nat
  wchunks : List Nat
  rchunks : List Nat
  progs   : List (List Nat)
  deriving Repr

inductive WPc where
  | acq                 -- about to test_and_set the lock
  | yld                 -- lock was taken: about to yield
  | fence               -- holds the lock: about to fence(release)
  | wr (rem : Nat)      -- holds the lock: about to write(fd, p + 8 - rem, rem)
  | slp (rem : Nat)     -- holds the lock: write said EAGAIN, about to sleep
  | unl                 -- holds the lock: about to clear it
  | done
  deriving Repr, DecidableEq

inductive RPc where
  | rd (off : Nat)      -- about to read(fd, data + off, 8 - off)
  | slp (off : Nat)     -- EAGAIN in the middle of a pointer: about to sleep
  | yld                 -- pipe_read returned NULL: the reader thread yields and retries
  | fence               -- 8 bytes assembled: about to fence(acquire) and return
  | done
  deriving Repr, DecidableEq

def msgBytes (m : Nat) : List Nat := (List.range 8).map fun j => (m * 8 + j) % 256

/-- `l[i mod |l|]`, 0 (= no limit) for the empty script -/
def script (l : List Nat) (i : Nat) : Nat := if l.isEmpty then 0 else l.getD (i % l.length) 0

/-- bytes transferred by one system call: request, what the kernel could do, chunk limit -/
def xfer (req avail chunk : Nat) : Nat :=
  let n := min req avail
  if chunk = 0 then n else min n chunk

structure St where
  nw        : Nat
  cap       : Nat
  wchunks   : List Nat
  rchunks   : List Nat
  progs     : Nat → List Nat             -- what each writer was asked to write (never changes)
  total     : Nat                        -- number of pointers written by all writers together
  wi        : Nat := 0
  ri        : Nat := 0
  lock      : Nat := 0
  fifo      : List Nat := []
  wpc       : Nat → WPc
  todo      : Nat → List Nat             -- pointers writer w still has to write (head = current)
  rpc       : RPc
  buf       : List Nat := []             -- the reader's `data`, bytes assembled so far
  delivered : List (List Nat) := []      -- what pipe_read returned, in order
  -- ghost
  holder    : Option Nat := none         -- the writer inside the locked section
  unsent    : List Nat := []             -- bytes of the holder's pointer not yet in the pipe
  doneLog   : List (Nat × Nat) := []     -- (writer, pointer) of completed writes, in lock order

def mkInit (c : Conf) : St :=
  let progs : Nat → List Nat := fun w => c.progs.getD w []
  let total := (c.progs.map List.length).sum
  { nw := c.progs.length, cap := c.cap, wchunks := c.wchunks, rchunks := c.rchunks,
    progs := progs, total := total,
    wpc := fun w => if w < c.progs.length ∧ ¬ (progs w).isEmpty then .acq else .done,
    todo := progs,
    rpc := if total = 0 then .done else .rd 0 }

/-- decode 8 assembled bytes: the pointer they are, or the torn bytes -/
def showGroup (g : List Nat) : String :=
  let m := g.headD 0 / 8
  if g = msgBytes m then toString m else "torn " ++ ".".intercalate (g.map toString)

def writerStep (s : St) (t : Nat) : Option (St × List String) :=
  match s.wpc t with
  | .done => none
  | .acq =>
    let ev := s!"T{t} xchg lock {s.lock}->1 acq"
    if s.lock = 0 then
      let m := (s.todo t).headD 0
      some ({ s with lock := 1, wpc := upd s.wpc t .fence, holder := some t, unsent := msgBytes m }, [ev])
    else some ({ s with wpc := upd s.wpc t .yld }, [ev])
  | .yld => some ({ s with wpc := upd s.wpc t .acq }, [s!"T{t} yield"])
  | .fence => some ({ s with wpc := upd s.wpc t (.wr 8) }, [s!"T{t} fence rel"])
  | .wr rem =>
    let room := s.cap - s.fifo.length
    if room = 0 then
      some ({ s with wpc := upd s.wpc t (.slp rem) }, [s!"T{t} note sys", s!"T{t} note write eagain"])
    else
      let n := xfer rem room (script s.wchunks s.wi)
      let m := (s.todo t).headD 0
      let bytes := ((msgBytes m).drop (8 - rem)).take n
      some ({ s with fifo := s.fifo ++ bytes, wi := s.wi + 1, unsent := s.unsent.drop n,
                     wpc := upd s.wpc t (if rem - n = 0 then .unl else .wr (rem - n)) },
            [s!"T{t} note sys", s!"T{t} note write {n}/{rem}"])
  | .slp rem => some ({ s with wpc := upd s.wpc t (.wr rem) }, [s!"T{t} yield"])
  | .unl =>
    let m := (s.todo t).headD 0
    let rest := (s.todo t).tail
    some ({ s with lock := 0, holder := none, doneLog := s.doneLog ++ [(t, m)],
                   todo := upd s.todo t rest,
                   wpc := upd s.wpc t (if rest.isEmpty then .done else .acq) },
          [s!"T{t} st lock 0 rel", s!"T{t} note wrote {m}"])

def readerStep (s : St) (t : Nat) : Option (St × List String) :=
  match s.rpc with
  | .done => none
  | .rd off =>
    if s.fifo.isEmpty then
      if off = 0 then
        some ({ s with rpc := .yld }, [s!"T{t} note sys", s!"T{t} note read eagain", s!"T{t} note null"])
      else some ({ s with rpc := .slp off }, [s!"T{t} note sys", s!"T{t} note read eagain"])
    else
      let n := xfer (8 - off) s.fifo.length (script s.rchunks s.ri)
      some ({ s with buf := s.buf ++ s.fifo.take n, fifo := s.fifo.drop n, ri := s.ri + 1,
                     rpc := if off + n = 8 then .fence else .rd (off + n) },
            [s!"T{t} note sys", s!"T{t} note read {n}/{8 - off}"])
  | .slp off => some ({ s with rpc := .rd off }, [s!"T{t} yield"])
  | .yld => some ({ s with rpc := .rd 0 }, [s!"T{t} yield"])
  | .fence =>
    let d := s.delivered ++ [s.buf]
    some ({ s with delivered := d, buf := [], rpc := if d.length = s.total then .done else .rd 0 },
          [s!"T{t} fence acq", s!"T{t} note got {showGroup s.buf}"])

def step (s : St) (tok : Tok) : Option (St × List String) :=
  if tok.tid < s.nw then writerStep s tok.tid
  else if tok.tid = s.nw then readerStep s tok.tid
  else none

def allDone (s : St) : Bool :=
  ((List.range s.nw).all fun t => s.wpc t == .done) && s.rpc == .done

def anyEnabled (s : St) : Bool :=
  ((List.range s.nw).any fun t => s.wpc t != .done) || s.rpc != .done

def outcome (s : St) : String :=
  let ds := s.delivered.map showGroup
  s!"outcome delivered={if ds.isEmpty then "-" else ",".intercalate ds}"

end MgModel.C15.Pipe
