/-!
# C13 — abstract kernel for the event-loop model

One `Desc` per descriptor pair created by the harness (a pipe, an `AF_UNIX` stream
socket pair, or a TCP loop-back connection). The event loop owns the *read end*; the
harness owns the *peer end* and performs `write / half-close / close` on it. Only what
decides readiness and the result of `read` is kept:

* `avail`   — unread bytes queued at the read end (the byte *values* are a fixed function of
              (descriptor, stream offset), so the model only counts them; the harness
              checks the values);
* `arrived` — ghost: total number of bytes ever queued;
* `pwr`     — the peer can still write (peer write side open);
* `eof`     — `read` returns 0 once the queue is empty (peer closed / half-closed its
              write side, or own `shutdown(SHUT_RDWR)`);
* `hup`, `err` — `POLLHUP`, `POLLERR` conditions of sockets;
* `shut`    — own `shutdown(SHUT_RDWR)` was done (sockets only).

Readiness rules (Linux; validated by every correspondence run, see DESIGN.md §3 C13):
pipe — `IN` iff bytes queued, `HUP` iff the writer is closed;
unix/tcp socket — `IN` iff bytes queued or end-of-stream pending, `HUP` iff both
directions are shut (unix: peer closed or own shutdown; tcp: own shutdown only),
`ERR` after a reset (tcp: peer wrote after our shutdown).
-/
namespace MgModel.C13

inductive Kind where
  | pipe | sock | tcp
  deriving DecidableEq, Repr

structure Desc where
  kind    : Kind := .pipe
  avail   : Nat := 0
  arrived : Nat := 0
  pwr     : Bool := true
  eof     : Bool := false
  hup     : Bool := false
  err     : Bool := false
  shut    : Bool := false
  deriving DecidableEq, Repr

structure Mask where
  inn : Bool
  hup : Bool
  err : Bool
  deriving DecidableEq, Repr

def Mask.any (m : Mask) : Bool := m.inn || m.hup || m.err

/-- what `poll`/`epoll` report for the read end (`POLLIN` requested; `HUP`/`ERR` always) -/
def Desc.mask (d : Desc) : Mask :=
  match d.kind with
  | .pipe => ⟨decide (0 < d.avail), d.eof, false⟩
  | _     => ⟨decide (0 < d.avail) || d.eof, d.hup, d.err⟩

/-- `select` read-set membership: `POLLIN_SET` contains `IN`, `HUP` and `ERR` -/
def Desc.readable (d : Desc) : Bool := d.mask.any

/-- peer writes `n ≥ 1` bytes. Returns the new descriptor and whether the read end's
wait queue is woken (an edge for `EPOLLET`). -/
def Desc.write (d : Desc) (n : Nat) : Desc × Bool :=
  if !d.pwr then (d, false)                         -- peer write side closed: nothing happens
  else if d.shut then
    match d.kind with
    | .tcp => if d.err then (d, false) else ({ d with err := true }, true)   -- data → RST
    | _    => (d, false)                                                     -- EPIPE
  else ({ d with avail := d.avail + n, arrived := d.arrived + n }, true)

/-- peer half-closes (`shutdown(SHUT_WR)`; for a pipe: closes the write end) -/
def Desc.hclose (d : Desc) : Desc × Bool :=
  if !d.pwr then (d, false)
  else ({ d with pwr := false, eof := true }, true)

/-- peer closes its end. `pclosed` is not tracked separately: a second close is a no-op
because `pwr` is false and, for unix sockets, `hup` is already set. -/
def Desc.pclose (d : Desc) : Desc × Bool :=
  match d.kind with
  | .pipe => if !d.pwr then (d, false) else ({ d with pwr := false, eof := true }, true)
  | .sock => if !d.pwr && d.hup then (d, false)
             else ({ d with pwr := false, eof := true, hup := true }, true)
  | .tcp  => if !d.pwr then (d, false) else ({ d with pwr := false, eof := true }, true)

/-- own `shutdown(fd, SHUT_RDWR)` (from `muggle_ev_ctx_shutdown`): fails on a pipe -/
def Desc.shutdown (d : Desc) : Desc × Bool :=
  match d.kind with
  | .pipe => (d, false)
  | _     => if d.shut then (d, false)
             else ({ d with shut := true, eof := true, hup := true }, true)

/-- one `read(fd, buf, len)` on the non-blocking read end, `len ≥ 1`:
`(bytes, ended, d')`; `ended` = the call returned 0 or a hard error, i.e.
`muggle_ev_ctx_read` sets `MUGGLE_EV_CTX_FLAG_CLOSED`. -/
def Desc.read (d : Desc) (len : Nat) : Nat × Bool × Desc :=
  if 0 < d.avail then
    let n := min d.avail len
    (n, false, { d with avail := d.avail - n })
  else if d.eof || d.err then (0, true, d)
  else (0, false, d)                                -- EAGAIN

/-- read until `read` returns ≤ 0 (the documented contract of an `EPOLLET` consumer) -/
def Desc.drain (d : Desc) : Nat × Bool × Desc :=
  (d.avail, d.eof || d.err, { d with avail := 0 })

end MgModel.C13
