import MgModel.C13.Kernel
/-!
# C13 — event loop (muggle/c/event/event_loop.c and internal/event_loop_{select,poll,epoll}.c)

Executable model. One state record holds the abstract kernel, the contexts, the
common part of `muggle_event_loop_t` and the registration tables of the three
back-ends (only the fields of the configured back-end are ever touched).

Identities: descriptor `d`, its event context and its linked-list node share the
number `d` (every descriptor has exactly one context and is added at most once —
the harness enforces this, `tried`). File-descriptor numbers are abstracted to an
order-preserving numbering: the eventfd is `0`, descriptor `d` is `d+1` (the harness
`dup2`s the read ends to increasing numbers above the eventfd).

Callbacks are scripted (`Script`): the actions run *inside* the callback, so a history
is deterministic. When the back-end's wait call would block, the `idle` hook runs the
next scripted batch of outside actions (what peers / other threads do while the loop
sleeps); when the script is exhausted it requests exit from another thread.

The trace is kept newest-first (`emit` conses); `St.events` reverses it.
-/
namespace MgModel.C13

inductive Backend where
  | select | poll | epoll
  deriving DecidableEq, Repr

/-- observable events: results of `muggle_evloop_add_ctx`, wait-call boundaries, callbacks -/
inductive Ev where
  | addOk (c : Nat)
  | addRej (c : Nat)
  | disp                          -- the wait call returned > 0: a dispatch begins
  | sleep (pending : Bool)        -- the wait call would block; pending = some registered
                                  -- context is readable at that moment (input would be lost)
  | read (c n : Nat) (ended : Bool)   -- cb_read on c: n bytes offered; ended = EOF/error seen
  | close (c : Nat)
  | wake
  | clear (c : Nat)
  | exit
  | waitErr                       -- the wait call failed (select: EBADF): the loop gives up
  | fuel                          -- model artefact: iteration bound hit (never on real scripts)
  deriving DecidableEq, Repr

inductive Act where
  | write (d n : Nat)
  | hclose (d : Nat)
  | pclose (d : Nat)
  | add (d : Nat)
  | shut (d : Nat)                -- muggle_ev_ctx_shutdown
  | wakeup                        -- muggle_evloop_wakeup
  | exit                          -- muggle_evloop_exit from the loop thread (EXIT + wakeup)
  | xexit                         -- muggle_evloop_exit from another thread
  deriving DecidableEq, Repr

inductive RMode where
  | all                           -- cb_read drains
  | upto (k : Nat)                -- cb_read does one read of at most k ≥ 1 bytes
  deriving DecidableEq, Repr

structure Script where
  onRead  : Nat → Nat → Nat → List Act     -- ctx, bytes delivered before / after this callback
  onClose : Nat → List Act
  onWake  : Nat → List Act                 -- occurrence number of cb_wake
  onIdle  : Nat → List Act                 -- occurrence number of the loop going to sleep
  nIdle   : Nat
  rmode   : Nat → RMode

/-- source of an epoll event -/
inductive Src where
  | sig
  | ctx (c : Nat)
  deriving DecidableEq, Repr

/-- poll table entry: `nodes[i]` and `fds[i]` (index `i+1` in C; index 0 is the eventfd) -/
structure PEnt where
  node : Nat
  fd   : Nat
  rev  : Mask := ⟨false, false, false⟩
  deriving DecidableEq, Repr

def upd {α : Type} (f : Nat → α) (i : Nat) (a : α) : Nat → α := fun j => if j = i then a else f j

structure St where
  backend : Backend := .poll
  hints   : Nat := 8                -- hints_max_fd (capacity − 1 for poll / epoll)
  legacy  : Bool := false           -- poll: original `--n` accounting (see fixes/C13-*.patch)
  legacySel : Bool := false         -- select: original scan without FD_CLR on close
  closeFd : Bool := false           -- the close callback closes the descriptor (as the
                                    -- library's own socket layer does)
  -- kernel
  nds     : Nat := 0
  ds      : Nat → Desc := fun _ => {}
  evc     : Nat := 0                -- eventfd counter
  -- contexts
  flag      : Nat → Bool := fun _ => false      -- MUGGLE_EV_CTX_FLAG_CLOSED
  delivered : Nat → Nat := fun _ => 0           -- ghost: bytes offered to cb_read so far
  tried     : Nat → Bool := fun _ => false      -- add_ctx was called for this context
  fdClosed  : Nat → Bool := fun _ => false      -- the read end was closed by the close callback
  -- muggle_event_loop_t
  ctxList : List Nat := []
  toExit  : Nat := 0                -- 0 | 1 EXIT | 2 WAKE
  nWake   : Nat := 0
  nIdle   : Nat := 0
  trace   : List Ev := []
  -- poll
  ptab    : List PEnt := []
  psig    : Bool := false           -- fds[0].revents & POLLIN
  -- select
  allset  : List Nat := []
  allsig  : Bool := false
  nfds    : Nat := 0
  rset    : List Nat := []
  rsig    : Bool := false
  -- epoll (kernel object + batch)
  epReg   : List Nat := []
  epSig   : Bool := false
  armed   : List Src := []          -- ready list, FIFO
  -- the model reached a point where the C code would index out of bounds
  oob     : Bool := false

def St.events (s : St) : List Ev := s.trace.reverse

def emit (e : Ev) (s : St) : St := { s with trace := e :: s.trace }

def fdOf (c : Nat) : Nat := c + 1       -- eventfd = 0

/-! ## kernel side effects -/

/-- a wake-up of descriptor `c`'s wait queue: an `EPOLLET` edge if registered -/
def arm (c : Nat) (s : St) : St :=
  if s.epReg.contains c && !s.armed.contains (.ctx c) then { s with armed := s.armed ++ [.ctx c] } else s

def armSig (s : St) : St :=
  if s.epSig && !s.armed.contains .sig then { s with armed := s.armed ++ [.sig] } else s

def setDesc (c : Nat) (r : Desc × Bool) (s : St) : St :=
  let s := { s with ds := upd s.ds c r.1 }
  if r.2 then arm c s else s

/-- `muggle_ev_signal_wakeup`: eventfd write -/
def sigWakeup (s : St) : St := armSig { s with evc := s.evc + 1 }

/-! ## muggle_evloop_add_ctx -/

def selSetFd (c : Nat) (s : St) : St :=
  { s with allset := if s.allset.contains c then s.allset else c :: s.allset,
           nfds := if fdOf c > s.nfds then fdOf c else s.nfds }

def addCtx (c : Nat) (s : St) : St :=
  if s.tried c || !(decide (c < s.nds)) then s else
  let s := { s with tried := upd s.tried c true }
  -- linked-list append (never fails: the node pool grows), then the back-end
  match s.backend with
  | .select => emit (.addOk c) (selSetFd c { s with ctxList := s.ctxList ++ [c] })
  | .poll =>
    if s.ptab.length = s.hints then emit (.addRej c) s      -- nfd == capacity: roll back
    else emit (.addOk c) { s with ctxList := s.ctxList ++ [c],
                                  ptab := s.ptab ++ [{ node := c, fd := c }] }
  | .epoll =>
    let s := { s with ctxList := s.ctxList ++ [c], epReg := s.epReg ++ [c] }
    -- EPOLL_CTL_ADD polls the file once
    emit (.addOk c) (if (s.ds c).mask.any then arm c s else s)

/-! ## actions and callbacks -/

def act (a : Act) (s : St) : St :=
  match a with
  | .write d n => if d < s.nds && 0 < n then setDesc d ((s.ds d).write n) s else s
  | .hclose d  => if d < s.nds then setDesc d (s.ds d).hclose s else s
  | .pclose d  => if d < s.nds then setDesc d (s.ds d).pclose s else s
  | .add d     => addCtx d s
  | .shut d    => if d < s.nds then
                    setDesc d (s.ds d).shutdown { s with flag := upd s.flag d true }
                  else s
  | .wakeup    => sigWakeup s
  | .exit      => sigWakeup { s with toExit := 1 }   -- since /repo 3dbbf19 also wakes the loop
  | .xexit     => sigWakeup { s with toExit := 2 }

def runActs (as : List Act) (s : St) : St := as.foldl (fun s a => act a s) s

def doRead (m : RMode) (d : Desc) : Nat × Bool × Desc :=
  match m with
  | .all => d.drain
  | .upto k => d.read k

def cbRead (sc : Script) (c : Nat) (s : St) : St :=
  let r := doRead (sc.rmode c) (s.ds c)
  let before := s.delivered c
  let after := before + r.1
  let s := { s with ds := upd s.ds c r.2.2,
                    flag := if r.2.1 then upd s.flag c true else s.flag,
                    delivered := upd s.delivered c after }
  runActs (sc.onRead c before after) (emit (.read c r.1 r.2.1) s)

def cbClose (sc : Script) (c : Nat) (s : St) : St :=
  let s := runActs (sc.onClose c) (emit (.close c) s)
  if s.closeFd then { s with fdClosed := upd s.fdClosed c true } else s

/-- `muggle_evloop_*_handle_wakeup` body when the eventfd was reported readable -/
def handleWake (sc : Script) (s : St) : St :=
  let s := { s with evc := 0 }                         -- muggle_ev_signal_clearup
  let k := s.nWake
  let s := runActs (sc.onWake k) (emit .wake { s with nWake := k + 1 })
  if s.toExit = 2 then { s with toExit := 1 } else s

/-- the wait call would block: scripted outside actions, or (script exhausted) exit from
another thread -/
def idle (sc : Script) (s : St) : St :=
  let k := s.nIdle
  let s := emit (.sleep (s.ctxList.any (fun c => (s.ds c).readable))) { s with nIdle := k + 1 }
  if k < sc.nIdle then runActs (sc.onIdle k) s else act .xexit s

/-! ## poll back-end -/

def pollQuery (s : St) : St :=
  { s with ptab := s.ptab.map (fun e => { e with rev := (s.ds e.fd).mask }),
           psig := decide (0 < s.evc) }

def pollCount (s : St) : Nat :=
  (s.ptab.filter (fun e => e.rev.any)).length + (if s.psig then 1 else 0)

/-- swap-with-last removal of slot `i` of a table (`nodes[i] = nodes[nfd-1]; memcpy(&fds[i],
&fds[nfd-1]); nodes[nfd-1] = NULL; --nfd`) -/
def swapRemove {α : Type} (l : List α) (i : Nat) : List α :=
  (if i ≠ l.length - 1 then
    match l[l.length - 1]? with
    | some x => l.set i x
    | none => l
   else l).dropLast

/-- unregistration: linked-list remove + swap-with-last in `fds[]/nodes[]` -/
def pollRemove (i : Nat) (e : PEnt) (s : St) : St :=
  { s with ctxList := s.ctxList.erase e.node, ptab := swapRemove s.ptab i }

/-- the `--n` accounting: the fixed code counts a ready descriptor once; the original code
counts `POLLIN` and `POLLHUP|POLLERR` separately (fixes/C13-poll-ready-count.patch) -/
def pollDec (legacy : Bool) (e : PEnt) (n : Int) : Int :=
  if legacy then
    (if e.rev.inn then n - 1 else n) - (if e.rev.hup || e.rev.err then 1 else 0)
  else if e.rev.any then n - 1 else n

/-- `if (fds[i].revents & POLLIN) cb_read(...)` -/
def pollRead (sc : Script) (e : PEnt) (s : St) : St :=
  if e.rev.inn then cbRead sc e.node s else s

/-- `if (fds[i].revents & (POLLHUP | POLLERR)) set_flag(CLOSED)` -/
def pollFlag (e : PEnt) (s : St) : St :=
  if e.rev.hup || e.rev.err then { s with flag := upd s.flag e.node true } else s

/-- `if (ctx->flags & CLOSED) { cb_close; unregister }` -/
def pollFinish (sc : Script) (i : Nat) (e : PEnt) (s : St) : St :=
  if s.flag e.node then pollRemove i e (cbClose sc e.node s) else s

/-- one iteration of the scan for table entry `i` (C index `i+1`) -/
def pollVisit (sc : Script) (i : Nat) (e : PEnt) (s : St) : St :=
  pollFinish sc i e (pollFlag e (pollRead sc e s))

/-- the body of the `for (i = nfd-1; i >= 0; --i)` loop; `i` = number of table entries
still to visit (C index `i`), `n` = remaining ready count -/
def pollScan (sc : Script) : Nat → Int → St → St
  | 0, _, s => if s.psig then handleWake sc s else s
  | i + 1, n, s =>
    match s.ptab[i]? with
    | none => { s with oob := true }
    | some e =>
      let n := pollDec s.legacy e n
      let s := pollVisit sc i e s
      if n ≤ 0 then s else pollScan sc i n s

def pollLoop (sc : Script) : Nat → St → St
  | 0, s => emit .fuel s
  | f + 1, s =>
    let s := pollQuery s
    let n := pollCount s
    if n = 0 then pollLoop sc f (idle sc s)
    else
      let s := pollScan sc s.ptab.length n (emit .disp s)
      if s.toExit = 1 then s else pollLoop sc f s

/-! ## select back-end -/

def selQuery (s : St) : St :=
  { s with rset := s.allset.filter (fun c => if fdOf c ≤ s.nfds then (s.ds c).readable else true),
           rsig := s.allsig && decide (0 < s.evc) }

def selCount (s : St) : Nat :=
  (s.allset.filter (fun c => decide (fdOf c ≤ s.nfds) && (s.ds c).readable)).length +
    (if s.rsig then 1 else 0)

/-- `if (FD_ISSET(ctx->fd, &rset) && cb_read) cb_read(...)` -/
def selRead (sc : Script) (c : Nat) (s : St) : St :=
  if s.rset.contains c then cbRead sc c s else s

/-- `cb_close; FD_CLR(fd, &allset); node = muggle_linked_list_remove(node)` — the `FD_CLR` is
fixes/C13-select-stale-fd.patch: a context added during this dispatch is already in `allset` -/
def selClose (sc : Script) (i c : Nat) (s : St) : St :=
  let s := cbClose sc c s
  { s with ctxList := s.ctxList.eraseIdx i,
           allset := if s.legacySel then s.allset else s.allset.erase c }

/-- scan of `ctx_list` by position; removal of the current node keeps the position,
appends by callbacks are reached later in the same scan -/
def selScan (sc : Script) : Nat → Nat → St → St
  | 0, _, s => { s with oob := true }
  | f + 1, i, s =>
    match s.ctxList[i]? with
    | none => s
    | some c =>
      let s := selRead sc c s
      if s.flag c then selScan sc f i (selClose sc i c s)
      else selScan sc f (i + 1) (selSetFd c s)

def selDispatch (sc : Script) (s : St) : St :=
  let s := { s with nfds := 0, allset := [], allsig := false }
  let s := if s.rsig then handleWake sc s else s
  let s := { s with allsig := true, nfds := 0 }
  selScan sc (s.ctxList.length + s.nds + 1) 0 s

/-- `select` fails with `EBADF` when a descriptor it has to examine is closed -/
def selBad (s : St) : Bool := s.allset.any (fun c => decide (fdOf c ≤ s.nfds) && s.fdClosed c)

def selLoop (sc : Script) : Nat → St → St
  | 0, s => emit .fuel s
  | f + 1, s =>
    if selBad s then act .exit (emit .waitErr s)      -- n < 0, errno != EINTR: muggle_evloop_exit
    else
    let s := selQuery s
    if selCount s = 0 then selLoop sc f (idle sc s)
    else
      let s := selDispatch sc (emit .disp s)
      if s.toExit = 1 then s else selLoop sc f s

/-! ## epoll back-end -/

def srcMask (s : St) : Src → Mask
  | .sig => ⟨decide (0 < s.evc), false, false⟩
  | .ctx c => (s.ds c).mask

/-- `ep_send_events`: walk the ready list; items that are no longer ready are dropped,
at most `max` are reported (and, being edge-triggered, leave the list), the rest stay -/
def epCollect (s : St) : List Src → Nat → List (Src × Mask) × List Src
  | [], _ => ([], [])
  | a :: rest, 0 => ([], a :: rest)
  | a :: rest, m + 1 =>
    let mk := srcMask s a
    if mk.any then
      let r := epCollect s rest m
      ((a, mk) :: r.1, r.2)
    else epCollect s rest (m + 1)

def epDel (c : Nat) (s : St) : St :=
  { s with epReg := s.epReg.erase c, armed := s.armed.erase (.ctx c) }

/-- `if (events & EPOLLIN) cb_read(...) else if (events & (EPOLLERR|EPOLLHUP)) set_flag(CLOSED)` -/
def epRead (sc : Script) (c : Nat) (mk : Mask) (s : St) : St :=
  if mk.inn then cbRead sc c s
  else if mk.err || mk.hup then { s with flag := upd s.flag c true } else s

/-- `if (ctx->flags & CLOSED) { epoll_ctl(DEL); cb_close; list remove }` -/
def epFinish (sc : Script) (c : Nat) (s : St) : St :=
  if s.flag c then
    let s := cbClose sc c (epDel c s)
    { s with ctxList := s.ctxList.erase c }
  else s

def epVisit (sc : Script) (c : Nat) (mk : Mask) (s : St) : St :=
  epFinish sc c (epRead sc c mk s)

def epBatch (sc : Script) : List (Src × Mask) → St → St
  | [], s => s
  | (.sig, mk) :: rest, s => epBatch sc rest (if mk.inn then handleWake sc s else s)
  | (.ctx c, mk) :: rest, s => epBatch sc rest (epVisit sc c mk s)

def epLoop (sc : Script) : Nat → St → St
  | 0, s => emit .fuel s
  | f + 1, s =>
    let r := epCollect s s.armed (s.hints + 1)
    let s := { s with armed := r.2 }
    if r.1.isEmpty then epLoop sc f (idle sc s)
    else
      let s := epBatch sc r.1 (emit .disp s)
      if s.toExit = 1 then s else epLoop sc f s

/-- `muggle_evloop_run_epoll` prologue: the eventfd is registered (`EPOLLIN|EPOLLET`) -/
def epStart (s : St) : St :=
  let s := { s with epSig := true }
  if 0 < s.evc then armSig s else s

/-! ## muggle_evloop_run -/

def backendRun (sc : Script) (fuel : Nat) (s : St) : St :=
  match s.backend with
  | .select => selLoop sc fuel s
  | .poll => pollLoop sc fuel s
  | .epoll => epLoop sc fuel (epStart s)

def clearAll (s : St) : St := s.ctxList.foldl (fun s c => emit (.clear c) s) s

def run (sc : Script) (fuel : Nat) (s : St) : St :=
  emit .exit (clearAll (backendRun sc fuel s))

/-- state after `muggle_evloop_new` for a back-end (select: the eventfd is in `allset`) -/
def initSt (b : Backend) (hints : Nat) (legacy : Bool) (kinds : List Kind)
    (legacySel : Bool := false) (closeFd : Bool := false) : St :=
  { backend := b, hints := hints, legacy := legacy, legacySel := legacySel, closeFd := closeFd,
    nds := kinds.length,
    ds := fun d => { kind := kinds.getD d .pipe }, allsig := true }

/-- whole scenario: world, actions before `muggle_evloop_run`, then the run -/
def scenario (b : Backend) (hints : Nat) (legacy : Bool) (kinds : List Kind) (pre : List Act)
    (sc : Script) (fuel : Nat) (legacySel : Bool := false) (closeFd : Bool := false) : St :=
  run sc fuel (runActs pre (initSt b hints legacy kinds legacySel closeFd))

/-! ## outcomes (what the back-ends are compared on) -/

inductive Fate where
  | none        -- never registered (not added, or rejected)
  | closed      -- cb_close was called
  | cleared     -- cb_clear was called
  deriving DecidableEq, Repr

def fateOf (evs : List Ev) (c : Nat) : Fate :=
  if evs.contains (.close c) then .closed
  else if evs.contains (.clear c) then .cleared
  else .none

/-- per descriptor: bytes offered to its read callback, and how it ended -/
def outcome (s : St) (c : Nat) : Nat × Fate := (s.delivered c, fateOf s.events c)

def outcomes (s : St) : List (Nat × Fate) := (List.range s.nds).map (outcome s)

/-! ## specification for externally driven, draining scripts

Class P: every read callback drains, callbacks perform no actions, everything
happens either before the run (`pre`: adds and peer actions) or while the loop
sleeps (`onIdle`: peer actions only). For such scripts the outcome of a context is a
function of the kernel history alone: everything that arrived was offered, and the
context ended closed iff its stream ended. -/

def peerOnly : Act → Bool
  | .write _ _ | .hclose _ | .pclose _ => true
  | _ => false

def preOk : Act → Bool
  | .write _ _ | .hclose _ | .pclose _ | .add _ => true
  | _ => false

/-- kernel-only world (a structure, so that the compiled code evaluates each update once) -/
structure KSt where
  ds : Nat → Desc

/-- kernel-only effect of an action -/
def kact (nds : Nat) (k : KSt) : Act → KSt
  | .write d n => if d < nds && 0 < n then ⟨upd k.ds d ((k.ds d).write n).1⟩ else k
  | .hclose d => if d < nds then ⟨upd k.ds d (k.ds d).hclose.1⟩ else k
  | .pclose d => if d < nds then ⟨upd k.ds d (k.ds d).pclose.1⟩ else k
  | _ => k

def kacts (nds : Nat) (as : List Act) (k : KSt) : KSt :=
  as.foldl (kact nds) k

def idleActs (sc : Script) : List Act := (List.range sc.nIdle).flatMap sc.onIdle

def specOutcome (kinds : List Kind) (pre : List Act) (sc : Script) (c : Nat) : Nat × Fate :=
  let nds := kinds.length
  let k := kacts nds (pre ++ idleActs sc) ⟨fun d => { kind := kinds.getD d .pipe }⟩
  if pre.contains (.add c) && decide (c < nds) then
    ((k.ds c).arrived, if (k.ds c).eof then .closed else .cleared)
  else (0, .none)

end MgModel.C13
