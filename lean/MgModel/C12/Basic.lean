/-!
# C12 — bytes, blocks, little helpers shared by the cipher specs and the mode models

A byte is a `BitVec 8`; buffers are `List Byte`; a block is a `List Byte` whose
length is the block size of the cipher (16 for AES, 8 for DES / Triple-DES).
-/
namespace MgModel.C12

abbrev Byte := BitVec 8
abbrev Bytes := List Byte

/-- byte-wise XOR of two buffers (length of the shorter one) -/
def xorBytes (a b : Bytes) : Bytes := List.zipWith (· ^^^ ·) a b

/-- the buffer cut into consecutive pieces of `n` bytes (the last one may be shorter).
`fuel` only makes the recursion structural; `chunks` supplies enough of it. -/
def chunksAux (n : Nat) : Nat → Bytes → List Bytes
  | 0, _ => []
  | _, [] => []
  | fuel + 1, l => l.take n :: chunksAux n fuel (l.drop n)

def chunks (n : Nat) (l : Bytes) : List Bytes := chunksAux n l.length l

/-- little-endian increment of a byte string (ripple carry from byte 0; the carry out
of the last byte is dropped): the memory image of `*(uintN_t*)p += 1` on a
little-endian machine, and of the two-word `nonce[0] += 1; if (nonce[0] == 0) nonce[1] += 1`. -/
def incLE : Bytes → Bytes
  | [] => []
  | b :: bs => if b = 0xff#8 then 0x00#8 :: incLE bs else (b + 1) :: bs

/-- value of a little-endian byte string -/
def leVal : Bytes → Nat
  | [] => 0
  | b :: bs => b.toNat + 256 * leVal bs

/-! ## hex (driver only) -/

def hexDigit (n : Nat) : Char :=
  if n < 10 then Char.ofNat (48 + n) else Char.ofNat (87 + n)

def hexOfBytes (bs : Bytes) : String :=
  if bs.isEmpty then "-" else
  String.ofList (bs.foldr (fun b acc => hexDigit (b.toNat / 16) :: hexDigit (b.toNat % 16) :: acc) [])

def hexVal (c : Char) : Option Nat :=
  if '0' ≤ c ∧ c ≤ '9' then some (c.toNat - 48)
  else if 'a' ≤ c ∧ c ≤ 'f' then some (c.toNat - 87)
  else if 'A' ≤ c ∧ c ≤ 'F' then some (c.toNat - 55)
  else none

def bytesOfHexChars : List Char → Option Bytes
  | [] => some []
  | [_] => none
  | a :: b :: rest =>
    match hexVal a, hexVal b, bytesOfHexChars rest with
    | some x, some y, some r => some (BitVec.ofNat 8 (16 * x + y) :: r)
    | _, _, _ => none

def bytesOfHex (s : String) : Option Bytes :=
  if s = "-" then some [] else bytesOfHexChars s.toList

end MgModel.C12
