import MgModel.C12.Basic
import MgModel.C12.Tables
/-!
# C12 — AES as FIPS-197 defines it (executable specification)

The state is the 16 input bytes in input order, i.e. column major:
`s[r][c] = st[r + 4*c]` (FIPS-197 §3.4).  The expanded key is the list of round
keys, each 16 bytes, round key `i` = words `w[4i] .. w[4i+3]` written big-endian,
i.e. exactly the bytes the key expansion produces in order.
-/
namespace MgModel.C12.Aes
open MgModel.C12

/-- the S-box table as an array (constant-time lookup in the compiled driver) -/
def sboxArr : Array Nat := Tables.aesSbox.toArray
def invSboxArr : Array Nat := Tables.aesInvSbox.toArray

/-- FIPS-197 §5.1.1 `SubBytes` on one byte (Fig. 7) -/
def sub (b : Byte) : Byte := BitVec.ofNat 8 (sboxArr.getD b.toNat 0)
/-- FIPS-197 §5.3.2 `InvSubBytes` on one byte (Fig. 14) -/
def invSub (b : Byte) : Byte := BitVec.ofNat 8 (invSboxArr.getD b.toNat 0)

/-- FIPS-197 §4.2.1 `xtime`: multiplication by `x` modulo `x^8+x^4+x^3+x+1` -/
def xtime (b : Byte) : Byte := (b <<< 1) ^^^ (if b.msb then 0x1b#8 else 0x00#8)

/-- multiplication in GF(2^8) (FIPS-197 §4.2), by repeated `xtime` over the bits of `a` -/
def gmulAux : Nat → Nat → Byte → Byte
  | 0, _, _ => 0
  | fuel + 1, a, b => (if a % 2 = 1 then b else 0) ^^^ gmulAux fuel (a / 2) (xtime b)

def gmul (a : Nat) (b : Byte) : Byte := gmulAux 8 a b

def subBytes (s : Bytes) : Bytes := s.map sub
def invSubBytes (s : Bytes) : Bytes := s.map invSub

/-- source index of every state byte under `ShiftRows`: `s'[r][c] = s[r][(c+r) mod 4]` -/
def shiftIdx : List Nat := (List.range 16).map fun i => (i % 4) + 4 * ((i / 4 + i % 4) % 4)
/-- source index under `InvShiftRows`: `s'[r][(c+r) mod 4] = s[r][c]` -/
def invShiftIdx : List Nat := (List.range 16).map fun i => (i % 4) + 4 * ((i / 4 + 4 - i % 4) % 4)

def shiftRows (s : Bytes) : Bytes := shiftIdx.map fun i => s.getD i 0
def invShiftRows (s : Bytes) : Bytes := invShiftIdx.map fun i => s.getD i 0

/-- FIPS-197 eq. (5.6) on one column -/
def mixCol (a0 a1 a2 a3 : Byte) : Bytes :=
  [gmul 2 a0 ^^^ gmul 3 a1 ^^^ a2 ^^^ a3,
   a0 ^^^ gmul 2 a1 ^^^ gmul 3 a2 ^^^ a3,
   a0 ^^^ a1 ^^^ gmul 2 a2 ^^^ gmul 3 a3,
   gmul 3 a0 ^^^ a1 ^^^ a2 ^^^ gmul 2 a3]

/-- FIPS-197 eq. (5.10) on one column -/
def invMixCol (a0 a1 a2 a3 : Byte) : Bytes :=
  [gmul 14 a0 ^^^ gmul 11 a1 ^^^ gmul 13 a2 ^^^ gmul 9 a3,
   gmul 9 a0 ^^^ gmul 14 a1 ^^^ gmul 11 a2 ^^^ gmul 13 a3,
   gmul 13 a0 ^^^ gmul 9 a1 ^^^ gmul 14 a2 ^^^ gmul 11 a3,
   gmul 11 a0 ^^^ gmul 13 a1 ^^^ gmul 9 a2 ^^^ gmul 14 a3]

def mixColumns : Bytes → Bytes
  | a0 :: a1 :: a2 :: a3 :: rest => mixCol a0 a1 a2 a3 ++ mixColumns rest
  | _ => []

def invMixColumns : Bytes → Bytes
  | a0 :: a1 :: a2 :: a3 :: rest => invMixCol a0 a1 a2 a3 ++ invMixColumns rest
  | _ => []

def addRoundKey (k s : Bytes) : Bytes := xorBytes s k

/-! ## Cipher / InvCipher (FIPS-197 Fig. 5 and Fig. 12) over the list of round keys -/

/-- rounds 1 .. Nr given the round keys 1 .. Nr (the last one without MixColumns) -/
def encRounds : List Bytes → Bytes → Bytes
  | [], s => s
  | [k], s => addRoundKey k (shiftRows (subBytes s))
  | k :: ks, s => encRounds ks (addRoundKey k (mixColumns (shiftRows (subBytes s))))

/-- `Cipher(in, w)` -/
def cipher : List Bytes → Bytes → Bytes
  | [], b => b
  | k0 :: ks, b => encRounds ks (addRoundKey k0 b)

/-- the loop of `InvCipher` given the round keys Nr-1, Nr-2, .., 0 -/
def decRounds : List Bytes → Bytes → Bytes
  | [], s => s
  | [k0], s => addRoundKey k0 (invSubBytes (invShiftRows s))
  | k :: ks, s => decRounds ks (invMixColumns (addRoundKey k (invSubBytes (invShiftRows s))))

/-- `InvCipher(in, w)` (the straightforward one, same key schedule) -/
def invCipher (rks : List Bytes) (b : Bytes) : Bytes :=
  match rks.reverse with
  | [] => b
  | kN :: ks => decRounds ks (addRoundKey kN b)

/-! ## KeyExpansion (FIPS-197 Fig. 11), words as 4-byte lists -/

def subWord (w : Bytes) : Bytes := w.map sub
def rotWord : Bytes → Bytes
  | a :: rest => rest ++ [a]
  | [] => []

/-- `Rcon[j]`, j ≥ 1: `[x^(j-1), 0, 0, 0]` -/
def rcon (j : Nat) : Bytes := [Nat.repeat xtime (j - 1) 0x01#8, 0, 0, 0]

/-- append words `w[i]` for `i = ws.length .. ` until `total` words exist (`fuel` steps) -/
def expandAux (nk : Nat) : Nat → List Bytes → List Bytes
  | 0, ws => ws
  | fuel + 1, ws =>
    let i := ws.length
    let prev := ws.getD (i - 1) []
    let temp :=
      if i % nk = 0 then xorBytes (subWord (rotWord prev)) (rcon (i / nk))
      else if nk > 6 ∧ i % nk = 4 then subWord prev
      else prev
    expandAux nk fuel (ws ++ [xorBytes (ws.getD (i - nk) []) temp])

/-- number of rounds for a key of `nk` words -/
def rounds (nk : Nat) : Nat := nk + 6

/-- the round keys (Nr+1 of them, 16 bytes each) of a key of 16/24/32 bytes -/
def keyExpansion (key : Bytes) : List Bytes :=
  let nk := key.length / 4
  let ws := expandAux nk (4 * (rounds nk + 1) - nk) (chunks 4 key)
  chunks 16 ws.flatten

/-- AES block encryption / decryption under a raw key -/
def encryptBlock (key b : Bytes) : Bytes := cipher (keyExpansion key) b
def decryptBlock (key b : Bytes) : Bytes := invCipher (keyExpansion key) b

end MgModel.C12.Aes
