import MgModel.C12.Basic
/-!
# C12 — the five mode loops of aes.c / des.c / tdes.c, and SP 800-38A

Everything here is parametric in the block size `bs` and the block function `F`
(what `muggle_aes_crypt` / `muggle_des_crypt` / `muggle_tdes_crypt` compute with the
context's key schedule).  The three C files contain the same five loops (AES with
`& 0x0f`, DES / Triple-DES with `& 0x07`), so one model covers them.

* `Model` part: one function per C loop, per byte where the C code is per byte, with
  the caller-held chaining state (`iv`, `iv_offset`, `nonce`, `nonce_offset`,
  `stream_block`) threaded through exactly as the code updates it.
* `Spec` part: the block-wise definitions of SP 800-38A §6.1–6.5.
-/
namespace MgModel.C12

/-! ## Model: the loops -/

/-- ECB loop: every block through `F`. Input length must be a multiple of `bs`
(checked by the callers below, as in C). -/
def ecbLoop (F : Bytes → Bytes) (bs : Nat) (input : Bytes) : Bytes :=
  ((chunks bs input).map F).flatten

/-- CBC encryption loop over blocks: `iv ^= in; out = F(iv); iv = out`. Returns (out, iv'). -/
def cbcEncBlocks (F : Bytes → Bytes) : Bytes → List Bytes → Bytes × Bytes
  | iv, [] => ([], iv)
  | iv, p :: ps =>
    let c := F (xorBytes iv p)
    let r := cbcEncBlocks F c ps
    (c ++ r.1, r.2)

/-- CBC decryption loop over blocks: `out = F(in) ^ iv; iv = in`. -/
def cbcDecBlocks (F : Bytes → Bytes) : Bytes → List Bytes → Bytes × Bytes
  | iv, [] => ([], iv)
  | iv, c :: cs =>
    let p := xorBytes (F c) iv
    let r := cbcDecBlocks F c cs
    (p ++ r.1, r.2)

/-- caller-held state of the CFB / OFB functions -/
structure IvState where
  iv  : Bytes
  off : Nat
  deriving Repr, DecidableEq

/-- one iteration of the CFB loop -/
def cfbByte (F : Bytes → Bytes) (bs : Nat) (enc : Bool) (s : IvState) (x : Byte) : IvState × Byte :=
  let iv1 := if s.off = 0 then F s.iv else s.iv
  let o := x ^^^ iv1.getD s.off 0
  ({ iv := iv1.set s.off (if enc then o else x), off := (s.off + 1) % bs }, o)

def cfbLoop (F : Bytes → Bytes) (bs : Nat) (enc : Bool) : IvState → Bytes → Bytes × IvState
  | s, [] => ([], s)
  | s, x :: xs =>
    let r := cfbByte F bs enc s x
    let t := cfbLoop F bs enc r.1 xs
    (r.2 :: t.1, t.2)

/-- one iteration of the OFB loop -/
def ofbByte (F : Bytes → Bytes) (bs : Nat) (s : IvState) (x : Byte) : IvState × Byte :=
  let iv1 := if s.off = 0 then F s.iv else s.iv
  ({ iv := iv1, off := (s.off + 1) % bs }, x ^^^ iv1.getD s.off 0)

def ofbLoop (F : Bytes → Bytes) (bs : Nat) : IvState → Bytes → Bytes × IvState
  | s, [] => ([], s)
  | s, x :: xs =>
    let r := ofbByte F bs s x
    let t := ofbLoop F bs r.1 xs
    (r.2 :: t.1, t.2)

/-- caller-held state of the CTR functions: the counter's memory image (little
endian), the offset into the current key-stream block, and that block -/
structure CtrState where
  nonce : Bytes
  off   : Nat
  sb    : Bytes
  deriving Repr, DecidableEq

/-- one iteration of the CTR loop: at offset 0 the counter is incremented FIRST, then
encrypted into `stream_block` -/
def ctrByte (F : Bytes → Bytes) (bs : Nat) (s : CtrState) (x : Byte) : CtrState × Byte :=
  let n1 := if s.off = 0 then incLE s.nonce else s.nonce
  let sb1 := if s.off = 0 then F n1 else s.sb
  ({ nonce := n1, off := (s.off + 1) % bs, sb := sb1 }, x ^^^ sb1.getD s.off 0)

def ctrLoop (F : Bytes → Bytes) (bs : Nat) : CtrState → Bytes → Bytes × CtrState
  | s, [] => ([], s)
  | s, x :: xs =>
    let r := ctrByte F bs s x
    let t := ctrLoop F bs r.1 xs
    (r.2 :: t.1, t.2)

/-! ## Model: the API functions with their parameter checks -/

inductive Err where
  | nullParam      -- MUGGLE_ERR_NULL_PARAM
  | invalidParam   -- MUGGLE_ERR_INVALID_PARAM
  | keySize        -- MUGGLE_ERR_CRYPT_KEY_SIZE
  | nullDeref      -- the C code would dereference a NULL pointer (crash)
  | oob            -- the C code would index outside a caller buffer
  deriving Repr, DecidableEq

inductive Dir where
  | dec | enc
  deriving Repr, DecidableEq

inductive Fn where
  | ecb | cbc | cfb | ofb | ctr
  deriving Repr, DecidableEq

/-- numeric value of `MUGGLE_BLOCK_CIPHER_MODE_*` the function insists on -/
def Fn.modeNum : Fn → Nat
  | .ecb => 0 | .cbc => 1 | .cfb => 2 | .ofb => 3 | .ctr => 4

/-- pointer parameters of the mode functions -/
inductive Param where
  | ctx | input | iv | off | sb | output
  deriving Repr, DecidableEq

/-- one `MUGGLE_CHECK_RET` line (or an unchecked dereference) -/
inductive Chk where
  | notNull (p : Param)   -- `p != NULL`, else MUGGLE_ERR_NULL_PARAM
  | deref (p : Param)     -- `*p` read with no preceding NULL check
  | mode                  -- `ctx->mode == <this function's mode>`, else INVALID_PARAM
  | len                   -- `ROUND_UP(num_bytes, bs) == num_bytes`, else INVALID_PARAM
  | offLt                 -- `*offset < bs`, else INVALID_PARAM
  deriving Repr, DecidableEq

/-- The checks of a mode function, in source order (aes.c, des.c, tdes.c agree once
the three missing NULL checks of aes.c are added: fixes/C12-aes-null-checks.patch;
the pinned aes.c has `deref off` in place of `notNull off` in cfb128/ofb128 and no
check of `nonce` in ctr). `iv` stands for `iv` / `nonce`. -/
def checksOf : Fn → List Chk
  | .ecb => [.notNull .ctx, .mode, .notNull .input, .len, .notNull .output]
  | .cbc => [.notNull .ctx, .mode, .notNull .input, .len, .notNull .iv, .notNull .output]
  | .cfb => [.notNull .ctx, .mode, .notNull .input, .notNull .iv, .notNull .off, .offLt, .notNull .output]
  | .ofb => [.notNull .ctx, .mode, .notNull .input, .notNull .iv, .notNull .off, .offLt, .notNull .output]
  | .ctr => [.notNull .ctx, .mode, .notNull .input, .notNull .iv, .notNull .off, .offLt,
             .notNull .sb, .notNull .output]

/-- the checks of the pinned (unfixed) aes.c, kept to state precisely what was wrong -/
def checksOfAesPinned : Fn → List Chk
  | .cfb => [.notNull .ctx, .mode, .notNull .input, .notNull .iv, .deref .off, .offLt, .notNull .output]
  | .ofb => [.notNull .ctx, .mode, .notNull .input, .notNull .iv, .deref .off, .offLt, .notNull .output]
  | .ctr => [.notNull .ctx, .mode, .notNull .input, .notNull .off, .offLt,
             .notNull .sb, .notNull .output, .deref .iv]
  | f => checksOf f

/-- what is true of one call -/
structure Call where
  isNull : Param → Bool   -- which pointer arguments are NULL
  modeOk : Bool           -- ctx->mode equals the function's mode
  lenOk  : Bool           -- num_bytes is a multiple of the block size
  offOk  : Bool           -- *offset < block size

def runChecks (c : Call) : List Chk → Except Err Unit
  | [] => .ok ()
  | .notNull p :: rest => if c.isNull p then .error .nullParam else runChecks c rest
  | .deref p :: rest => if c.isNull p then .error .nullDeref else runChecks c rest
  | .mode :: rest => if c.modeOk then runChecks c rest else .error .invalidParam
  | .len :: rest => if c.lenOk then runChecks c rest else .error .invalidParam
  | .offLt :: rest => if c.offOk then runChecks c rest else .error .invalidParam

/-- a cipher context as the mode functions see it -/
structure Cx where
  bs   : Nat               -- block size
  dir  : Dir               -- ctx->op
  mode : Nat               -- ctx->mode
  blkF : Bytes → Bytes     -- block function used by ecb / cbc (direction of the context)
  strF : Bytes → Bytes     -- block function used by cfb / ofb / ctr (always "encrypt")

/-- a call with all pointers valid -/
def Cx.call (cx : Cx) (fn : Fn) (len off : Nat) : Call :=
  { isNull := fun _ => false, modeOk := cx.mode = fn.modeNum,
    lenOk := len % cx.bs = 0, offOk := off < cx.bs }

/-- the caller passes `iv` / `nonce` / `stream_block` arrays of exactly `bs` bytes (the C
prototypes say `unsigned char iv[BLOCK_SIZE]`); anything else would be an out-of-bounds
access in C and is an explicit error here -/
def needLen (bs : Nat) (b : Bytes) : Except Err Unit :=
  if b.length = bs then .ok () else .error .oob

/-- `muggle_{aes,des,tdes}_ecb` -/
def ecb (cx : Cx) (input : Bytes) : Except Err Bytes := do
  runChecks (cx.call .ecb input.length 0) (checksOf .ecb)
  return ecbLoop cx.blkF cx.bs input

/-- `muggle_{aes,des,tdes}_cbc`; returns (output, iv') -/
def cbc (cx : Cx) (iv input : Bytes) : Except Err (Bytes × Bytes) := do
  runChecks (cx.call .cbc input.length 0) (checksOf .cbc)
  needLen cx.bs iv
  match cx.dir with
  | .enc => return cbcEncBlocks cx.blkF iv (chunks cx.bs input)
  | .dec => return cbcDecBlocks cx.blkF iv (chunks cx.bs input)

/-- `muggle_aes_cfb128`, `muggle_{des,tdes}_cfb64` -/
def cfb (cx : Cx) (s : IvState) (input : Bytes) : Except Err (Bytes × IvState) := do
  runChecks (cx.call .cfb input.length s.off) (checksOf .cfb)
  needLen cx.bs s.iv
  return cfbLoop cx.strF cx.bs (cx.dir == .enc) s input

/-- `muggle_aes_ofb128`, `muggle_{des,tdes}_ofb64` -/
def ofb (cx : Cx) (s : IvState) (input : Bytes) : Except Err (Bytes × IvState) := do
  runChecks (cx.call .ofb input.length s.off) (checksOf .ofb)
  needLen cx.bs s.iv
  return ofbLoop cx.strF cx.bs s input

/-- `muggle_{aes,des,tdes}_ctr` -/
def ctr (cx : Cx) (s : CtrState) (input : Bytes) : Except Err (Bytes × CtrState) := do
  runChecks (cx.call .ctr input.length s.off) (checksOf .ctr)
  needLen cx.bs s.nonce
  needLen cx.bs s.sb
  return ctrLoop cx.strF cx.bs s input

/-! ## Spec: SP 800-38A, block-wise -/
namespace Spec

/-- §6.1 ECB: `C_j = CIPH(P_j)` (and `P_j = CIPH⁻¹(C_j)` with `F := CIPH⁻¹`) -/
def ecb (F : Bytes → Bytes) (blocks : List Bytes) : List Bytes := blocks.map F

/-- §6.2 CBC encryption: `C_1 = CIPH(P_1 ⊕ IV)`, `C_j = CIPH(P_j ⊕ C_{j-1})` -/
def cbcEnc (E : Bytes → Bytes) : Bytes → List Bytes → List Bytes
  | _, [] => []
  | prev, p :: ps => let c := E (xorBytes p prev); c :: cbcEnc E c ps

/-- §6.2 CBC decryption: `P_1 = CIPH⁻¹(C_1) ⊕ IV`, `P_j = CIPH⁻¹(C_j) ⊕ C_{j-1}` -/
def cbcDec (D : Bytes → Bytes) : Bytes → List Bytes → List Bytes
  | _, [] => []
  | prev, c :: cs => xorBytes (D c) prev :: cbcDec D c cs

/-- §6.3 CFB with `s = b` (full-block feedback): `I_1 = IV`, `O_j = CIPH(I_j)`,
`C_j = P_j ⊕ MSB(O_j)`, `I_{j+1} = C_j`; the last segment may be short -/
def cfbEnc (E : Bytes → Bytes) : Bytes → List Bytes → List Bytes
  | _, [] => []
  | i, p :: ps => let c := xorBytes p (E i); c :: cfbEnc E c ps

/-- §6.3 CFB decryption: `P_j = C_j ⊕ MSB(O_j)`, `I_{j+1} = C_j` -/
def cfbDec (E : Bytes → Bytes) : Bytes → List Bytes → List Bytes
  | _, [] => []
  | i, c :: cs => xorBytes c (E i) :: cfbDec E c cs

/-- §6.4 OFB: `I_1 = IV`, `O_j = CIPH(I_j)`, `I_{j+1} = O_j`, `C_j = P_j ⊕ O_j` (both directions) -/
def ofb (E : Bytes → Bytes) : Bytes → List Bytes → List Bytes
  | _, [] => []
  | i, p :: ps => let o := E i; xorBytes p o :: ofb E o ps

/-- §6.5 CTR: `O_j = CIPH(T_j)`, `C_j = P_j ⊕ O_j`, with the library's counter blocks:
`T_j` is the little-endian `8*bs`-bit counter after `j` increments of the caller's value
(`T_1 = nonce + 1`) -/
def ctr (E : Bytes → Bytes) : Bytes → List Bytes → List Bytes
  | _, [] => []
  | n, p :: ps => let t := incLE n; xorBytes p (E t) :: ctr E t ps

end Spec
end MgModel.C12
