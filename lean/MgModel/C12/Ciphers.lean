import MgModel.C12.Modes
import MgModel.C12.Aes
import MgModel.C12.Des
/-!
# C12 — `muggle_aes_set_key`, `muggle_des_set_key`, `muggle_tdes_set_key`

The contexts the mode functions work on.  The block functions put into a context
are the FIPS ones of `Aes.lean` / `Des.lean`: that the optimised primitives of
`crypt/openssl/*.c` compute them is what the correspondence runs check.
-/
namespace MgModel.C12

def dirOfNat : Int → Option Dir
  | 0 => some .dec
  | 1 => some .enc
  | _ => none

/-- `muggle_aes_set_key(op, mode, key, bits, ctx)`; `key` must hold `bits/8` bytes -/
def aesSetKey (op mode : Int) (bits : Int) (key : Bytes) : Except Err Cx :=
  match dirOfNat op with
  | none => .error .invalidParam
  | some dir =>
    if mode < 0 ∨ mode ≥ 5 then .error .invalidParam
    else if ¬ (bits = 128 ∨ bits = 192 ∨ bits = 256) then .error .keySize
    else if key.length < bits.toNat / 8 then .error .oob
    else
      let rks := Aes.keyExpansion (key.take (bits.toNat / 8))
      let E := Aes.cipher rks
      let D := Aes.invCipher rks
      .ok { bs := 16, dir := dir, mode := mode.toNat,
            blkF := (match dir with | .enc => E | .dec => D), strF := E }

/-- the schedule `muggle_des_set_key(op, mode, key, ctx)` stores: reversed only for a
decrypting ECB / CBC context; CFB / OFB / CTR always get the encryption schedule -/
def desSchedule (dir : Dir) (mode : Nat) (key : Bytes) : List Des.Bits :=
  let ks := Des.keySchedule key
  if mode ≤ 1 then (match dir with | .enc => ks | .dec => ks.reverse) else ks

/-- `muggle_des_set_key` -/
def desSetKey (op mode : Int) (key : Bytes) : Except Err Cx :=
  match dirOfNat op with
  | none => .error .invalidParam
  | some dir =>
    if key.length ≠ 8 then .error .oob
    else if mode < 0 ∨ mode ≥ 5 then .error .invalidParam
    else
      let F := Des.cryptBlock (desSchedule dir mode.toNat key)
      .ok { bs := 8, dir := dir, mode := mode.toNat, blkF := F, strF := F }

/-- `muggle_tdes_crypt(ks1, ks2, ks3, ·)`: three DES passes -/
def tdesCrypt (ks1 ks2 ks3 : List Des.Bits) (b : Bytes) : Bytes :=
  Des.cryptBlock ks3 (Des.cryptBlock ks2 (Des.cryptBlock ks1 b))

/-- `muggle_tdes_set_key`: the three inner contexts are ECB contexts with directions
(op, ¬op, op) over (key1, key2, key3) when encrypting, over (key3, key2, key1) when
decrypting; for CFB / OFB / CTR always (enc key1, dec key2, enc key3) -/
def tdesSetKey (op mode : Int) (k1 k2 k3 : Bytes) : Except Err Cx :=
  match dirOfNat op with
  | none => .error .invalidParam
  | some dir =>
    if k1.length ≠ 8 ∨ k2.length ≠ 8 ∨ k3.length ≠ 8 then .error .oob
    else if mode < 0 ∨ mode ≥ 5 then .error .invalidParam
    else
      let F :=
        if mode ≤ 1 then
          match dir with
          | .enc => tdesCrypt (desSchedule .enc 0 k1) (desSchedule .dec 0 k2) (desSchedule .enc 0 k3)
          | .dec => tdesCrypt (desSchedule .dec 0 k3) (desSchedule .enc 0 k2) (desSchedule .dec 0 k1)
        else tdesCrypt (desSchedule .enc 0 k1) (desSchedule .dec 0 k2) (desSchedule .enc 0 k3)
      .ok { bs := 8, dir := dir, mode := mode.toNat, blkF := F, strF := F }

end MgModel.C12
