import MgModel.C12.Basic
import MgModel.C12.Tables
/-!
# C12 — DES and Triple-DES as FIPS 46-3 defines them (executable specification)

Bits are `Bool`s, numbered as in the standard: bit 1 of a block is the most
significant bit of its first byte.  A permutation table lists, for every output
bit, the (1-based) number of the input bit it is taken from.
-/
namespace MgModel.C12.Des
open MgModel.C12

abbrev Bits := List Bool

def byteBits (b : Byte) : Bits := (List.range 8).map fun i => b.getLsbD (7 - i)
def bytesToBits (bs : Bytes) : Bits := (bs.map byteBits).flatten

def bitsVal : Bits → Nat := List.foldl (fun acc b => 2 * acc + (if b then 1 else 0)) 0

def bitsToBytesAux : Nat → Bits → Bytes
  | 0, _ => []
  | _, [] => []
  | fuel + 1, l => BitVec.ofNat 8 (bitsVal (l.take 8)) :: bitsToBytesAux fuel (l.drop 8)
def bitsToBytes (l : Bits) : Bytes := bitsToBytesAux l.length l

def natBits (w n : Nat) : Bits := (List.range w).map fun i => n.testBit (w - 1 - i)

/-- apply a selection table -/
def permute (tbl : List Nat) (x : Bits) : Bits := tbl.map fun p => x.getD (p - 1) false

def xorBits (a b : Bits) : Bits := List.zipWith (fun x y => x != y) a b

def rotl (n : Nat) (l : Bits) : Bits := l.drop n ++ l.take n

/-- one S-box: 6 bits in, 4 bits out; row = b1 b6, column = b2 b3 b4 b5 -/
def sboxOne (tbl : List Nat) : Bits → Bits
  | [b1, b2, b3, b4, b5, b6] => natBits 4 (tbl.getD (16 * bitsVal [b1, b6] + bitsVal [b2, b3, b4, b5]) 0)
  | _ => []

/-- the eight S-boxes on 48 bits -/
def sboxes : List (List Nat) → Bits → Bits
  | [], _ => []
  | t :: ts, x => sboxOne t (x.take 6) ++ sboxes ts (x.drop 6)

/-- the cipher function `f(R, K) = P(S(E(R) ⊕ K))` -/
def f (r k : Bits) : Bits :=
  permute Tables.desP (sboxes Tables.desSbox (xorBits (permute Tables.desE r) k))

/-- key schedule: the 16 round keys `K1 .. K16` (48 bits each) of a 64-bit key -/
def ksAux : List Nat → Bits → Bits → List Bits
  | [], _, _ => []
  | s :: ss, c, d =>
    let c' := rotl s c
    let d' := rotl s d
    permute Tables.desPC2 (c' ++ d') :: ksAux ss c' d'

def keySchedule (key : Bytes) : List Bits :=
  let cd := permute Tables.desPC1 (bytesToBits key)
  ksAux Tables.desShifts (cd.take 28) (cd.drop 28)

/-- the 16 Feistel rounds: `(L, R) ↦ (R, L ⊕ f(R, K))` -/
def feistel : List Bits → Bits × Bits → Bits × Bits
  | [], lr => lr
  | k :: ks, (l, r) => feistel ks (r, xorBits l (f r k))

/-- the DES block operation under a list of round keys (encipher: `K1..K16`;
decipher: the same keys in reverse order) -/
def cryptBits (ks : List Bits) (x : Bits) : Bits :=
  let ip := permute Tables.desIP x
  let (l, r) := feistel ks (ip.take 32, ip.drop 32)
  permute Tables.desFP (r ++ l)

def cryptBlock (ks : List Bits) (b : Bytes) : Bytes := bitsToBytes (cryptBits ks (bytesToBits b))

def encryptBlock (key b : Bytes) : Bytes := cryptBlock (keySchedule key) b
def decryptBlock (key b : Bytes) : Bytes := cryptBlock (keySchedule key).reverse b

/-- Triple-DES (TDEA, FIPS 46-3 / SP 800-67): `E_K3(D_K2(E_K1(x)))` and its inverse -/
def tdesEncryptBlock (k1 k2 k3 b : Bytes) : Bytes :=
  encryptBlock k3 (decryptBlock k2 (encryptBlock k1 b))
def tdesDecryptBlock (k1 k2 k3 b : Bytes) : Bytes :=
  decryptBlock k1 (encryptBlock k2 (decryptBlock k3 b))

end MgModel.C12.Des
