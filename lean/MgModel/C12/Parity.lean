import MgModel.C12.Tables
/-!
# C12 — DES key-byte parity (muggle/c/crypt/parity.c)

Executable model of `muggle_parity_set_odd/_even` and `muggle_parity_check_odd/_even`:
table look-ups in `s_odd_parity` / `s_even_parity` (regenerated from the C text, tie A),
indexed by an `unsigned char`. An index outside the table is an explicit `none` (an
out-of-bounds read in C), never a default value. `parityGen` is the model of the generator
`muggle_parity_gen` the file carries (it prints the tables); `popcount8` is the reference
notion of parity the theorems are stated against.
-/
namespace MgModel.C12.Parity
open MgModel.C12.Tables

/-- number of set bits among the eight low bits (reference definition) -/
def popcount8 (b : Nat) : Nat := (List.range 8).countP (fun i => b.testBit i)

/-- `muggle_parity_set_odd`: `s_odd_parity[b]` -/
def setOdd (b : Nat) : Option Nat := oddParity[b]?

/-- `muggle_parity_set_even`: `s_even_parity[b]` -/
def setEven (b : Nat) : Option Nat := evenParity[b]?

/-- `muggle_parity_check_odd`: `b == s_odd_parity[b] ? 1 : 0` -/
def checkOdd (b : Nat) : Option Nat := (oddParity[b]?).map fun v => if b = v then 1 else 0

/-- `muggle_parity_check_even`: `b == s_even_parity[b] ? 1 : 0` -/
def checkEven (b : Nat) : Option Nat := (evenParity[b]?).map fun v => if b = v then 1 else 0

/-- one table entry as computed by `muggle_parity_gen(odd)` for `i`: `c = i >> 1`, the parity
    bit starts at `odd` and is flipped for each of the 7 bits of `c` that is set, result
    `(unsigned char)((c << 1) | parity)` -/
def parityGen (odd : Nat) (i : Nat) : Nat :=
  let c := (i % 256) >>> 1
  let parity := (List.range 7).foldl (fun p j => if ((1 <<< j) &&& c) ≠ 0 then p ^^^ 1 else p) odd
  ((c <<< 1) ||| parity) % 256

end MgModel.C12.Parity
