/-!
# C17 — size-rotating log handler (muggle/c/log/log_file_rotate_handler.c)

Executable model, one function per C function.  The file system is the part of
the directory the handler can touch: the live file `path` and the backups
`path.<i>` for every natural `i` (`bak i`).  A file is a list of *lines* (the
handler only ever appends one formatted message with a single `fwrite`, renames
or removes whole files); the element type `α` of a line is a parameter, `len`
gives the number of bytes `fmt_func` produced for it.

Trusted (DESIGN.md §3 C17 "Partial"): `rename/remove/fopen/fwrite` behave as
POSIX says and do not fail (`rename` of a missing source fails and changes
nothing; `rename` over an existing target replaces it; `fopen "ab+"` creates).
-/
namespace MgModel.C17

/-- the backups `path.<i>`: a finite table; a missing entry is a missing file.
Only `bget`/`bset` are used on it, characterised by `bget (bset b i v) j =
if j = i then v else bget b j` (MgProof.C17.LemmasSize). -/
abbrev Bak (α : Type) := List (Option (List α))

def bget {α : Type} (b : Bak α) (i : Nat) : Option (List α) := b.getD i none

def bset {α : Type} (b : Bak α) (i : Nat) (v : Option (List α)) : Bak α :=
  if i < b.length then b.set i v else b ++ List.replicate (i - b.length) none ++ [v]

/-- the files the handler can touch -/
structure FS (α : Type) where
  live : Option (List α) := none    -- `path`
  bak  : Bak α := []                -- `path.<i>`

/-- `muggle_log_file_rotate_handler_t` (`fp != NULL` ⇔ `isOpen`) -/
structure RH where
  isOpen      : Bool := false
  offset      : Nat := 0
  maxBytes    : Nat := 0
  backupCount : Nat := 0
  deriving Repr, DecidableEq

/-- number of bytes of a file -/
def fsize {α : Type} (len : α → Nat) (c : List α) : Nat := (c.map len).sum

/-- contents of a possibly missing file (a missing file has no lines) -/
def cont {α : Type} (f : Option (List α)) : List α := f.getD []

/-- `if (muggle_path_exists(p)) muggle_os_remove(p)` -/
def osRemoveIfExists {α : Type} (b : Bak α) (i : Nat) : Bak α :=
  if (bget b i).isSome then bset b i none else b

/-- `muggle_os_rename(path.i, path.j)`: fails (no change) when the source is missing,
replaces the target otherwise -/
def osRename {α : Type} (b : Bak α) (i j : Nat) : Bak α :=
  match bget b i with
  | some c => bset (bset b i none) j (some c)
  | none => b

/-- `for (int i = backup_count - 1; i > 0; i--) rename(path.i, path.(i+1))`;
`renameLoop i` runs the iterations `i, i-1, …, 1`. -/
def renameLoop {α : Type} : Nat → Bak α → Bak α
  | 0, b => b
  | i + 1, b => renameLoop i (osRename b (i + 1) (i + 2))

/-- `muggle_log_file_rotate_handler_rotate` -/
def rotate {α : Type} (h : RH) (fs : FS α) : RH × FS α :=
  -- fclose(fp); remove path.<backup_count> if it exists
  let b1 := osRemoveIfExists fs.bak h.backupCount
  -- shift path.i -> path.(i+1), i = backup_count-1 … 1   ((int)0 - 1 = -1: no iteration)
  let b2 := renameLoop (h.backupCount - 1) b1
  -- rename(path, path.1)
  let b3 := match fs.live with
    | some c => bset b2 1 (some c)
    | none => b2
  -- fopen(path, "ab+") creates the (now missing) live file; offset = 0
  ({ h with isOpen := true, offset := 0 }, { live := some [], bak := b3 })

/-- `muggle_log_file_rotate_handler_write` after formatting: `l` is the formatted
line, `len l` its byte count.  Returns the new state and the function's result. -/
def write {α : Type} (len : α → Nat) (h : RH) (fs : FS α) (l : α) : (RH × FS α) × Nat :=
  if h.isOpen then
    -- fwrite(buf, 1, ret, fp); fflush
    let fs1 : FS α := { fs with live := some (cont fs.live ++ [l]) }
    let h1 := { h with offset := h.offset + len l }
    if h1.offset ≥ h1.maxBytes then (rotate h1 fs1, len l) else ((h1, fs1), len l)
  else ((h, fs), len l)

/-- `muggle_log_file_rotate_handler_init` (path handling elided: one fixed path) -/
def init {α : Type} (len : α → Nat) (fs : FS α) (maxBytes backupCount : Nat) : RH × FS α :=
  -- muggle_os_fopen(path, "ab+") creates the file when missing
  let fs1 : FS α := { fs with live := some (cont fs.live) }
  -- fseek(END); offset = ftell
  let h : RH := { isOpen := true, offset := fsize len (cont fs.live),
                  maxBytes := maxBytes, backupCount := backupCount }
  if h.offset ≥ h.maxBytes then rotate h fs1 else (h, fs1)

/-- `destroy`: `fclose(fp); fp = NULL` -/
def close (h : RH) : RH := { h with isOpen := false }

/-- one call of the public interface -/
inductive Op (α : Type) where
  | init (maxBytes backupCount : Nat)     -- (re)start the handler on the directory
  | write (l : α)
  | close
  deriving Repr

structure St (α : Type) where
  h  : RH
  fs : FS α

def step {α : Type} (len : α → Nat) (s : St α) : Op α → St α
  | .init mb bc => let (h, fs) := init len s.fs mb bc; { h := h, fs := fs }
  | .write l => let ((h, fs), _) := write len s.h s.fs l; { h := h, fs := fs }
  | .close => { s with h := close s.h }

def run {α : Type} (len : α → Nat) (s : St α) : List (Op α) → St α
  | [] => s
  | op :: ops => run len (step len s op) ops

/-! ## Observation: what the property talks about -/

/-- number of backups the code really keeps: `backup_count`, but `path.1` also for 0 -/
def eff (backupCount : Nat) : Nat := max backupCount 1

/-- `path.k ++ … ++ path.1` (oldest first) -/
def backups {α : Type} (fs : FS α) : Nat → List α
  | 0 => []
  | k + 1 => cont (bget fs.bak (k + 1)) ++ backups fs k

/-- backups oldest → newest followed by the live file -/
def view {α : Type} (k : Nat) (fs : FS α) : List α := backups fs k ++ cont fs.live

/-! ## Specification: the history cut into segments

The abstract object is the list of *all* segments ever (newest first; the head is
the live segment), never forgetting anything.  A write appends to the head; the
policy "start a new file once the live one has reached `maxBytes`" pushes an empty
head.  The files on disk are claimed to be exactly the newest `k+1` segments. -/

structure Spec (α : Type) where
  segs     : List (List α)
  isOpen   : Bool := false
  maxBytes : Nat := 0

def seg {α : Type} (S : List (List α)) (j : Nat) : List α := S.getD j []

def specRotateIf {α : Type} (len : α → Nat) (s : Spec α) : Spec α :=
  if fsize len (seg s.segs 0) ≥ s.maxBytes then { s with segs := [] :: s.segs } else s

def specStep {α : Type} (len : α → Nat) (s : Spec α) : Op α → Spec α
  | .init mb _ => specRotateIf len { s with isOpen := true, maxBytes := mb }
  | .write l =>
    if s.isOpen then
      specRotateIf len { s with segs := (seg s.segs 0 ++ [l]) :: s.segs.drop 1 }
    else s
  | .close => { s with isOpen := false }

def specRun {α : Type} (len : α → Nat) (s : Spec α) : List (Op α) → Spec α
  | [] => s
  | op :: ops => specRun len (specStep len s op) ops

/-- segments of a directory as found: `[path, path.1, …, path.k]` -/
def segsOf {α : Type} (fs : FS α) (k : Nat) : List (List α) :=
  cont fs.live :: (List.range k).map (fun i => cont (bget fs.bak (i + 1)))

/-- the newest `k+1` segments, oldest first, concatenated -/
def specView {α : Type} (k : Nat) (S : List (List α)) : List α :=
  ((S.take (k + 1)).reverse).flatten

/-- everything ever written (all segments, oldest first) -/
def specAll {α : Type} (S : List (List α)) : List α := S.reverse.flatten

/-- the lines accepted by the handler (writes while it is open), in order -/
def written {α : Type} : Bool → List (Op α) → List α
  | _, [] => []
  | _, .init _ _ :: ops => written true ops
  | o, .write l :: ops => if o then l :: written o ops else written o ops
  | _, .close :: ops => written false ops

/-- number of rotations the policy performs -/
def rotations {α : Type} (len : α → Nat) (s : Spec α) (ops : List (Op α)) : Nat :=
  (specRun len s ops).segs.length - s.segs.length

end MgModel.C17
