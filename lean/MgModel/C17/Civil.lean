import MgModel.C17.Time
/-!
# C17 — `gmtime_r` / `localtime_r` for a fixed-offset zone (driver only)

Proleptic Gregorian calendar (days → civil date, Hinnant's algorithm with floor
division).  Not used by any theorem: the theorems are stated for an arbitrary
`toTm`.  The correspondence check validates it against libc on every generated
timestamp (file names and period keys printed by the harness come from libc).
-/
namespace MgModel.C17

/-- days since 1970-01-01 → (year, month 1..12, day 1..31) -/
def civilFromDays (z0 : Int) : Int × Int × Int :=
  let z := z0 + 719468
  let era := z / 146097                 -- Int `/` is floor division for a positive divisor
  let doe := z - era * 146097
  let yoe := (doe - doe / 1460 + doe / 36524 - doe / 146096) / 365
  let y := yoe + era * 400
  let doy := doe - (365 * yoe + yoe / 4 - yoe / 100)
  let mp := (5 * doy + 2) / 153
  let d := doy - (153 * mp + 2) / 5 + 1
  let m := if mp < 10 then mp + 3 else mp - 9
  (if m ≤ 2 then y + 1 else y, m, d)

def gmtime (sec : Int) : Tm :=
  let days := sec / 86400
  let rem := sec % 86400               -- 0 ≤ rem < 86400
  let (y, m, d) := civilFromDays days
  { sec := (rem % 60).toNat, min := ((rem / 60) % 60).toNat, hour := (rem / 3600).toNat,
    mday := d.toNat, mon := (m - 1).toNat, year := y - 1900 }

/-- `toTm` for the zone "UTC + offMin minutes, no DST" -/
def toTmFixed (offMin : Int) (loc : Bool) (sec : Int) : Tm :=
  if loc then gmtime (sec + offMin * 60) else gmtime sec

end MgModel.C17
