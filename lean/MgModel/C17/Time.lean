/-!
# C17 — time-rotating log handler (muggle/c/log/log_file_time_rot_handler.c)

Executable model, one function per C function (`detect`, `rotate`, `write`, `init`).
The conversion of a timestamp to broken-down time (`gmtime_r` / `localtime_r`) is a
parameter `toTm : Bool → Int → Tm` (`true` = local), so the theorems hold for every
time zone; the driver instantiates it with the proleptic Gregorian calendar and a
fixed UTC offset (`MgModel.C17.Civil`).

The handler only ever creates files and appends to them, so the directory is
modelled as the list of created names plus the list of appended records
`(file name, effective timestamp, line)` in the order of the `fwrite`s; the content
of a file is the sub-list of records carrying its name.

Two versions of `write`/`init` are given:
* `write` / `init`  — the code with fixes/C17-time-rot-write-order.patch and fixes/C17-time-rot-local-time-init.patch applied
  (period detection *before* the line is written; `use_local_time` assigned before
  it is read).  The property theorems are about these.
* `writeLegacy` / `initLegacy` — the pinned tree (line written to the file of the
  *previous* period, then detection; `use_local_time` read while still zero).
  Used only for the negation witnesses in `MgProof.C17.Props`.
-/
namespace MgModel.C17

/-- the fields of `struct tm` the handler reads (`mon` 0-based, `year` since 1900) -/
structure Tm where
  sec  : Nat
  min  : Nat
  hour : Nat
  mday : Nat
  mon  : Nat
  year : Int
  deriving Repr, DecidableEq

inductive RotUnit where
  | sec | min | hour | day        -- 's' 'm' 'h' 'd'
  deriving Repr, DecidableEq

inductive TErr where
  | divZero        -- `x / rotate_mod` with `rotate_mod == 0`
  deriving Repr, DecidableEq

/-- a file name `path.<stamp>`: the unit fixes the format, the fields below the unit
are not part of the name (kept 0 here) -/
structure Name where
  unit : RotUnit
  year : Int
  mon  : Nat
  mday : Nat
  hour : Nat
  min  : Nat
  sec  : Nat
  deriving Repr, DecidableEq

/-- the `snprintf` of `muggle_log_file_time_rot_handler_rotate` -/
def nameOf (u : RotUnit) (t : Tm) : Name :=
  match u with
  | .sec  => { unit := u, year := t.year, mon := t.mon, mday := t.mday, hour := t.hour, min := t.min, sec := t.sec }
  | .min  => { unit := u, year := t.year, mon := t.mon, mday := t.mday, hour := t.hour, min := t.min, sec := 0 }
  | .hour => { unit := u, year := t.year, mon := t.mon, mday := t.mday, hour := t.hour, min := 0, sec := 0 }
  | .day  => { unit := u, year := t.year, mon := t.mon, mday := t.mday, hour := 0, min := 0, sec := 0 }

/-- the broken-down time a file name stands for -/
def Name.tm (n : Name) : Tm :=
  { sec := n.sec, min := n.min, hour := n.hour, mday := n.mday, mon := n.mon, year := n.year }

/-- `muggle_log_file_time_rot_handler_t` (`cur = some n` ⇔ `fp` is open on file `n`) -/
structure TH where
  cur      : Option Name := none
  unit     : RotUnit := .sec
  mod      : Nat := 1
  lastSec  : Int := 0
  lastTm   : Tm := ⟨0, 0, 0, 0, 0, 0⟩
  useLocal : Bool := false
  deriving Repr, DecidableEq

/-- one appended line -/
structure Rec (β : Type) where
  name : Name
  sec  : Int        -- effective timestamp (`msg.ts.tv_sec`, or the clock when that is 0)
  line : β
  deriving Repr

structure TFS (β : Type) where
  created : List Name := []
  recs    : List (Rec β) := []

/-- the comparison of `muggle_log_file_time_rot_handler_detect` (the `switch`) -/
def needRot (u : RotUnit) (m : Nat) (c l : Tm) : Bool :=
  match u with
  | .sec  => c.sec / m != l.sec / m || c.min != l.min || c.hour != l.hour ||
             c.mday != l.mday || c.mon != l.mon || c.year != l.year
  | .min  => c.min / m != l.min / m || c.hour != l.hour ||
             c.mday != l.mday || c.mon != l.mon || c.year != l.year
  | .hour => c.hour / m != l.hour / m ||
             c.mday != l.mday || c.mon != l.mon || c.year != l.year
  | .day  => c.mday / m != l.mday / m || c.mon != l.mon || c.year != l.year

/-- `muggle_log_file_time_rot_handler_detect`; `sec` is already the effective
timestamp (`msg->ts.tv_sec`, or `time(NULL)` when that is 0) -/
def detect (toTm : Bool → Int → Tm) (h : TH) (sec : Int) : Except TErr (TH × Bool) :=
  if h.lastSec ≥ sec then .ok (h, false)
  else
    let c := toTm h.useLocal sec
    if h.mod = 0 then .error .divZero
    else .ok ({ h with lastSec := sec, lastTm := c }, needRot h.unit h.mod c h.lastTm)

/-- `muggle_log_file_time_rot_handler_rotate`: close, open `path.<stamp of last_tm>`
in append mode (creating it) -/
def trotate {β : Type} (h : TH) (fs : TFS β) : TH × TFS β :=
  let n := nameOf h.unit h.lastTm
  ({ h with cur := some n },
   { fs with created := if fs.created.contains n then fs.created else fs.created ++ [n] })

/-- effective timestamp of a message -/
def effSec (clock ts : Int) : Int := if ts = 0 then clock else ts

/-- `muggle_log_file_time_rot_handler_write` (fixed order: detect, rotate, write) -/
def twrite {β : Type} (toTm : Bool → Int → Tm) (clock : Int) (h : TH) (fs : TFS β)
    (ts : Int) (l : β) : Except TErr (TH × TFS β) :=
  match h.cur with
  | none => .ok (h, fs)
  | some _ => do
    let sec := effSec clock ts
    let (h1, need) ← detect toTm h sec
    let (h2, fs2) := if need then trotate h1 fs else (h1, fs)
    match h2.cur with
    | some n => .ok (h2, { fs2 with recs := fs2.recs ++ [{ name := n, sec := sec, line := l }] })
    | none => .ok (h2, fs2)

/-- `muggle_log_file_time_rot_handler_init` (fixed: configuration assigned first) -/
def tinit {β : Type} (toTm : Bool → Int → Tm) (clock : Int) (fs : TFS β)
    (u : RotUnit) (m : Nat) (loc : Bool) : TH × TFS β :=
  let h : TH := { cur := none, unit := u, mod := m, useLocal := loc,
                  lastSec := clock, lastTm := toTm loc clock }
  trotate h fs

/-- pinned tree: the line goes to the file that is open *before* detection -/
def twriteLegacy {β : Type} (toTm : Bool → Int → Tm) (clock : Int) (h : TH) (fs : TFS β)
    (ts : Int) (l : β) : Except TErr (TH × TFS β) :=
  match h.cur with
  | none => .ok (h, fs)
  | some n => do
    let sec := effSec clock ts
    let fs1 := { fs with recs := fs.recs ++ [{ name := n, sec := sec, line := l }] }
    let (h1, need) ← detect toTm h sec
    .ok (if need then trotate h1 fs1 else (h1, fs1))

/-- pinned tree: `use_local_time` is still 0 (memset) when `last_tm` is computed -/
def tinitLegacy {β : Type} (toTm : Bool → Int → Tm) (clock : Int) (fs : TFS β)
    (u : RotUnit) (m : Nat) (loc : Bool) : TH × TFS β :=
  let h : TH := { cur := none, unit := u, mod := m, useLocal := loc,
                  lastSec := clock, lastTm := toTm false clock }
  trotate h fs

def tclose (h : TH) : TH := { h with cur := none }

/-- one call of the public interface, with the reading of the clock made explicit -/
inductive TOp (β : Type) where
  | init (clock : Int) (u : RotUnit) (m : Nat) (loc : Bool)
  | write (clock : Int) (ts : Int) (l : β)
  | close
  deriving Repr

structure TSt (β : Type) where
  h  : TH := {}
  fs : TFS β := {}

def tstep {β : Type} (toTm : Bool → Int → Tm) (s : TSt β) : TOp β → Except TErr (TSt β)
  | .init c u m loc => let (h, fs) := tinit toTm c s.fs u m loc; .ok { h := h, fs := fs }
  | .write c ts l => do
    let (h, fs) ← twrite toTm c s.h s.fs ts l
    .ok { h := h, fs := fs }
  | .close => .ok { s with h := tclose s.h }

def trun {β : Type} (toTm : Bool → Int → Tm) (s : TSt β) : List (TOp β) → Except TErr (TSt β)
  | [] => .ok s
  | op :: ops => do
    let s1 ← tstep toTm s op
    trun toTm s1 ops

def tstepLegacy {β : Type} (toTm : Bool → Int → Tm) (s : TSt β) : TOp β → Except TErr (TSt β)
  | .init c u m loc => let (h, fs) := tinitLegacy toTm c s.fs u m loc; .ok { h := h, fs := fs }
  | .write c ts l => do
    let (h, fs) ← twriteLegacy toTm c s.h s.fs ts l
    .ok { h := h, fs := fs }
  | .close => .ok { s with h := tclose s.h }

def trunLegacy {β : Type} (toTm : Bool → Int → Tm) (s : TSt β) :
    List (TOp β) → Except TErr (TSt β)
  | [] => .ok s
  | op :: ops => do
    let s1 ← tstepLegacy toTm s op
    trunLegacy toTm s1 ops

/-! ## Specification -/

/-- the period a broken-down time belongs to: the calendar fields down to the unit,
the unit's own field divided by `rotate_mod` -/
structure Period where
  year : Int
  mon  : Nat
  mday : Nat
  hour : Nat
  min  : Nat
  sec  : Nat
  deriving Repr, DecidableEq

def periodOf (u : RotUnit) (m : Nat) (t : Tm) : Period :=
  match u with
  | .sec  => ⟨t.year, t.mon, t.mday, t.hour, t.min, t.sec / m⟩
  | .min  => ⟨t.year, t.mon, t.mday, t.hour, t.min / m, 0⟩
  | .hour => ⟨t.year, t.mon, t.mday, t.hour / m, 0, 0⟩
  | .day  => ⟨t.year, t.mon, t.mday / m, 0, 0, 0⟩

/-- a record is filed correctly (for the configuration `u m loc`): the file it is in
is named for the period that contains its timestamp -/
def Filed {β : Type} (toTm : Bool → Int → Tm) (u : RotUnit) (m : Nat) (loc : Bool)
    (r : Rec β) : Prop :=
  r.name.unit = u ∧ periodOf u m r.name.tm = periodOf u m (toTm loc r.sec)

instance {β : Type} (toTm : Bool → Int → Tm) (u : RotUnit) (m : Nat) (loc : Bool) (r : Rec β) :
    Decidable (Filed toTm u m loc r) := by unfold Filed; exact inferInstance

/-- lines handed to the handler while it is open, in order -/
def twritten {β : Type} : Bool → List (TOp β) → List β
  | _, [] => []
  | _, .init .. :: ops => twritten true ops
  | o, .write _ _ l :: ops => if o then l :: twritten o ops else twritten o ops
  | _, .close :: ops => twritten false ops

end MgModel.C17
