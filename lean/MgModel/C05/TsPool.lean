import MgModel.C05.Client
/-!
# C05 — `muggle_ts_memory_pool` (threadsafe_memory_pool.c), repaired algorithm

`ptrs[0..cap)` is a ring of free block pointers, `alloc_idx` the next slot to hand out,
`free_idx` the next slot to refill; `cached_free_pos` is the allocators' stale copy of
`free_idx`. One slot of slack: allocation fails when `alloc_idx + 1 == free_idx`.

    alloc:  lock(alloc_spinlock)
            a = alloc_idx; pos = (a + 1) & (cap - 1)
            if (pos == cached_free_pos) cached_free_pos = load(free_idx, acquire)
            if (pos != cached_free_pos) { data = ptrs[a]; alloc_idx = pos }
            unlock(alloc_spinlock)
    free:   lock(free_spinlock)
            ptrs[free_idx] = block; store(free_idx, (free_idx + 1) & (cap - 1), release)
            unlock(free_spinlock)

(The original algorithm — lock-free CAS on `alloc_idx` — is in `TsOrig.lean`; it hands a
block out twice, see `MgProof.C05.Props`.) One step = one shared-memory access of the
-O0 object code, spinlock = `while (!test_and_set(l, acquire)) yield(); … clear(l, release)`.

Ghost: `loc b` says where block `b` is: in the pool's ring, between commit and return of
an allocation (`taken t`), with a client, or inside a `free` call (`freeing t`).
`spuriousNull` counts allocations that returned NULL although, at the moment
`free_idx` was loaded, more than the one slack block was in the pool.
-/
namespace MgModel.C05.Ts
open MgModel.Conc MgModel.C05

inductive Loc where
  | pool | taken (t : Nat) | client | freeing (t : Nat)
  deriving Repr, DecidableEq

inductive Pc where
  | idle
  | aLock | aYield
  | aRdIdx
  | aRdCf (a : Nat)
  | aLdFi (a : Nat)
  | aWrCf (a f cnt : Nat)
  | aRdCf2 (a : Nat) (seen : Option Nat)
  | aRdPtr (a : Nat)
  | aWrIdx (a b : Nat)
  | aUnlock (res : Option Nat)
  | fLock (b : Nat) | fYield (b : Nat)
  | fRdFi (b : Nat)
  | fWrPtr (b f : Nat)
  | fRdFi2 (b : Nat)
  | fStFi (b v : Nat)
  | fUnlock
  | done
  deriving Repr, DecidableEq

structure St where
  cap  : Nat
  n    : Nat
  prog : Nat → List Op
  pc   : Nat → Pc
  pub  : Nat → Bool := fun _ => false
  allocIdx   : Nat := 0
  cachedFree : Nat := 0
  freeIdx    : Nat := 0
  alock : Nat := 0
  flock : Nat := 0
  ptrs  : Nat → Nat := fun i => i
  g     : Ghost := {}
  loc   : Nat → Loc := fun _ => .pool
  spuriousNull : Nat := 0

def nextPc (rest : List Op) : Pc := if rest.isEmpty then .done else .idle

def mkInit (cap n : Nat) (progs : List (List Op)) : St :=
  { cap := cap, n := n, prog := fun t => progs.getD t [],
    pc := fun t => nextPc (progs.getD t []) }

/-- number of blocks in the pool's ring -/
def poolCount (s : St) : Nat := (List.range s.cap).countP fun b => s.loc b == .pool

def step (s : St) (tok : Tok) : Option (St × List String) :=
  let t := tok.tid
  if !(decide (t < s.n)) then none else
  match s.pc t with
  | .done => none
  | .idle =>
    match s.prog t with
    | [] => none
    | op :: rest =>
      let r := beginOp s.g t s.cap op
      let s1 := { s with prog := upd s.prog t rest, g := r.1 }
      match r.2 with
      | .none => some ({ s1 with pc := upd s.pc t (nextPc rest) }, [s!"T{t} note {op.name}", s!"T{t} note none"])
      | .alloc pb => some ({ s1 with pub := upd s.pub t pb, pc := upd s.pc t .aLock }, [s!"T{t} note {op.name}"])
      | .free b =>
        let fb := freeBegin false r.1 t b
        some ({ s1 with g := fb.1, pc := upd s.pc t (.fLock b),
                        loc := if r.1.owned b then upd s.loc b (.freeing t) else s.loc },
              s!"T{t} note {op.name}" :: fb.2)
  -- allocation
  | .aLock =>
    let ev := s!"T{t} xchg alloc_spinlock {s.alock}->1 acq"
    if s.alock = 0 then some ({ s with alock := 1, pc := upd s.pc t .aRdIdx }, [ev])
    else some ({ s with pc := upd s.pc t .aYield }, [ev])
  | .aYield => some ({ s with pc := upd s.pc t .aLock }, [s!"T{t} yield"])
  | .aRdIdx => some ({ s with pc := upd s.pc t (.aRdCf s.allocIdx) }, [s!"T{t} r alloc_idx {s.allocIdx}"])
  | .aRdCf a =>
    let ev := s!"T{t} r cached_free_pos {s.cachedFree}"
    if ringIdx (a + 1) s.cap = s.cachedFree then some ({ s with pc := upd s.pc t (.aLdFi a) }, [ev])
    else some ({ s with pc := upd s.pc t (.aRdCf2 a none) }, [ev])
  | .aLdFi a =>
    some ({ s with pc := upd s.pc t (.aWrCf a s.freeIdx (poolCount s)) }, [s!"T{t} ld free_idx {s.freeIdx} acq"])
  | .aWrCf a f cnt =>
    some ({ s with cachedFree := f, pc := upd s.pc t (.aRdCf2 a (some cnt)) }, [s!"T{t} w cached_free_pos {f}"])
  | .aRdCf2 a seen =>
    let ev := s!"T{t} r cached_free_pos {s.cachedFree}"
    if ringIdx (a + 1) s.cap ≠ s.cachedFree then some ({ s with pc := upd s.pc t (.aRdPtr a) }, [ev])
    else
      -- NULL: legitimate when only the slack block was in the pool when free_idx was loaded
      let legit := decide (s.g.illegal ≠ 0) || (match seen with | some c => decide (c ≤ 1) | none => false)
      if legit then some ({ s with pc := upd s.pc t (.aUnlock none) }, [ev])
      else some ({ s with pc := upd s.pc t (.aUnlock none), spuriousNull := s.spuriousNull + 1 },
                 [ev, s!"T{t} note SPURIOUS-NULL"])
  | .aRdPtr a =>
    if a ≥ s.cap then none   -- the C code would read outside `ptrs`
    else some ({ s with pc := upd s.pc t (.aWrIdx a (s.ptrs a)) }, [s!"T{t} r ptrs[{a}] b{s.ptrs a}"])
  | .aWrIdx a b =>
    some ({ s with allocIdx := ringIdx (a + 1) s.cap, loc := upd s.loc b (.taken t),
                   pc := upd s.pc t (.aUnlock (some b)) },
          [s!"T{t} w alloc_idx {ringIdx (a + 1) s.cap}"])
  | .aUnlock res =>
    let r := allocDone s.g t (s.pub t) res
    some ({ s with alock := 0, g := r.1, pc := upd s.pc t (nextPc (s.prog t)),
                   loc := match res with | some b => upd s.loc b .client | none => s.loc },
          s!"T{t} st alloc_spinlock 0 rel" :: r.2)
  -- free
  | .fLock b =>
    let ev := s!"T{t} xchg free_spinlock {s.flock}->1 acq"
    if s.flock = 0 then some ({ s with flock := 1, pc := upd s.pc t (.fRdFi b) }, [ev])
    else some ({ s with pc := upd s.pc t (.fYield b) }, [ev])
  | .fYield b => some ({ s with pc := upd s.pc t (.fLock b) }, [s!"T{t} yield"])
  | .fRdFi b => some ({ s with pc := upd s.pc t (.fWrPtr b s.freeIdx) }, [s!"T{t} r free_idx {s.freeIdx}"])
  | .fWrPtr b f =>
    if f ≥ s.cap then none   -- the C code would write outside `ptrs`
    else some ({ s with ptrs := upd s.ptrs f b, pc := upd s.pc t (.fRdFi2 b) }, [s!"T{t} w ptrs[{f}] b{b}"])
  | .fRdFi2 b =>
    some ({ s with pc := upd s.pc t (.fStFi b (ringIdx (s.freeIdx + 1) s.cap)) }, [s!"T{t} r free_idx {s.freeIdx}"])
  | .fStFi b v =>
    some ({ s with freeIdx := v, loc := upd s.loc b .pool, pc := upd s.pc t .fUnlock }, [s!"T{t} st free_idx {v} rel"])
  | .fUnlock =>
    some ({ s with flock := 0, pc := upd s.pc t (nextPc (s.prog t)) },
          [s!"T{t} st free_spinlock 0 rel", s!"T{t} note freed"])

def allDone (s : St) : Bool := (List.range s.n).all fun t => s.pc t == .done
def anyEnabled (s : St) : Bool := (List.range s.n).any fun t => s.pc t != .done

def outcome (s : St) : String :=
  ghostOutcome s.g ++ s!" ai={s.allocIdx} fi={s.freeIdx} cf={s.cachedFree} ptrs={showList ((List.range s.cap).map s.ptrs)}"

end MgModel.C05.Ts
