import MgModel.C05.Client
/-!
# C05 — `muggle_ring_memory_pool` (ring_memory_pool.c)

Every block has an `in_use` flag; the allocator walks the ring and takes the first block
whose flag is clear (it spins while every block is in use: it never reports exhaustion):

    alloc:  do { block = blocks[alloc_idx]; ++alloc_idx; alloc_idx &= cap - 1;
                 if (load(block->in_use, relaxed) == 0) break; } while (1);
            block->in_use = 1; return block
    threadsafe_alloc: lock(write_spinlock); alloc; unlock(write_spinlock)
    free:   store(block->in_use, 0, relaxed)

`locked = false`: the plain `alloc`, which only one thread (`allocTid`) may call — other
threads calling it are counted in `misuse`; `locked = true`: every thread allocates
through `threadsafe_alloc`. One step = one shared access of the -O0 object code.
Ghost `loc`: where a block is (pool / seen free by allocator `t` / client / inside free).
-/
namespace MgModel.C05.Ring
open MgModel.Conc MgModel.C05

inductive Loc where
  | pool | taken (t : Nat) | client | freeing (t : Nat)
  deriving Repr, DecidableEq

inductive Pc where
  | idle
  | rLock | rYield
  | r1
  | r2 (blk : Nat)
  | w1 (blk v : Nat)
  | r3 (blk : Nat)
  | w2 (blk v : Nat)
  | ld (blk : Nat)
  | wIn (blk : Nat)
  | rUnlock (blk : Nat)
  | fSt (b : Nat)
  | done
  deriving Repr, DecidableEq

structure St where
  cap  : Nat
  n    : Nat
  locked : Bool
  prog : Nat → List Op
  pc   : Nat → Pc
  pub  : Nat → Bool := fun _ => false
  allocIdx : Nat := 0
  wlock : Nat := 0
  inUse : Nat → Nat := fun _ => 0
  g     : Ghost := {}
  loc   : Nat → Loc := fun _ => .pool
  allocTid : Nat := 0
  misuse   : Nat := 0

def nextPc (rest : List Op) : Pc := if rest.isEmpty then .done else .idle

def mkInit (cap n : Nat) (locked : Bool) (progs : List (List Op)) : St :=
  { cap := cap, n := n, locked := locked, prog := fun t => progs.getD t [],
    pc := fun t => nextPc (progs.getD t []) }

/-- the allocation of thread `t` returns block `b` -/
def finish (s : St) (t b : Nat) (evs : List String) : St × List String :=
  let r := allocDone s.g t (s.pub t) (some b)
  ({ s with g := r.1, loc := upd s.loc b .client, pc := upd s.pc t (nextPc (s.prog t)) }, evs ++ r.2)

def step (s : St) (tok : Tok) : Option (St × List String) :=
  let t := tok.tid
  if !(decide (t < s.n)) then none else
  match s.pc t with
  | .done => none
  | .idle =>
    match s.prog t with
    | [] => none
    | op :: rest =>
      let r := beginOp s.g t s.cap op
      let s1 := { s with prog := upd s.prog t rest, g := r.1 }
      match r.2 with
      | .none => some ({ s1 with pc := upd s.pc t (nextPc rest) }, [s!"T{t} note {op.name}", s!"T{t} note none"])
      | .alloc pb =>
        some ({ s1 with pub := upd s.pub t pb, pc := upd s.pc t (if s.locked then .rLock else .r1),
                        misuse := if s.locked ∨ t = s.allocTid then s.misuse else s.misuse + 1 },
              [s!"T{t} note {op.name}"])
      | .free b =>
        let fb := freeBegin false r.1 t b
        some ({ s1 with g := fb.1, pc := upd s.pc t (.fSt b),
                        loc := if r.1.owned b then upd s.loc b (.freeing t) else s.loc },
              s!"T{t} note {op.name}" :: fb.2)
  | .rLock =>
    let ev := s!"T{t} xchg write_spinlock {s.wlock}->1 acq"
    if s.wlock = 0 then some ({ s with wlock := 1, pc := upd s.pc t .r1 }, [ev])
    else some ({ s with pc := upd s.pc t .rYield }, [ev])
  | .rYield => some ({ s with pc := upd s.pc t .rLock }, [s!"T{t} yield"])
  | .r1 => some ({ s with pc := upd s.pc t (.r2 s.allocIdx) }, [s!"T{t} r alloc_idx {s.allocIdx}"])
  | .r2 blk => some ({ s with pc := upd s.pc t (.w1 blk s.allocIdx) }, [s!"T{t} r alloc_idx {s.allocIdx}"])
  | .w1 blk v => some ({ s with allocIdx := v + 1, pc := upd s.pc t (.r3 blk) }, [s!"T{t} w alloc_idx {v + 1}"])
  | .r3 blk => some ({ s with pc := upd s.pc t (.w2 blk s.allocIdx) }, [s!"T{t} r alloc_idx {s.allocIdx}"])
  | .w2 blk v =>
    some ({ s with allocIdx := ringIdx v s.cap, pc := upd s.pc t (.ld blk) }, [s!"T{t} w alloc_idx {ringIdx v s.cap}"])
  | .ld blk =>
    if blk ≥ s.cap then none   -- the C code would read outside the slab
    else
      let ev := s!"T{t} ld in_use[{blk}] {s.inUse blk} rlx"
      if s.inUse blk = 0 then
        some ({ s with pc := upd s.pc t (.wIn blk), loc := upd s.loc blk (.taken t) }, [ev])
      else some ({ s with pc := upd s.pc t .r1 }, [ev])
  | .wIn blk =>
    let s1 := { s with inUse := upd s.inUse blk 1 }
    let ev := s!"T{t} w in_use[{blk}] 1"
    if s.locked then some ({ s1 with pc := upd s.pc t (.rUnlock blk) }, [ev])
    else some (finish s1 t blk [ev])
  | .rUnlock blk => some (finish { s with wlock := 0 } t blk [s!"T{t} st write_spinlock 0 rel"])
  | .fSt b =>
    some ({ s with inUse := upd s.inUse b 0, pc := upd s.pc t (nextPc (s.prog t)),
                   loc := upd s.loc b .pool },
          [s!"T{t} st in_use[{b}] 0 rlx", s!"T{t} note freed"])

def allDone (s : St) : Bool := (List.range s.n).all fun t => s.pc t == .done
def anyEnabled (s : St) : Bool := (List.range s.n).any fun t => s.pc t != .done

def outcome (s : St) : String :=
  ghostOutcome s.g ++ s!" ai={s.allocIdx} inuse={String.join ((List.range s.cap).map fun b => toString (s.inUse b))}"

end MgModel.C05.Ring
