import MgModel.C05.Client
/-!
# C05 — `muggle_sowr_memory_pool` (sowr_memory_pool.c): one allocating thread, one freeing thread

Blocks are handed out in ring order, `alloc_idx` is a free-running `uint32_t`; `free(block)`
stores `block_idx + 1` into `free_idx`, which releases that block and every block
allocated before it. Allocation stops one block short of the last freed position:

    alloc:  pos = alloc_idx & (cap - 1)
            if (pos != cached_free_pos) { ++alloc_idx; return block[pos] }
            cached_free_pos = (load(free_idx, relaxed) - 1) & (cap - 1)
            if (pos != cached_free_pos) { ++alloc_idx; return block[pos] }
            return NULL
    free:   store(free_idx, block_idx + 1, relaxed)

Only `free_idx` is shared between the two threads (`alloc_idx`, `cached_free_pos` belong to the
allocating thread), so an allocation is one step (fast path) or two (the load of `free_idx`),
a free is the operation's start plus the store. `misuse` counts operations that break the
pool's contract (an allocation outside thread `allocTid`, a free outside `freeTid`).
Ghost: `nRet` = serial number after the last block returned by a completed `free`;
`spuriousNull` counts NULL results with fewer than `cap - 1` blocks outstanding
(`nextSerial - nRet`) at the load of `free_idx` (in histories that are legal so far).
-/
namespace MgModel.C05.Sowr
open MgModel.Conc MgModel.C05

def u32 : Nat := 4294967296

inductive Pc where
  | idle
  | sLd
  | sSt (b sb : Nat)
  | done
  deriving Repr, DecidableEq

structure St where
  cap  : Nat
  n    : Nat
  prog : Nat → List Op
  pc   : Nat → Pc
  pub  : Nat → Bool := fun _ => false
  allocIdx   : Nat := 0
  cachedFree : Nat
  freeIdx    : Nat := 0
  g     : Ghost := {}
  allocTid : Nat := 0
  freeTid  : Nat := 1
  misuse   : Nat := 0
  nRet     : Nat := 0
  spuriousNull : Nat := 0

def nextPc (rest : List Op) : Pc := if rest.isEmpty then .done else .idle

def mkInit (cap base n : Nat) (progs : List (List Op)) : St :=
  { cap := cap, n := n, prog := fun t => progs.getD t [],
    pc := fun t => nextPc (progs.getD t []),
    allocIdx := base % u32, cachedFree := cap - 1, freeTid := if n ≤ 1 then 0 else 1 }

/-- the allocation succeeds with the block at the current position -/
def allocOk (s : St) (t : Nat) (rest : List Op) (evs : List String) : St × List String :=
  let b := ringIdx s.allocIdx s.cap
  let r := allocDone s.g t (s.pub t) (some b)
  ({ s with allocIdx := (s.allocIdx + 1) % u32, g := r.1, pc := upd s.pc t (nextPc rest) }, evs ++ r.2)

def step (s : St) (tok : Tok) : Option (St × List String) :=
  let t := tok.tid
  if !(decide (t < s.n)) then none else
  match s.pc t with
  | .done => none
  | .idle =>
    match s.prog t with
    | [] => none
    | op :: rest =>
      let r := beginOp s.g t s.cap op
      let s1 := { s with prog := upd s.prog t rest, g := r.1 }
      match r.2 with
      | .none => some ({ s1 with pc := upd s.pc t (nextPc rest) }, [s!"T{t} note {op.name}", s!"T{t} note none"])
      | .alloc pb =>
        let s2 := { s1 with pub := upd s.pub t pb, misuse := if t = s.allocTid then s.misuse else s.misuse + 1 }
        if ringIdx s.allocIdx s.cap ≠ s.cachedFree then some (allocOk s2 t rest [s!"T{t} note {op.name}"])
        else some ({ s2 with pc := upd s.pc t .sLd }, [s!"T{t} note {op.name}"])
      | .free b =>
        let fb := freeBegin true r.1 t b
        some ({ s1 with g := fb.1, pc := upd s.pc t (.sSt b (r.1.serial b)),
                        misuse := if t = s.freeTid then s.misuse else s.misuse + 1 },
              s!"T{t} note {op.name}" :: fb.2)
  | .sLd =>
    let ev := s!"T{t} ld free_idx {s.freeIdx} rlx"
    let cf := ringIdx ((s.freeIdx + u32 - 1) % u32) s.cap
    let s1 := { s with cachedFree := cf }
    if ringIdx s.allocIdx s.cap ≠ cf then some (allocOk s1 t (s.prog t) [ev])
    else
      let r := allocDone s.g t (s.pub t) none
      let s2 := { s1 with g := r.1, pc := upd s.pc t (nextPc (s.prog t)) }
      if s.g.nextSerial - s.nRet + 1 ≥ s.cap ∨ s.g.illegal ≠ 0 ∨ s.misuse ≠ 0 then some (s2, ev :: r.2)
      else some ({ s2 with spuriousNull := s.spuriousNull + 1 }, ev :: r.2 ++ [s!"T{t} note SPURIOUS-NULL"])
  | .sSt b sb =>
    some ({ s with freeIdx := b + 1, nRet := max s.nRet (sb + 1), pc := upd s.pc t (nextPc (s.prog t)) },
          [s!"T{t} st free_idx {b + 1} rlx", s!"T{t} note freed"])

def allDone (s : St) : Bool := (List.range s.n).all fun t => s.pc t == .done
def anyEnabled (s : St) : Bool := (List.range s.n).any fun t => s.pc t != .done

def outcome (s : St) : String :=
  let af := if ringIdx s.freeIdx s.cap = ringIdx s.allocIdx s.cap then 1 else 0
  ghostOutcome s.g ++ s!" ai={s.allocIdx} fi={s.freeIdx} cf={s.cachedFree} allfree={af}"

end MgModel.C05.Sowr
