import MgModel.Common.Conc
/-!
# C05 — the client driving the three pools (harness/c05/conc_pools.c `worker`)

Every thread runs a program, a list of operations:

* `a` allocate and keep the block, `p` allocate and publish it in the shared bag,
* `f` / `g` free my oldest / newest block, `t` take the oldest block of the bag and free it,
* `u` take all blocks of the bag and free only the newest,
* `x i` free block `i` if I hold it, `X i` free block `i` unconditionally (malformed history).

Every operation starts with an explicit scheduling point; operand choice and the ghost
ownership bookkeeping happen in that step. The ghost state mirrors the harness's:
`owned` (a block is owned from the return of the allocation to the call of free),
allocation serial numbers (the sowr pool releases every earlier block with a free),
and the monitors `double` (an allocation returned an owned block) and `illegal` (a free
of a block that is not owned: the history is not a legal client history).
-/
namespace MgModel.C05
open MgModel.Conc

inductive Op where
  | a | p | f | g | t | u
  | x (k : Option Nat)
  | X (k : Option Nat)
  deriving Repr, DecidableEq

def Op.isAlloc : Op → Bool
  | .a | .p => true
  | _ => false

def showOptNat : Option Nat → String
  | some k => toString k
  | none => "-1"

def Op.name : Op → String
  | .a => "a" | .p => "p" | .f => "f" | .g => "g" | .t => "t" | .u => "u"
  | .x k => "x" ++ showOptNat k
  | .X k => "X" ++ showOptNat k

/-- split leading decimal digits -/
def takeNum : List Char → Option Nat → Option Nat × List Char
  | c :: cs, acc =>
    if c.isDigit then takeNum cs (some (acc.getD 0 * 10 + (c.toNat - '0'.toNat))) else (acc, c :: cs)
  | [], acc => (acc, [])

theorem takeNum_length (cs : List Char) (acc : Option Nat) : (takeNum cs acc).2.length ≤ cs.length := by
  induction cs generalizing acc with
  | nil => simp [takeNum]
  | cons c cs ih =>
    simp only [takeNum]
    split
    · exact Nat.le_trans (ih _) (Nat.le_succ _)
    · simp

def parseOps : List Char → List Op
  | [] => []
  | c :: cs =>
    have : (takeNum cs none).2.length < (c :: cs).length := by
      have := takeNum_length cs none
      simp only [List.length_cons]; omega
    let r := takeNum cs none
    let rest := parseOps (takeNum cs none).2
    if c = 'a' then .a :: rest else if c = 'p' then .p :: rest
    else if c = 'f' then .f :: rest else if c = 'g' then .g :: rest
    else if c = 't' then .t :: rest else if c = 'u' then .u :: rest
    else if c = 'x' then .x r.1 :: rest else if c = 'X' then .X r.1 :: rest
    else rest
termination_by l => l.length

def parseProg (s : String) : List Op := if s = "-" then [] else parseOps s.toList

structure Ghost where
  owned : Nat → Bool := fun _ => false
  serial : Nat → Nat := fun _ => 0
  nextSerial : Nat := 0
  /-- blocks kept by each thread, oldest first -/
  mine : Nat → List Nat := fun _ => []
  /-- published blocks, oldest first -/
  bag : List Nat := []
  /-- allocations that returned a block that was still owned -/
  double : Nat := 0
  /-- frees of a block that was not owned (illegal client history) -/
  illegal : Nat := 0

inductive Begin where
  | alloc (publish : Bool)
  | free (b : Nat)
  | none
  deriving Repr, DecidableEq

/-- operand choice at the start of an operation of thread `t` -/
def beginOp (g : Ghost) (t : Nat) (cap : Nat) : Op → Ghost × Begin
  | .a => (g, .alloc false)
  | .p => (g, .alloc true)
  | .f =>
    match g.mine t with
    | [] => (g, .none)
    | b :: r => ({ g with mine := upd g.mine t r }, .free b)
  | .g =>
    match (g.mine t).getLast? with
    | none => (g, .none)
    | some b => ({ g with mine := upd g.mine t (g.mine t).dropLast }, .free b)
  | .t =>
    match g.bag with
    | [] => (g, .none)
    | b :: r => ({ g with bag := r }, .free b)
  | .u =>
    match g.bag.getLast? with
    | none => (g, .none)
    | some b => ({ g with bag := [] }, .free b)
  | .x (some k) =>
    if k < cap ∧ k ∈ g.mine t then ({ g with mine := upd g.mine t ((g.mine t).erase k) }, .free k)
    else (g, .none)
  | .X (some k) =>
    if k < cap then ({ g with mine := upd g.mine t ((g.mine t).erase k) }, .free k)
    else (g, .none)
  | .x none => (g, .none)
  | .X none => (g, .none)

/-- ghost bookkeeping when `free(b)` is called. `sowr`: the free releases every block
allocated no later than `b`. -/
def freeBegin (sowr : Bool) (g : Ghost) (t b : Nat) : Ghost × List String :=
  if !g.owned b then
    ({ g with illegal := g.illegal + 1 }, [s!"T{t} note ILLEGAL-FREE b{b}", s!"T{t} note free b{b}"])
  else if sowr then
    -- the released blocks are no longer held by anybody
    let rel := fun i => g.owned i && decide (g.serial i ≤ g.serial b)
    ({ g with owned := fun i => g.owned i && !rel i,
              mine := fun u => (g.mine u).filter fun i => !rel i,
              bag := g.bag.filter fun i => !rel i }, [s!"T{t} note free b{b}"])
  else ({ g with owned := upd g.owned b false }, [s!"T{t} note free b{b}"])

/-- ghost bookkeeping when an allocation returns -/
def allocDone (g : Ghost) (t : Nat) (publish : Bool) : Option Nat → Ghost × List String
  | none => (g, [s!"T{t} note null"])
  | some b =>
    let w := if publish then "pub" else "got"
    let dbl := g.owned b
    let g1 := { g with owned := upd g.owned b true, serial := upd g.serial b g.nextSerial,
                       nextSerial := g.nextSerial + 1,
                       double := if dbl then g.double + 1 else g.double }
    let g2 := if publish then { g1 with bag := g1.bag ++ [b] }
              else { g1 with mine := upd g1.mine t (g1.mine t ++ [b]) }
    (g2, [if dbl then s!"T{t} note {w} b{b} DOUBLE" else s!"T{t} note {w} b{b}"])

/-- `MUGGLE_IDX_IN_POW_OF_2_RING(i, cap)` -/
def ringIdx (i cap : Nat) : Nat := i &&& (cap - 1)

def showList (l : List Nat) : String := ",".intercalate (l.map toString)

def ghostOutcome (g : Ghost) : String :=
  s!"outcome double={g.double} illegal={g.illegal} badptr=0 layout=ok"

end MgModel.C05
