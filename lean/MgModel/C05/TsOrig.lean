import MgModel.C05.Client
/-!
# C05 — `muggle_ts_memory_pool`, the ORIGINAL (pre-fix) lock-free allocation

    expected = alloc_idx
    do { pos = (expected + 1) & (cap - 1)
         if (pos == cached_free_pos) { cached_free_pos = load(free_idx, acquire)
                                       if (pos == cached_free_pos) return NULL }
         data = ptrs[expected]
    } while (!cas_weak(&alloc_idx, &expected, pos, relaxed))

`free` is the same as in `TsPool.lean`. This model exists for the negative results
(`MgProof.C05.Props`: the algorithm hands a block out twice) and to replay the witness
schedules found on the real code before the repair.
-/
namespace MgModel.C05.TsOrig
open MgModel.Conc MgModel.C05

inductive Pc where
  | idle
  | aRdIdx
  | aRdCf (e : Nat)
  | aLdFi (e : Nat)
  | aWrCf (e f : Nat)
  | aRdCf2 (e : Nat)
  | aRdPtr (e : Nat)
  | aCas (e b : Nat)
  | fLock (b : Nat) | fYield (b : Nat)
  | fRdFi (b : Nat)
  | fWrPtr (b f : Nat)
  | fRdFi2 (b : Nat)
  | fStFi (b v : Nat)
  | fUnlock
  | done
  deriving Repr, DecidableEq

structure St where
  cap  : Nat
  n    : Nat
  prog : Nat → List Op
  pc   : Nat → Pc
  pub  : Nat → Bool := fun _ => false
  allocIdx   : Nat := 0
  cachedFree : Nat := 0
  freeIdx    : Nat := 0
  flock : Nat := 0
  ptrs  : Nat → Nat := fun i => i
  g     : Ghost := {}

def nextPc (rest : List Op) : Pc := if rest.isEmpty then .done else .idle

def mkInit (cap n : Nat) (progs : List (List Op)) : St :=
  { cap := cap, n := n, prog := fun t => progs.getD t [],
    pc := fun t => nextPc (progs.getD t []) }

def step (s : St) (tok : Tok) : Option (St × List String) :=
  let t := tok.tid
  if !(decide (t < s.n)) then none else
  match s.pc t with
  | .done => none
  | .idle =>
    match s.prog t with
    | [] => none
    | op :: rest =>
      let r := beginOp s.g t s.cap op
      let s1 := { s with prog := upd s.prog t rest, g := r.1 }
      match r.2 with
      | .none => some ({ s1 with pc := upd s.pc t (nextPc rest) }, [s!"T{t} note {op.name}", s!"T{t} note none"])
      | .alloc pb => some ({ s1 with pub := upd s.pub t pb, pc := upd s.pc t .aRdIdx }, [s!"T{t} note {op.name}"])
      | .free b =>
        let fb := freeBegin false r.1 t b
        some ({ s1 with g := fb.1, pc := upd s.pc t (.fLock b) }, s!"T{t} note {op.name}" :: fb.2)
  | .aRdIdx => some ({ s with pc := upd s.pc t (.aRdCf s.allocIdx) }, [s!"T{t} r alloc_idx {s.allocIdx}"])
  | .aRdCf e =>
    let ev := s!"T{t} r cached_free_pos {s.cachedFree}"
    if ringIdx (e + 1) s.cap = s.cachedFree then some ({ s with pc := upd s.pc t (.aLdFi e) }, [ev])
    else some ({ s with pc := upd s.pc t (.aRdPtr e) }, [ev])
  | .aLdFi e => some ({ s with pc := upd s.pc t (.aWrCf e s.freeIdx) }, [s!"T{t} ld free_idx {s.freeIdx} acq"])
  | .aWrCf e f => some ({ s with cachedFree := f, pc := upd s.pc t (.aRdCf2 e) }, [s!"T{t} w cached_free_pos {f}"])
  | .aRdCf2 e =>
    let ev := s!"T{t} r cached_free_pos {s.cachedFree}"
    if ringIdx (e + 1) s.cap = s.cachedFree then
      let r := allocDone s.g t (s.pub t) none
      some ({ s with g := r.1, pc := upd s.pc t (nextPc (s.prog t)) }, ev :: r.2)
    else some ({ s with pc := upd s.pc t (.aRdPtr e) }, [ev])
  | .aRdPtr e => some ({ s with pc := upd s.pc t (.aCas e (s.ptrs e)) }, [s!"T{t} r ptrs[{e}] b{s.ptrs e}"])
  | .aCas e b =>
    let pos := ringIdx (e + 1) s.cap
    if tok.flag == .spur then
      some ({ s with pc := upd s.pc t (.aRdCf s.allocIdx) }, [s!"T{t} cas alloc_idx {e}->{pos} spurious rlx"])
    else if s.allocIdx = e then
      let r := allocDone s.g t (s.pub t) (some b)
      some ({ s with allocIdx := pos, g := r.1, pc := upd s.pc t (nextPc (s.prog t)) },
            s!"T{t} cas alloc_idx {e}->{pos} ok rlx" :: r.2)
    else some ({ s with pc := upd s.pc t (.aRdCf s.allocIdx) }, [s!"T{t} cas alloc_idx {e}->{pos} fail={s.allocIdx} rlx"])
  | .fLock b =>
    let ev := s!"T{t} xchg free_spinlock {s.flock}->1 acq"
    if s.flock = 0 then some ({ s with flock := 1, pc := upd s.pc t (.fRdFi b) }, [ev])
    else some ({ s with pc := upd s.pc t (.fYield b) }, [ev])
  | .fYield b => some ({ s with pc := upd s.pc t (.fLock b) }, [s!"T{t} yield"])
  | .fRdFi b => some ({ s with pc := upd s.pc t (.fWrPtr b s.freeIdx) }, [s!"T{t} r free_idx {s.freeIdx}"])
  | .fWrPtr b f => some ({ s with ptrs := upd s.ptrs f b, pc := upd s.pc t (.fRdFi2 b) }, [s!"T{t} w ptrs[{f}] b{b}"])
  | .fRdFi2 b =>
    some ({ s with pc := upd s.pc t (.fStFi b (ringIdx (s.freeIdx + 1) s.cap)) }, [s!"T{t} r free_idx {s.freeIdx}"])
  | .fStFi _ v => some ({ s with freeIdx := v, pc := upd s.pc t .fUnlock }, [s!"T{t} st free_idx {v} rel"])
  | .fUnlock =>
    some ({ s with flock := 0, pc := upd s.pc t (nextPc (s.prog t)) },
          [s!"T{t} st free_spinlock 0 rel", s!"T{t} note freed"])

def allDone (s : St) : Bool := (List.range s.n).all fun t => s.pc t == .done
def anyEnabled (s : St) : Bool := (List.range s.n).any fun t => s.pc t != .done

def outcome (s : St) : String :=
  ghostOutcome s.g ++ s!" ai={s.allocIdx} fi={s.freeIdx} cf={s.cachedFree} ptrs={showList ((List.range s.cap).map s.ptrs)}"

end MgModel.C05.TsOrig
