import MgModel.Common.Conc
/-!
# C08 — shared-memory ring buffer (`muggle/c/sync/shm_ring_buffer.c`)

Step model of `muggle_shm_ringbuf_w_alloc_bytes / update_cached_remain / w_move /
r_fetch / r_move` (and the write spinlock) driven by the most general client
(harness/c08/conc_shmring.c): every thread runs a program over

    a<n>  [lock] p = w_alloc_bytes(n); fill p[0..n) with a tag; w_move; [unlock]
    A<n>  the same without w_move (allocation abandoned)
    f     p = r_fetch(&n); if p: read the payload; r_move

One step = one shared-memory access of the real object code at `-O0` (the granularity
of the tsanshim scheduler); the event strings are the shim's. Values loaded into C
locals are the parameters of the program counters.

Memory of the data area, per cache line `c` (`none` = bytes that are not a header /
not the payload of the message one is looking at, i.e. clobbered):
* `hb c`, `hc c`  the two header words `n_bytes`, `n_cachelines` of cell `c`
* `pb c`          the byte value the payload part of cell `c` is filled with
Cells are zero initially (fresh SysV segment). A data access outside `[0, N)` or an
unsigned underflow is an explicit model error (`Pc.bad`), never a default value.

Ghost state (not memory): `q1`/`q2`/`mark` (committed-unconsumed messages before /
after the wrap marker, position of a marker the reader has not passed yet),
`committed`, `delivered`, violation counters, and the release/acquire knowledge sets
for happens-before (`cellW`, `know`, `relW`, `relL`, `stale`), as in C04.
-/
namespace MgModel.C08
open MgModel.Conc

inductive Op where
  | alloc (n : Nat) (commit : Bool)
  | fetch
  deriving Repr, DecidableEq

structure Msg where
  cell : Nat
  nb   : Nat
  ncl  : Nat
  tag  : Nat
  deriving Repr, DecidableEq

/-- `MUGGLE_SHM_RINGBUF_CAL_BYTES_CACHELINE(n)`: header (8 bytes) + payload rounded up to
cache lines, plus 2 -/
def calNcl (n : Nat) : Nat := (8 + n + 63) / 64 + 2

/-- number of cells the payload bytes `[8, 8+n)` of a message touch -/
def spanCells (n : Nat) : Nat := (8 + n + 63) / 64

/-- harness: fill byte of the `k`-th operation of thread `t` -/
def tagOf (t k : Nat) : Nat := 1 + (t * 29 + k * 7) % 120

/-- the parameters of the allocation a thread is executing -/
structure Cur where
  n       : Nat := 0
  ncl     : Nat := 0
  commit  : Bool := false
  tag     : Nat := 0
  cell    : Nat := 0      -- header cell returned by w_alloc (valid from `h4` on)
  drained : Bool := false -- harness ghost: nothing pending when the allocation started
  deriving Repr

inductive Pc where
  | done | bad
  -- write lock
  | lk | lkY
  -- w_alloc_cachelines
  | a1                         -- r cached_remain (first test)
  | u0                         -- update_cached_remain: ld read_cursor rlx
  | u1 (r : Nat)               -- r write_cursor (r_pos > write_cursor ?)
  | ug (r : Nat)               -- r write_cursor (r - w - 1)
  | ugw (v : Nat)              -- w cached_remain v
  | ul (r : Nat)               -- r write_cursor (right_remain)
  | ulw (v : Nat)              -- w cached_remain right_remain
  | um1 (r : Nat)              -- r write_cursor (get_data for the marker)
  | um2 (r w : Nat)            -- w data[w] 0
  | um3 (r w : Nat)            -- w data[w]+4 0
  | um4 (r : Nat)              -- st write_cursor 0 rel
  | um5 (r : Nat)              -- w cached_remain r-1
  | a2                         -- r cached_remain (second test)
  | h1                         -- r write_cursor
  | h2 (w : Nat)               -- w data[w] n_bytes
  | h3 (w : Nat)               -- w data[w]+4 n_cachelines
  | h4 (w : Nat)               -- w cached_w_hdr &data[w]   (+ harness: bulk fill)
  | p1 (w : Nat)               -- harness: w last payload byte
  -- w_move
  | m1                         -- r cached_w_hdr
  | m2 (h : Nat)               -- r data[h]+4
  | m3 (n : Nat)               -- r cached_remain
  | m4 (n cr : Nat)            -- w cached_remain cr-n
  | m5 (n : Nat)               -- r write_cursor
  | m6 (n w : Nat)             -- st write_cursor w+n rel
  | unl                        -- st write_lock 0 rel
  -- r_fetch
  | f0                         -- ld write_cursor acq
  | f1 (w : Nat)               -- r read_cursor (w == r ?)
  | f2 (w : Nat)               -- r read_cursor (get_data)
  | f3 (w r : Nat)             -- w cached_r_hdr &data[r]
  | f4 (w : Nat)               -- r cached_r_hdr
  | f5 (w h : Nat)             -- r data[h]  (n_bytes != 0 ?)
  | g1                         -- r cached_r_hdr
  | g2 (h : Nat)               -- r data[h]  (*n_bytes = ...)
  | g3 (nb : Nat)              -- r cached_r_hdr (return hdr + 1)
  | rp (h nb : Nat)            -- harness: r last payload byte
  | k1                         -- st read_cursor 0 rlx
  | k2                         -- r read_cursor
  | k3 (r : Nat)               -- w cached_r_hdr &data[r]
  | k4                         -- r cached_r_hdr
  | k5 (h : Nat)               -- r data[h]
  -- r_move
  | r1                         -- r cached_r_hdr
  | r2 (h : Nat)               -- r data[h]+4
  | r3 (n : Nat)               -- r read_cursor
  | r4 (n r : Nat)             -- st read_cursor r+n rel
  deriving Repr, DecidableEq

structure St where
  N       : Nat                  -- n_cacheline (immutable)
  nthr    : Nat
  useLock : Bool
  -- control block
  W  : Nat := 0                  -- write_cursor
  CR : Nat := 0                  -- cached_remain
  WH : Option Nat := none        -- cached_w_hdr (cell), none = NULL
  R  : Nat := 0                  -- read_cursor
  RH : Option Nat := none        -- cached_r_hdr
  lock : Nat := 0                -- write_lock
  -- data area
  hb : Nat → Option Nat := fun _ => some 0
  hc : Nat → Option Nat := fun _ => some 0
  pb : Nat → Option Nat := fun _ => some 0
  -- threads
  pc    : Nat → Pc := fun _ => .done
  prog  : Nat → List Op := fun _ => []
  opIdx : Nat → Nat := fun _ => 0
  cur   : Nat → Cur := fun _ => {}
  rcur  : Msg := ⟨0, 0, 0, 0⟩     -- reader: what the last successful fetch returned
  -- ghost: queues
  q1   : List Msg := []
  q2   : List Msg := []
  mark : Option Nat := none
  committed : List Msg := []
  delivered : List Msg := []
  rP0  : Nat := 0                -- reader ghost: messages pending when W was loaded
  rMk0 : Bool := false           -- reader ghost: a marker was pending when W was loaded
  -- ghost: counters (the first group is mirrored by the harness)
  fetched : Nat := 0
  nones   : Nat := 0
  fails   : Nat := 0
  fifoViol    : Nat := 0
  overlapViol : Nat := 0
  boundsViol  : Nat := 0
  corrupt     : Nat := 0
  wedge       : Nat := 0
  noneViol    : Nat := 0
  errs        : Nat := 0
  -- happens-before
  cellW : Nat → Nat := fun _ => 0
  nextW : Nat := 1
  relW  : List Nat := []
  relL  : List Nat := []
  know  : Nat → List Nat := fun _ => []
  stale : Nat := 0

/-- committed messages that have not been consumed, oldest first (the harness ghost:
entries `g_consumed ..` of its commit log; `q1 ++ q2` is the proof-side view of the same) -/
def St.pend (s : St) : List Msg := s.committed.drop s.delivered.length

/-- harness ghost `drained()`: as many messages consumed as committed -/
def St.drained (s : St) : Bool := s.committed.length == s.delivered.length

/-! ## printing -/

def show32 (v : Nat) : String :=
  let v := v % 4294967296
  if v < 2147483648 then toString v else "-" ++ toString (4294967296 - v)

def show8 (v : Nat) : String :=
  let v := v % 256
  if v < 128 then toString v else "-" ++ toString (256 - v)

def showW (o : Option Nat) : String := match o with | some v => show32 v | none => "JUNK"
def showB (o : Option Nat) : String := match o with | some v => show8 v | none => "JUNK"
def showPtr (o : Option Nat) : String := match o with | some c => s!"&data[{c}]" | none => "0"
def loc (c off : Nat) : String := if off = 0 then s!"data[{c}]" else s!"data[{c}]+{off}"

/-! ## starting the next operation of a thread -/

def beginOp (s : St) (t : Nat) : St × List String :=
  match s.prog t with
  | [] => ({ s with pc := upd s.pc t .done }, [])
  | op :: rest =>
    let k := s.opIdx t
    let s1 := { s with prog := upd s.prog t rest, opIdx := upd s.opIdx t (k + 1) }
    match op with
    | .fetch => ({ s1 with pc := upd s1.pc t .f0 }, [])
    | .alloc n commit =>
      let c : Cur := { n := n, ncl := calNcl n, commit := commit, tag := tagOf t k,
                       drained := s.drained }
      ({ s1 with cur := upd s1.cur t c, pc := upd s1.pc t (if s.useLock then .lk else .a1) },
       [s!"T{t} note alloc-begin n={n}"])

/-- leave the allocation: drop the lock if it is used, else go on -/
def release (s : St) (t : Nat) : St × List String :=
  if s.useLock then ({ s with pc := upd s.pc t .unl }, []) else beginOp s t

/-- the payload has been written: commit or abandon -/
def afterPayload (s : St) (t : Nat) : St × List String :=
  if (s.cur t).commit then ({ s with pc := upd s.pc t .m1 }, []) else release s t

def fail (s : St) (t : Nat) (what : String) : Option (St × List String) :=
  some ({ s with pc := upd s.pc t .bad, errs := s.errs + 1 }, [s!"T{t} MODEL-ERROR {what}"])

def overlaps (c k : Nat) (m : Msg) : Bool := c < m.cell + m.ncl && m.cell < c + k

/-- a read of cell `c` by thread `t` that is not ordered after the latest write of that cell -/
def staleRead (s : St) (t c : Nat) : Nat :=
  if s.cellW c = 0 ∨ s.cellW c ∈ s.know t then 0 else 1

/-- a write of cells `[c, c+k)` by thread `t` -/
def noteWrite (s : St) (t c k : Nat) : St :=
  { s with cellW := fun i => if c ≤ i ∧ i < c + k then s.nextW else s.cellW i,
           nextW := s.nextW + 1, know := upd s.know t (s.nextW :: s.know t) }

def step (s : St) (tok : Tok) : Option (St × List String) :=
  let t := tok.tid
  if t ≥ s.nthr then none else
  let cu := s.cur t
  match s.pc t with
  | .done => none
  | .bad => none
  /- ---- write lock: while (!test_and_set(acquire)) yield(); ---- -/
  | .lk =>
    let ev := s!"T{t} xchg write_lock {s.lock}->1 acq"
    if s.lock = 0 then
      some ({ s with lock := 1, pc := upd s.pc t .a1,
                     cur := upd s.cur t { cu with drained := s.drained },
                     know := upd s.know t (kmerge (s.know t) s.relL) }, [ev])
    else some ({ s with pc := upd s.pc t .lkY }, [ev])
  | .lkY => some ({ s with pc := upd s.pc t .lk }, [s!"T{t} yield"])
  /- ---- w_alloc_cachelines ---- -/
  | .a1 =>
    some ({ s with pc := upd s.pc t (if s.CR < cu.ncl then .u0 else .h1) },
          [s!"T{t} r cached_remain {show32 s.CR}"])
  | .u0 => some ({ s with pc := upd s.pc t (.u1 s.R) }, [s!"T{t} ld read_cursor {show32 s.R} rlx"])
  | .u1 r =>
    some ({ s with pc := upd s.pc t (if r > s.W then .ug r else .ul r) },
          [s!"T{t} r write_cursor {show32 s.W}"])
  | .ug r =>
    let ev := s!"T{t} r write_cursor {show32 s.W}"
    if r < s.W + 1 then fail s t "underflow r-w-1" else
    some ({ s with pc := upd s.pc t (.ugw (r - s.W - 1)) }, [ev])
  | .ugw v => some ({ s with CR := v, pc := upd s.pc t .a2 }, [s!"T{t} w cached_remain {show32 v}"])
  | .ul r =>
    let ev := s!"T{t} r write_cursor {show32 s.W}"
    if s.N < s.W + 1 then fail s t "underflow n-w-1" else
    let right := s.N - s.W - 1
    if right ≥ cu.ncl then some ({ s with pc := upd s.pc t (.ulw right) }, [ev])
    else if (r : Int) - 1 ≥ (cu.ncl : Int) then some ({ s with pc := upd s.pc t (.um1 r) }, [ev])
    else some ({ s with pc := upd s.pc t .a2 }, [ev])
  | .ulw v => some ({ s with CR := v, pc := upd s.pc t .a2 }, [s!"T{t} w cached_remain {show32 v}"])
  | .um1 r => some ({ s with pc := upd s.pc t (.um2 r s.W) }, [s!"T{t} r write_cursor {show32 s.W}"])
  | .um2 r w =>
    if w ≥ s.N then fail s t "marker out of bounds" else
    let s1 := noteWrite s t w 1
    some ({ s1 with hb := upd s.hb w (some 0), pb := upd s.pb w none, pc := upd s.pc t (.um3 r w) },
          [s!"T{t} w {loc w 0} 0"])
  | .um3 r w =>
    let s1 := noteWrite s t w 1
    some ({ s1 with hc := upd s.hc w (some 0), pc := upd s.pc t (.um4 r) }, [s!"T{t} w {loc w 4} 0"])
  | .um4 r =>
    some ({ s with W := 0, mark := some s.W, relW := s.know t, pc := upd s.pc t (.um5 r) },
          [s!"T{t} st write_cursor 0 rel"])
  | .um5 r =>
    if r = 0 then fail s t "underflow r-1" else
    some ({ s with CR := r - 1, pc := upd s.pc t .a2 }, [s!"T{t} w cached_remain {show32 (r - 1)}"])
  | .a2 =>
    let ev := s!"T{t} r cached_remain {show32 s.CR}"
    if s.CR < cu.ncl then
      let wd := cu.drained && decide (cu.ncl + 1 ≤ s.N / 2)
      let s1 := { s with fails := s.fails + 1, wedge := s.wedge + (if wd then 1 else 0) }
      let (s2, evs) := release s1 t
      some (s2, [ev, s!"T{t} note alloc-fail n={cu.n} ncl={cu.ncl}{if wd then " WEDGE" else ""}"] ++ evs)
    else some ({ s with pc := upd s.pc t .h1 }, [ev])
  | .h1 => some ({ s with pc := upd s.pc t (.h2 s.W) }, [s!"T{t} r write_cursor {show32 s.W}"])
  | .h2 w =>
    if w ≥ s.N then fail s t "header out of bounds" else
    let s1 := noteWrite s t w 1
    some ({ s1 with hb := upd s.hb w (some cu.n), pb := upd s.pb w none, pc := upd s.pc t (.h3 w) },
          [s!"T{t} w {loc w 0} {show32 cu.n}"])
  | .h3 w =>
    let s1 := noteWrite s t w 1
    some ({ s1 with hc := upd s.hc w (some cu.ncl), pc := upd s.pc t (.h4 w) },
          [s!"T{t} w {loc w 4} {show32 cu.ncl}"])
  | .h4 w =>
    -- w_alloc returns; harness: ghost checks, note, bulk fill of the payload
    let k := spanCells cu.n
    let bv := if w + cu.ncl > s.N then 1 else 0
    let ov := (s.pend.filter (overlaps w cu.ncl)).length
    let s1 := if cu.n = 0 then s else noteWrite s t w k
    let s2 := { s1 with
      WH := some w, cur := upd s.cur t { cu with cell := w },
      boundsViol := s.boundsViol + bv, overlapViol := s.overlapViol + ov,
      pb := if cu.n = 0 then s.pb else fun i => if w ≤ i ∧ i < w + k then some cu.tag else s.pb i,
      hb := if cu.n = 0 then s.hb else fun i => if w < i ∧ i < w + k then none else s.hb i,
      hc := if cu.n = 0 then s.hc else fun i => if w < i ∧ i < w + k then none else s.hc i }
    let evs := [s!"T{t} w cached_w_hdr &data[{w}]", s!"T{t} note alloc at={w} ncl={cu.ncl}"]
    if cu.n = 0 then
      let (s3, e3) := afterPayload s2 t
      some (s3, evs ++ e3)
    else some ({ s2 with pc := upd s.pc t (.p1 w) }, evs)
  | .p1 w =>
    let a := w * 64 + 8 + cu.n - 1
    let c := a / 64
    if c ≥ s.N then fail s t "payload out of bounds" else
    let s1 := noteWrite s t c 1
    let (s2, e2) := afterPayload { s1 with pb := upd s.pb c (some cu.tag) } t
    some (s2, [s!"T{t} w {loc c (a % 64)} {show8 cu.tag}"] ++ e2)
  /- ---- w_move ---- -/
  | .m1 =>
    match s.WH with
    | none => fail s t "cached_w_hdr is NULL"
    | some h => some ({ s with pc := upd s.pc t (.m2 h) }, [s!"T{t} r cached_w_hdr &data[{h}]"])
  | .m2 h =>
    if h ≥ s.N then fail s t "header out of bounds" else
    match s.hc h with
    | none => fail s t "n_cachelines is not a header word"
    | some n => some ({ s with pc := upd s.pc t (.m3 n), stale := s.stale + staleRead s t h },
                      [s!"T{t} r {loc h 4} {show32 n}"])
  | .m3 n => some ({ s with pc := upd s.pc t (.m4 n s.CR) }, [s!"T{t} r cached_remain {show32 s.CR}"])
  | .m4 n cr =>
    if cr < n then fail s t "underflow cached_remain-n" else
    some ({ s with CR := cr - n, pc := upd s.pc t (.m5 n) }, [s!"T{t} w cached_remain {show32 (cr - n)}"])
  | .m5 n => some ({ s with pc := upd s.pc t (.m6 n s.W) }, [s!"T{t} r write_cursor {show32 s.W}"])
  | .m6 n w =>
    let m : Msg := { cell := cu.cell, nb := cu.n, ncl := cu.ncl, tag := cu.tag }
    let s1 := { s with W := w + n, relW := s.know t, committed := s.committed ++ [m],
                       q1 := if s.mark.isSome then s.q1 else s.q1 ++ [m],
                       q2 := if s.mark.isSome then s.q2 ++ [m] else s.q2 }
    let (s2, e2) := release s1 t
    some (s2, [s!"T{t} st write_cursor {show32 (w + n)} rel",
               s!"T{t} note commit at={cu.cell} n={cu.n} tag={cu.tag}"] ++ e2)
  | .unl =>
    let (s1, e1) := beginOp { s with lock := 0, relL := s.know t } t
    some (s1, [s!"T{t} st write_lock 0 rel"] ++ e1)
  /- ---- r_fetch ---- -/
  | .f0 =>
    some ({ s with pc := upd s.pc t (.f1 s.W), rP0 := s.pend.length, rMk0 := s.mark.isSome,
                   know := upd s.know t (kmerge (s.know t) s.relW) },
          [s!"T{t} ld write_cursor {show32 s.W} acq"])
  | .f1 w =>
    let ev := s!"T{t} r read_cursor {show32 s.R}"
    if w = s.R then
      let s1 := { s with nones := s.nones + 1, noneViol := s.noneViol + (if s.rP0 = 0 then 0 else 1) }
      let (s2, e2) := beginOp s1 t
      some (s2, [ev, s!"T{t} note fetch none"] ++ e2)
    else some ({ s with pc := upd s.pc t (.f2 w) }, [ev])
  | .f2 w => some ({ s with pc := upd s.pc t (.f3 w s.R) }, [s!"T{t} r read_cursor {show32 s.R}"])
  | .f3 w r =>
    some ({ s with RH := some r, pc := upd s.pc t (.f4 w) }, [s!"T{t} w cached_r_hdr &data[{r}]"])
  | .f4 w =>
    match s.RH with
    | none => fail s t "cached_r_hdr is NULL"
    | some h => some ({ s with pc := upd s.pc t (.f5 w h) }, [s!"T{t} r cached_r_hdr &data[{h}]"])
  | .f5 w h =>
    if h ≥ s.N then fail s t "header out of bounds" else
    match s.hb h with
    | none => fail s t "n_bytes is not a header word"
    | some nb =>
      let ev := s!"T{t} r {loc h 0} {show32 nb}"
      let s0 := { s with stale := s.stale + staleRead s t h }
      if nb ≠ 0 then some ({ s0 with pc := upd s.pc t .g1 }, [ev])
      else if w = 0 then
        let s1 := { s0 with nones := s.nones + 1, noneViol := s.noneViol + (if s.rP0 = 0 then 0 else 1) }
        let (s2, e2) := beginOp s1 t
        some (s2, [ev, s!"T{t} note fetch none"] ++ e2)
      else some ({ s0 with pc := upd s.pc t .k1 }, [ev])
  | .g1 =>
    match s.RH with
    | none => fail s t "cached_r_hdr is NULL"
    | some h => some ({ s with pc := upd s.pc t (.g2 h) }, [s!"T{t} r cached_r_hdr &data[{h}]"])
  | .g2 h =>
    if h ≥ s.N then fail s t "header out of bounds" else
    match s.hb h with
    | none => fail s t "n_bytes is not a header word"
    | some nb => some ({ s with pc := upd s.pc t (.g3 nb), stale := s.stale + staleRead s t h },
                       [s!"T{t} r {loc h 0} {show32 nb}"])
  | .g3 nb =>
    match s.RH with
    | none => fail s t "cached_r_hdr is NULL"
    | some h =>
      let ev := s!"T{t} r cached_r_hdr &data[{h}]"
      if nb ≠ 0 then some ({ s with pc := upd s.pc t (.rp h nb) }, [ev])
      else
        -- a zero-length message: the harness reads no payload byte
        let m : Msg := { cell := h, nb := 0, ncl := 0, tag := 0 }
        let fv := match s.pend with
          | [] => 1
          | x :: _ => if x.cell = h ∧ x.nb = 0 ∧ x.tag = 0 then 0 else 1
        some ({ s with rcur := m, fetched := s.fetched + 1, fifoViol := s.fifoViol + fv,
                       pc := upd s.pc t .r1 },
              [ev, s!"T{t} note fetch at={h} n=0 tag=0 bytes=ok"])
  | .rp h nb =>
    let a := h * 64 + 8 + nb - 1
    let c := a / 64
    if c ≥ s.N then fail s t "payload out of bounds" else
    match s.pb c with
    | none => fail s t "payload byte is not a payload byte"
    | some tag =>
      let ok := (List.range (spanCells nb)).all fun i => s.pb (h + i) == some tag
      let m : Msg := { cell := h, nb := nb, ncl := 0, tag := tag }
      let fv := match s.pend with
        | [] => 1
        | x :: _ => if x.cell = h ∧ x.nb = nb ∧ x.tag = tag then 0 else 1
      some ({ s with rcur := m, fetched := s.fetched + 1, fifoViol := s.fifoViol + fv,
                     corrupt := s.corrupt + (if ok then 0 else 1),
                     stale := s.stale + staleRead s t c, pc := upd s.pc t .r1 },
            [s!"T{t} r {loc c (a % 64)} {show8 tag}",
             s!"T{t} note fetch at={h} n={nb} tag={show8 tag} bytes={if ok then "ok" else "CORRUPT"}"])
  | .k1 =>
    some ({ s with R := 0, q1 := s.q1 ++ s.q2, q2 := [], mark := none, pc := upd s.pc t .k2 },
          [s!"T{t} st read_cursor 0 rlx"])
  | .k2 => some ({ s with pc := upd s.pc t (.k3 s.R) }, [s!"T{t} r read_cursor {show32 s.R}"])
  | .k3 r =>
    some ({ s with RH := some r, pc := upd s.pc t .k4 }, [s!"T{t} w cached_r_hdr &data[{r}]"])
  | .k4 =>
    match s.RH with
    | none => fail s t "cached_r_hdr is NULL"
    | some h => some ({ s with pc := upd s.pc t (.k5 h) }, [s!"T{t} r cached_r_hdr &data[{h}]"])
  | .k5 h =>
    if h ≥ s.N then fail s t "header out of bounds" else
    match s.hb h with
    | none => fail s t "n_bytes is not a header word"
    | some nb =>
      let ev := s!"T{t} r {loc h 0} {show32 nb}"
      let s0 := { s with stale := s.stale + staleRead s t h }
      if nb ≠ 0 then some ({ s0 with pc := upd s.pc t .g1 }, [ev])
      else
        let s1 := { s0 with nones := s.nones + 1, noneViol := s.noneViol + (if s.rP0 = 0 then 0 else 1) }
        let (s2, e2) := beginOp s1 t
        some (s2, [ev, s!"T{t} note fetch none"] ++ e2)
  /- ---- r_move ---- -/
  | .r1 =>
    match s.RH with
    | none => fail s t "cached_r_hdr is NULL"
    | some h => some ({ s with pc := upd s.pc t (.r2 h) }, [s!"T{t} r cached_r_hdr &data[{h}]"])
  | .r2 h =>
    if h ≥ s.N then fail s t "header out of bounds" else
    match s.hc h with
    | none => fail s t "n_cachelines is not a header word"
    | some n => some ({ s with pc := upd s.pc t (.r3 n), stale := s.stale + staleRead s t h },
                      [s!"T{t} r {loc h 4} {show32 n}"])
  | .r3 n => some ({ s with pc := upd s.pc t (.r4 n s.R) }, [s!"T{t} r read_cursor {show32 s.R}"])
  | .r4 n r =>
    let m : Msg := { s.rcur with ncl := n }
    let s1 := { s with R := r + n, delivered := s.delivered ++ [m],
                       q1 := if s.q1.isEmpty then s.q1 else s.q1.tail,
                       q2 := if s.q1.isEmpty then s.q2.tail else s.q2 }
    let (s2, e2) := beginOp s1 t
    some (s2, [s!"T{t} st read_cursor {show32 (r + n)} rel", s!"T{t} note consumed"] ++ e2)

/-! ## initial state: `muggle_shm_ringbuf_open` + thread prologues -/

def isPow2 (x : Nat) : Bool := x &&& (x - 1) == 0

/-- `muggle_next_pow_of_2` as in utils.c (32-bit smear; exact below 2^32) -/
def nextPow2 (x : Nat) : Nat :=
  if isPow2 x then x else
  let x := x ||| (x >>> 1)
  let x := x ||| (x >>> 2)
  let x := x ||| (x >>> 4)
  let x := x ||| (x >>> 8)
  let x := x ||| (x >>> 16)
  x + 1

/-- geometry computed by `muggle_shm_ringbuf_open(nbytes)`: (n_cacheline, data bytes, total bytes) -/
def geometry (nbytes : Nat) : Nat × Nat × Nat :=
  let data := (nbytes + 63) / 64 * 64
  let ncl := nextPow2 (data / 64)
  let data := ncl * 64
  (ncl, data, (960 + data + 4095) / 4096 * 4096)

def mkBase (N nthr : Nat) (useLock : Bool) (progs : List (List Op)) : St :=
  { N := N, nthr := nthr, useLock := useLock, CR := N - 1,
    prog := fun t => progs.getD t [], pc := fun _ => .done }

/-- every thread runs up to its first scheduling point, in tid order -/
def prologue : St → List Nat → St × List String
  | s, [] => (s, [])
  | s, t :: ts =>
    let (s1, e1) := beginOp s t
    let (s2, e2) := prologue s1 ts
    (s2, e1 ++ e2)

def mkInit (N : Nat) (useLock : Bool) (progs : List (List Op)) : St × List String :=
  prologue (mkBase N progs.length useLock progs) (List.range progs.length)

/-! ## what the harness reports at the end -/

def St.finished (s : St) (t : Nat) : Bool := s.pc t == .done
def St.enabled (s : St) (t : Nat) : Bool := t < s.nthr && s.pc t != .done && s.pc t != .bad

def outcome (s : St) : String :=
  s!"outcome committed={s.committed.length} fetched={s.fetched} consumed={s.delivered.length} " ++
  s!"none={s.nones} alloc_fail={s.fails} fifo_viol={s.fifoViol} overlap_viol={s.overlapViol} " ++
  s!"bounds_viol={s.boundsViol} corrupt={s.corrupt} wedge={s.wedge} canary=ok " ++
  s!"W={show32 s.W} R={show32 s.R} CR={show32 s.CR}"

/-- ghost-only line (not produced by the harness; printed as a `#` comment by the driver) -/
def ghostLine (s : St) : String :=
  s!"# model ghost: none_viol={s.noneViol} stale_reads={s.stale} errs={s.errs} " ++
  s!"pending={s.pend.length} mark={s.mark}"

end MgModel.C08
