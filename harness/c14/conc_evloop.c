/* C14 harness: the real muggle_evloop_run / muggle_evloop_exit / muggle_evloop_wakeup /
 * muggle_socket_evloop_add_ctx of /repo, with REAL kernel objects (eventfd, poll / epoll /
 * select, socketpairs), under the deterministic scheduler of harness/tsanshim.
 *
 * No hook in /repo is needed: the blocking system calls of the loop are redirected at link
 * time (-Wl,--wrap=poll,epoll_wait,select,read,write):
 *   - write(eventfd) / write(peer of a context)  = one scheduling point ("futex-wake evfd all"),
 *     then the real write;  the pollers parked in our futex word are made runnable;
 *   - read(eventfd)                               = one scheduling point ("note clearup"), then the
 *     real (non-blocking) read; its value is logged ("note evfd-read v=<n>");
 *   - poll / epoll_wait / select                  = one scheduling point ("note poll"), then the
 *     real call with a zero time-out; when nothing is ready and the caller's time-out is
 *     infinite the thread parks in a futex wait on the harness' sequence word `evfd`
 *     (futex-wait evfd <seq> blocked|eagain, futex-resume evfd) and re-polls when woken.
 *     A loop that would block for ever is therefore OBSERVED by the scheduler (end deadlock),
 *     never waited for.
 * Only one managed thread runs at a time and the kernel objects are touched only by managed
 * threads, so the kernel state is a deterministic function of the schedule.
 * evloop->tid and evloop->to_exit are registered regions: every access of the real object
 * code to them is a scheduling point and a trace event; handle->mtx is the scheduler's mutex.
 *
 * ops:  conf <poll|epoll|select> <cap> <io:0|1> <role> <role> ...
 *           cap   = hints_max_fd (registration capacity of the poll back-end)
 *           io    = pre-register one context "cio" whose peer the I/O roles write to
 *           contexts handed over by thread t are named c<t>.<i> (i = position in its program)
 *           role  = L          muggle_evloop_run, then "note run-returned"
 *                   E          muggle_evloop_exit, then "note exit-done"
 *                   W<k>       k x muggle_evloop_wakeup            ("note wake-done")
 *                   H<prog>    hand-over: one context per letter of prog, g = good fd, b = bad fd (-1)
 *                   I<k>       k x one byte written to the peer of the I/O context "cio"
 *                   X<k>       like L, but the harness' wake callback calls muggle_evloop_exit
 *                              from the loop thread in its k-th invocation (k >= 1)
 *           thread 0 is the CREATOR: it calls muggle_evloop_new / attach (and registers c0)
 *           before anything else runs, so evloop->tid initially names thread 0.
 *       variant <a> <b> <c>   (which repaired variants the tree has; used by the model driver only)
 *       sched random <seed> | pct <seed> <depth> | replay <tokens> | prefix <tokens>
 *       run  -> schedule, events, end, outcome
 */
#define _GNU_SOURCE
#include "vharness.h"
#include "tsanshim/vsched.h"
#include <errno.h>
#include <limits.h>
#include <poll.h>
#include <pthread.h>
#include <signal.h>
#include <sys/epoll.h>
#include <sys/mman.h>
#include <sys/select.h>
#include <sys/socket.h>
#include <sys/syscall.h>
#include <linux/futex.h>
#include <unistd.h>
#include "muggle/c/event/event_loop.h"
#include "muggle/c/net/socket_evloop_handle.h"

#define NOSAN __attribute__((no_sanitize("thread")))
#define MAXTH 8
#define MAXCTX 32

ssize_t __real_write(int, const void *, size_t);
ssize_t __real_read(int, void *, size_t);
int __real_poll(struct pollfd *, nfds_t, int);
int __real_epoll_wait(int, struct epoll_event *, int, int);
int __real_select(int, fd_set *, fd_set *, fd_set *, struct timeval *);

/* ---- configuration of the current case ---- */
static int g_backend, g_cap, g_io, g_nth;
static struct { char kind; int k; char prog[24]; } g_role[MAXTH];
static int g_conf_ok;

/* ---- run state (not registered: invisible to the scheduler) ---- */
static muggle_event_loop_t *g_evloop;
static muggle_socket_evloop_handle_t g_handle;
static int g_handle_ok;
static uint32_t *g_seq;           /* futex word "evfd": number of wake-ups of the pollers so far */
static int g_evfd = -1;

typedef struct {
	muggle_socket_context_t *ctx;   /* own page; NULL until the context is created */
	char name[16];                  /* "cio" | "c<thread>.<index>" */
	int owner, idx, peer, handed, bad;
	int add_cb, registered, released, freed, uaf;
} Ctx;
static Ctx g_ctx[MAXCTX];
static int g_nctx;
static int g_wake_req, g_cb_wake, g_run_returned, g_exit_done, g_selfexit_at;

/* plain volatile accesses in un-instrumented functions: no scheduling point, no event
 * (atomics would still be instrumented under no_sanitize) */
NOSAN static uint32_t seq_get(void) { return *(volatile uint32_t *)g_seq; }
NOSAN static void seq_bump(void) { *(volatile uint32_t *)g_seq = *(volatile uint32_t *)g_seq + 1; }

static int is_peer_fd(int fd)
{
	for (int i = 0; i < g_nctx; i++) if (g_ctx[i].ctx && g_ctx[i].peer == fd && fd >= 0) return 1;
	return 0;
}

/* ---- redirected system calls ---- */
static void wake_pollers(void)
{
	/* scheduling point + event "T<t> futex-wake evfd all woke=<k>"; nothing else can run
	 * between the wake and the real write that follows (single baton) */
	syscall(SYS_futex, g_seq, FUTEX_WAKE, INT_MAX, NULL, NULL, 0);
	seq_bump();
}

ssize_t __wrap_write(int fd, const void *buf, size_t n)
{
	if (vs_self_tid() < 0 || g_seq == NULL || !(fd == g_evfd || is_peer_fd(fd)))
		return __real_write(fd, buf, n);
	wake_pollers();
	return __real_write(fd, buf, n);
}

ssize_t __wrap_read(int fd, void *buf, size_t n)
{
	if (vs_self_tid() < 0 || fd != g_evfd || g_seq == NULL)
		return __real_read(fd, buf, n);
	vs_step("clearup");
	ssize_t r = __real_read(fd, buf, n);
	vs_note("evfd-read v=%lld", r == 8 ? (long long)*(uint64_t *)buf : -1LL);
	return r;
}

static void park(uint32_t s)
{
	syscall(SYS_futex, g_seq, FUTEX_WAIT, s, NULL, NULL, 0);
}

int __wrap_poll(struct pollfd *fds, nfds_t nfds, int timeout)
{
	if (vs_self_tid() < 0 || g_seq == NULL) return __real_poll(fds, nfds, timeout);
	vs_step("poll");
	for (;;) {
		uint32_t s = seq_get();
		int n = __real_poll(fds, nfds, 0);
		if (n != 0 || timeout >= 0) return n;
		park(s);
	}
}

int __wrap_epoll_wait(int epfd, struct epoll_event *ev, int maxev, int timeout)
{
	if (vs_self_tid() < 0 || g_seq == NULL) return __real_epoll_wait(epfd, ev, maxev, timeout);
	vs_step("poll");
	for (;;) {
		uint32_t s = seq_get();
		int n = __real_epoll_wait(epfd, ev, maxev, 0);
		if (n != 0 || timeout >= 0) return n;
		park(s);
	}
}

int __wrap_select(int nfds, fd_set *r, fd_set *w, fd_set *e, struct timeval *tv)
{
	if (vs_self_tid() < 0 || g_seq == NULL) return __real_select(nfds, r, w, e, tv);
	vs_step("poll");
	fd_set saved = *r;
	for (;;) {
		uint32_t s = seq_get();
		struct timeval z = { 0, 0 };
		*r = saved;
		int n = __real_select(nfds, r, w, e, &z);
		if (n != 0 || tv != NULL) return n;
		park(s);
	}
}

/* ---- contexts: one page each, PROT_NONE once freed (any later touch is a crash) ---- */
static Ctx *ctx_of(muggle_socket_context_t *p)
{
	for (int i = 0; i < g_nctx; i++) if (g_ctx[i].ctx && g_ctx[i].ctx == p) return &g_ctx[i];
	return NULL;
}

/* the records of all contexts of the configuration exist from set-up (static names, fixed
 * order in the outcome line); the context itself is created when its thread gets there */
static Ctx *new_ctx(int owner, int idx)
{
	Ctx *c = NULL;
	for (int i = 0; i < g_nctx; i++) if (g_ctx[i].owner == owner && g_ctx[i].idx == idx) c = &g_ctx[i];
	if (!c) return NULL;
	c->ctx = (muggle_socket_context_t *)mmap(NULL, 4096, PROT_READ | PROT_WRITE,
			MAP_PRIVATE | MAP_ANONYMOUS, -1, 0);
	int fd = -1;
	if (!c->bad) {
		int sv[2];
		if (socketpair(AF_UNIX, SOCK_STREAM | SOCK_NONBLOCK | SOCK_CLOEXEC, 0, sv) == 0) {
			fd = sv[0]; c->peer = sv[1];
		}
	}
	muggle_socket_ctx_init(c->ctx, fd, NULL, MUGGLE_SOCKET_CTX_TYPE_TCP_CLIENT);
	return c;
}

static void declare_ctx(int owner, int idx, int bad, int handed)
{
	Ctx *c = &g_ctx[g_nctx++];
	memset(c, 0, sizeof *c);
	c->owner = owner; c->idx = idx; c->bad = bad; c->handed = handed; c->peer = -1;
	if (owner < 0) snprintf(c->name, sizeof c->name, "cio");
	else snprintf(c->name, sizeof c->name, "c%d.%d", owner, idx);
}

static int really_registered(muggle_socket_context_t *p)
{
	muggle_linked_list_t *l = g_evloop->ctx_list;
	for (muggle_linked_list_node_t *n = muggle_linked_list_first(l); n; n = muggle_linked_list_next(l, n))
		if (n->data == (void *)p) return 1;
	return 0;
}

/* ---- user callbacks of the socket handle ---- */
static void on_add_ctx(muggle_event_loop_t *ev, muggle_socket_context_t *p)
{
	Ctx *c = ctx_of(p);
	if (!c) return;
	if (c->freed) { c->uaf++; vs_note("USE-AFTER-FREE add %s", c->name); return; }
	int reg = really_registered(p);
	c->add_cb++;
	c->registered += reg;
	vs_note("cb_add_ctx %s reg=%d", c->name, reg);
}

static void on_wake(muggle_event_loop_t *ev)
{
	g_cb_wake++;
	vs_note("cb_wake");
	if (g_selfexit_at > 0 && g_cb_wake == g_selfexit_at)
		muggle_evloop_exit(ev);
}

static void on_msg(muggle_event_loop_t *ev, muggle_socket_context_t *p)
{
	Ctx *c = ctx_of(p);
	char buf[64];
	int tot = 0, n;
	if (c && c->freed) { c->uaf++; vs_note("USE-AFTER-FREE msg %s", c->name); return; }
	while ((n = muggle_socket_ctx_read(p, buf, sizeof buf)) > 0) tot += n;
	vs_note("cb_msg %s n=%d", c ? c->name : "?", tot);
}

static void on_close(muggle_event_loop_t *ev, muggle_socket_context_t *p)
{
	Ctx *c = ctx_of(p);
	vs_note("cb_close %s", c ? c->name : "?");
}

static void on_release(muggle_event_loop_t *ev, muggle_socket_context_t *p)
{
	Ctx *c = ctx_of(p);
	if (!c) return;
	if (c->freed) { c->uaf++; vs_note("USE-AFTER-FREE release %s", c->name); return; }
	c->released++;
	vs_note("cb_release %s", c->name);
}

static muggle_socket_context_t *my_alloc(void *pool) { return NULL; }

static void my_free(void *pool, muggle_socket_context_t *p)
{
	Ctx *c = ctx_of(p);
	if (!c) return;
	if (c->freed) { c->uaf++; vs_note("DOUBLE-FREE %s", c->name); return; }
	c->freed = 1;
	vs_note("cb_free %s", c->name);
	mprotect(c->ctx, 4096, PROT_NONE);
}

/* ---- creation (thread 0, before its first scheduling point) ---- */
static void create(void)
{
	muggle_event_loop_init_args_t args;
	memset(&args, 0, sizeof args);
	args.evloop_type = g_backend;
	args.hints_max_fd = g_cap;
	args.use_mem_pool = 0;
	g_evloop = muggle_evloop_new(&args);
	if (!g_evloop) return;
	if (muggle_socket_evloop_handle_init(&g_handle) != 0) return;
	g_handle_ok = 1;
	muggle_socket_evloop_handle_set_cb_add_ctx(&g_handle, on_add_ctx);
	muggle_socket_evloop_handle_set_cb_wake(&g_handle, on_wake);
	muggle_socket_evloop_handle_set_cb_msg(&g_handle, on_msg);
	muggle_socket_evloop_handle_set_cb_close(&g_handle, on_close);
	muggle_socket_evloop_handle_set_cb_release(&g_handle, on_release);
	muggle_socket_evloop_handle_set_alloc_free(&g_handle, NULL, my_alloc, my_free);
	muggle_socket_evloop_handle_attach(&g_handle, g_evloop);
	g_evfd = muggle_ev_signal_rfd(g_evloop->ev_signal);
	if (g_io) {
		Ctx *c = new_ctx(-1, 0);
		if (c && muggle_evloop_add_ctx(g_evloop, (muggle_event_context_t *)c->ctx) == 0) c->registered = 1;
	}
	vs_reg("tid", &g_evloop->tid, sizeof g_evloop->tid, 0);
	vs_reg("to_exit", &g_evloop->to_exit, sizeof g_evloop->to_exit, 0);
	vs_reg("mtx", g_handle.mtx, sizeof *g_handle.mtx, 0);
}

static void worker(void *arg)
{
	int me = (int)(intptr_t)arg;
	char nm[16];
	snprintf(nm, sizeof nm, "tid%d", me);
	vs_name_val((uint64_t)pthread_self(), nm);
	if (me == 0) create();
	if (!g_evloop || !g_handle_ok) return;
	switch (g_role[me].kind) {
	case 'L': case 'X':
		muggle_evloop_run(g_evloop);
		g_run_returned = 1;
		vs_note("run-returned");
		break;
	case 'E':
		muggle_evloop_exit(g_evloop);
		g_exit_done++;
		vs_note("exit-done");
		break;
	case 'W':
		for (int i = 0; i < g_role[me].k; i++) {
			muggle_evloop_wakeup(g_evloop);
			g_wake_req++;
			vs_note("wake-done");
		}
		break;
	case 'H':
		for (int i = 0; g_role[me].prog[i]; i++) {
			Ctx *c = new_ctx(me, i);
			if (!c) break;
			vs_note("hand %s", c->name);
			muggle_socket_evloop_add_ctx(g_evloop, c->ctx);
			vs_note("hand-done %s", c->name);
		}
		break;
	case 'I':
		for (int i = 0; i < g_role[me].k; i++) {
			if (g_ctx[0].ctx && g_ctx[0].peer >= 0) write(g_ctx[0].peer, "x", 1);
			vs_note("io-done");
		}
		break;
	}
}

static void vh_reset(void) { g_conf_ok = 0; signal(SIGPIPE, SIG_IGN); }

static void setup(void)
{
	vs_reset();
	g_evloop = NULL; g_handle_ok = 0; g_evfd = -1; g_nctx = 0;
	g_wake_req = g_cb_wake = g_run_returned = g_exit_done = 0;
	g_selfexit_at = 0;
	if (!g_seq) g_seq = (uint32_t *)calloc(1, sizeof(uint32_t));
	*g_seq = 0;
	vs_reg("evfd", g_seq, sizeof(uint32_t), 0);
	if (g_io) declare_ctx(-1, 0, 0, 0);
	for (int i = 0; i < g_nth; i++)
		if (g_role[i].kind == 'H')
			for (int j = 0; g_role[i].prog[j]; j++) declare_ctx(i, j, g_role[i].prog[j] == 'b', 1);
	for (int i = 0; i < g_nth; i++) {
		if (g_role[i].kind == 'X') g_selfexit_at = g_role[i].k;
		vs_spawn(worker, (void *)(intptr_t)i);
	}
}

static void teardown(int st)
{
	/* queue contents when the last thread returned (handed over, neither registered nor released yet) */
	int queued = 0;
	if (g_handle_ok && g_handle.ctx_queue) queued = (int)muggle_queue_size(g_handle.ctx_queue);
	/* the owner's epilogue, as in every example of /repo: handle_destroy, then evloop_delete.
	 * Callbacks fired from here still update the per-context counters below. */
	if (g_handle_ok) muggle_socket_evloop_handle_destroy(&g_handle);
	printf("outcome run_returned=%d exit_done=%d cb_wake=%d queued=%d", g_run_returned, g_exit_done,
		   g_cb_wake, queued);
	for (int i = 0; i < g_nctx; i++) {
		Ctx *c = &g_ctx[i];
		printf(" %s:%d%d%d%d", c->name, c->registered, c->released, c->freed, c->uaf);
	}
	printf("\n");
	for (int i = 0; i < g_nctx; i++) {
		Ctx *c = &g_ctx[i];
		if (!c->ctx) continue;
		if (!c->freed) {
			if (c->ctx->base.fd >= 0) close(c->ctx->base.fd);
		} else mprotect(c->ctx, 4096, PROT_READ | PROT_WRITE);
		if (c->peer >= 0) close(c->peer);
		munmap(c->ctx, 4096);
		c->ctx = NULL;
	}
	g_nctx = 0;
	if (g_evloop) muggle_evloop_delete(g_evloop);
	g_evloop = NULL; g_handle_ok = 0; g_evfd = -1;
	(void)st;
}

static int g_pol; static uint64_t g_seed; static int g_depth; static char g_replay[1 << 18];

static void vh_op(int argc, char **argv)
{
	if (!strcmp(argv[0], "conf") && argc >= 5 && argc - 4 <= MAXTH) {
		g_backend = !strcmp(argv[1], "poll") ? MUGGLE_EVLOOP_TYPE_POLL :
					!strcmp(argv[1], "epoll") ? MUGGLE_EVLOOP_TYPE_EPOLL :
					!strcmp(argv[1], "select") ? MUGGLE_EVLOOP_TYPE_SELECT : 0;
		g_cap = atoi(argv[2]);
		g_io = atoi(argv[3]);
		g_nth = argc - 4;
		int ok = g_backend != 0 && g_cap >= 1, loops = 0;
		for (int i = 0; i < g_nth; i++) {
			const char *r = argv[4 + i];
			g_role[i].kind = r[0];
			g_role[i].k = atoi(r + 1);
			snprintf(g_role[i].prog, sizeof g_role[i].prog, "%s", r + 1);
			if (!strchr("LEWHIX", r[0]) || r[0] == 0) ok = 0;
			if (r[0] == 'L' || r[0] == 'X') loops++;
			if (r[0] == 'H') for (const char *p = r + 1; *p; p++) if (*p != 'g' && *p != 'b') ok = 0;
			if (r[0] == 'I' && !g_io) ok = 0;
			if (r[0] == 'X' && g_role[i].k < 1) ok = 0;
		}
		if (loops != 1) ok = 0;
		g_conf_ok = ok;
		g_pol = 0; g_seed = 1;
		printf(ok ? "ok\n" : "bad-op\n");
		return;
	}
	if (!strcmp(argv[0], "variant") && argc == 4) { printf("ok\n"); return; }  /* for the model only */
	if (!strcmp(argv[0], "sched") && argc >= 2) {
		if (!strcmp(argv[1], "random") && argc >= 3) { g_pol = 0; g_seed = vh_ull(argv[2]); }
		else if (!strcmp(argv[1], "pct") && argc >= 4) { g_pol = 1; g_seed = vh_ull(argv[2]); g_depth = atoi(argv[3]); }
		else { g_pol = !strcmp(argv[1], "prefix") ? 3 : 2; g_replay[0] = 0; size_t o = 0;
			for (int i = 2; i < argc; i++) o += snprintf(g_replay + o, sizeof g_replay - o, "%s ", argv[i]); }
		printf("ok\n");
		return;
	}
	if (!strcmp(argv[0], "run") && g_conf_ok) {
		setup();
		if (g_pol == 0) vs_policy_random(g_seed);
		else if (g_pol == 1) vs_policy_pct(g_seed, g_depth);
		else if (g_pol == 3) { vs_policy_prefix(g_replay); vs_trace_enabled(1); }
		else vs_policy_replay(g_replay);
		vs_set_max_steps(4000);
		int st = vs_run();
		if (st != VS_OK) vh_request_restart();
		vs_print(stdout);
		teardown(st);
		return;
	}
	printf("bad-op\n");
}

VH_MAIN()
