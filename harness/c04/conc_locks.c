/* C04 harness: spinlock / synclock / mutex / call_once / ref_cnt of /repo under the
 * deterministic scheduler (harness/tsanshim). This file is compiled with
 * -fsanitize=thread too, so the critical-section bodies below are ordinary code whose
 * accesses to the registered shared variables are scheduling points and trace events.
 *
 * ops:   conf spinlock|synclock|mutex <threads> <rounds>
 *        conf once <threads>
 *             (synclock-weak: the CAS of the lock word is a weak CAS in the source, so the
 *              scheduler may make it fail spuriously; chosen by the check from the source)
 *        conf refcnt <init> <prog0> <prog1> ...      prog = string over {r,d} (retain / release)
 *        sched random <seed> | pct <seed> <depth> | replay <tokens...> | prefix <tokens...>
 *             (prefix: replay the tokens, then continue non-preemptively; prints the candidate set of
 *              every step as "#enabled <hex masks>" for the systematic explorer in lib/vlib.py)
 *        spurious <cas_permille> <cv_permille>
 *        run                                          -> schedule, events, end, outcome lines
 */
#include "vharness.h"
#include "tsanshim/vsched.h"
#include "muggle/c/sync/spinlock.h"
#include "muggle/c/sync/synclock.h"
#include "muggle/c/sync/mutex.h"
#include "muggle/c/sync/call_once.h"
#include "muggle/c/sync/ref_cnt.h"

enum { K_NONE, K_SPIN, K_SYNC, K_MUTEX, K_ONCE, K_REFCNT };
static int g_kind, g_n, g_rounds, g_init, g_weak;
static char g_prog[16][32];

static struct {
	muggle_spinlock_t spin;
	muggle_sync_t sync;
	muggle_mutex_t mtx;
	muggle_once_flag once;
	muggle_ref_cnt_t ref;
	int data;        /* protected by the lock under test */
	int in_cs;       /* ghost: number of threads inside the critical section */
	int body_runs;   /* call_once body executions */
	int body_done;
} S;
static int g_excl_violations, g_once_early_return;

static void lock_it(void)
{
	if (g_kind == K_SPIN) muggle_spinlock_lock(&S.spin);
	else if (g_kind == K_SYNC) muggle_synclock_lock(&S.sync);
	else muggle_mutex_lock(&S.mtx);
}
static void unlock_it(void)
{
	if (g_kind == K_SPIN) muggle_spinlock_unlock(&S.spin);
	else if (g_kind == K_SYNC) muggle_synclock_unlock(&S.sync);
	else muggle_mutex_unlock(&S.mtx);
}

static void lock_worker(void *arg)
{
	(void)arg;
	for (int r = 0; r < g_rounds; r++) {
		lock_it();
		/* critical section: a non-atomic read-modify-write of S.data */
		int inside = __atomic_add_fetch(&S.in_cs, 1, __ATOMIC_RELAXED); /* in_cs is not registered: ghost */
		if (inside != 1) { g_excl_violations++; vs_note("EXCLUSION-VIOLATED inside=%d", inside); }
		int tmp = S.data;
		S.data = tmp + 1;
		__atomic_sub_fetch(&S.in_cs, 1, __ATOMIC_RELAXED);
		unlock_it();
	}
}

static void once_body(void)
{
	S.body_runs = S.body_runs + 1;   /* registered: two events */
	S.body_done = 1;
}

static void once_worker(void *arg)
{
	(void)arg;
	muggle_call_once(&S.once, once_body);
	int done = S.body_done;
	if (!done) { g_once_early_return++; }
	vs_note("once-returned done=%d", done);
}

static void refcnt_worker(void *arg)
{
	const char *p = (const char *)arg;
	for (; *p; p++) {
		if (*p == 'r') { int v = muggle_ref_cnt_retain(&S.ref); vs_note("retain=%d", v); }
		else { int v = muggle_ref_cnt_release(&S.ref); vs_note("release=%d", v); }
	}
}

static void vh_reset(void) { g_kind = K_NONE; }

static void setup(void)
{
	vs_reset();
	memset(&S, 0, sizeof S);
	g_excl_violations = 0; g_once_early_return = 0;
	switch (g_kind) {
	case K_SPIN: muggle_spinlock_init(&S.spin); vs_reg("lock", &S.spin, sizeof S.spin, 0); break;
	case K_SYNC: muggle_synclock_init(&S.sync); vs_reg("lock", &S.sync, sizeof S.sync, 0); if (g_weak) vs_weak_cas("lock"); break;
	case K_MUTEX: muggle_mutex_init(&S.mtx); vs_reg("lock", &S.mtx, sizeof S.mtx, 0); break;
	case K_ONCE: S.once = MUGGLE_ONCE_FLAG_INIT; vs_reg("flag", &S.once, sizeof S.once, 0);
		vs_reg("body_runs", &S.body_runs, sizeof(int), 0); vs_reg("body_done", &S.body_done, sizeof(int), 0); break;
	case K_REFCNT: muggle_ref_cnt_init(&S.ref, g_init); vs_reg("ref", &S.ref, sizeof S.ref, 0); break;
	}
	if (g_kind == K_SPIN || g_kind == K_SYNC || g_kind == K_MUTEX) {
		vs_reg("data", &S.data, sizeof(int), 0);
		for (int i = 0; i < g_n; i++) vs_spawn(lock_worker, NULL);
	} else if (g_kind == K_ONCE) {
		for (int i = 0; i < g_n; i++) vs_spawn(once_worker, NULL);
	} else if (g_kind == K_REFCNT) {
		for (int i = 0; i < g_n; i++) vs_spawn(refcnt_worker, g_prog[i]);
	}
}

static int g_pol; static uint64_t g_seed; static int g_depth; static char g_replay[1 << 18];
static int g_sp_cas, g_sp_cv, g_sp_fx;

static void vh_op(int argc, char **argv)
{
	if (!strcmp(argv[0], "conf") && argc >= 3) {
		g_sp_cas = g_sp_cv = g_sp_fx = 0; g_pol = 0; g_seed = 1;
		if (!strcmp(argv[1], "refcnt")) {
			g_kind = K_REFCNT; g_init = atoi(argv[2]); g_n = argc - 3;
			if (g_n > 16) g_n = 16;
			for (int i = 0; i < g_n; i++) snprintf(g_prog[i], sizeof g_prog[i], "%s", argv[3 + i]);
		} else {
			g_weak = !strcmp(argv[1], "synclock-weak");
			g_kind = !strcmp(argv[1], "spinlock") ? K_SPIN : !strncmp(argv[1], "synclock", 8) ? K_SYNC :
					 !strcmp(argv[1], "mutex") ? K_MUTEX : !strcmp(argv[1], "once") ? K_ONCE : K_NONE;
			g_n = atoi(argv[2]);
			g_rounds = argc > 3 ? atoi(argv[3]) : 1;
		}
		printf(g_kind == K_NONE ? "bad-op\n" : "ok\n");
		return;
	}
	if (!strcmp(argv[0], "sched") && argc >= 2) {
		if (!strcmp(argv[1], "random")) { g_pol = 0; g_seed = vh_ull(argv[2]); }
		else if (!strcmp(argv[1], "pct")) { g_pol = 1; g_seed = vh_ull(argv[2]); g_depth = atoi(argv[3]); }
		else { g_pol = !strcmp(argv[1], "prefix") ? 3 : 2; g_replay[0] = 0; size_t o = 0;
			for (int i = 2; i < argc; i++) o += snprintf(g_replay + o, sizeof g_replay - o, "%s ", argv[i]); }
		printf("ok\n");
		return;
	}
	if (!strcmp(argv[0], "spurious") && (argc == 3 || argc == 4)) {
		/* third number: a parked futex wait returns -1/EINTR (permille per scheduling decision) */
		g_sp_cas = atoi(argv[1]); g_sp_cv = atoi(argv[2]); g_sp_fx = argc == 4 ? atoi(argv[3]) : 0;
		printf("ok\n"); return;
	}
	if (!strcmp(argv[0], "run") && g_kind != K_NONE) {
		setup();
		if (g_pol == 0) vs_policy_random(g_seed);
		else if (g_pol == 1) vs_policy_pct(g_seed, g_depth);
		else if (g_pol == 3) { vs_policy_prefix(g_replay); vs_trace_enabled(1); }
		else vs_policy_replay(g_replay);
		vs_set_spurious(g_sp_cas, g_sp_cv);
		vs_set_spurious_futex(g_sp_fx);
		vs_set_max_steps(5000);
		int st = vs_run();
		if (st != VS_OK) vh_request_restart();
		vs_print(stdout);
		if (g_kind == K_SPIN || g_kind == K_SYNC || g_kind == K_MUTEX)
			printf("outcome data=%d exclusion_violations=%d\n", S.data, g_excl_violations);
		else if (g_kind == K_ONCE)
			printf("outcome body_runs=%d early_returns=%d\n", S.body_runs, g_once_early_return);
		else
			printf("outcome ref=%d\n", muggle_ref_cnt_val(&S.ref));
		(void)st;
		return;
	}
	printf("bad-op\n");
}

VH_MAIN()
