/* C17 harness: drives the real size-rotating and time-rotating log handlers of /repo
 * through their public interface (init, handler.write, handler.destroy) inside a
 * scratch directory and reports the directory contents canonically.
 *
 * Controlled inputs:
 *   - the formatted line: a formatter installed with muggle_log_handler_set_fmt()
 *     copies msg->payload, so a line is exactly the bytes the harness chose
 *     (self-describing: two id characters, an id/position dependent filler, '\n');
 *   - the message timestamp msg.ts.tv_sec;
 *   - the clock: log_file_time_rot_handler.c is compiled with -Dtime=vh_time;
 *   - the time zone: TZ is set to a fixed-offset POSIX zone, tzset() called.
 *
 * Ops (one output line each):
 *   pre L|<i> <len>...      create app.log / app.log.<i> with new lines      -> ok
 *   rinit <max> <count> [rel]  muggle_log_file_rotate_handler_init          -> ok <offset> | fail
 *   w <len>                 handler.write of a new line                      -> <ret> <offset> | closed
 *   close                   handler.destroy                                  -> ok
 *   ls                      every file: tag[id:len ...]                      -> ls ...
 *   view [k]                app.log.k / ... / app.log.1 / app.log            -> k=<k> : ...
 *                           (k defaults to max(backup_count,1) of the last rinit)
 *   tz <minutes east>, clock <sec>                                           -> ok
 *   tinit <s|m|h|d> <mod> <local> [rel]  muggle_log_file_time_rot_handler_init -> ok <stamp>
 *   tw <ts> <len>           handler.write, msg.ts.tv_sec = ts                -> <ret> <period of the file the line landed in>
 *   cur                     stamp of the file the handler has open           -> <stamp> | -
 */
#include "vharness.h"
#include "muggle/c/log/log_file_rotate_handler.h"
#include "muggle/c/log/log_file_time_rot_handler.h"
#include <time.h>
#include <unistd.h>
#include <dirent.h>
#include <sys/stat.h>
#include <errno.h>

#define MAX_ID 4096
#define MAX_FILES 2048
#define BASE "app.log"

static char g_root[512];      /* per-process scratch directory */
static char g_dir[600];       /* g_root/d : where the log files live */
static int g_have_root;

static int g_len[MAX_ID];     /* id -> line length */
static int g_next_id;

static int g_kind;            /* 0 none, 1 size handler open, 2 time handler open */
static muggle_log_file_rotate_handler_t g_rh;
static muggle_log_file_time_rot_handler_t g_th;
static unsigned g_bc;         /* backup_count of the last rinit */
static char g_unit = 's';
static unsigned g_mod = 1;
static muggle_log_fmt_t g_fmt;

static time_t g_clock;
time_t vh_time(time_t *t) { if (t) *t = g_clock; return g_clock; }

static const char ALPHA[] = "ABCDEFGHIJKLMNOPQRSTUVWXYZabcdefghijklmnopqrstuvwxyz0123456789-_";

static void make_line(int id, int len, char *buf)
{
	for (int j = 0; j < len - 1; j++)
		buf[j] = ALPHA[(id * 31 + j) & 63];
	if (len >= 3) { buf[0] = ALPHA[(id >> 6) & 63]; buf[1] = ALPHA[id & 63]; }
	buf[len - 1] = '\n';
	buf[len] = 0;
}

static int alpha_idx(char c)
{
	const char *p = c ? strchr(ALPHA, c) : NULL;
	return p ? (int)(p - ALPHA) : -1;
}

static int vh_fmt(const muggle_log_msg_t *msg, char *buf, size_t bufsize)
{
	size_t n = strlen(msg->payload);
	if (n > bufsize) n = bufsize;
	memcpy(buf, msg->payload, n);
	return (int)n;
}

static void rm_all(void)
{
	DIR *d = opendir(g_dir);
	if (d) {
		struct dirent *e;
		char p[1200];
		while ((e = readdir(d)) != NULL) {
			if (strcmp(e->d_name, ".") == 0 || strcmp(e->d_name, "..") == 0) continue;
			snprintf(p, sizeof(p), "%s/%s", g_dir, e->d_name);
			unlink(p);
		}
		closedir(d);
		rmdir(g_dir);
	}
}

static void cleanup_root(void)
{
	if (g_have_root) { rm_all(); rmdir(g_root); }
}

static void close_handler(void)
{
	if (g_kind == 1) g_rh.handler.destroy(&g_rh.handler);
	if (g_kind == 2) g_th.handler.destroy(&g_th.handler);
	g_kind = 0;
}

/* ---- directory scan -------------------------------------------------- */
typedef struct { char tag[64]; long size; } ent_t;
static ent_t g_ents[MAX_FILES];
static int g_nents;

static int ent_cmp(const void *a, const void *b)
{
	const ent_t *x = a, *y = b;
	int lx = strcmp(x->tag, "L") == 0, ly = strcmp(y->tag, "L") == 0;
	if (lx != ly) return ly - lx;
	size_t nx = strlen(x->tag), ny = strlen(y->tag);
	if (nx != ny) return nx < ny ? -1 : 1;
	return strcmp(x->tag, y->tag);
}

static int scan(ent_t *ents)
{
	int n = 0;
	DIR *d = opendir(g_dir);
	if (!d) return 0;
	struct dirent *e;
	char p[1200];
	struct stat sb;
	while ((e = readdir(d)) != NULL && n < MAX_FILES) {
		if (strcmp(e->d_name, ".") == 0 || strcmp(e->d_name, "..") == 0) continue;
		snprintf(p, sizeof(p), "%s/%s", g_dir, e->d_name);
		if (stat(p, &sb) != 0) continue;
		if (strcmp(e->d_name, BASE) == 0) strcpy(ents[n].tag, "L");
		else if (strncmp(e->d_name, BASE ".", strlen(BASE) + 1) == 0)
			snprintf(ents[n].tag, sizeof(ents[n].tag), "%s", e->d_name + strlen(BASE) + 1);
		else snprintf(ents[n].tag, sizeof(ents[n].tag), "?%s", e->d_name);
		ents[n].size = (long)sb.st_size;
		n++;
	}
	closedir(d);
	qsort(ents, n, sizeof(ent_t), ent_cmp);
	return n;
}

static void path_of_tag(const char *tag, char *p, size_t n)
{
	if (strcmp(tag, "L") == 0) snprintf(p, n, "%s/" BASE, g_dir);
	else if (tag[0] == '?') snprintf(p, n, "%s/%s", g_dir, tag + 1);
	else snprintf(p, n, "%s/" BASE ".%s", g_dir, tag);
}

/* print the lines of one file as "id:len id:len"; returns 0 when the file is not a
 * sequence of whole lines the harness wrote */
static int print_lines(const char *tag, int brackets)
{
	char p[1200];
	path_of_tag(tag, p, sizeof(p));
	FILE *f = fopen(p, "rb");
	if (brackets) printf("%s[", tag);
	if (!f) { if (brackets) printf("]"); return 1; }
	fseek(f, 0, SEEK_END);
	long sz = ftell(f);
	fseek(f, 0, SEEK_SET);
	char *data = (char *)malloc(sz + 1);
	if (fread(data, 1, sz, f) != (size_t)sz) sz = -1;
	fclose(f);
	int ok = sz >= 0, first = 1;
	long pos = 0;
	static char want[8192];
	while (ok && pos < sz) {
		if (sz - pos < 3) { ok = 0; break; }
		int a = alpha_idx(data[pos]), b = alpha_idx(data[pos + 1]);
		if (a < 0 || b < 0) { ok = 0; break; }
		int id = a * 64 + b;
		if (id >= g_next_id) { ok = 0; break; }
		int len = g_len[id];
		if (pos + len > sz) { ok = 0; break; }
		make_line(id, len, want);
		if (memcmp(want, data + pos, len) != 0) { ok = 0; break; }
		printf("%s%d:%d", first ? "" : " ", id, len);
		first = 0;
		pos += len;
	}
	free(data);
	if (!ok) printf("%sCORRUPT", first ? "" : " ");
	if (brackets) printf("]");
	return ok;
}

/* ---- time helpers ------------------------------------------------------ */
/* period key of a file stamp, for the configured unit/mod:
 * P<year>.<mon>.<mday>.<hour>.<min>.<sec> with the unit's field divided by mod */
static void print_period(const char *stamp)
{
	size_t n = strlen(stamp);
	size_t tail = g_unit == 's' ? 7 : g_unit == 'm' ? 5 : g_unit == 'h' ? 3 : 0;
	long f[6] = {0, 0, 0, 0, 0, 0}; /* year mon mday hour min sec */
	if (n < tail + 5) { printf("P?"); return; }
	if (tail && stamp[n - tail] != 'T') { printf("P?"); return; }
	size_t dlen = n - tail;          /* <year><MM><DD> */
	for (size_t i = 0; i < n; i++) {
		if (tail && i == n - tail) continue;      /* the 'T' checked above */
		if (stamp[i] >= '0' && stamp[i] <= '9') continue;
		if (i == 0 && stamp[i] == '-') continue;
		printf("P?");
		return;
	}
	char tmp[32];
	snprintf(tmp, sizeof(tmp), "%.*s", (int)(dlen - 4), stamp); f[0] = atol(tmp);
	snprintf(tmp, sizeof(tmp), "%.2s", stamp + dlen - 4); f[1] = atol(tmp);
	snprintf(tmp, sizeof(tmp), "%.2s", stamp + dlen - 2); f[2] = atol(tmp);
	for (size_t k = 0; k + 1 < tail; k += 2) {
		snprintf(tmp, sizeof(tmp), "%.2s", stamp + dlen + 1 + k); f[3 + k / 2] = atol(tmp);
	}
	int ui = g_unit == 's' ? 5 : g_unit == 'm' ? 4 : g_unit == 'h' ? 3 : 2;
	f[ui] /= (long)g_mod;
	printf("P%ld.%ld.%ld.%ld.%ld.%ld", f[0], f[1], f[2], f[3], f[4], f[5]);
}

static void set_tz(long minutes_east)
{
	char buf[64];
	if (minutes_east == 0) snprintf(buf, sizeof(buf), "UTC0");
	else {
		long a = minutes_east < 0 ? -minutes_east : minutes_east;
		/* POSIX: the offset is what must be ADDED to local time to get UTC */
		snprintf(buf, sizeof(buf), "VHT%c%ld:%02ld", minutes_east > 0 ? '-' : '+', a / 60, a % 60);
	}
	setenv("TZ", buf, 1);
	tzset();
}

/* ---- protocol ------------------------------------------------------------ */
static void ensure_root(void)
{
	if (g_have_root) return;
	const char *base = getenv("VH_SCRATCH");
	if (!base || !*base) base = "/verif/.build/C17/scratch";
	char cmd[700];
	snprintf(cmd, sizeof(cmd), "mkdir -p '%s'", base);
	if (system(cmd) != 0) { fprintf(stderr, "cannot create %s\n", base); exit(3); }
	snprintf(g_root, sizeof(g_root), "%s/p%d", base, (int)getpid());
	mkdir(g_root, 0700);
	snprintf(g_dir, sizeof(g_dir), "%s/d", g_root);
	g_have_root = 1;
	atexit(cleanup_root);
	init_fmt(&g_fmt, 0, vh_fmt);
}

static void vh_reset(void)
{
	ensure_root();
	close_handler();
	if (chdir("/") != 0) exit(3);
	rm_all();
	g_next_id = 0;
	g_bc = 0;
	g_unit = 's';
	g_mod = 1;
	g_clock = 0;
	g_nents = 0;
	set_tz(0);
}

static const char *log_path(int rel)
{
	static char p[1200];
	if (rel) {
		if (chdir(g_root) != 0) exit(3);
		snprintf(p, sizeof(p), "d/" BASE);
	} else {
		snprintf(p, sizeof(p), "%s/" BASE, g_dir);
	}
	return p;
}

static int new_line(int len, char *buf)
{
	if (g_next_id >= MAX_ID || len < 3 || len > 4090) return -1;
	int id = g_next_id++;
	g_len[id] = len;
	make_line(id, len, buf);
	return id;
}

static void vh_op(int argc, char **argv)
{
	const char *op = argv[0];
	static char buf[8192];
	if (strcmp(op, "pre") == 0 && argc >= 2) {
		if (g_kind) { printf("bad-op\n"); return; }
		char p[1200];
		mkdir(g_dir, 0700);
		path_of_tag(argv[1], p, sizeof(p));
		for (int i = 2; i < argc; i++) {
			int len = (int)vh_ll(argv[i]);
			if (len < 3 || len > 4090) { printf("bad-op\n"); return; }
		}
		if (g_next_id + argc - 2 > MAX_ID) { printf("bad-op\n"); return; }
		FILE *f = fopen(p, "wb");
		if (!f) { printf("bad-op\n"); return; }
		for (int i = 2; i < argc; i++) {
			int len = (int)vh_ll(argv[i]);
			new_line(len, buf);
			fwrite(buf, 1, len, f);
		}
		fclose(f);
		printf("ok\n");
		return;
	}
	if (strcmp(op, "rinit") == 0 && argc >= 3) {
		if (g_kind) { printf("bad-op\n"); return; }
		unsigned mb = (unsigned)vh_ull(argv[1]), bc = (unsigned)vh_ull(argv[2]);
		int rel = argc >= 4 && strcmp(argv[3], "rel") == 0;
		int r = muggle_log_file_rotate_handler_init(&g_rh, log_path(rel), mb, bc);
		if (r != 0) { printf("fail\n"); return; }
		muggle_log_handler_set_fmt(&g_rh.handler, &g_fmt);
		g_kind = 1;
		g_bc = bc;
		printf("ok %ld\n", g_rh.offset);
		return;
	}
	if (strcmp(op, "w") == 0 && argc == 2) {
		if (g_kind != 1) { printf("closed\n"); return; }
		int len = (int)vh_ll(argv[1]);
		if (new_line(len, buf) < 0) { printf("bad-op\n"); return; }
		muggle_log_msg_t msg;
		memset(&msg, 0, sizeof(msg));
		msg.payload = buf;
		int ret = g_rh.handler.write(&g_rh.handler, &msg);
		printf("%d %ld\n", ret, g_rh.offset);
		return;
	}
	if (strcmp(op, "close") == 0) {
		if (!g_kind) { printf("bad-op\n"); return; }
		close_handler();
		printf("ok\n");
		return;
	}
	if (strcmp(op, "ls") == 0) {
		static ent_t ents[MAX_FILES];
		int n = scan(ents);
		printf("ls");
		for (int i = 0; i < n; i++) { printf(" "); print_lines(ents[i].tag, 1); }
		printf("\n");
		return;
	}
	if (strcmp(op, "view") == 0) {
		unsigned k = g_bc > 1 ? g_bc : 1;
		if (argc >= 2) k = (unsigned)vh_ull(argv[1]);
		printf("k=%u : ", k);
		char tag[32];
		for (unsigned i = k; i >= 1; i--) {
			snprintf(tag, sizeof(tag), "%u", i);
			print_lines(tag, 0);
			printf(" / ");
		}
		print_lines("L", 0);
		printf("\n");
		return;
	}
	if (strcmp(op, "tz") == 0 && argc == 2) { set_tz((long)vh_ll(argv[1])); printf("ok\n"); return; }
	if (strcmp(op, "clock") == 0 && argc == 2) { g_clock = (time_t)vh_ll(argv[1]); printf("ok\n"); return; }
	if (strcmp(op, "tinit") == 0 && argc >= 4) {
		if (g_kind) { printf("bad-op\n"); return; }
		char u = argv[1][0];
		unsigned mod = (unsigned)vh_ull(argv[2]);
		int loc = (int)vh_ll(argv[3]);
		int rel = argc >= 5 && strcmp(argv[4], "rel") == 0;
		if (strlen(argv[1]) != 1 || !strchr("smhd", u) || mod == 0) { printf("bad-op\n"); return; }
		int r = muggle_log_file_time_rot_handler_init(&g_th, log_path(rel), u, mod, loc != 0);
		if (r != 0) { printf("fail\n"); return; }
		muggle_log_handler_set_fmt(&g_th.handler, &g_fmt);
		g_kind = 2;
		g_unit = u;
		g_mod = mod;
		g_nents = scan(g_ents);
		/* fall through to print the open file */
		printf("ok ");
		op = "cur";
	}
	if (strcmp(op, "cur") == 0) {
		if (g_kind != 2 || !g_th.fp) { printf("-\n"); return; }
		char lnk[64], tgt[1200];
		snprintf(lnk, sizeof(lnk), "/proc/self/fd/%d", fileno(g_th.fp));
		ssize_t n = readlink(lnk, tgt, sizeof(tgt) - 1);
		if (n < 0) { printf("?\n"); return; }
		tgt[n] = 0;
		const char *b = strrchr(tgt, '/');
		b = b ? b + 1 : tgt;
		if (strncmp(b, BASE ".", strlen(BASE) + 1) == 0) printf("%s\n", b + strlen(BASE) + 1);
		else printf("?%s\n", b);
		return;
	}
	if (strcmp(op, "tw") == 0 && argc == 3) {
		if (g_kind != 2) { printf("closed\n"); return; }
		int len = (int)vh_ll(argv[2]);
		int id = new_line(len, buf);
		if (id < 0) { printf("bad-op\n"); return; }
		muggle_log_msg_t msg;
		memset(&msg, 0, sizeof(msg));
		msg.payload = buf;
		msg.ts.tv_sec = (time_t)vh_ll(argv[1]);
		int ret = g_th.handler.write(&g_th.handler, &msg);
		/* where did the line land?  the file that grew */
		static ent_t now[MAX_FILES];
		int n = scan(now), grew = -1, ngrew = 0;
		for (int i = 0; i < n; i++) {
			long before = 0;
			for (int j = 0; j < g_nents; j++)
				if (strcmp(g_ents[j].tag, now[i].tag) == 0) { before = g_ents[j].size; break; }
			if (now[i].size != before) { grew = i; ngrew++; }
		}
		printf("%d ", ret);
		if (ngrew == 0) printf("lost");
		else if (ngrew > 1) printf("multi");
		else {
			/* the tail of that file must be exactly the line */
			char p[1200];
			static char tail[8192];
			path_of_tag(now[grew].tag, p, sizeof(p));
			FILE *f = fopen(p, "rb");
			int good = 0;
			if (f && now[grew].size >= len && fseek(f, now[grew].size - len, SEEK_SET) == 0 &&
				fread(tail, 1, len, f) == (size_t)len && memcmp(tail, buf, len) == 0) good = 1;
			if (f) fclose(f);
			if (!good) printf("split");
			else print_period(now[grew].tag);
		}
		printf("\n");
		memcpy(g_ents, now, sizeof(ent_t) * n);
		g_nents = n;
		return;
	}
	printf("bad-op\n");
}

VH_MAIN()
