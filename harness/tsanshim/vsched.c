/* See vsched.h. Compiled WITHOUT -fsanitize=thread. Link with:
 *   -Wl,--wrap=syscall -Wl,--wrap=pthread_mutex_lock -Wl,--wrap=pthread_mutex_unlock
 *   -Wl,--wrap=pthread_mutex_trylock -Wl,--wrap=pthread_cond_wait -Wl,--wrap=pthread_cond_timedwait
 *   -Wl,--wrap=pthread_cond_signal -Wl,--wrap=pthread_cond_broadcast -Wl,--wrap=sched_yield
 */
#define _GNU_SOURCE
#include "vsched.h"
#include <errno.h>
#include <limits.h>
#include <linux/futex.h>
#include <pthread.h>
#include <sched.h>
#include <stdarg.h>
#include <stdlib.h>
#include <string.h>
#include <sys/syscall.h>
#include <time.h>
#include <unistd.h>

int __real_pthread_mutex_lock(pthread_mutex_t *);
int __real_pthread_mutex_unlock(pthread_mutex_t *);
int __real_pthread_mutex_trylock(pthread_mutex_t *);
int __real_pthread_cond_wait(pthread_cond_t *, pthread_mutex_t *);
int __real_pthread_cond_timedwait(pthread_cond_t *, pthread_mutex_t *, const struct timespec *);
int __real_pthread_cond_signal(pthread_cond_t *);
int __real_pthread_cond_broadcast(pthread_cond_t *);
int __real_sched_yield(void);
long __real_syscall(long, ...);

#define MAXT 32
#define MAXREG 64
#define MAXNAMES 4096
#define MAXMTX 64

enum { W_NONE, W_MUTEX, W_FUTEX, W_CV, W_DONE };

typedef struct T {
	int tid;
	pthread_t th;
	pthread_cond_t cv;
	int go;
	int wait_kind;
	void *wait_obj;           /* mutex / futex word / condvar */
	void *cv_mutex;           /* mutex to re-acquire after a condvar wait */
	int spinning;
	int woke_spurious;
	int flag_spurious;        /* set by the chooser for this step */
	int arrived;              /* reached its first scheduling point (or finished) */
	vs_fn fn;
	void *arg;
	/* spin detection */
	void *last_ld_addr;
	uint64_t last_ld_val;
	int same_loads;
	/* pending plain write to finalise */
	int pend_ev;
	void *pend_addr;
	int pend_size;
	int prio;
	/* crash injection (vs_kill_after): never scheduled again once steps_taken reaches kill_after */
	long steps_taken;
	long kill_after;          /* < 0: never killed */
	long ops_done;            /* vs_op_done() calls: whole operations of the client program completed */
	long last_run;            /* value of `steps` when this thread was last scheduled */
} T;

typedef struct { char name[48]; char *ptr; size_t size; size_t elem; int weak; } Reg;
typedef struct { uint64_t v; char name[24]; } ValName;
typedef struct { void *m; int owner; } Mtx;

static pthread_mutex_t G = PTHREAD_MUTEX_INITIALIZER;
static pthread_cond_t main_cv = PTHREAD_COND_INITIALIZER;
static T *threads[MAXT];
static int nthreads;
static Reg regs[MAXREG];
static int nregs;
static ValName valnames[MAXNAMES];
static int nvalnames;
static Mtx mtxs[MAXMTX];
static int nmtx;
static __thread T *self;

static char **events;
static int nevents, cap_events;
static char *sched_buf;
static size_t sched_len, sched_cap;

static int policy;               /* 0 random, 1 pct, 2 replay, 3 prefix then non-preemptive,
                                   * 4 operation sequence (each token: run that thread for one whole operation),
                                   *   then as 3 */
static int opseq_tid = -1; static long opseq_target; static long opseq_steps = -1;
static long opseq_op_steps;      /* steps of the current operation (an operation that retries for ever ends the sequence) */
static int trace_enabled;         /* record the enabled set of every step (for systematic exploration) */
static uint32_t *en_masks; static long n_en_masks, cap_en_masks;
static int last_tid = -1;
static uint64_t rng_state = 88172645463325252ULL;
static int pct_depth;
static long pct_cp[16];
static char *replay_str;
static char *replay_pos;
static int cas_permille, cv_permille, fx_permille;   /* fx: spurious futex return (EINTR) */
static int fx_left;           /* interruptions still allowed in this run (signals are finite: a schedule in
                               * which a sleeper is interrupted for ever is not a lost wake-up) */
static long max_steps = 20000, steps, forced_spin, last_steps = 300;
static int status, finished, starting;

static uint64_t rnd(void)
{
	uint64_t x = rng_state;
	x ^= x << 13; x ^= x >> 7; x ^= x << 17;
	return rng_state = x;
}

/* ------------------------------------------------------------------ utils */
static void ev_add(const char *fmt, ...)
{
	char buf[256];
	va_list ap;
	va_start(ap, fmt);
	vsnprintf(buf, sizeof buf, fmt, ap);
	va_end(ap);
	if (nevents == cap_events) {
		cap_events = cap_events ? cap_events * 2 : 1024;
		events = (char **)realloc(events, sizeof(char *) * cap_events);
	}
	events[nevents++] = strdup(buf);
}

static void sched_add(int tid, int flag)
{
	char b[16];
	int n = snprintf(b, sizeof b, "%s%d%s", sched_len ? " " : "", tid,
					 flag == 1 ? "!" : flag == 2 ? "~" : "");
	if (sched_len + n + 1 > sched_cap) {
		sched_cap = sched_cap ? sched_cap * 2 : 4096;
		sched_buf = (char *)realloc(sched_buf, sched_cap);
	}
	memcpy(sched_buf + sched_len, b, n + 1);
	sched_len += n;
}

static Reg *find_reg(const void *p)
{
	const char *c = (const char *)p;
	for (int i = 0; i < nregs; i++)
		if (c >= regs[i].ptr && c < regs[i].ptr + regs[i].size)
			return &regs[i];
	return NULL;
}

static void loc_name(char *out, size_t n, const void *p)
{
	Reg *r = find_reg(p);
	if (!r) { snprintf(out, n, "?"); return; }
	size_t off = (const char *)p - r->ptr;
	if (r->elem == 0) {
		if (off == 0) snprintf(out, n, "%s", r->name);
		else snprintf(out, n, "%s+%zu", r->name, off);
	} else {
		size_t i = off / r->elem, o = off % r->elem;
		if (o == 0) snprintf(out, n, "%s[%zu]", r->name, i);
		else snprintf(out, n, "%s[%zu]+%zu", r->name, i, o);
	}
}

static void val_name(char *out, size_t n, uint64_t v, int size)
{
	if (size == 8) {
		for (int i = 0; i < nvalnames; i++)
			if (valnames[i].v == v) { snprintf(out, n, "%s", valnames[i].name); return; }
		if (v == 0) { snprintf(out, n, "0"); return; }
		/* a pointer into a registered region prints as its location */
		if (find_reg((void *)(uintptr_t)v)) {
			char b[96]; loc_name(b, sizeof b, (void *)(uintptr_t)v);
			snprintf(out, n, "&%s", b); return;
		}
		snprintf(out, n, "%lld", (long long)v);
	} else if (size == 4) snprintf(out, n, "%d", (int)(int32_t)v);
	else if (size == 2) snprintf(out, n, "%d", (int)(int16_t)v);
	else snprintf(out, n, "%d", (int)(int8_t)v);
}

static uint64_t mem_read(const void *p, int size)
{
	switch (size) {
	case 1: return *(const volatile uint8_t *)p;
	case 2: return *(const volatile uint16_t *)p;
	case 4: return *(const volatile uint32_t *)p;
	default: return *(const volatile uint64_t *)p;
	}
}

static const char *mo_name(int mo)
{
	static const char *n[] = { "rlx", "con", "acq", "rel", "ar", "sc" };
	return (mo >= 0 && mo <= 5) ? n[mo] : "?";
}

static Mtx *mtx_get(void *m)
{
	for (int i = 0; i < nmtx; i++)
		if (mtxs[i].m == m) return &mtxs[i];
	if (nmtx == MAXMTX) { fprintf(stderr, "vsched: too many mutexes\n"); abort(); }
	mtxs[nmtx].m = m; mtxs[nmtx].owner = -1;
	return &mtxs[nmtx++];
}

static void obj_name(char *out, size_t n, void *p, const char *dflt)
{
	if (find_reg(p)) loc_name(out, n, p);
	else snprintf(out, n, "%s", dflt);
}

/* --------------------------------------------------------------- scheduler */
static int enabled(T *t)
{
	switch (t->wait_kind) {
	case W_NONE: return 1;
	case W_MUTEX: return mtx_get(t->wait_obj)->owner == -1;
	default: return 0;
	}
}

/* a killed thread counts as finished: it stays parked for ever (process death) */
static int killed(T *t) { return t->kill_after >= 0 && t->steps_taken >= t->kill_after; }

static void finalize_pending(T *t)
{
	if (t->pend_ev >= 0) {
		char v[64], buf[256];
		val_name(v, sizeof v, mem_read(t->pend_addr, t->pend_size), t->pend_size);
		snprintf(buf, sizeof buf, "%s %s", events[t->pend_ev], v);
		free(events[t->pend_ev]);
		events[t->pend_ev] = strdup(buf);
		t->pend_ev = -1;
	}
}

static void unspin_all(void)
{
	for (int i = 0; i < nthreads; i++) {
		threads[i]->spinning = 0;
		threads[i]->same_loads = 0;
		threads[i]->last_ld_addr = NULL;
	}
	forced_spin = 0;
}

static void end_run(int st)
{
	if (!finished) {
		finished = 1;
		status = st;
		__real_pthread_cond_signal(&main_cv);
	}
}

/* choose the next thread to run and hand it the baton. Called with G held. */
static void pick_next(void)
{
	if (finished) return;
	T *en[MAXT], *ns[MAXT];
	int ne = 0, nn = 0, ndone = 0;
	for (int i = 0; i < nthreads; i++) {
		T *t = threads[i];
		if (t->wait_kind == W_DONE || killed(t)) { ndone++; continue; }
		if (enabled(t)) { en[ne++] = t; if (!t->spinning) ns[nn++] = t; }
	}
	if (ndone == nthreads) { end_run(VS_OK); return; }
	T *n = NULL;
	int flag = 0;
	if (trace_enabled) {
		uint32_t m = 0;   /* the candidates of this step: enabled, not spinning (all enabled if none) */
		for (int i = 0; i < (nn ? nn : ne); i++) m |= 1u << (nn ? ns : en)[i]->tid;
		if (n_en_masks == cap_en_masks) {
			cap_en_masks = cap_en_masks ? cap_en_masks * 2 : 1024;
			en_masks = (uint32_t *)realloc(en_masks, sizeof(uint32_t) * cap_en_masks);
		}
		en_masks[n_en_masks++] = m;
	}
	if (policy == 4) {
		/* operation-atomic prefix: reaches deep states (several laps of a ring, a drained pool ...)
		 * from which the step-level exploration then starts */
		for (;;) {
			if (opseq_tid >= 0) {
				T *t = threads[opseq_tid];
				if (t->wait_kind == W_DONE || killed(t) || t->ops_done >= opseq_target) { opseq_tid = -1; continue; }
				/* (the spin heuristic — equal loads in a row — is not consulted: straight-line code that
				 * reads one field three times would end the sequence; endless retries end it by count) */
				if (enabled(t) && ++opseq_op_steps <= 400) { n = t; break; }
				/* blocked (or spinning on a condition only another thread can change, or retrying
				 * without end) inside the operation: the sequence cannot be followed any further */
				opseq_steps = steps; policy = 3; replay_pos = NULL; break;
			}
			while (replay_pos && *replay_pos == ' ') replay_pos++;
			char *e = NULL;
			long tid = (replay_pos && *replay_pos) ? strtol(replay_pos, &e, 10) : -1;
			if (tid < 0 || tid >= nthreads || e == replay_pos) { opseq_steps = steps; policy = 3; replay_pos = NULL; break; }
			replay_pos = e;
			opseq_tid = (int)tid; opseq_target = threads[tid]->ops_done + 1; opseq_op_steps = 0;
		}
	}
	int use_replay = (policy == 2) && !n;
	if (policy == 3 && !n) {
		while (replay_pos && *replay_pos == ' ') replay_pos++;
		use_replay = replay_pos && *replay_pos;
	}
	if (use_replay) {
		/* a token that does not fit the tree ends a replay; a prefix (policy 3) is simply dropped
		 * from there on and the run continues non-preemptively */
		int fits = 1;
		while (replay_pos && *replay_pos == ' ') replay_pos++;
		if (!replay_pos || !*replay_pos) fits = 0;
		char *e = NULL;
		long tid = -1;
		if (fits) {
			tid = strtol(replay_pos, &e, 10);
			if (e == replay_pos || tid < 0 || tid >= nthreads) fits = 0;
		}
		if (fits) {
			if (*e == '!') { flag = 1; e++; } else if (*e == '~') { flag = 2; e++; }
			n = threads[tid];
			if (flag == 2) {
				if (!(n->wait_kind == W_CV && mtx_get(n->cv_mutex)->owner == -1) && n->wait_kind != W_FUTEX) fits = 0;
			} else if (!enabled(n) || killed(n)) fits = 0;
		}
		if (fits) replay_pos = e;
		else if (policy == 3) { replay_pos = NULL; use_replay = 0; n = NULL; flag = 0; }
		else if (ne == 0 && !(replay_pos && *replay_pos)) {
			/* the recorded schedule ends here and nobody can run: the recorded run ended in this deadlock */
			end_run(VS_DEADLOCK); return;
		}
		else { end_run(VS_REPLAY_DIVERGED); return; }
	}
	if (use_replay || n) {
		/* n, flag chosen above */
	} else {
		if (ne == 0) {
			/* maybe a spurious condvar wake-up is the only way on: not a real way out */
			end_run(VS_DEADLOCK);
			return;
		}
		/* spurious condvar wake-up */
		if (cv_permille > 0 && (int)(rnd() % 1000) < cv_permille) {
			T *c[MAXT]; int nc = 0;
			for (int i = 0; i < nthreads; i++)
				if (threads[i]->wait_kind == W_CV && mtx_get(threads[i]->cv_mutex)->owner == -1)
					c[nc++] = threads[i];
			if (nc) { n = c[rnd() % nc]; flag = 2; }
		}
		/* spurious return of a futex wait (signal without SA_RESTART: -1/EINTR, value unchanged) */
		if (!n && fx_permille > 0 && fx_left > 0 && (int)(rnd() % 1000) < fx_permille) {
			T *c[MAXT]; int nc = 0;
			for (int i = 0; i < nthreads; i++)
				if (threads[i]->wait_kind == W_FUTEX && !killed(threads[i])) c[nc++] = threads[i];
			if (nc) { n = c[rnd() % nc]; flag = 2; fx_left--; }
		}
		if (!n) {
			T **set = nn ? ns : en;
			int cnt = nn ? nn : ne;
			if (!nn) {
				if (++forced_spin > 3000) { end_run(VS_LIVELOCK); return; }
			}
			if (!nn && policy == 3) {
				/* only spinning threads are runnable: a spin flag may be stale (set by the last
				 * yield / repeated load of a loop that has since become able to exit), so take
				 * turns (round-robin by tid) instead of re-running the same thread for ever */
				n = NULL;
				for (int i = 0; i < cnt; i++)
					if (set[i]->tid > last_tid && (!n || set[i]->tid < n->tid)) n = set[i];
				if (!n) { n = set[0]; for (int i = 1; i < cnt; i++) if (set[i]->tid < n->tid) n = set[i]; }
			} else if (policy == 3) {
				/* non-preemptive continuation: keep running the last thread while it can */
				n = NULL;
				for (int i = 0; i < cnt; i++) if (set[i]->tid == last_tid) n = set[i];
				/* otherwise the candidate that has not run for the longest time (lowest tid among
				 * equals): with "lowest tid first" two retrying threads that yield to each other
				 * starve a third one for ever */
				if (!n) {
					n = set[0];
					for (int i = 1; i < cnt; i++)
						if (set[i]->last_run < n->last_run || (set[i]->last_run == n->last_run && set[i]->tid < n->tid)) n = set[i];
				}
			} else if (policy == 1) {
				for (int k = 0; k < pct_depth; k++)
					if (pct_cp[k] == steps) {
						/* demote the thread that ran last */
						if (self) self->prio = -1 - k;
					}
				n = set[0];
				for (int i = 1; i < cnt; i++) if (set[i]->prio > n->prio) n = set[i];
				/* only spinning threads runnable: priorities would starve the one whose flag is stale */
				if (!nn) n = set[rnd() % cnt];
			} else {
				n = set[rnd() % cnt];
			}
		}
	}
	if (++steps > max_steps) { end_run(VS_STEP_LIMIT); return; }
	if (flag == 2 && n->wait_kind == W_FUTEX) {
		/* the futex wait returns -1/EINTR although nobody woke it */
		n->wait_kind = W_NONE;
		n->woke_spurious = 1;
	} else if (flag == 2) {
		/* spurious wake: behaves as if signalled */
		n->wait_kind = W_MUTEX;
		n->wait_obj = n->cv_mutex;
		n->woke_spurious = 1;
	}
	n->flag_spurious = (flag == 1);
	n->steps_taken++;
	n->last_run = steps;
	last_tid = n->tid;
	sched_add(n->tid, flag);
	n->go = 1;
	__real_pthread_cond_signal(&n->cv);
}

/* park the calling managed thread until it is chosen. G held. */
static void wait_turn(T *me)
{
	while (!me->go) __real_pthread_cond_wait(&me->cv, &G);
	me->go = 0;
}

/* A scheduling point before a visible operation whose precondition has been
 * stored in me->wait_kind/wait_obj. Returns when `me` was chosen. */
static void sched_point(T *me)
{
	__real_pthread_mutex_lock(&G);
	finalize_pending(me);
	if (starting && !me->arrived) {
		me->arrived = 1;
		__real_pthread_cond_signal(&main_cv);
	} else {
		pick_next();
	}
	wait_turn(me);
	__real_pthread_mutex_unlock(&G);
}

static void *thread_main(void *p)
{
	T *me = (T *)p;
	self = me;
	__real_pthread_mutex_lock(&G);
	wait_turn(me);               /* main lets us run the prologue */
	__real_pthread_mutex_unlock(&G);
	me->fn(me->arg);
	__real_pthread_mutex_lock(&G);
	finalize_pending(me);
	me->wait_kind = W_DONE;
	if (starting && !me->arrived) {
		me->arrived = 1;
		__real_pthread_cond_signal(&main_cv);
	} else {
		pick_next();
	}
	__real_pthread_mutex_unlock(&G);
	self = NULL;
	return NULL;
}

/* --------------------------------------------------------------- public API */
void vs_reset(void)
{
	for (int i = 0; i < nevents; i++) free(events[i]);
	nevents = 0;
	sched_len = 0;
	if (sched_buf) sched_buf[0] = 0;
	nregs = 0; nvalnames = 0; nmtx = 0;
	nthreads = 0;                 /* T structs of earlier runs are leaked on purpose (parked threads) */
	steps = 0; forced_spin = 0; status = 0; finished = 0;
	cas_permille = 0; cv_permille = 0; fx_permille = 0;
	max_steps = 20000;
	policy = 0;
	free(replay_str); replay_str = NULL; replay_pos = NULL;
	trace_enabled = 0; n_en_masks = 0; last_tid = -1;
	opseq_tid = -1; opseq_steps = -1;
}

void vs_reg(const char *name, void *ptr, size_t size, size_t elem)
{
	if (nregs == MAXREG) { fprintf(stderr, "vsched: too many regions\n"); abort(); }
	Reg *r = &regs[nregs++];
	snprintf(r->name, sizeof r->name, "%s", name);
	r->ptr = (char *)ptr; r->size = size; r->elem = elem; r->weak = 0;
}

void vs_name_val(uint64_t v, const char *name)
{
	if (nvalnames == MAXNAMES) return;
	valnames[nvalnames].v = v;
	snprintf(valnames[nvalnames].name, sizeof valnames[nvalnames].name, "%s", name);
	nvalnames++;
}

void vs_weak_cas(const char *region_name)
{
	for (int i = 0; i < nregs; i++)
		if (strcmp(regs[i].name, region_name) == 0) regs[i].weak = 1;
}

int vs_spawn(vs_fn fn, void *arg)
{
	if (nthreads == MAXT) { fprintf(stderr, "vsched: too many threads\n"); abort(); }
	T *t = (T *)calloc(1, sizeof(T));
	t->tid = nthreads; t->fn = fn; t->arg = arg; t->pend_ev = -1; t->kill_after = -1;
	pthread_cond_init(&t->cv, NULL);
	threads[nthreads++] = t;
	return t->tid;
}

void vs_policy_random(uint64_t seed) { policy = 0; rng_state = seed * 2654435761ULL + 88172645463325252ULL; rnd(); rnd(); }
void vs_policy_pct(uint64_t seed, int depth)
{
	vs_policy_random(seed);
	policy = 1;
	pct_depth = depth > 16 ? 16 : depth;
}
void vs_policy_replay(const char *schedule)
{
	policy = 2;
	free(replay_str);
	replay_str = strdup(schedule);
	replay_pos = replay_str;
}
void vs_policy_prefix(const char *schedule)
{
	vs_policy_replay(schedule);
	policy = 3;
}
void vs_policy_opseq(const char *ops)
{
	vs_policy_replay(ops);
	policy = 4; opseq_tid = -1; opseq_steps = -1;
}
void vs_op_done(void) { if (self) { __real_pthread_mutex_lock(&G); self->ops_done++; __real_pthread_mutex_unlock(&G); } }
void vs_trace_enabled(int on) { trace_enabled = on; }
void vs_set_spurious(int c, int v) { cas_permille = c; cv_permille = v; }
void vs_set_spurious_futex(int f) { fx_permille = f; fx_left = 8; }
void vs_set_max_steps(long n) { max_steps = n; }
void vs_kill_after(int tid, long k) { if (tid >= 0 && tid < nthreads) threads[tid]->kill_after = k; }

int vs_run(void)
{
	pthread_attr_t at;
	pthread_attr_init(&at);
	pthread_attr_setstacksize(&at, 256 * 1024);
	if (policy == 1) {
		/* distinct random priorities, change points within the expected length */
		for (int i = 0; i < nthreads; i++) threads[i]->prio = 100 + i;
		for (int i = nthreads - 1; i > 0; i--) {
			int j = rnd() % (i + 1);
			int p = threads[i]->prio; threads[i]->prio = threads[j]->prio; threads[j]->prio = p;
		}
		long horizon = last_steps > 20 ? last_steps : 20;
		for (int k = 0; k < pct_depth; k++) pct_cp[k] = 1 + rnd() % horizon;
	}
	__real_pthread_mutex_lock(&G);
	starting = 1;
	for (int i = 0; i < nthreads; i++) {
		T *t = threads[i];
		pthread_create(&t->th, &at, thread_main, t);
		pthread_detach(t->th);
		t->go = 1;
		__real_pthread_cond_signal(&t->cv);
		while (!t->arrived) __real_pthread_cond_wait(&main_cv, &G);
	}
	starting = 0;
	pick_next();
	while (!finished) __real_pthread_cond_wait(&main_cv, &G);
	last_steps = steps;
	__real_pthread_mutex_unlock(&G);
	pthread_attr_destroy(&at);
	return status;
}

const char *vs_status_name(int st)
{
	static const char *n[] = { "ok", "deadlock", "step-limit", "replay-diverged", "livelock" };
	return (st >= 0 && st <= 4) ? n[st] : "?";
}

void vs_print(FILE *f)
{
	fprintf(f, "schedule %s\n", sched_len ? sched_buf : "");
	if (opseq_steps >= 0) fprintf(f, "#opseq-steps %ld\n", opseq_steps);
	if (trace_enabled) {
		fprintf(f, "#enabled");
		for (long i = 0; i < n_en_masks; i++) fprintf(f, " %x", en_masks[i]);
		fprintf(f, "\n");
	}
	for (int i = 0; i < nevents; i++) fprintf(f, "%s\n", events[i]);
	if (status == VS_DEADLOCK) {
		for (int i = 0; i < nthreads; i++) {
			T *t = threads[i];
			char o[96] = "-";
			if (t->wait_obj) obj_name(o, sizeof o, t->wait_obj, "obj");
			fprintf(f, "state T%d %s %s\n", t->tid,
					t->wait_kind == W_DONE ? "done" : t->wait_kind == W_FUTEX ? "futex" :
					t->wait_kind == W_CV ? "cv" : t->wait_kind == W_MUTEX ? "mutex" : "ready",
					o);
		}
	}
	if (status == VS_LIVELOCK) fprintf(f, "# livelock: only spinning threads were runnable for too long\n");
	fprintf(f, "end %s steps=%ld\n", status == VS_LIVELOCK ? "step-limit" : vs_status_name(status), steps);
}

int vs_self_tid(void) { return self ? self->tid : -1; }

void vs_note(const char *fmt, ...)
{
	char buf[200];
	va_list ap;
	va_start(ap, fmt);
	vsnprintf(buf, sizeof buf, fmt, ap);
	va_end(ap);
	T *me = self;
	__real_pthread_mutex_lock(&G);
	if (me) finalize_pending(me);
	ev_add("T%d note %s", me ? me->tid : -1, buf);
	__real_pthread_mutex_unlock(&G);
}

void vs_step(const char *fmt, ...)
{
	char buf[200];
	va_list ap;
	va_start(ap, fmt);
	vsnprintf(buf, sizeof buf, fmt, ap);
	va_end(ap);
	T *me = self;
	if (!me) return;
	me->wait_kind = W_NONE;
	sched_point(me);
	__real_pthread_mutex_lock(&G);
	ev_add("T%d note %s", me->tid, buf);
	__real_pthread_mutex_unlock(&G);
}

/* ------------------------------------------------------------ memory events */
static void note_load(T *me, void *addr, uint64_t v)
{
	if (me->last_ld_addr == addr && me->last_ld_val == v) {
		if (++me->same_loads >= 2) me->spinning = 1;
	} else {
		me->last_ld_addr = addr; me->last_ld_val = v; me->same_loads = 0;
	}
}

static void note_write(T *me, int changed)
{
	me->last_ld_addr = NULL;
	me->same_loads = 0;
	if (changed) unspin_all();
}

static inline int managed(const void *addr)
{
	return self != NULL && !finished && find_reg(addr) != NULL;
}

static void plain_access(void *addr, int size, int is_write)
{
	if (!managed(addr)) return;
	T *me = self;
	me->wait_kind = W_NONE;
	sched_point(me);
	char loc[96], v[64];
	loc_name(loc, sizeof loc, addr);
	__real_pthread_mutex_lock(&G);
	if (is_write) {
		ev_add("T%d w %s", me->tid, loc);
		me->pend_ev = nevents - 1; me->pend_addr = addr; me->pend_size = size;
		note_write(me, 1);
	} else {
		uint64_t x = mem_read(addr, size);
		val_name(v, sizeof v, x, size);
		ev_add("T%d r %s %s", me->tid, loc, v);
		note_load(me, addr, x);
	}
	__real_pthread_mutex_unlock(&G);
}

void __tsan_init(void) {}
void __tsan_func_entry(void *pc) { (void)pc; }
void __tsan_func_exit(void) {}
void __tsan_read1(void *a) { plain_access(a, 1, 0); }
void __tsan_read2(void *a) { plain_access(a, 2, 0); }
void __tsan_read4(void *a) { plain_access(a, 4, 0); }
void __tsan_read8(void *a) { plain_access(a, 8, 0); }
void __tsan_read16(void *a) { plain_access(a, 8, 0); }
void __tsan_write1(void *a) { plain_access(a, 1, 1); }
void __tsan_write2(void *a) { plain_access(a, 2, 1); }
void __tsan_write4(void *a) { plain_access(a, 4, 1); }
void __tsan_write8(void *a) { plain_access(a, 8, 1); }
void __tsan_write16(void *a) { plain_access(a, 8, 1); }
void __tsan_unaligned_read2(void *a) { plain_access(a, 2, 0); }
void __tsan_unaligned_read4(void *a) { plain_access(a, 4, 0); }
void __tsan_unaligned_read8(void *a) { plain_access(a, 8, 0); }
void __tsan_unaligned_write2(void *a) { plain_access(a, 2, 1); }
void __tsan_unaligned_write4(void *a) { plain_access(a, 4, 1); }
void __tsan_unaligned_write8(void *a) { plain_access(a, 8, 1); }
void __tsan_read_range(void *a, unsigned long n) { (void)a; (void)n; }
void __tsan_write_range(void *a, unsigned long n) { (void)a; (void)n; }
void __tsan_vptr_update(void **a, void *b) { (void)a; (void)b; }
void __tsan_vptr_read(void **a) { (void)a; }
void __tsan_atomic_thread_fence(int mo)
{
	T *me = self;
	if (me && !finished) {
		me->wait_kind = W_NONE;
		sched_point(me);
		__real_pthread_mutex_lock(&G);
		ev_add("T%d fence %s", me->tid, mo_name(mo));
		__real_pthread_mutex_unlock(&G);
	}
	__atomic_thread_fence(__ATOMIC_SEQ_CST);
}
void __tsan_atomic_signal_fence(int mo) { (void)mo; __atomic_signal_fence(__ATOMIC_SEQ_CST); }

#define ATOMIC_OPS(N, TY, SZ) \
TY __tsan_atomic##N##_load(const volatile TY *a, int mo) { \
	if (!managed((const void *)a)) return __atomic_load_n(a, __ATOMIC_SEQ_CST); \
	T *me = self; me->wait_kind = W_NONE; sched_point(me); \
	TY v = __atomic_load_n(a, __ATOMIC_SEQ_CST); \
	char loc[96], vs[64]; loc_name(loc, sizeof loc, (const void *)a); val_name(vs, sizeof vs, (uint64_t)v, SZ); \
	__real_pthread_mutex_lock(&G); ev_add("T%d ld %s %s %s", me->tid, loc, vs, mo_name(mo)); \
	note_load(me, (void *)a, (uint64_t)v); __real_pthread_mutex_unlock(&G); return v; } \
void __tsan_atomic##N##_store(volatile TY *a, TY v, int mo) { \
	if (!managed((const void *)a)) { __atomic_store_n(a, v, __ATOMIC_SEQ_CST); return; } \
	T *me = self; me->wait_kind = W_NONE; sched_point(me); \
	TY old = __atomic_exchange_n(a, v, __ATOMIC_SEQ_CST); \
	char loc[96], vs[64]; loc_name(loc, sizeof loc, (const void *)a); val_name(vs, sizeof vs, (uint64_t)v, SZ); \
	__real_pthread_mutex_lock(&G); ev_add("T%d st %s %s %s", me->tid, loc, vs, mo_name(mo)); \
	note_write(me, old != v); __real_pthread_mutex_unlock(&G); } \
TY __tsan_atomic##N##_exchange(volatile TY *a, TY v, int mo) { \
	if (!managed((const void *)a)) return __atomic_exchange_n(a, v, __ATOMIC_SEQ_CST); \
	T *me = self; me->wait_kind = W_NONE; sched_point(me); \
	TY old = __atomic_exchange_n(a, v, __ATOMIC_SEQ_CST); \
	char loc[96], vs[64], os[64]; loc_name(loc, sizeof loc, (const void *)a); \
	val_name(vs, sizeof vs, (uint64_t)v, SZ); val_name(os, sizeof os, (uint64_t)old, SZ); \
	__real_pthread_mutex_lock(&G); ev_add("T%d xchg %s %s->%s %s", me->tid, loc, os, vs, mo_name(mo)); \
	if (old == v) note_load(me, (void *)a, (uint64_t)old); else note_write(me, 1); \
	__real_pthread_mutex_unlock(&G); return old; } \
static TY rmw##N(volatile TY *a, TY v, int mo, int op, const char *nm) { \
	int m = managed((const void *)a); T *me = self; \
	if (m) { me->wait_kind = W_NONE; sched_point(me); } \
	TY old; \
	switch (op) { case 0: old = __atomic_fetch_add(a, v, __ATOMIC_SEQ_CST); break; \
		case 1: old = __atomic_fetch_sub(a, v, __ATOMIC_SEQ_CST); break; \
		case 2: old = __atomic_fetch_and(a, v, __ATOMIC_SEQ_CST); break; \
		case 3: old = __atomic_fetch_or(a, v, __ATOMIC_SEQ_CST); break; \
		default: old = __atomic_fetch_xor(a, v, __ATOMIC_SEQ_CST); break; } \
	if (m) { char loc[96], vs[64], os[64]; loc_name(loc, sizeof loc, (const void *)a); \
		val_name(vs, sizeof vs, (uint64_t)v, SZ); val_name(os, sizeof os, (uint64_t)old, SZ); \
		__real_pthread_mutex_lock(&G); ev_add("T%d %s %s %s %s %s", me->tid, nm, loc, os, vs, mo_name(mo)); \
		note_write(me, 1); __real_pthread_mutex_unlock(&G); } \
	return old; } \
TY __tsan_atomic##N##_fetch_add(volatile TY *a, TY v, int mo) { return rmw##N(a, v, mo, 0, "fadd"); } \
TY __tsan_atomic##N##_fetch_sub(volatile TY *a, TY v, int mo) { return rmw##N(a, v, mo, 1, "fsub"); } \
TY __tsan_atomic##N##_fetch_and(volatile TY *a, TY v, int mo) { return rmw##N(a, v, mo, 2, "fand"); } \
TY __tsan_atomic##N##_fetch_or(volatile TY *a, TY v, int mo) { return rmw##N(a, v, mo, 3, "for"); } \
TY __tsan_atomic##N##_fetch_xor(volatile TY *a, TY v, int mo) { return rmw##N(a, v, mo, 4, "fxor"); } \
static int cas##N(volatile TY *a, TY *c, TY v, int mo, int fmo) { \
	(void)fmo; \
	if (!managed((const void *)a)) \
		return __atomic_compare_exchange_n(a, c, v, 0, __ATOMIC_SEQ_CST, __ATOMIC_SEQ_CST); \
	T *me = self; me->wait_kind = W_NONE; sched_point(me); \
	Reg *r = find_reg((const void *)a); \
	TY exp = *c; int ok; int spur = 0; \
	if (r && r->weak && (me->flag_spurious || \
			(policy != 2 && cas_permille > 0 && __atomic_load_n(a, __ATOMIC_SEQ_CST) == exp && \
			 (int)(rnd() % 1000) < cas_permille))) { \
		spur = 1; ok = 0; *c = __atomic_load_n(a, __ATOMIC_SEQ_CST); \
	} else ok = __atomic_compare_exchange_n(a, c, v, 0, __ATOMIC_SEQ_CST, __ATOMIC_SEQ_CST); \
	char loc[96], vs[64], es[64], cs[64]; loc_name(loc, sizeof loc, (const void *)a); \
	val_name(vs, sizeof vs, (uint64_t)v, SZ); val_name(es, sizeof es, (uint64_t)exp, SZ); \
	val_name(cs, sizeof cs, (uint64_t)*c, SZ); \
	__real_pthread_mutex_lock(&G); \
	if (spur) { /* the schedule token of this step gets the '!' flag if it was a random choice */ \
		if (!me->flag_spurious && sched_len && sched_buf[sched_len - 1] != '!') { \
			if (sched_len + 2 > sched_cap) { sched_cap *= 2; sched_buf = (char *)realloc(sched_buf, sched_cap); } \
			sched_buf[sched_len++] = '!'; sched_buf[sched_len] = 0; } \
		ev_add("T%d cas %s %s->%s spurious %s", me->tid, loc, es, vs, mo_name(mo)); \
	} else if (ok) ev_add("T%d cas %s %s->%s ok %s", me->tid, loc, es, vs, mo_name(mo)); \
	else ev_add("T%d cas %s %s->%s fail=%s %s", me->tid, loc, es, vs, cs, mo_name(mo)); \
	if (ok && exp != v) note_write(me, 1); else note_load(me, (void *)a, (uint64_t)*c); \
	__real_pthread_mutex_unlock(&G); return ok; } \
int __tsan_atomic##N##_compare_exchange_strong(volatile TY *a, TY *c, TY v, int mo, int fmo) { return cas##N(a, c, v, mo, fmo); } \
int __tsan_atomic##N##_compare_exchange_weak(volatile TY *a, TY *c, TY v, int mo, int fmo) { return cas##N(a, c, v, mo, fmo); } \
TY __tsan_atomic##N##_compare_exchange_val(volatile TY *a, TY c, TY v, int mo, int fmo) { \
	TY e = c; cas##N(a, &e, v, mo, fmo); return e; }

ATOMIC_OPS(8, uint8_t, 1)
ATOMIC_OPS(16, uint16_t, 2)
ATOMIC_OPS(32, uint32_t, 4)
ATOMIC_OPS(64, uint64_t, 8)

/* ------------------------------------------------------ blocking primitives */
long __wrap_syscall(long n, long a1, long a2, long a3, long a4, long a5, long a6)
{
	T *me = self;
	if (n != SYS_futex || !me || finished)
		return __real_syscall(n, a1, a2, a3, a4, a5, a6);
	uint32_t *addr = (uint32_t *)a1;
	int op = (int)a2 & ~(FUTEX_PRIVATE_FLAG | FUTEX_CLOCK_REALTIME);
	char loc[96];
	obj_name(loc, sizeof loc, addr, "futex");
	if (op == FUTEX_WAIT) {
		uint32_t val = (uint32_t)a3;
		me->wait_kind = W_NONE;
		sched_point(me);
		__real_pthread_mutex_lock(&G);
		uint32_t cur = __atomic_load_n(addr, __ATOMIC_SEQ_CST);
		if (cur != val) {
			ev_add("T%d futex-wait %s %d eagain", me->tid, loc, (int)val);
			__real_pthread_mutex_unlock(&G);
			errno = EAGAIN;
			return -1;
		}
		ev_add("T%d futex-wait %s %d blocked", me->tid, loc, (int)val);
		me->wait_kind = W_FUTEX;
		me->wait_obj = addr;
		me->woke_spurious = 0;
		me->last_ld_addr = NULL; me->same_loads = 0;
		pick_next();
		wait_turn(me);
		int spurious = me->woke_spurious;
		me->woke_spurious = 0;
		ev_add("T%d futex-resume %s%s", me->tid, loc, spurious ? " spurious" : "");
		me->wait_obj = NULL;
		__real_pthread_mutex_unlock(&G);
		if (spurious) { errno = EINTR; return -1; }
		return 0;
	}
	if (op == FUTEX_WAKE) {
		int cnt = (int)a3, woke = 0;
		me->wait_kind = W_NONE;
		sched_point(me);
		__real_pthread_mutex_lock(&G);
		for (int i = 0; i < nthreads && woke < cnt; i++) {
			T *t = threads[i];
			if (t->wait_kind == W_FUTEX && t->wait_obj == addr) {
				t->wait_kind = W_NONE;
				woke++;
			}
		}
		ev_add("T%d futex-wake %s %s woke=%d", me->tid, loc, cnt == INT_MAX ? "all" : cnt == 1 ? "1" : "n", woke);
		if (woke) unspin_all();
		__real_pthread_mutex_unlock(&G);
		return woke;
	}
	return __real_syscall(n, a1, a2, a3, a4, a5, a6);
}

int __wrap_pthread_mutex_lock(pthread_mutex_t *m)
{
	T *me = self;
	if (!me || finished) return __real_pthread_mutex_lock(m);
	me->wait_kind = W_MUTEX;
	me->wait_obj = m;
	sched_point(me);
	char loc[96];
	obj_name(loc, sizeof loc, m, "mutex");
	__real_pthread_mutex_lock(&G);
	mtx_get(m)->owner = me->tid;
	me->wait_kind = W_NONE; me->wait_obj = NULL;
	ev_add("T%d mtx-lock %s", me->tid, loc);
	me->last_ld_addr = NULL; me->same_loads = 0;
	__real_pthread_mutex_unlock(&G);
	return 0;
}

int __wrap_pthread_mutex_trylock(pthread_mutex_t *m)
{
	T *me = self;
	if (!me || finished) return __real_pthread_mutex_trylock(m);
	me->wait_kind = W_NONE;
	sched_point(me);
	char loc[96];
	obj_name(loc, sizeof loc, m, "mutex");
	__real_pthread_mutex_lock(&G);
	Mtx *x = mtx_get(m);
	int r = 0;
	if (x->owner == -1) { x->owner = me->tid; ev_add("T%d mtx-trylock %s ok", me->tid, loc); }
	else { r = EBUSY; ev_add("T%d mtx-trylock %s busy", me->tid, loc); }
	__real_pthread_mutex_unlock(&G);
	return r;
}

int __wrap_pthread_mutex_unlock(pthread_mutex_t *m)
{
	T *me = self;
	if (!me || finished) return __real_pthread_mutex_unlock(m);
	me->wait_kind = W_NONE;
	sched_point(me);
	char loc[96];
	obj_name(loc, sizeof loc, m, "mutex");
	__real_pthread_mutex_lock(&G);
	Mtx *x = mtx_get(m);
	if (x->owner != me->tid) ev_add("T%d mtx-unlock %s NOT-OWNER", me->tid, loc);
	else ev_add("T%d mtx-unlock %s", me->tid, loc);
	x->owner = -1;
	unspin_all();
	__real_pthread_mutex_unlock(&G);
	return 0;
}

static int cv_wait_common(pthread_cond_t *cv, pthread_mutex_t *m)
{
	T *me = self;
	me->wait_kind = W_NONE;
	sched_point(me);
	char loc[96];
	obj_name(loc, sizeof loc, cv, "cv");
	__real_pthread_mutex_lock(&G);
	Mtx *x = mtx_get(m);
	if (x->owner != me->tid) ev_add("T%d cv-wait %s NOT-OWNER", me->tid, loc);
	else ev_add("T%d cv-wait %s", me->tid, loc);
	x->owner = -1;
	me->wait_kind = W_CV;
	me->wait_obj = cv;
	me->cv_mutex = m;
	me->woke_spurious = 0;
	me->last_ld_addr = NULL; me->same_loads = 0;
	unspin_all();
	pick_next();
	wait_turn(me);
	/* chosen: signalled (or spurious) and the mutex is free */
	mtx_get(m)->owner = me->tid;
	me->wait_kind = W_NONE; me->wait_obj = NULL;
	ev_add("T%d cv-resume %s%s", me->tid, loc, me->woke_spurious ? " spurious" : "");
	__real_pthread_mutex_unlock(&G);
	return 0;
}

int __wrap_pthread_cond_wait(pthread_cond_t *cv, pthread_mutex_t *m)
{
	if (!self || finished) return __real_pthread_cond_wait(cv, m);
	return cv_wait_common(cv, m);
}

int __wrap_pthread_cond_timedwait(pthread_cond_t *cv, pthread_mutex_t *m, const struct timespec *ts)
{
	if (!self || finished) return __real_pthread_cond_timedwait(cv, m, ts);
	return cv_wait_common(cv, m);   /* time-outs are not modelled: never fire */
}

static int cv_signal_common(pthread_cond_t *cv, int all)
{
	T *me = self;
	me->wait_kind = W_NONE;
	sched_point(me);
	char loc[96];
	obj_name(loc, sizeof loc, cv, "cv");
	__real_pthread_mutex_lock(&G);
	int woke = 0;
	for (int i = 0; i < nthreads; i++) {
		T *t = threads[i];
		if (t->wait_kind == W_CV && t->wait_obj == cv) {
			t->wait_kind = W_MUTEX;
			t->wait_obj = t->cv_mutex;
			woke++;
			if (!all) break;
		}
	}
	ev_add("T%d %s %s woke=%d", me->tid, all ? "cv-bcast" : "cv-signal", loc, woke);
	if (woke) unspin_all();
	__real_pthread_mutex_unlock(&G);
	return 0;
}

int __wrap_pthread_cond_signal(pthread_cond_t *cv)
{
	if (!self || finished) return __real_pthread_cond_signal(cv);
	return cv_signal_common(cv, 0);
}

int __wrap_pthread_cond_broadcast(pthread_cond_t *cv)
{
	if (!self || finished) return __real_pthread_cond_broadcast(cv);
	return cv_signal_common(cv, 1);
}

int __wrap_sched_yield(void)
{
	T *me = self;
	if (!me || finished) return __real_sched_yield();
	me->wait_kind = W_NONE;
	sched_point(me);
	__real_pthread_mutex_lock(&G);
	ev_add("T%d yield", me->tid);
	me->spinning = 1;
	__real_pthread_mutex_unlock(&G);
	return 0;
}
