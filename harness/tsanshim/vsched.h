/* Deterministic scheduler + ThreadSanitizer-ABI shim (DESIGN.md §2.5, tie C).
 *
 * The concurrent .c files of /repo are compiled with clang -fsanitize=thread but
 * linked against vsched.c instead of libtsan. Every load/store (plain or atomic) of
 * the real object code then calls into the shim; accesses that fall into a
 * registered region become scheduling points and trace events. Blocking primitives
 * (futex syscall, pthread mutex / condvar, sched_yield) are redirected with
 * -Wl,--wrap= and modelled by the scheduler, never executed.
 *
 * Only one managed thread runs at any time; the schedule (sequence of thread ids,
 * with flags) fully determines the execution, so a run can be replayed exactly and
 * the same schedule can be fed to the Lean model. */
#ifndef VSCHED_H_
#define VSCHED_H_
#include <stddef.h>
#include <stdint.h>
#include <stdio.h>

typedef void (*vs_fn)(void *);

/* ---- set-up (called by the harness from the unmanaged main thread) ---- */
void vs_reset(void);                                   /* forget regions, threads, trace */
void vs_reg(const char *name, void *ptr, size_t size, size_t elem); /* elem==0: scalar; else array of elem-sized cells */
void vs_name_val(uint64_t v, const char *name);        /* print this 8-byte value as <name> */
void vs_weak_cas(const char *region_name);             /* CAS on this region is a weak CAS (may fail spuriously) */
int  vs_spawn(vs_fn fn, void *arg);                    /* returns tid 0,1,2,... */

/* ---- policies ---- */
void vs_policy_random(uint64_t seed);                  /* uniform among enabled threads */
void vs_policy_pct(uint64_t seed, int depth);          /* PCT-style priorities with `depth` change points */
void vs_policy_replay(const char *schedule);           /* "0 1 1! 2~ ..." */
void vs_policy_prefix(const char *schedule);           /* replay the prefix, then run non-preemptively (lowest tid first) */
void vs_policy_opseq(const char *ops);                 /* tokens are thread ids: run that thread for one whole operation
                                                          (up to its next vs_op_done); afterwards as vs_policy_prefix.
                                                          vs_print adds "#opseq-steps <steps the sequence took>" */
void vs_op_done(void);                                 /* the calling thread finished one operation of its program (no scheduling point) */
void vs_trace_enabled(int on);                         /* vs_print adds "#enabled <hex mask per step>" (systematic exploration) */
void vs_set_spurious(int cas_permille, int cv_permille);/* probability of spurious weak-CAS failure / condvar wake-up */
void vs_set_spurious_futex(int permille);             /* a parked futex wait may return -1/EINTR without a wake-up
                                                          (schedule flag '~', event "futex-resume <loc> spurious"); default 0 */
void vs_set_max_steps(long n);
void vs_kill_after(int tid, long k);                   /* after vs_spawn: thread `tid` takes exactly k steps, then is never
                                                          scheduled again (its process died); it counts as finished */

/* ---- run ---- */
enum { VS_OK = 0, VS_DEADLOCK = 1, VS_STEP_LIMIT = 2, VS_REPLAY_DIVERGED = 3, VS_LIVELOCK = 4 };
int  vs_run(void);                                     /* run all spawned threads to completion */
void vs_print(FILE *f);                                /* "schedule ..." line, event lines, "end <status>" line */
const char *vs_status_name(int st);

/* ---- called from managed threads ---- */
void vs_step(const char *fmt, ...);                    /* explicit scheduling point; logs "T<tid> note <text>" */
void vs_note(const char *fmt, ...);                    /* no scheduling point; logs "T<tid> note <text>" */
int  vs_self_tid(void);                                /* -1 on an unmanaged thread */

#endif
