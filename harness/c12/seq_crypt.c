/* C12 harness: drives the real muggle_aes_*, muggle_des_*, muggle_tdes_* API of /repo.
 * Protocol: see lean/Drv/C12.lean.  The caller-held chaining state (iv / nonce,
 * offset, stream_block) lives here, exactly as an application would hold it, and is
 * passed by pointer to every call; message chunks are passed as `msg + pos` slices of
 * one heap buffer sized exactly (so ASan sees every over-read / over-write). */
#include "vharness.h"
#include "muggle/c/crypt/aes.h"
#include "muggle/c/crypt/des.h"
#include "muggle/c/crypt/tdes.h"
#include "muggle/c/base/err.h"
#include "muggle/c/crypt/parity.h"

enum { ALG_NONE, ALG_AES, ALG_DES, ALG_TDES };
enum { FN_ECB, FN_CBC, FN_CFB, FN_OFB, FN_CTR, FN_BAD };

static int g_alg = ALG_NONE;
static muggle_aes_context_t g_aes;
static muggle_des_context_t g_des;
static muggle_tdes_context_t g_tdes;

/* caller-held state; 16-byte aligned like any uint64_t[2] nonce / local array */
static union { unsigned char b[16]; uint64_t u[2]; } g_iv, g_sb;
static unsigned int g_off;

static unsigned char *g_out;   /* session output so far */
static size_t g_out_len;
static unsigned char *g_prev;  /* output of the previous session */
static size_t g_prev_len;

static size_t bs(void) { return g_alg == ALG_AES ? 16 : 8; }

static const char *errname(int ret)
{
	switch (ret) {
	case 0: return "ok";
	case MUGGLE_ERR_NULL_PARAM: return "err null";
	case MUGGLE_ERR_INVALID_PARAM: return "err invalid";
	case MUGGLE_ERR_CRYPT_KEY_SIZE: return "err keysize";
	default: return "err other";
	}
}

static int hexval(int c)
{
	if (c >= '0' && c <= '9') return c - '0';
	if (c >= 'a' && c <= 'f') return c - 'a' + 10;
	if (c >= 'A' && c <= 'F') return c - 'A' + 10;
	return -1;
}

/* "-" = empty; returns malloc'ed buffer of exactly *len bytes (1 byte when empty) */
static unsigned char *unhex(const char *s, size_t *len)
{
	size_t n = strcmp(s, "-") == 0 ? 0 : strlen(s) / 2;
	unsigned char *p = (unsigned char *)malloc(n ? n : 1);
	for (size_t i = 0; i < n; i++)
		p[i] = (unsigned char)(hexval(s[2 * i]) * 16 + hexval(s[2 * i + 1]));
	*len = n;
	return p;
}

static void puthex(const unsigned char *p, size_t n)
{
	static const char d[] = "0123456789abcdef";
	if (n == 0) { putchar('-'); return; }
	for (size_t i = 0; i < n; i++) { putchar(d[p[i] >> 4]); putchar(d[p[i] & 15]); }
}

static void end_session(void)
{
	if (g_out_len) {
		free(g_prev);
		g_prev = g_out; g_prev_len = g_out_len;
		g_out = NULL; g_out_len = 0;
	}
}

static void vh_reset(void)
{
	g_alg = ALG_NONE;
	memset(&g_iv, 0, sizeof g_iv); memset(&g_sb, 0, sizeof g_sb); g_off = 0;
	free(g_out); g_out = NULL; g_out_len = 0;
	free(g_prev); g_prev = NULL; g_prev_len = 0;
}

static int fn_of(const char *s)
{
	if (!strcmp(s, "ecb")) return FN_ECB;
	if (!strcmp(s, "cbc")) return FN_CBC;
	if (!strcmp(s, "cfb")) return FN_CFB;
	if (!strcmp(s, "ofb")) return FN_OFB;
	if (!strcmp(s, "ctr")) return FN_CTR;
	return FN_BAD;
}

/* one call of the real API; any pointer may be replaced by NULL by the caller */
static int do_call(int fn, void *ctx, const unsigned char *in, unsigned int n,
		unsigned char *iv, unsigned int *off, unsigned char *sb, unsigned char *out)
{
	switch (g_alg) {
	case ALG_AES:
		switch (fn) {
		case FN_ECB: return muggle_aes_ecb((muggle_aes_context_t *)ctx, in, n, out);
		case FN_CBC: return muggle_aes_cbc((muggle_aes_context_t *)ctx, in, n, iv, out);
		case FN_CFB: return muggle_aes_cfb128((muggle_aes_context_t *)ctx, in, n, iv, off, out);
		case FN_OFB: return muggle_aes_ofb128((muggle_aes_context_t *)ctx, in, n, iv, off, out);
		case FN_CTR: return muggle_aes_ctr((muggle_aes_context_t *)ctx, in, n, (uint64_t *)iv, off, sb, out);
		}
		break;
	case ALG_DES:
		switch (fn) {
		case FN_ECB: return muggle_des_ecb((muggle_des_context_t *)ctx, in, n, out);
		case FN_CBC: return muggle_des_cbc((muggle_des_context_t *)ctx, in, n, iv, out);
		case FN_CFB: return muggle_des_cfb64((muggle_des_context_t *)ctx, in, n, iv, off, out);
		case FN_OFB: return muggle_des_ofb64((muggle_des_context_t *)ctx, in, n, iv, off, out);
		case FN_CTR: return muggle_des_ctr((muggle_des_context_t *)ctx, in, n, (uint64_t *)iv, off, sb, out);
		}
		break;
	case ALG_TDES:
		switch (fn) {
		case FN_ECB: return muggle_tdes_ecb((muggle_tdes_context_t *)ctx, in, n, out);
		case FN_CBC: return muggle_tdes_cbc((muggle_tdes_context_t *)ctx, in, n, iv, out);
		case FN_CFB: return muggle_tdes_cfb64((muggle_tdes_context_t *)ctx, in, n, iv, off, out);
		case FN_OFB: return muggle_tdes_ofb64((muggle_tdes_context_t *)ctx, in, n, iv, off, out);
		case FN_CTR: return muggle_tdes_ctr((muggle_tdes_context_t *)ctx, in, n, (uint64_t *)iv, off, sb, out);
		}
		break;
	}
	return -1;
}

static void *ctx_ptr(void)
{
	return g_alg == ALG_AES ? (void *)&g_aes : g_alg == ALG_DES ? (void *)&g_des : (void *)&g_tdes;
}

static void vh_op(int argc, char **argv)
{
	const char *op = argv[0];
	if (!strcmp(op, "setkey") && argc == 5) {
		end_session();
		size_t klen;
		unsigned char *key = unhex(argv[4], &klen);
		int mode = (int)vh_ll(argv[2]), dir = (int)vh_ll(argv[3]);
		int ret = -1;
		g_alg = ALG_NONE;
		if (!strncmp(argv[1], "aes", 3)) {
			int bits = (int)vh_ll(argv[1] + 3);
			ret = muggle_aes_set_key(dir, mode, key, bits, &g_aes);
			if (ret == 0) g_alg = ALG_AES;
		} else if (!strcmp(argv[1], "des") && klen == 8) {
			ret = muggle_des_set_key(dir, mode, key, &g_des);
			if (ret == 0) g_alg = ALG_DES;
		} else if (!strcmp(argv[1], "tdes") && klen == 24) {
			ret = muggle_tdes_set_key(dir, mode, key, key + 8, key + 16, &g_tdes);
			if (ret == 0) g_alg = ALG_TDES;
		} else { free(key); printf("bad-op\n"); return; }
		free(key);
		printf("%s\n", errname(ret));
		return;
	}
	if (!strcmp(op, "state") && argc == 4) {
		/* the caller's iv / nonce and stream_block arrays have exactly the block size */
		size_t n1, n2;
		unsigned char *p1 = unhex(argv[1], &n1), *p2 = unhex(argv[3], &n2);
		if (g_alg == ALG_NONE || n1 != bs() || n2 != bs()) {
			free(p1); free(p2); printf("bad-op\n"); return;
		}
		end_session();
		memset(&g_iv, 0, sizeof g_iv); memcpy(g_iv.b, p1, n1); free(p1);
		memset(&g_sb, 0, sizeof g_sb); memcpy(g_sb.b, p2, n2); free(p2);
		g_off = (unsigned int)vh_ull(argv[2]);
		printf("ok\n");
		return;
	}
	if (!strcmp(op, "dump") && argc == 1) {
		size_t b = g_alg == ALG_NONE ? 0 : bs();
		puthex(g_iv.b, b); printf(" %u ", g_off); puthex(g_sb.b, b); printf("\n");
		return;
	}
	if (!strcmp(op, "parity") && argc == 2) {
		long long v = vh_ll(argv[1]);
		if (v < 0 || v > 255) { printf("bad-op\n"); return; }
		unsigned char b = (unsigned char)v;
		printf("ok %u %u %d %d\n", (unsigned)muggle_parity_set_odd(b), (unsigned)muggle_parity_set_even(b),
			muggle_parity_check_odd(b), muggle_parity_check_even(b));
		return;
	}
	if (g_alg == ALG_NONE) { printf("bad-op\n"); return; }
	if (!strcmp(op, "crypt") && argc == 3) {
		int fn = fn_of(argv[1]);
		if (fn == FN_BAD) { printf("bad-op\n"); return; }
		size_t n;
		unsigned char *in;
		if (!strcmp(argv[2], "@")) {
			n = g_prev_len;
			in = (unsigned char *)malloc(n ? n : 1);
			if (n) memcpy(in, g_prev, n);
		} else in = unhex(argv[2], &n);
		unsigned char *out = (unsigned char *)malloc(n ? n : 1);
		int ret = do_call(fn, ctx_ptr(), in, (unsigned int)n, g_iv.b, &g_off, g_sb.b, out);
		if (ret == 0) {
			printf("ok "); puthex(out, n); printf("\n");
			g_out = (unsigned char *)realloc(g_out, g_out_len + n + 1);
			memcpy(g_out + g_out_len, out, n);
			g_out_len += n;
		} else printf("%s\n", errname(ret));
		free(in); free(out);
		return;
	}
	if (!strcmp(op, "null") && argc == 3) {
		int fn = fn_of(argv[1]);
		if (fn == FN_BAD) { printf("bad-op\n"); return; }
		size_t n = bs();
		unsigned char *in = (unsigned char *)calloc(1, n), *out = (unsigned char *)calloc(1, n);
		unsigned char iv[16] __attribute__((aligned(16))) = {0}, sb[16] __attribute__((aligned(16))) = {0};
		unsigned int off = 0;
		const char *w = argv[2];
		int ret = do_call(fn,
			!strcmp(w, "ctx") ? NULL : ctx_ptr(),
			!strcmp(w, "input") ? NULL : in, (unsigned int)n,
			!strcmp(w, "iv") ? NULL : iv,
			!strcmp(w, "off") ? NULL : &off,
			!strcmp(w, "sb") ? NULL : sb,
			!strcmp(w, "output") ? NULL : out);
		printf("%s\n", errname(ret));
		free(in); free(out);
		return;
	}
	printf("bad-op\n");
}

VH_MAIN()
