/* C10 harness (sorts): drives the real muggle_*_sort of /repo.  `a k…` appends keys to
 * the pending input (ids = positions); `sort <alg>` / `keys <alg>` sort an exactly sized,
 * freshly malloc'ed pointer array (count 0 -> malloc(0), so ASan sees every stray access)
 * and print the result as key:id pairs / keys. */
/* container operations take microseconds: a 20 s watchdog per operation */
#define VH_OP_TIMEOUT 20
#include "vharness.h"
#include "muggle/c/dsaa/sort.h"

typedef struct { int64_t key; uint32_t id; } elem_t;

static int cmp_elem(const void *a, const void *b)
{
	int64_t x = ((const elem_t *)a)->key, y = ((const elem_t *)b)->key;
	return (x > y) - (x < y);
}

static int64_t *g_keys;
static size_t g_n, g_cap;

static void vh_reset(void)
{
	free(g_keys); g_keys = NULL; g_n = g_cap = 0;
}

static muggle_func_sort pick(const char *alg)
{
	if (strcmp(alg, "ins") == 0) return muggle_insertion_sort;
	if (strcmp(alg, "shell") == 0) return muggle_shell_sort;
	if (strcmp(alg, "heap") == 0) return muggle_heap_sort;
	if (strcmp(alg, "merge") == 0) return muggle_merge_sort;
	if (strcmp(alg, "quick") == 0) return muggle_quick_sort;
	return NULL;
}

static void vh_op(int argc, char **argv)
{
	const char *op = argv[0];
	if (strcmp(op, "a") == 0) {
		for (int i = 1; i < argc; i++) {
			if (g_n == g_cap) {
				g_cap = g_cap ? g_cap * 2 : 64;
				g_keys = (int64_t *)realloc(g_keys, g_cap * sizeof(int64_t));
			}
			g_keys[g_n++] = vh_ll(argv[i]);
		}
		printf("n=%zu\n", g_n);
		return;
	}
	if ((strcmp(op, "sort") == 0 || strcmp(op, "keys") == 0) && argc == 2) {
		muggle_func_sort f = pick(argv[1]);
		if (!f) { printf("bad-op\n"); return; }
		int keys_only = op[0] == 'k';
		elem_t *el = (elem_t *)malloc(g_n * sizeof(elem_t));
		void **ptr = (void **)malloc(g_n * sizeof(void *));
		for (size_t i = 0; i < g_n; i++) { el[i].key = g_keys[i]; el[i].id = (uint32_t)i; ptr[i] = &el[i]; }
		bool ok = f(ptr, g_n, cmp_elem);
		if (!ok) printf("fail");
		else {
			printf(keys_only ? "k" : "ok");
			for (size_t i = 0; i < g_n; i++) {
				elem_t *e = (elem_t *)ptr[i];
				if (e < el || e >= el + g_n) { printf(" ?"); continue; }
				if (keys_only) printf(" %" PRId64, e->key);
				else printf(" %" PRId64 ":%u", e->key, e->id);
			}
		}
		printf("\n");
		free(ptr); free(el);
		return;
	}
	printf("bad-op\n");
}

VH_MAIN()
