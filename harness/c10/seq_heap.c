/* C10 harness (heap): drives the real muggle_heap_* of /repo through the public API.
 * Keys and values are separately malloc'ed boxes (so ASan/LSan see every misuse and
 * leak); the comparison callback dereferences its arguments like the repo's own tests.
 * Node pointers are printed as indices (node - nodes). */
/* container operations take microseconds: a 20 s watchdog per operation */
#define VH_OP_TIMEOUT 20
#include "vharness.h"
#include "muggle/c/dsaa/heap.h"

typedef struct { int64_t v; } box_t;

static int cmp_box(const void *a, const void *b)
{
	int64_t x = ((const box_t *)a)->v, y = ((const box_t *)b)->v;
	return (x > y) - (x < y);
}

static box_t *mkbox(int64_t v)
{
	box_t *b = (box_t *)malloc(sizeof(box_t));
	b->v = v;
	return b;
}

static int g_kpool, g_vpool;      /* only their addresses matter */
static int g_nfk, g_nfv, g_badpool;
static int64_t g_fk, g_fv;

static void free_key(void *pool, void *data)
{
	if (pool != &g_kpool) g_badpool++;
	g_nfk++; g_fk = ((box_t *)data)->v; free(data);
}
static void free_val(void *pool, void *data)
{
	if (pool != &g_vpool) g_badpool++;
	g_nfv++; g_fv = ((box_t *)data)->v; free(data);
}

static muggle_heap_t g_heap;
static int g_has;

static void vh_reset(void)
{
	if (g_has) {
		muggle_heap_destroy(&g_heap, free_key, &g_kpool, free_val, &g_vpool);
		g_has = 0;
	}
}

static void print_node(const muggle_heap_node_t *n)
{
	printf("%" PRId64 ":%" PRId64, ((box_t *)n->key)->v, ((box_t *)n->value)->v);
}

static void do_remove(muggle_heap_node_t *node, const char *pre)
{
	g_nfk = g_nfv = g_badpool = 0;
	bool ok = muggle_heap_remove(&g_heap, node, free_key, &g_kpool, free_val, &g_vpool);
	if (!ok) { printf("fail\n"); return; }
	if (g_nfk != 1 || g_nfv != 1 || g_badpool) { printf("%sbadfree %d %d %d\n", pre, g_nfk, g_nfv, g_badpool); return; }
	printf("%s%" PRId64 ":%" PRId64 "\n", pre, g_fk, g_fv);
}

static void vh_op(int argc, char **argv)
{
	const char *op = argv[0];
	if (strcmp(op, "init") == 0 && argc == 2) {
		vh_reset();
		bool ok = muggle_heap_init(&g_heap, cmp_box, (size_t)vh_ull(argv[1]));
		g_has = ok ? 1 : 0;
		printf("%s\n", ok ? "ok" : "fail");
		return;
	}
	if (!g_has) { printf("bad-op\n"); return; }
	if (strcmp(op, "ins") == 0 && argc == 3) {
		box_t *k = mkbox(vh_ll(argv[1])), *v = mkbox(vh_ll(argv[2]));
		if (muggle_heap_insert(&g_heap, k, v)) printf("ok\n");
		else { free(k); free(v); printf("fail\n"); }
	} else if (strcmp(op, "root") == 0 && argc == 1) {
		muggle_heap_node_t *n = muggle_heap_root(&g_heap);
		if (!n) printf("none\n"); else { print_node(n); printf("\n"); }
	} else if (strcmp(op, "minkey") == 0 && argc == 1) {
		muggle_heap_node_t *n = muggle_heap_root(&g_heap);
		if (!n) printf("none\n"); else printf("%" PRId64 "\n", ((box_t *)n->key)->v);
	} else if (strcmp(op, "ext") == 0 && argc == 1) {
		muggle_heap_node_t n;
		memset(&n, 0, sizeof(n));
		if (!muggle_heap_extract(&g_heap, &n)) printf("none\n");
		else { print_node(&n); printf("\n"); free(n.key); free(n.value); }
	} else if ((strcmp(op, "find") == 0 || strcmp(op, "has") == 0 || strcmp(op, "rm") == 0) && argc == 2) {
		box_t key; key.v = vh_ll(argv[1]);
		muggle_heap_node_t *n = muggle_heap_find(&g_heap, &key);
		if (op[0] == 'h') printf("%d\n", n ? 1 : 0);
		else if (!n) printf("none\n");
		else if (op[0] == 'f') printf("%lld\n", (long long)(n - g_heap.nodes));
		else {
			char pre[64];
			snprintf(pre, sizeof(pre), "ok %lld ", (long long)(n - g_heap.nodes));
			do_remove(n, pre);
		}
	} else if (strcmp(op, "rmi") == 0 && argc == 2) {
		uintptr_t p = (uintptr_t)g_heap.nodes + (uintptr_t)vh_ull(argv[1]) * sizeof(muggle_heap_node_t);
		do_remove((muggle_heap_node_t *)p, "ok ");
	} else if (strcmp(op, "rml") == 0 && argc == 1) {
		do_remove(&g_heap.nodes[g_heap.size], "ok ");   /* the node in the last slot */
	} else if (strcmp(op, "size") == 0 && argc == 1) {
		printf("%" PRIu64 "\n", g_heap.size);
	} else if (strcmp(op, "empty") == 0 && argc == 1) {
		printf("%d\n", muggle_heap_is_empty(&g_heap) ? 1 : 0);
	} else if (strcmp(op, "clear") == 0 && argc == 1) {
		g_nfk = g_nfv = g_badpool = 0;
		muggle_heap_clear(&g_heap, free_key, &g_kpool, free_val, &g_vpool);
		if (g_nfk != g_nfv || g_badpool) printf("ok badfree %d %d %d\n", g_nfk, g_nfv, g_badpool);
		else printf("ok %d\n", g_nfk);
	} else if (strcmp(op, "ens") == 0 && argc == 2) {
		printf("%s\n", muggle_heap_ensure_capacity(&g_heap, (size_t)vh_ull(argv[1])) ? "ok" : "fail");
	} else if (strcmp(op, "dump") == 0 && argc == 1) {
		printf("%" PRIu64 " %" PRIu64 " :", g_heap.size, g_heap.capacity);
		for (uint64_t i = 1; i <= g_heap.size; i++) { printf(" "); print_node(&g_heap.nodes[i]); }
		printf("\n");
	} else printf("bad-op\n");
}

VH_MAIN()
