/* C02 (+ ring-buffer part of C03) harness: muggle_ring_buffer_* of /repo under the
 * deterministic scheduler (harness/tsanshim). Compiled with -fsanitize=thread like the
 * repo sources; only the registered regions (spin, cursor, read_cursor, rmtx, blocks[])
 * are visible to the scheduler. capacity/flag/modes/blocks-pointer are immutable after
 * init and not registered. Ghost variables (g_started, g_done, payload cells) are not
 * registered: they change atomically with the step that precedes them.
 *
 * ops:  init <capreq> <flag>                 -> "init ret=<r> cap=<c> wmode=<w> rmode=<r>" (no threads)
 *       conf <capreq> <flag> <W> <R> <nw> <nr> <base> <lim>
 *            W writers (tids 0..W-1) write nw messages each, R readers (tids W..W+R-1)
 *            read nr messages each; non-read-once readers ask for the 32-bit indices
 *            base, base+1, ... (wrapping); base mod cap messages m1..mp are written
 *            before the threads start so that index `base` is the next message.
 *            lim = how far (in messages) the writers may run ahead of the slowest
 *            unfinished reader; the documented no-lapping precondition is lim <= cap-1.
 *       spurious-futex <permille>            (after conf) a parked futex wait may return -1/EINTR
 *       sched random <seed> | pct <seed> <depth> | replay <tokens...> | prefix <tokens...>
 *            (prefix: replay the tokens, then continue non-preemptively; prints the candidate
 *             sets, used by vlib.explore_schedules)
 *       run                                  -> schedule, events, end, outcome lines
 *
 * thread programs (every ghost action is glued to the preceding scheduling point):
 *   writer w:  vs_step("start");
 *              for k < nw: { while (!can_write()) sched_yield();  started++;
 *                            payload[id] = MAGIC(id);  muggle_ring_buffer_write(&rb, &payload[id]); }
 *   reader r:  vs_step("start");
 *              for j < nr: { d = muggle_ring_buffer_read(&rb, (uint32_t)(base + j));
 *                            done[r] = j+1; vs_note("got <j> <msg> ok|BAD"); }
 * message ids: prefill 1..p, writer w's k-th message (w+1)*100+k; printed m<id>.
 */
#include "vharness.h"
#include "tsanshim/vsched.h"
#include <sched.h>
#include "muggle/c/sync/ring_buffer.h"

#define MAXW 4
#define MAXR 4
#define MAXID 600

static muggle_ring_buffer_t rb;
static int rb_live;
static int g_conf_ok, g_capreq, g_flag, g_W, g_R, g_nw, g_nr, g_lim;
static uint32_t g_base;
static int g_cap, g_p, g_once;

static int payload[MAXID];          /* payload cell of message id */
static int g_started;               /* ghost: write calls started (prefill included) */
static int g_done[MAXR];            /* ghost: reads completed by reader r */
static int g_got[MAXR][128];        /* ghost: ids returned to reader r (-1 = not a message) */
static int g_bad;                   /* payload mismatches / non-message results */
static int g_tidw[MAXW], g_tidr[MAXR];

#define MAGIC(id) ((id) * 7 + 3)

static int can_write(void)
{
	int unfinished = 0, mn = 1 << 30, total = 0;
	for (int r = 0; r < g_R; r++) {
		total += g_done[r];
		if (g_done[r] < g_nr) { unfinished++; if (g_done[r] < mn) mn = g_done[r]; }
	}
	if (!unfinished) return 1;
	if (g_once) return g_started < total + g_lim;
	return g_started < g_p + mn + g_lim;
}

static void writer(void *arg)
{
	int w = (int)(intptr_t)arg;
	vs_step("start");
	for (int k = 0; k < g_nw; k++) {
		while (!can_write()) sched_yield();
		g_started++;
		int id = (w + 1) * 100 + k;
		payload[id] = MAGIC(id);
		muggle_ring_buffer_write(&rb, &payload[id]);
	}
}

static void reader(void *arg)
{
	int r = (int)(intptr_t)arg;
	vs_step("start");
	for (int j = 0; j < g_nr; j++) {
		int *d = (int *)muggle_ring_buffer_read(&rb, (uint32_t)(g_base + (uint32_t)j));
		int id = -1, ok = 0;
		if (d >= payload && d < payload + MAXID) { id = (int)(d - payload); ok = (*d == MAGIC(id)); }
		g_got[r][j] = id;
		g_done[r] = j + 1;
		if (!ok) g_bad++;
		if (id >= 0) vs_note("got %d m%d %s", j, id, ok ? "ok" : "BAD");
		else vs_note("got %d %s BAD", j, d == NULL ? "0" : "?");
	}
}

static void teardown(void)
{
	if (rb_live) { muggle_ring_buffer_destroy(&rb); rb_live = 0; }
}

static void vh_reset(void) { teardown(); g_conf_ok = 0; }

static int setup(void)
{
	teardown();
	vs_reset();
	if (muggle_ring_buffer_init(&rb, (muggle_sync_t)g_capreq, g_flag) != 0) return -1;
	rb_live = 1;
	g_cap = rb.capacity;
	g_once = (rb.read_mode == 3);
	memset(rb.blocks, 0, sizeof(muggle_ring_buffer_block_t) * g_cap);
	memset(payload, 0, sizeof payload);
	memset(g_done, 0, sizeof g_done);
	memset(g_got, 0, sizeof g_got);
	g_bad = 0;
	g_p = g_once ? 0 : (int)(g_base % (uint32_t)g_cap);   /* read-once ignores the index */
	/* prefill from the unmanaged main thread: not traced, not scheduled */
	for (int i = 1; i <= g_p; i++) {
		payload[i] = MAGIC(i);
		muggle_ring_buffer_write(&rb, &payload[i]);
	}
	g_started = g_p;
	vs_reg("spin", &rb.write_spin, sizeof rb.write_spin, 0);
	vs_reg("cursor", &rb.cursor, sizeof rb.cursor, 0);
	vs_reg("read_cursor", &rb.read_cursor, sizeof rb.read_cursor, 0);
	vs_reg("rmtx", &rb.read_mutex, sizeof rb.read_mutex, 0);
	vs_reg("blocks", rb.blocks, sizeof(muggle_ring_buffer_block_t) * g_cap, sizeof(muggle_ring_buffer_block_t));
	for (int i = 1; i < MAXID; i++) {
		char nm[16];
		snprintf(nm, sizeof nm, "m%d", i);
		if (i <= g_p || (i >= 100 && i / 100 <= g_W && i % 100 < g_nw)) vs_name_val((uint64_t)(uintptr_t)&payload[i], nm);
	}
	for (int w = 0; w < g_W; w++) g_tidw[w] = vs_spawn(writer, (void *)(intptr_t)w);
	for (int r = 0; r < g_R; r++) g_tidr[r] = vs_spawn(reader, (void *)(intptr_t)r);
	return 0;
}

static int g_fx;
static int g_pol; static uint64_t g_seed; static int g_depth; static char g_replay[1 << 18];

static void vh_op(int argc, char **argv)
{
	if (!strcmp(argv[0], "init") && argc == 3) {
		muggle_ring_buffer_t t;
		long long c = vh_ll(argv[1]);
		int ret = muggle_ring_buffer_init(&t, (muggle_sync_t)c, atoi(argv[2]));
		if (ret == 0) {
			printf("init ret=0 cap=%d wmode=%d rmode=%d\n", (int)t.capacity, t.write_mode, t.read_mode);
			muggle_ring_buffer_destroy(&t);
		} else printf("init ret=%d\n", ret);
		return;
	}
	if (!strcmp(argv[0], "conf") && argc == 9) {
		g_capreq = atoi(argv[1]); g_flag = atoi(argv[2]); g_W = atoi(argv[3]); g_R = atoi(argv[4]);
		g_nw = atoi(argv[5]); g_nr = atoi(argv[6]); g_base = (uint32_t)vh_ull(argv[7]); g_lim = atoi(argv[8]);
		g_pol = 0; g_seed = 1; g_fx = 0;
		g_conf_ok = g_capreq >= 1 && g_capreq <= 64 && g_W >= 0 && g_W <= MAXW && g_R >= 0 && g_R <= MAXR &&
					g_nw >= 0 && g_nw <= 99 && g_nr >= 0 && g_nr <= 128 && g_lim >= 0 && g_flag >= 0;
		if (g_conf_ok) {
			/* reject flag combinations init refuses */
			muggle_ring_buffer_t t;
			if (muggle_ring_buffer_init(&t, (muggle_sync_t)g_capreq, g_flag) != 0) g_conf_ok = 0;
			else muggle_ring_buffer_destroy(&t);
		}
		printf(g_conf_ok ? "ok\n" : "bad-op\n");
		return;
	}
	if (!strcmp(argv[0], "spurious-futex") && argc == 2) {
		if (!g_conf_ok) { printf("bad-op\n"); return; }
		g_fx = atoi(argv[1]); printf("ok\n"); return;
	}
	if (!strcmp(argv[0], "sched") && argc >= 2) {
		if (!strcmp(argv[1], "random") && argc == 3) { g_pol = 0; g_seed = vh_ull(argv[2]); }
		else if (!strcmp(argv[1], "pct") && argc == 4) { g_pol = 1; g_seed = vh_ull(argv[2]); g_depth = atoi(argv[3]); }
		else if (!strcmp(argv[1], "replay") || !strcmp(argv[1], "prefix")) {
			g_pol = !strcmp(argv[1], "prefix") ? 3 : 2; g_replay[0] = 0; size_t o = 0;
			for (int i = 2; i < argc && o + 16 < sizeof g_replay; i++) o += snprintf(g_replay + o, sizeof g_replay - o, "%s ", argv[i]); }
		else { printf("bad-op\n"); return; }
		printf("ok\n");
		return;
	}
	if (!strcmp(argv[0], "run") && g_conf_ok) {
		if (setup() != 0) { printf("bad-op\n"); return; }
		if (g_pol == 0) vs_policy_random(g_seed);
		else if (g_pol == 1) vs_policy_pct(g_seed, g_depth);
		else if (g_pol == 3) { vs_policy_prefix(g_replay); vs_trace_enabled(1); }
		else vs_policy_replay(g_replay);
		vs_set_spurious_futex(g_fx);
		vs_set_max_steps(8000);
		if (vs_run() != VS_OK) vh_request_restart();
		vs_print(stdout);
		printf("outcome");
		for (int r = 0; r < g_R; r++) {
			printf(" r%d=", r);
			for (int j = 0; j < g_done[r]; j++) {
				if (g_got[r][j] >= 0) printf("%sm%d", j ? "," : "", g_got[r][j]);
				else printf("%s?", j ? "," : "");
			}
			if (g_done[r] == 0) printf("-");
		}
		printf(" bad=%d\n", g_bad);
		return;
	}
	printf("bad-op\n");
}

VH_MAIN()
