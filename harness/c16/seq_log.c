/* C16 harness: drives the real loggers (sync and async), the real handlers (file,
 * size-rotating, time-rotating, console) and the two built-in formatters of /repo
 * through the public API and reports, per log call and per handler, exactly what the
 * handler passed to fwrite.
 *
 * How the real code is observed (nothing of /repo is replaced):
 *   - every handler's `write` pointer is wrapped by a trampoline (vh_tramp) that notes
 *     which handler is running, calls the real write function and records its return value;
 *   - the handler .c files are compiled with -Dfwrite=vh_fwrite -Dfflush=vh_fflush: the
 *     hook performs the real fwrite on the real FILE (ASan checks the range that is read;
 *     for stdout/stderr it copies the range instead, the protocol owns stdout) and records
 *     (stream, length, FNV-1a hash, first/last bytes);
 *   - log_sync_logger.c / log_async_logger.c are compiled with
 *     -Dtimespec_get=vh_timespec_get -Dmuggle_thread_current_readable_id=vh_tid (scripted
 *     clock and thread id); log_async_logger.c also with -Dmalloc=vh_malloc -Dfree=vh_free
 *     (allocation accounting of exactly the logger's allocations) and
 *     -Dmuggle_channel_write=vh_channel_write (the hook calls the real function and notes
 *     whether the message / the NULL sentinel was accepted);
 *   - log_file_time_rot_handler.c with -Dtime=vh_time.
 * A "gate" can stop the async writer thread at the entrance of the first handler, which
 * makes queue-full states reproducible: every op waits until the writer is quiescent
 * (stopped at the gate, or everything accepted so far has been processed).
 *
 * Ops (one output line each):
 *   logger sync | logger async <capacity>                   -> ok | fail
 *   handler file|rot|rots|trot|con0|con1|cap <level> s|c|n  -> ok <idx> | full | fail
 *   setlevel <idx> <level>                                  -> ok
 *   clock <sec> <nsec>   tid <n>   gate 0|1                 -> ok
 *   log <level> <file> <line> <func> s|l|d <msgspec>        -> [acc|drop|filt live=<n> ]<groups>
 *        msgspec: h:<hex> | r:<n>:<hexunit> (unit repeated up to n bytes)
 *        mode s: format "%s"; l: the message itself as format (%% escaped); d: "%s|%d|%x|%c"
 *        group = <idx>[rec,rec,...]   rec = w<stream>.<len>.<hash>.<head>.<tail> | r<ret> |
 *                                          c<level>.<sec>.<nsec>.<tid>.<plen>.<phash>.<wanted>
 *   mt <threads> <per-thread> <len> <level>                 -> mt ok ... | mt bad <why>
 *   destroy                                                 -> <groups> live=<n> files=ok|bad<idx>
 */
#include "vharness.h"
#include "muggle/c/log/log.h"
#include "muggle/c/log/log_sync_logger.h"
#include "muggle/c/log/log_async_logger.h"
#include "muggle/c/log/log_file_handler.h"
#include "muggle/c/log/log_file_rotate_handler.h"
#include "muggle/c/log/log_file_time_rot_handler.h"
#include "muggle/c/log/log_console_handler.h"
#include "muggle/c/sync/channel.h"
#include <pthread.h>
#include <unistd.h>
#include <dirent.h>
#include <time.h>
#include <stdarg.h>
#include <sys/stat.h>

#define MAXH 10
int __lsan_do_recoverable_leak_check(void);
#define HANG_MS 2500

enum { K_FILE, K_ROT, K_TROT, K_CON, K_CAP };

typedef struct { muggle_log_handler_t handler; } cap_handler_t;

typedef struct {
	char *p; size_t len, cap;
} dstr_t;

typedef struct {
	int kind;
	union {
		muggle_log_file_handler_t file;
		muggle_log_file_rotate_handler_t rot;
		muggle_log_file_time_rot_handler_t trot;
		muggle_log_console_handler_t con;
		cap_handler_t cap;
	} u;
	muggle_log_handler_t *base;
	func_muggle_log_handler_write real_write;
	char path[300];
	dstr_t rec;      /* records of the current op (text) */
	dstr_t all;      /* every byte passed to fwrite on stream 0 */
	/* mt mode: raw chunks */
	dstr_t mt;       /* sequence of [u8 stream][u32 len][bytes] */
	long mt_chunks;
} slot_t;

static slot_t *g_slots;          /* MAXH entries, allocated once (stable addresses) */
static int g_nslots;
static int g_mode;               /* 0 none, 1 sync, 2 async */
static muggle_sync_logger_t g_sync;
static muggle_async_logger_t g_async;
static muggle_logger_t *g_logger;

static char g_root[128];
static int g_have_root;
static int g_case_no;

static struct timespec g_clock;
static __thread unsigned long t_tid;
static unsigned long g_tid;
static __thread int t_cur_slot = -1;
static __thread int t_is_producer;

static pthread_mutex_t g_rm = PTHREAD_MUTEX_INITIALIZER;   /* records */
static int g_mt_mode;

/* gate */
static pthread_mutex_t g_gm = PTHREAD_MUTEX_INITIALIZER;
static pthread_cond_t g_gc = PTHREAD_COND_INITIALIZER;
static int g_gate_open = 1, g_at_gate;

/* accounting (async logger translation unit only) */
static long g_allocs, g_frees, g_wfrees, g_acc, g_drop, g_sent_try, g_sent_ok;

static void intern_clear(void);

/* ---- small utilities ---------------------------------------------------- */
static void ds_add(dstr_t *d, const void *p, size_t n)
{
	if (d->len + n + 1 > d->cap) {
		size_t c = d->cap ? d->cap : 256;
		while (c < d->len + n + 1) c *= 2;
		d->p = (char *)realloc(d->p, c);
		d->cap = c;
	}
	memcpy(d->p + d->len, p, n);
	d->len += n;
	d->p[d->len] = 0;
}
static void ds_printf(dstr_t *d, const char *fmt, ...)
{
	char tmp[512];
	va_list ap;
	va_start(ap, fmt);
	int n = vsnprintf(tmp, sizeof(tmp), fmt, ap);
	va_end(ap);
	ds_add(d, tmp, (size_t)n);
}
static void ds_clear(dstr_t *d) { d->len = 0; if (d->p) d->p[0] = 0; }
static void ds_free(dstr_t *d) { free(d->p); d->p = NULL; d->len = d->cap = 0; }

static uint64_t fnv(const unsigned char *p, size_t n)
{
	uint64_t h = 14695981039346656037ULL;
	for (size_t i = 0; i < n; i++) { h ^= p[i]; h *= 1099511628211ULL; }
	return h;
}
static void ds_hex(dstr_t *d, const unsigned char *p, size_t n)
{
	static const char *H = "0123456789abcdef";
	for (size_t i = 0; i < n; i++) { char c[2] = { H[p[i] >> 4], H[p[i] & 15] }; ds_add(d, c, 2); }
}
static long now_ms(void)
{
	struct timespec ts;
	clock_gettime(CLOCK_MONOTONIC, &ts);
	return ts.tv_sec * 1000L + ts.tv_nsec / 1000000L;
}

/* ---- hooks compiled into /repo's translation units ---------------------- */
int vh_timespec_get(struct timespec *ts, int base) { (void)base; *ts = g_clock; return base; }
time_t vh_time(time_t *t) { if (t) *t = g_clock.tv_sec; return g_clock.tv_sec; }
unsigned long vh_tid(void) { return t_tid ? t_tid : g_tid; }

void *vh_malloc(size_t n) { __atomic_add_fetch(&g_allocs, 1, __ATOMIC_SEQ_CST); return malloc(n); }
void vh_free(void *p)
{
	if (p) {
		__atomic_add_fetch(&g_frees, 1, __ATOMIC_SEQ_CST);
		if (!t_is_producer) __atomic_add_fetch(&g_wfrees, 1, __ATOMIC_SEQ_CST);
	}
	free(p);
}
int vh_channel_write(muggle_channel_t *chan, void *data)
{
	int r = muggle_channel_write(chan, data);
	if (data) __atomic_add_fetch(r == 0 ? &g_acc : &g_drop, 1, __ATOMIC_SEQ_CST);
	else {
		if (r == 0) __atomic_add_fetch(&g_sent_ok, 1, __ATOMIC_SEQ_CST);
		__atomic_add_fetch(&g_sent_try, 1, __ATOMIC_SEQ_CST);
	}
	return r;
}

static void rec_fw(slot_t *s, int stream, const unsigned char *p, size_t n)
{
	pthread_mutex_lock(&g_rm);
	if (g_mt_mode) {
		unsigned char hd[5] = { (unsigned char)stream, n & 255, (n >> 8) & 255, (n >> 16) & 255, (n >> 24) & 255 };
		ds_add(&s->mt, hd, 5);
		ds_add(&s->mt, p, n);
		s->mt_chunks++;
	} else {
		ds_printf(&s->rec, "%sw%d.%zu.%016" PRIx64 ".", s->rec.len ? "," : "", stream, n, fnv(p, n));
		ds_hex(&s->rec, p, n < 16 ? n : 16);
		ds_add(&s->rec, ".", 1);
		size_t t = n < 8 ? n : 8;
		ds_hex(&s->rec, p + n - t, t);
	}
	if (stream == 0) ds_add(&s->all, p, n);
	pthread_mutex_unlock(&g_rm);
}

size_t vh_fwrite(const void *ptr, size_t size, size_t n, FILE *fp)
{
	int si = t_cur_slot;
	if (si < 0) return fwrite(ptr, size, n, fp);
	size_t total = size * n;
	int stream = fp == stdout ? 1 : fp == stderr ? 2 : 0;
	size_t r = n;
	if (stream == 0) {
		r = fwrite(ptr, size, n, fp);          /* the real write; ASan checks [ptr, ptr+total) */
	} else {
		unsigned char *tmp = (unsigned char *)malloc(total + 1);
		memcpy(tmp, ptr, total);               /* ASan checks the range; real stdout is the protocol's */
		free(tmp);
	}
	rec_fw(&g_slots[si], stream, (const unsigned char *)ptr, total);
	return r;
}
int vh_fflush(FILE *fp)
{
	if (fp == stdout || fp == stderr) return 0;
	return fflush(fp);
}

/* ---- gate ---------------------------------------------------------------- */
static void gate_pass(void)
{
	if (t_is_producer) return;        /* only the async writer thread stops here */
	pthread_mutex_lock(&g_gm);
	if (!g_gate_open) {
		g_at_gate = 1;
		pthread_cond_broadcast(&g_gc);
		while (!g_gate_open) pthread_cond_wait(&g_gc, &g_gm);
		g_at_gate = 0;
	}
	pthread_mutex_unlock(&g_gm);
}
static void gate_set(int open)
{
	pthread_mutex_lock(&g_gm);
	g_gate_open = open;
	pthread_cond_broadcast(&g_gc);
	pthread_mutex_unlock(&g_gm);
}
static int at_gate(void)
{
	pthread_mutex_lock(&g_gm);
	int r = g_at_gate;
	pthread_mutex_unlock(&g_gm);
	return r;
}
static long ld(long *p) { return __atomic_load_n(p, __ATOMIC_SEQ_CST); }

/* wait until the writer thread has nothing left that it can do */
static void quiesce(void)
{
	if (g_mode != 2) return;
	long t0 = now_ms(), last = -1;
	for (;;) {
		long w = ld(&g_wfrees);
		if (w >= 2 * ld(&g_acc)) return;
		if (at_gate() && !g_gate_open) return;   /* stopped at the closed gate */
		if (w != last) { last = w; t0 = now_ms(); }   /* the writer is making progress */
		if (now_ms() - t0 > 20000) {
			fflush(stdout);
			fprintf(stderr, "harness: async writer made no progress for 20 s and is neither idle nor at the gate "
				"(accepted=%ld dropped=%ld writer-frees=%ld allocs=%ld frees=%ld; channel read_cursor=%d "
				"write_cursor=%d capacity=%d)\n", ld(&g_acc), ld(&g_drop), ld(&g_wfrees), ld(&g_allocs),
				ld(&g_frees), (int)g_async.channel.read_cursor, (int)g_async.channel.write_cursor,
				(int)g_async.channel.capacity);
			_exit(96);
		}
		usleep(20);
	}
}

/* ---- handlers ------------------------------------------------------------ */
static int slot_of(muggle_log_handler_t *h)
{
	for (int i = 0; i < g_nslots; i++) if (g_slots[i].base == h) return i;
	return -1;
}

static int vh_tramp(muggle_log_handler_t *h, const muggle_log_msg_t *msg)
{
	int si = slot_of(h);
	gate_pass();
	t_cur_slot = si;
	int r = g_slots[si].real_write(h, msg);
	t_cur_slot = -1;
	if (!g_mt_mode) {
		pthread_mutex_lock(&g_rm);
		ds_printf(&g_slots[si].rec, "%sr%d", g_slots[si].rec.len ? "," : "", r);
		pthread_mutex_unlock(&g_rm);
	}
	return r;
}

/* the capturing user handler: looks at the message, asks its formatter for the length */
static int cap_write(muggle_log_handler_t *h, const muggle_log_msg_t *msg)
{
	slot_t *s = &g_slots[slot_of(h)];
	char buf[MUGGLE_LOG_MSG_MAX_LEN];
	int wanted = -1;
	muggle_log_fmt_t *fmt = muggle_log_handler_get_fmt(h);
	if (fmt) wanted = fmt->fmt_func(msg, buf, sizeof(buf));
	size_t plen = strlen(msg->payload);
	pthread_mutex_lock(&g_rm);
	if (g_mt_mode) {
		unsigned char hd[5] = { 3, plen & 255, (plen >> 8) & 255, (plen >> 16) & 255, (plen >> 24) & 255 };
		ds_add(&s->mt, hd, 5);
		ds_add(&s->mt, msg->payload, plen);
		s->mt_chunks++;
	} else {
		ds_printf(&s->rec, "%sc%d.%lld.%ld.%lu.%zu.%016" PRIx64 ".%d", s->rec.len ? "," : "",
			msg->level, (long long)msg->ts.tv_sec, (long)msg->ts.tv_nsec, (unsigned long)msg->tid,
			plen, fnv((const unsigned char *)msg->payload, plen), wanted);
	}
	pthread_mutex_unlock(&g_rm);
	return 0;
}
static int cap_destroy(muggle_log_handler_t *h) { return muggle_log_handler_destroy_default(h); }

static void rm_tree(void)
{
	DIR *d = opendir(g_root);
	if (!d) return;
	struct dirent *e;
	char p[600];
	while ((e = readdir(d)) != NULL) {
		if (strcmp(e->d_name, ".") == 0 || strcmp(e->d_name, "..") == 0) continue;
		snprintf(p, sizeof(p), "%s/%s", g_root, e->d_name);
		unlink(p);
	}
	closedir(d);
}
static void cleanup_root(void) { if (g_have_root) { rm_tree(); rmdir(g_root); } }

static void print_groups(void)
{
	int any = 0;
	pthread_mutex_lock(&g_rm);
	for (int i = 0; i < g_nslots; i++) {
		if (g_slots[i].rec.len) {
			printf("%s%d[%s]", any ? " " : "", i, g_slots[i].rec.p);
			any = 1;
			ds_clear(&g_slots[i].rec);
		}
	}
	pthread_mutex_unlock(&g_rm);
	if (!any) printf("-");
}

/* concatenation of the files a handler produced, oldest first */
static int cmp_str(const void *a, const void *b) { return strcmp(*(char *const *)a, *(char *const *)b); }
static void slurp(const char *path, dstr_t *d)
{
	FILE *f = fopen(path, "rb");
	if (!f) return;
	char b[8192];
	size_t n;
	while ((n = fread(b, 1, sizeof(b), f)) > 0) ds_add(d, b, n);
	fclose(f);
}
static int files_ok(int si)
{
	slot_t *s = &g_slots[si];
	if (s->kind == K_CON || s->kind == K_CAP) return 1;
	dstr_t d = { 0 };
	if (s->kind == K_FILE) slurp(s->path, &d);
	else if (s->kind == K_ROT) {
		int top = 0;
		char p[400];
		for (;;) { snprintf(p, sizeof(p), "%s.%d", s->path, top + 1); if (access(p, F_OK) != 0) break; top++; }
		for (int k = top; k >= 1; k--) { snprintf(p, sizeof(p), "%s.%d", s->path, k); slurp(p, &d); }
		slurp(s->path, &d);
	} else {
		char *names[512];
		int n = 0;
		const char *base = strrchr(s->path, '/') + 1;
		DIR *dir = opendir(g_root);
		struct dirent *e;
		while (dir && (e = readdir(dir)) != NULL && n < 512)
			if (strncmp(e->d_name, base, strlen(base)) == 0 && e->d_name[strlen(base)] == '.')
				names[n++] = strdup(e->d_name);
		if (dir) closedir(dir);
		qsort(names, n, sizeof(names[0]), cmp_str);
		for (int i = 0; i < n; i++) {
			char p[700];
			snprintf(p, sizeof(p), "%s/%s", g_root, names[i]);
			slurp(p, &d);
			free(names[i]);
		}
	}
	/* the size-rotating handler keeps a bounded number of backups: what is on disk must be the
	 * newest part of what was written (that nothing else is lost is C17's subject) */
	int ok = s->kind == K_ROT
		? d.len <= s->all.len && (d.len == 0 || memcmp(d.p, s->all.p + (s->all.len - d.len), d.len) == 0)
		: d.len == s->all.len && (d.len == 0 || memcmp(d.p, s->all.p, d.len) == 0);
	ds_free(&d);
	return ok;
}

static void destroy_handlers(void)
{
	for (int i = 0; i < g_nslots; i++) {
		slot_t *s = &g_slots[i];
		if (s->base && s->base->destroy) s->base->destroy(s->base);
		ds_free(&s->rec); ds_free(&s->all); ds_free(&s->mt);
		memset(s, 0, sizeof(*s));
	}
	g_nslots = 0;
}

static volatile int g_destroy_done;
static void *destroy_thread(void *arg)
{
	(void)arg;
	t_is_producer = 1;
	g_logger->destroy(g_logger);
	__atomic_store_n(&g_destroy_done, 1, __ATOMIC_SEQ_CST);
	return NULL;
}

/* returns 0 when the logger is gone, exits the process when destroy hangs */
static void destroy_logger(int report)
{
	if (g_mode == 2) {
		pthread_t th;
		g_destroy_done = 0;
		pthread_create(&th, NULL, destroy_thread, NULL);
		long t0 = now_ms();
		/* the first attempt to queue the sentinel is made while the gate is still as the
		 * script left it (a full queue stays full), then the gate is opened */
		while (!g_destroy_done && ld(&g_sent_try) == 0 && now_ms() - t0 < 20000) usleep(20);
		gate_set(1);
		t0 = now_ms();
		long lastw = -1;
		while (!g_destroy_done) {
			long w = ld(&g_wfrees);
			if (w != lastw) { lastw = w; t0 = now_ms(); }   /* the writer is still draining */
			if (now_ms() - t0 > HANG_MS) {
				if (report) printf("destroy-hang sentinel-accepted=%ld\n", ld(&g_sent_ok));
				fflush(stdout);
				fprintf(stderr, "destroy-hang: muggle_async_logger_destroy did not return, no progress for %d ms "
					"with the gate open (sentinel attempts=%ld accepted=%ld; messages accepted=%ld, "
					"writer frees=%ld)\n", HANG_MS, ld(&g_sent_try), ld(&g_sent_ok), ld(&g_acc), ld(&g_wfrees));
				_exit(97);
			}
			usleep(50);
		}
		pthread_join(th, NULL);
	} else if (g_mode == 1) {
		g_logger->destroy(g_logger);
	}
}

static void vh_reset(void)
{
	if (!g_slots) {
		g_slots = (slot_t *)calloc(MAXH, sizeof(slot_t));
		t_is_producer = 1;
		snprintf(g_root, sizeof(g_root), "/tmp/vh_c16_XXXXXX");
		if (mkdtemp(g_root)) { g_have_root = 1; atexit(cleanup_root); }
	}
	if (g_mode) destroy_logger(0);
	destroy_handlers();
	intern_clear();
	if (g_have_root) rm_tree();
	g_mode = 0; g_logger = NULL;
	g_gate_open = 1; g_at_gate = 0;
	g_allocs = g_frees = g_wfrees = g_acc = g_drop = g_sent_try = g_sent_ok = 0;
	g_clock.tv_sec = 0; g_clock.tv_nsec = 0; g_tid = 0; g_mt_mode = 0;
	g_case_no++;
}

/* ---- messages ------------------------------------------------------------ */
static int hexv(int c) { return c >= '0' && c <= '9' ? c - '0' : c >= 'a' && c <= 'f' ? c - 'a' + 10 : -1; }
/* returns malloc'd NUL-terminated message or NULL (malformed / contains NUL) */
static char *parse_msg(const char *spec)
{
	size_t n = 0;
	const char *hex;
	int rep = 0;
	if (spec[0] == 'h' && spec[1] == ':') hex = spec + 2;
	else if (spec[0] == 'r' && spec[1] == ':') {
		char *end;
		n = strtoul(spec + 2, &end, 10);
		if (*end != ':' || n > 100000) return NULL;
		hex = end + 1;
		rep = 1;
	} else return NULL;
	size_t hl = strlen(hex);
	if (hl % 2) return NULL;
	size_t ul = hl / 2;
	unsigned char *unit = (unsigned char *)malloc(ul + 1);
	for (size_t i = 0; i < ul; i++) {
		int a = hexv(hex[2 * i]), b = hexv(hex[2 * i + 1]);
		if (a < 0 || b < 0 || (a == 0 && b == 0)) { free(unit); return NULL; }
		unit[i] = (unsigned char)(a * 16 + b);
	}
	if (!rep) n = ul;
	if (rep && ul == 0 && n > 0) { free(unit); return NULL; }
	char *m = (char *)malloc(n + 1);
	for (size_t i = 0; i < n; i++) m[i] = (char)unit[i % ul];
	m[n] = 0;
	free(unit);
	return m;
}

/* src_loc strings must outlive the call (the async logger keeps the pointers, as it does
 * with the string literals of the MUGGLE_LOG macros): intern them until the next case */
static char *g_intern[4096];
static int g_nintern;
static const char *intern(const char *s)
{
	pthread_mutex_lock(&g_rm);
	for (int i = 0; i < g_nintern; i++)
		if (strcmp(g_intern[i], s) == 0) { pthread_mutex_unlock(&g_rm); return g_intern[i]; }
	char *r = strdup(s);
	if (g_nintern < 4096) g_intern[g_nintern++] = r;
	pthread_mutex_unlock(&g_rm);
	return r;
}
static void intern_clear(void)
{
	for (int i = 0; i < g_nintern; i++) free(g_intern[i]);
	g_nintern = 0;
}

static void do_log(int level, const char *file, unsigned line, const char *func, char mode, const char *msg)
{
	char tmp[400];
	snprintf(tmp, sizeof(tmp), "/src/some/dir/%s", file);
	const char *path = intern(tmp);
	func = intern(func);
	muggle_log_src_loc_t loc = { path, line, func };
	if (mode == 's') g_logger->log(g_logger, level, &loc, "%s", msg);
	else if (mode == 'd') g_logger->log(g_logger, level, &loc, "%s|%d|%x|%c", msg, -42, 255, 'z');
	else {
		size_t n = strlen(msg);
		char *f = (char *)malloc(2 * n + 1), *q = f;
		for (size_t i = 0; i < n; i++) { if (msg[i] == '%') *q++ = '%'; *q++ = msg[i]; }
		*q = 0;
		g_logger->log(g_logger, level, &loc, f);
		free(f);
	}
}

/* ---- mt: real threads ---------------------------------------------------- */
typedef struct { int id, per, len, level; } mt_arg_t;
static void mt_payload(int id, int seq, int len, char *out)
{
	int n = snprintf(out, 64, "t%d.%d.", id, seq);
	for (; n < len; n++) out[n] = (char)('a' + (id + n) % 26);
	out[n < len ? len : n] = 0;
}
static void *mt_thread(void *p)
{
	mt_arg_t *a = (mt_arg_t *)p;
	t_is_producer = 1;
	t_tid = 1000 + a->id;
	char *m = (char *)malloc(a->len + 80);
	for (int k = 0; k < a->per; k++) {
		mt_payload(a->id, k, a->len, m);
		do_log(a->level, "mt.c", (unsigned)k, "mt_thread", 's', m);
	}
	free(m);
	return NULL;
}

/* checks the chunk sequence of one handler; returns NULL or a reason */
static const char *mt_judge(slot_t *s, int threads, int per, int len, int level, long *lines_out)
{
	static char why[200];
	int *next = (int *)calloc(threads, sizeof(int));
	const unsigned char *p = (const unsigned char *)(s->mt.p ? s->mt.p : ""), *end = p + s->mt.len;
	long lines = 0;
	int colored = s->kind == K_CON && s->u.con.enable_color && level >= MUGGLE_LOG_LEVEL_WARNING;
	int phase = 0;   /* coloured console: 0 colour, 1 line, 2 reset */
	char *exp = (char *)malloc(len + 80);
	const char *res = NULL;
	while (p < end) {
		int stream = p[0];
		size_t n = p[1] | (p[2] << 8) | (p[3] << 16) | ((size_t)p[4] << 24);
		const unsigned char *b = p + 5;
		p = b + n;
		if (colored && phase != 1) {
			if (n < 3 || b[0] != 27) { res = "colour sequence interleaved with another line"; break; }
			phase = (phase + 1) % 3;
			continue;
		}
		if (colored) phase = 2;
		const unsigned char *pay = b;
		size_t pn = n;
		if (stream != 3) {
			/* a formatted line: exactly one newline, at the end */
			if (n == 0 || b[n - 1] != '\n' || memchr(b, '\n', n - 1)) { res = "chunk is not exactly one line"; break; }
			const unsigned char *sep = (const unsigned char *)memmem(b, n, " - ", 3);
			if (!sep) { res = "line without separator"; break; }
			pay = sep + 3;
			pn = n - 1 - (size_t)(pay - b);
		}
		int id = -1, seq = -1;
		if (pn < 4 || sscanf((const char *)pay, "t%d.%d.", &id, &seq) != 2 || id < 0 || id >= threads) {
			res = "payload does not start with a thread/sequence tag"; break; }
		mt_payload(id, seq, len, exp);
		size_t el = strlen(exp);
		if (pn > el || memcmp(pay, exp, pn) != 0 || (pn < el && (stream == 3 ? pn : n) != MUGGLE_LOG_MSG_MAX_LEN - 1)) {
			snprintf(why, sizeof(why), "line of thread %d seq %d is torn or altered", id, seq);
			res = why; break; }
		if (seq < next[id]) {
			snprintf(why, sizeof(why), "thread %d: seq %d after %d (order or duplicate)", id, seq, next[id] - 1);
			res = why; break; }
		if (g_mode == 1 && seq != next[id]) {
			snprintf(why, sizeof(why), "thread %d: seq %d missing", id, next[id]);
			res = why; break; }
		next[id] = seq + 1;
		lines++;
	}
	if (!res && colored && phase != 0) res = "incomplete colour/line/reset triple";
	free(next); free(exp);
	*lines_out = lines;
	return res;
}

static void do_mt(int threads, int per, int len, int level)
{
	pthread_t th[64];
	mt_arg_t args[64];
	long acc0 = ld(&g_acc);
	g_mt_mode = 1;
	for (int i = 0; i < g_nslots; i++) { ds_clear(&g_slots[i].mt); g_slots[i].mt_chunks = 0; }
	for (int i = 0; i < threads; i++) {
		args[i].id = i; args[i].per = per; args[i].len = len; args[i].level = level;
		pthread_create(&th[i], NULL, mt_thread, &args[i]);
	}
	for (int i = 0; i < threads; i++) pthread_join(th[i], NULL);
	quiesce();
	long accepted = ld(&g_acc) - acc0;
	const char *bad = NULL;
	int badi = -1;
	dstr_t counts = { 0 };
	for (int i = 0; i < g_nslots && !bad; i++) {
		slot_t *s = &g_slots[i];
		long lines = 0;
		bad = mt_judge(s, threads, per, len, level, &lines);
		badi = i;
		if (bad) break;
		int writes = level >= g_logger->lowest_log_level && level >= s->base->level &&
			(s->kind == K_CAP || s->base->fmt != NULL);
		long want = !writes ? 0 : g_mode == 1 ? (long)threads * per : accepted;
		if (lines != want) {
			static char w[120];
			snprintf(w, sizeof(w), "%ld lines, expected %ld", lines, want);
			bad = w;
			break;
		}
		if (g_mode == 1) ds_printf(&counts, " %ld", lines);
	}
	g_mt_mode = 0;
	if (bad) printf("mt bad handler %d: %s\n", badi, bad);
	else if (g_mode == 1) printf("mt ok%s\n", counts.p ? counts.p : "");
	else printf("mt ok live=%ld\n", ld(&g_allocs) - ld(&g_frees));
	ds_free(&counts);
	for (int i = 0; i < g_nslots; i++) ds_clear(&g_slots[i].mt);
}

/* ---- ops ----------------------------------------------------------------- */
static void vh_op(int argc, char **argv)
{
	const char *op = argv[0];
	if (strcmp(op, "logger") == 0 && argc >= 2 && g_mode == 0) {
		if (strcmp(argv[1], "sync") == 0 && argc == 2) {
			muggle_sync_logger_init(&g_sync);
			g_logger = (muggle_logger_t *)&g_sync;
			g_mode = 1;
			printf("ok\n");
			return;
		}
		if (strcmp(argv[1], "async") == 0 && argc == 3) {
			int cap = (int)vh_ll(argv[2]);
			/* a channel of capacity c (rounded up to a power of two) holds c - 2 elements:
			 * below 3 nothing can ever be queued, not even the sentinel */
			if (cap < 3 || cap > 4096) { printf("bad-op\n"); return; }
			if (muggle_async_logger_init(&g_async, cap) != 0) { printf("fail\n"); return; }
			g_logger = (muggle_logger_t *)&g_async;
			g_mode = 2;
			printf("ok\n");
			return;
		}
		printf("bad-op\n");
		return;
	}
	if (g_mode == 0) { printf("bad-op\n"); return; }

	if (strcmp(op, "handler") == 0 && argc == 4) {
		const char *k = argv[1];
		int level = (int)vh_ll(argv[2]);
		char f = argv[3][0];
		/* configuration changes while the async writer may be inside the dispatch loop would race with it */
		if (g_nslots >= MAXH || (f != 's' && f != 'c' && f != 'n') || argv[3][1] || (g_mode == 2 && !g_gate_open)) {
			printf("bad-op\n"); return; }
		quiesce();
		slot_t *s = &g_slots[g_nslots];
		memset(s, 0, sizeof(*s));
		snprintf(s->path, sizeof(s->path), "%s/h%d.log", g_root, g_nslots);
		int rc = -1;
		if (strcmp(k, "file") == 0) { s->kind = K_FILE; rc = muggle_log_file_handler_init(&s->u.file, s->path, "wb"); }
		else if (strcmp(k, "rot") == 0) { s->kind = K_ROT; rc = muggle_log_file_rotate_handler_init(&s->u.rot, s->path, 1u << 30, 5); }
		else if (strcmp(k, "rots") == 0) { s->kind = K_ROT; rc = muggle_log_file_rotate_handler_init(&s->u.rot, s->path, 6000, 50); }
		else if (strcmp(k, "trot") == 0) { s->kind = K_TROT; rc = muggle_log_file_time_rot_handler_init(&s->u.trot, s->path, MUGGLE_LOG_TIME_ROTATE_UNIT_HOUR, 1, false); }
		else if (strcmp(k, "con0") == 0) { s->kind = K_CON; rc = muggle_log_console_handler_init(&s->u.con, 0); }
		else if (strcmp(k, "con1") == 0) { s->kind = K_CON; rc = muggle_log_console_handler_init(&s->u.con, 1); }
		else if (strcmp(k, "cap") == 0) {
			s->kind = K_CAP;
			rc = muggle_log_handler_init_default(&s->u.cap.handler);
			s->u.cap.handler.write = cap_write;
			s->u.cap.handler.destroy = cap_destroy;
		} else { printf("bad-op\n"); return; }
		s->base = (muggle_log_handler_t *)&s->u;
		if (rc != 0) { printf("fail\n"); memset(s, 0, sizeof(*s)); return; }
		muggle_log_handler_set_level(s->base, level);
		muggle_log_handler_set_fmt(s->base, f == 's' ? muggle_log_fmt_get_simple() :
			f == 'c' ? muggle_log_fmt_get_complicated() : NULL);
		s->real_write = s->base->write;
		s->base->write = vh_tramp;
		g_nslots++;
		if (g_logger->add_handler(g_logger, s->base) != 0) {
			g_nslots--;
			s->base->destroy(s->base);
			memset(s, 0, sizeof(*s));
			printf("full\n");
			return;
		}
		printf("ok %d\n", g_nslots - 1);
		return;
	}
	if (strcmp(op, "setlevel") == 0 && argc == 3) {
		int i = (int)vh_ll(argv[1]);
		if (i < 0 || i >= g_nslots || (g_mode == 2 && !g_gate_open)) { printf("bad-op\n"); return; }
		quiesce();
		muggle_log_handler_set_level(g_slots[i].base, (int)vh_ll(argv[2]));
		printf("ok\n");
		return;
	}
	if (strcmp(op, "clock") == 0 && argc == 3) {
		g_clock.tv_sec = (time_t)vh_ll(argv[1]);
		g_clock.tv_nsec = (long)vh_ll(argv[2]);
		printf("ok\n");
		return;
	}
	if (strcmp(op, "tid") == 0 && argc == 2) { g_tid = (unsigned long)vh_ull(argv[1]); printf("ok\n"); return; }
	if (strcmp(op, "gate") == 0 && argc == 2) {
		gate_set(argv[1][0] == '1');
		quiesce();
		print_groups();
		printf("\n");
		return;
	}
	if (strcmp(op, "log") == 0 && argc == 7) {
		char mode = argv[5][0];
		char *msg = parse_msg(argv[6]);
		if (!msg || (mode != 's' && mode != 'l' && mode != 'd') || argv[5][1]) { free(msg); printf("bad-op\n"); return; }
		long acc0 = ld(&g_acc), drop0 = ld(&g_drop);
		do_log((int)vh_ll(argv[1]), argv[2], (unsigned)vh_ull(argv[3]), argv[4], mode, msg);
		free(msg);
		if (g_mode == 2) {
			quiesce();
			printf("%s live=%ld ", ld(&g_acc) > acc0 ? "acc" : ld(&g_drop) > drop0 ? "drop" : "filt",
				ld(&g_allocs) - ld(&g_frees));
		}
		print_groups();
		printf("\n");
		return;
	}
	if (strcmp(op, "mt") == 0 && argc == 5) {
		int threads = (int)vh_ll(argv[1]), per = (int)vh_ll(argv[2]), len = (int)vh_ll(argv[3]);
		if (threads < 1 || threads > 64 || per < 0 || per > 100000 || len < 0 || len > 20000 || !g_gate_open) {
			printf("bad-op\n"); return; }
		do_mt(threads, per, len, (int)vh_ll(argv[4]));
		return;
	}
	if (strcmp(op, "destroy") == 0 && argc == 1) {
		destroy_logger(1);
		print_groups();
		printf(" live=%ld", ld(&g_allocs) - ld(&g_frees));
		int bad = -1;
		for (int i = 0; i < g_nslots; i++) {
			slot_t *s = &g_slots[i];
			/* close the files first, then read them back */
			if (s->kind == K_FILE && s->u.file.fp) fflush(s->u.file.fp);
			if (s->kind == K_ROT && s->u.rot.fp) fflush(s->u.rot.fp);
			if (s->kind == K_TROT && s->u.trot.fp) fflush(s->u.trot.fp);
			if (!files_ok(i) && bad < 0) bad = i;
		}
		if (bad < 0) printf(" files=ok\n"); else printf(" files=bad%d\n", bad);
		destroy_handlers();
		g_mode = 0; g_logger = NULL;
		intern_clear();
		/* everything of this case is gone now: whatever LeakSanitizer still finds was leaked by
		 * this case (checked here so that it is attributed to the right case, not at exit) */
		fflush(stdout);
		if (__lsan_do_recoverable_leak_check()) _exit(98);
		return;
	}
	printf("bad-op\n");
}

VH_MAIN()
