/* C08 harness: the shared-memory ring buffer of /repo (muggle/c/sync/shm_ring_buffer.c)
 * under the deterministic scheduler (harness/tsanshim).
 *
 * Trusted glue: muggle/c/sync/shm.c (shmget/shmat) is NOT linked; muggle_shm_open below
 * returns a zeroed heap region of the requested size (what a fresh SysV segment is),
 * followed by a canary that is checked at the end of every run. Everything else is the
 * real object code: muggle_shm_ringbuf_open computes the geometry and initialises the
 * control block, the threads below call w_alloc_bytes / w_move / r_fetch / r_move (and
 * the write spinlock) of /repo. This file is compiled with -fsanitize=thread as well:
 * the one payload byte a thread touches with ordinary code is a scheduling point and a
 * trace event; the bulk fill / compare and all ghost bookkeeping live in
 * no_sanitize("thread") helpers and are invisible (they execute atomically with the
 * visible step that precedes them).
 *
 * ops:   conf <nbytes> <lock 0|1>            ring of <nbytes> data bytes; writers take the write lock?
 *        thr <tok> <tok> ...                 one line per thread, in tid order. tokens:
 *              a<n>   lock?; p = w_alloc_bytes(n); fill; w_move; unlock?     (message of n bytes)
 *              A<n>   the same without w_move (allocation abandoned)
 *              f      p = r_fetch(&n); if p: check payload; r_move
 *        kill <tid> <k>                      thread <tid> dies (is never scheduled again) after k steps
 *        maxsteps <n>
 *        sched random <seed> | pct <seed> <depth> | replay <tokens...> | prefix <tokens...> | opseq <tids...>
 *             (opseq: each token runs that thread for one whole operation of its program; then as prefix;
 *              prints "#opseq-steps <k>": the first k tokens of the schedule line are that part)
 *             (prefix: replay, then continue non-preemptively, print "#enabled <masks>": systematic explorer)
 *        run                                 -> schedule, events, end, outcome lines
 *
 * notes in the trace (no scheduling point; T<tid> note ...):
 *   alloc-begin n=<n>             before the first step of an allocation (incl. taking the lock)
 *   alloc at=<cell> ncl=<k>       w_alloc_bytes returned the payload of the header in cell <cell>
 *   alloc-fail n=<n> ncl=<k>      w_alloc_bytes returned NULL
 *   commit at=<cell> n=<n> tag=<v>   w_move returned (message committed)
 *   fetch none                    r_fetch returned NULL
 *   fetch at=<cell> n=<n> tag=<v> bytes=ok|CORRUPT   r_fetch returned a message; all n payload bytes == v?
 *   consumed                      r_move returned
 */
#include "vharness.h"
#include "tsanshim/vsched.h"
#include "muggle/c/base/utils.h"   /* MUGGLE_ROUND_UP_POW_OF_2_MUL, used by the CAL_BYTES_CACHELINE macro */
#include "muggle/c/sync/shm_ring_buffer.h"

#define NOTSAN __attribute__((no_sanitize("thread"), noinline))
#define MAXTHR 8
#define MAXOPS 64
#define CANARY 256

typedef struct { char kind; uint32_t n; } Op;
static Op g_prog[MAXTHR][MAXOPS];
static int g_nops[MAXTHR], g_nthr;
static uint32_t g_nbytes;
static int g_lock, g_conf;
static int g_kill_tid = -1; static long g_kill_k;
static long g_maxsteps = 4000;

static char *g_region; static size_t g_region_sz;
static muggle_shm_ringbuf_t *g_rb;
static char *g_data; static uint32_t g_ncl;
static muggle_shm_t g_shm;

/* ghost (never registered): messages in commit order */
typedef struct { int cell; uint32_t n, ncl; int tag; } Msg;
static Msg g_q[MAXTHR * MAXOPS];
static int g_committed, g_consumed;
static int g_fetched, g_none, g_fails;
static int g_fifo_viol, g_overlap_viol, g_bounds_viol, g_corrupt, g_none_viol, g_wedge;

/* ---- trusted replacement of shm.c ---- */
void *muggle_shm_open(muggle_shm_t *shm, const char *k_name, int k_num, int flag, uint32_t nbytes)
{
	(void)k_name; (void)k_num; (void)flag;
	free(g_region);
	g_region_sz = nbytes;
	g_region = NULL;
	if (nbytes == 0) return NULL;
	if (posix_memalign((void **)&g_region, 4096, (size_t)nbytes + CANARY) != 0) return NULL;
	memset(g_region, 0, nbytes);
	memset(g_region + nbytes, 0x5a, CANARY);
	shm->ptr = g_region; shm->nbytes = nbytes;
	return g_region;
}

NOTSAN static int canary_ok(void)
{
	if (!g_region) return 1;
	for (int i = 0; i < CANARY; i++) if ((unsigned char)g_region[g_region_sz + i] != 0x5a) return 0;
	return 1;
}

/* ---- invisible helpers ---- */
NOTSAN static void fill(char *p, uint32_t n, int tag) { memset(p, tag, n); }
NOTSAN static int all_equal(const char *p, uint32_t n, int tag)
{
	for (uint32_t i = 0; i < n; i++) if (p[i] != (char)tag) return 0;
	return 1;
}
NOTSAN static int cell_of(const void *payload) { return (int)(((const char *)payload - 8 - g_data) / 64); }
NOTSAN static uint32_t hdr_ncl(const void *payload) { return ((const uint32_t *)payload)[-1]; }
NOTSAN static int drained(void) { return g_committed == g_consumed; }

/* ghost: the region [cell, cell+ncl) handed to a writer must lie inside the ring and must not
 * touch a committed message that has not been consumed */
NOTSAN static void ghost_alloc(int cell, uint32_t ncl)
{
	if (cell < 0 || (uint64_t)cell + ncl > g_ncl) g_bounds_viol++;
	for (int i = g_consumed; i < g_committed; i++) {
		Msg *m = &g_q[i];
		if ((uint64_t)cell < (uint64_t)m->cell + m->ncl && (uint64_t)m->cell < (uint64_t)cell + ncl) g_overlap_viol++;
	}
}
NOTSAN static void ghost_commit(int cell, uint32_t n, uint32_t ncl, int tag)
{
	Msg *m = &g_q[g_committed++];
	m->cell = cell; m->n = n; m->ncl = ncl; m->tag = tag;
}
NOTSAN static void ghost_fetch(int cell, uint32_t n, int tag, int bytes_ok)
{
	g_fetched++;
	if (!bytes_ok) g_corrupt++;
	if (g_consumed >= g_committed) { g_fifo_viol++; return; }
	Msg *m = &g_q[g_consumed];
	if (m->cell != cell || m->n != n || m->tag != tag) g_fifo_viol++;
}

static int tag_of(int tid, int k) { return 1 + (tid * 29 + k * 7) % 120; }

static void do_alloc(int tid, int k, uint32_t n, int commit)
{
	vs_note("alloc-begin n=%u", n);
	/* ghost: is the ring drained when this allocation starts?  Sampled where no other
	 * writer can commit any more: after the lock was taken, or (no lock: single writer)
	 * right here. The reader can only drain further in between. */
	int was_drained = drained();
	if (g_lock) { muggle_spinlock_lock(muggle_shm_ringbuf_get_wlock(g_rb)); was_drained = drained(); }
	char *p = (char *)muggle_shm_ringbuf_w_alloc_bytes(g_rb, n);
	uint32_t want = MUGGLE_SHM_RINGBUF_CAL_BYTES_CACHELINE(n);
	if (p == NULL) {
		/* no-wedge clause: a drained ring must accept any request of at most N/2 - 1 cache lines */
		int wd = was_drained && want + 1 <= g_ncl / 2;
		g_fails++;
		if (wd) g_wedge++;
		vs_note("alloc-fail n=%u ncl=%u%s", n, want, wd ? " WEDGE" : "");
	} else {
		int cell = cell_of(p);
		uint32_t ncl = hdr_ncl(p);
		int tag = tag_of(tid, k);
		ghost_alloc(cell, ncl);
		vs_note("alloc at=%d ncl=%u", cell, ncl);
		if (n > 0) {
			fill(p, n, tag);
			p[n - 1] = (char)tag;              /* visible: one plain write into the payload */
		}
		if (commit) {
			muggle_shm_ringbuf_w_move(g_rb);
			ghost_commit(cell, n, ncl, tag);
			vs_note("commit at=%d n=%u tag=%d", cell, n, tag);
		}
	}
	if (g_lock) muggle_spinlock_unlock(muggle_shm_ringbuf_get_wlock(g_rb));
}

static void do_fetch(void)
{
	uint32_t n = 0;
	char *p = (char *)muggle_shm_ringbuf_r_fetch(g_rb, &n);
	if (p == NULL) {
		g_none++;
		vs_note("fetch none");
		return;
	}
	int tag = n > 0 ? p[n - 1] : 0;                  /* visible: one plain read of the payload */
	int ok = all_equal(p, n, tag);
	int cell = cell_of(p);
	ghost_fetch(cell, n, tag, ok);
	vs_note("fetch at=%d n=%u tag=%d bytes=%s", cell, n, tag, ok ? "ok" : "CORRUPT");
	muggle_shm_ringbuf_r_move(g_rb);
	g_consumed++;
	vs_note("consumed");
}

static void worker(void *arg)
{
	int tid = (int)(intptr_t)arg;
	for (int k = 0; k < g_nops[tid]; k++) {
		Op *o = &g_prog[tid][k];
		if (o->kind == 'a') do_alloc(tid, k, o->n, 1);
		else if (o->kind == 'A') do_alloc(tid, k, o->n, 0);
		else do_fetch();
		vs_op_done();
	}
}

static void vh_reset(void) { g_conf = 0; g_nthr = 0; g_kill_tid = -1; g_maxsteps = 4000; }

static int setup(void)
{
	vs_reset();
	g_committed = g_consumed = g_fetched = g_none = g_fails = 0;
	g_fifo_viol = g_overlap_viol = g_bounds_viol = g_corrupt = g_none_viol = g_wedge = 0;
	g_rb = muggle_shm_ringbuf_open(&g_shm, "/tmp", 1, MUGGLE_SHM_FLAG_CREAT, g_nbytes);
	if (!g_rb) return 0;
	g_ncl = g_rb->n_cacheline;
	g_data = (char *)muggle_shm_ringbuf_get_data(g_rb, 0);
	vs_reg("write_cursor", &g_rb->write_cursor, 4, 0);
	vs_reg("cached_remain", &g_rb->cached_remain, 4, 0);
	vs_reg("cached_w_hdr", &g_rb->cached_w_hdr, 8, 0);
	vs_reg("read_cursor", &g_rb->read_cursor, 4, 0);
	vs_reg("cached_r_hdr", &g_rb->cached_r_hdr, 8, 0);
	vs_reg("write_lock", &g_rb->write_lock, sizeof g_rb->write_lock, 0);
	vs_reg("data", g_data, (size_t)g_ncl * 64, 64);
	for (int i = 0; i < g_nthr; i++) vs_spawn(worker, (void *)(intptr_t)i);
	return 1;
}

static int g_pol; static uint64_t g_seed; static int g_depth; static char g_replay[1 << 18];

static void vh_op(int argc, char **argv)
{
	if (!strcmp(argv[0], "conf") && argc == 3) {
		unsigned long long nb = vh_ull(argv[1]);
		if (nb == 0 || nb > 16777216ULL) { printf("bad-op\n"); return; }
		g_nbytes = (uint32_t)nb; g_lock = atoi(argv[2]) != 0;
		g_conf = 1; g_nthr = 0; g_pol = 0; g_seed = 1; g_kill_tid = -1; g_maxsteps = 4000;
		printf("ok\n");
		return;
	}
	if (!strcmp(argv[0], "thr") && g_conf && g_nthr < MAXTHR) {
		int t = g_nthr, k = 0, bad = argc - 1 > MAXOPS;
		for (int i = 1; i < argc && !bad; i++) {
			char c = argv[i][0];
			if (c != 'f' && strspn(argv[i] + 1, "0123456789") != strlen(argv[i] + 1)) { bad = 1; break; }
			if (c != 'f' && strlen(argv[i] + 1) > 12) { bad = 1; break; }
			if (c == 'f' && argv[i][1] == 0) { g_prog[t][k].kind = 'f'; g_prog[t][k].n = 0; k++; }
			else if ((c == 'a' || c == 'A') && argv[i][1]) {
				unsigned long long v = vh_ull(argv[i] + 1);
				if (v > 0xffffffffULL) { bad = 1; break; }
				g_prog[t][k].kind = c; g_prog[t][k].n = (uint32_t)v; k++;
			} else { bad = 1; break; }
		}
		if (bad) { printf("bad-op\n"); return; }
		g_nops[t] = k; g_nthr++;
		printf("ok\n");
		return;
	}
	if (!strcmp(argv[0], "kill") && argc == 3) {
		g_kill_tid = atoi(argv[1]); g_kill_k = atol(argv[2]); printf("ok\n"); return;
	}
	if (!strcmp(argv[0], "maxsteps") && argc == 2) { g_maxsteps = atol(argv[1]); printf("ok\n"); return; }
	if (!strcmp(argv[0], "sched") && argc >= 2) {
		if (!strcmp(argv[1], "random") && argc == 3) { g_pol = 0; g_seed = vh_ull(argv[2]); }
		else if (!strcmp(argv[1], "pct") && argc == 4) { g_pol = 1; g_seed = vh_ull(argv[2]); g_depth = atoi(argv[3]); }
		else if (!strcmp(argv[1], "replay") || !strcmp(argv[1], "prefix") || !strcmp(argv[1], "opseq")) {
			g_pol = !strcmp(argv[1], "prefix") ? 3 : !strcmp(argv[1], "opseq") ? 4 : 2; g_replay[0] = 0; size_t o = 0;
			for (int i = 2; i < argc; i++) o += snprintf(g_replay + o, sizeof g_replay - o, "%s ", argv[i]); }
		else { printf("bad-op\n"); return; }
		printf("ok\n");
		return;
	}
	if (!strcmp(argv[0], "run") && g_conf && g_nthr > 0) {
		if (!setup()) { printf("open-failed\n"); return; }
		if (g_pol == 0) vs_policy_random(g_seed);
		else if (g_pol == 1) vs_policy_pct(g_seed, g_depth);
		else if (g_pol == 3) { vs_policy_prefix(g_replay); vs_trace_enabled(1); }
		else if (g_pol == 4) { vs_policy_opseq(g_replay); vs_trace_enabled(1); }
		else vs_policy_replay(g_replay);
		vs_set_max_steps(g_maxsteps);
		if (g_kill_tid >= 0) vs_kill_after(g_kill_tid, g_kill_k);
		if (vs_run() != VS_OK) vh_request_restart();
		vs_print(stdout);
		printf("geometry n_cacheline=%u n_bytes=%u total_bytes=%u\n", g_ncl, g_rb->n_bytes, g_rb->total_bytes);
		printf("outcome committed=%d fetched=%d consumed=%d none=%d alloc_fail=%d fifo_viol=%d overlap_viol=%d "
			   "bounds_viol=%d corrupt=%d wedge=%d canary=%s W=%d R=%d CR=%d\n",
			   g_committed, g_fetched, g_consumed, g_none, g_fails, g_fifo_viol, g_overlap_viol,
			   g_bounds_viol, g_corrupt, g_wedge, canary_ok() ? "ok" : "SMASHED",
			   (int)g_rb->write_cursor, (int)g_rb->read_cursor, (int)g_rb->cached_remain);
		return;
	}
	printf("bad-op\n");
}

VH_MAIN()
