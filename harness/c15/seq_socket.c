#define _GNU_SOURCE
/* C15 harness (part 1): the real socket event-loop handle of /repo
 * (muggle/c/net/socket_evloop_handle.c on top of the real event loop, select / poll / epoll)
 * driven with real AF_UNIX / loopback TCP sockets.
 *
 * Threads: the event loop runs in its own thread (muggle_evloop_run); the harness' main
 * thread plays the peers (clients) and the worker threads of the application (retain /
 * release / shutdown / hand-over of contexts).
 *
 * Determinism: the loop can be parked inside the user's cb_wake callback (which the handle
 * calls after it has drained its hand-over queue). `sync` brings the loop to quiescence:
 * two park/resume barriers with no callback activity in between (a complete dispatch round
 * whose readiness snapshot was taken after everything the main thread did). Results are
 * printed per context (identity = order of creation by the main thread), never in the
 * cross-context order of one dispatch round, which the back-ends legitimately differ in.
 *
 * Ownership oracle: contexts are allocated by the harness' cb_alloc / freed by cb_free
 * (real malloc/free underneath, so ASan sees any use after free); every callback, every
 * close() of a server-side descriptor (event_fd.c is compiled with -Dclose=vh_close) and
 * every byte handed to cb_msg is recorded per context.
 *
 * ops:  new <backend 1 select|2 poll|3 epoll> <hints_max_fd> <u|t> <read chunk>
 *       conn <alloc ok 0|1>     a client connects                        -> c<id>
 *       hand                    a worker creates a connected context and hands it over -> c<id>
 *       send <id> <n> <frag>    the peer of <id> sends n pattern bytes in writes of <= frag
 *       pclose <id>             the peer closes
 *       shut <id> | retain <id> | wrel <id>     worker: shutdown / take a reference / drop it
 *       park | unpark           park the loop inside cb_wake / let it run
 *       sync                    quiesce, print every context whose observation changed
 *       exit                    muggle_evloop_exit from this thread, join the loop thread
 *       end                     verdict of the ownership oracle
 */
#include "vharness.h"
#include <pthread.h>
#include <semaphore.h>
#include <signal.h>
#include <errno.h>
#include <time.h>
#include <unistd.h>
#include <fcntl.h>
#include <sys/socket.h>
#include <sys/un.h>
#include <netinet/in.h>
#include <arpa/inet.h>
#include "muggle/c/net/socket.h"
#include "muggle/c/net/socket_context.h"
#include "muggle/c/net/socket_evloop_handle.h"
#include "muggle/c/event/event_loop.h"

#define MAXC 256
enum { M_NONE, M_LIVE, M_FREED };

typedef struct {
	muggle_socket_context_t *ctx;
	int mem;
	int kind;            /* 0 listener, 1 accepted, 2 handed over */
	int alloc_ok;
	int sfd, sfd_open;   /* server-side descriptor as far as the harness knows it */
	int cfd, c_open;     /* peer end */
	unsigned short cport; /* TCP: local port of the peer end */
	int nconn, nadd, ncls, nrel, nfdc, nfree;
	long got, sent;
	int bad, shut, held;
	int expect_close;    /* cb_alloc failed for this connection: the next unknown close is its fd */
	int oconn, oadd, ocls, orel; /* reference count as seen on entry of cb_conn / cb_add_ctx / cb_close / cb_release */
	int post, has_post;  /* count read by a callback after the worker act it hosted */
	int unowned;         /* a callback ran although the loop's own reference was not counted */
} rec_t;

static rec_t R[MAXC];
static int g_n;                         /* identities handed out */
static int g_started, g_exited, g_parked, g_rd, g_fam, g_be;
static int g_conn_ids[MAXC], g_nconn_ids, g_alloc_calls;
static muggle_socket_evloop_handle_t g_handle;
static muggle_event_loop_t *g_evloop;
static pthread_t g_thr;
static int g_lfd = -1;
static struct sockaddr_un g_uaddr; static socklen_t g_ulen;
static struct sockaddr_in g_taddr;
static sem_t g_sem_parked, g_sem_resume;
static volatile int g_pause_req;
static volatile long g_activity;
static int g_wild, g_timeout, g_maperr;
static pthread_mutex_t g_mu = PTHREAD_MUTEX_INITIALIZER;   /* protects R[] against the loop thread */
static char g_prev[MAXC][128];
static unsigned g_uniq;

static unsigned char pat(int c, long k) { return (unsigned char)(((long)c * 31 + k * 7 + k / 256) % 251); }

static rec_t *find_live(muggle_socket_context_t *ctx)
{
	for (int i = 0; i < g_n; i++)
		if (R[i].mem == M_LIVE && R[i].ctx == ctx) return &R[i];
	return NULL;
}

/* ---- close() as seen from event_fd.c (muggle_ev_fd_close) ---- */
int vh_close(int fd)
{
	pthread_mutex_lock(&g_mu);
	g_activity++;
	rec_t *r = NULL;
	for (int i = 0; i < g_n && !r; i++)
		if (R[i].sfd_open && R[i].sfd == fd) r = &R[i];
	if (!r && fd >= 0)
		for (int i = 0; i < g_n && !r; i++)
			if (R[i].expect_close) { r = &R[i]; r->expect_close = 0; r->sfd = fd; r->sfd_open = 1; }
	if (r) { r->nfdc++; r->sfd_open = 0; }
	pthread_mutex_unlock(&g_mu);
	return close(fd);
}

/* ---- worker acts (main thread, or hosted by a callback on the loop thread) ---- */
static void do_free(muggle_socket_context_t *ctx);
static int ref_of(muggle_socket_context_t *ctx) { return (int)muggle_socket_ctx_ref_num(ctx, muggle_memory_order_relaxed); }

static int worker_release(int c)      /* 0: not holding a reference */
{
	pthread_mutex_lock(&g_mu);
	if (c < 0 || c >= g_n || R[c].held == 0) { pthread_mutex_unlock(&g_mu); return 0; }
	R[c].held--;
	muggle_socket_context_t *ctx = R[c].ctx;
	pthread_mutex_unlock(&g_mu);
	if (muggle_socket_ctx_ref_release(ctx) == 0) {
		/* the documented protocol: the last owner releases user data, closes, frees */
		pthread_mutex_lock(&g_mu); R[c].nrel++; pthread_mutex_unlock(&g_mu);
		muggle_socket_ctx_close(ctx);
		do_free(ctx);
	}
	return 1;
}
static void worker_retain(int c)
{
	if (muggle_socket_ctx_ref_retain(R[c].ctx) > 0) {
		pthread_mutex_lock(&g_mu); R[c].held++; pthread_mutex_unlock(&g_mu);
	}
}

enum { CB_MSG, CB_CLOSE };
typedef struct { int armed, cb, id, act /* 0 wrel, 1 retain */, target; } hook_t;
static hook_t H[128];
static int g_nh;

/* entry of a user callback on ctx: the loop must still own a reference of its own */
static void observe(rec_t *r, muggle_socket_context_t *ctx, int *slot)
{
	int v = ref_of(ctx);
	if (slot) *slot = v;
	if (v - r->held < 1) r->unowned = 1;
}

/* the worker acts this callback hosts; afterwards the callback goes on using its context */
static void fire(int cb, rec_t *r, muggle_socket_context_t *ctx)
{
	int id = (int)(r - R), any = 0;
	hook_t mine[16];
	pthread_mutex_lock(&g_mu);
	for (int i = 0; i < g_nh && any < 16; i++)
		if (H[i].armed && H[i].cb == cb && H[i].id == id) { H[i].armed = 0; mine[any++] = H[i]; }
	pthread_mutex_unlock(&g_mu);
	for (int k = 0; k < any; k++) {
		int t = mine[k].target;
		if (mine[k].act == 0) worker_release(t);
		else {
			pthread_mutex_lock(&g_mu);
			int ok = t >= 0 && t < g_n && R[t].mem == M_LIVE && (t == id || R[t].held > 0);
			pthread_mutex_unlock(&g_mu);
			if (ok) worker_retain(t);
		}
	}
	if (any) {
		int v = ref_of(ctx);          /* use after free here if the hosted release freed the context */
		pthread_mutex_lock(&g_mu); r->post = v; r->has_post = 1; pthread_mutex_unlock(&g_mu);
	}
}

/* ---- callbacks (loop thread) ---- */
static muggle_socket_context_t *cb_alloc(void *pool)
{
	(void)pool;
	pthread_mutex_lock(&g_mu);
	g_activity++;
	muggle_socket_context_t *p = NULL;
	if (g_alloc_calls < g_nconn_ids) {
		rec_t *r = &R[g_conn_ids[g_alloc_calls++]];
		if (r->alloc_ok) {
			p = (muggle_socket_context_t *)malloc(sizeof *p);
			memset(p, 0xA5, sizeof *p);
			r->ctx = p; r->mem = M_LIVE;
		} else r->expect_close = 1;
	} else g_maperr++;
	pthread_mutex_unlock(&g_mu);
	return p;
}

static void do_free(muggle_socket_context_t *ctx)
{
	pthread_mutex_lock(&g_mu);
	g_activity++;
	rec_t *r = find_live(ctx);
	if (!r) { g_wild++; pthread_mutex_unlock(&g_mu); return; }   /* double or wild free: do not pass it on */
	if (r->kind == 1 && r->nconn == 0 && !r->sfd_open && r->nfdc == 0) {
		/* accept-time registration failure: the descriptor is still in the context */
		r->sfd = ctx->base.fd; r->sfd_open = 1;
	}
	r->nfree++; r->mem = M_FREED;
	pthread_mutex_unlock(&g_mu);
	free(ctx);
}
static void cb_free(void *pool, muggle_socket_context_t *ctx) { (void)pool; do_free(ctx); }

static void cb_conn(muggle_event_loop_t *ev, muggle_socket_context_t *ctx)
{
	(void)ev;
	pthread_mutex_lock(&g_mu);
	g_activity++;
	rec_t *r = find_live(ctx);
	if (r) {
		r->nconn++; r->sfd = ctx->base.fd; r->sfd_open = 1; observe(r, ctx, &r->oconn);
		if (g_fam == 't') {          /* identity check: the accepted socket's peer is that client */
			struct sockaddr_in a; socklen_t la = sizeof a;
			if (getpeername(ctx->base.fd, (struct sockaddr *)&a, &la) == 0 && a.sin_port != r->cport) g_maperr++;
		}
	} else g_wild++;
	pthread_mutex_unlock(&g_mu);
}
static void cb_add(muggle_event_loop_t *ev, muggle_socket_context_t *ctx)
{
	(void)ev;
	pthread_mutex_lock(&g_mu); g_activity++;
	rec_t *r = find_live(ctx); if (r) { r->nadd++; observe(r, ctx, &r->oadd); } else g_wild++;
	pthread_mutex_unlock(&g_mu);
}
static void cb_close(muggle_event_loop_t *ev, muggle_socket_context_t *ctx)
{
	(void)ev;
	pthread_mutex_lock(&g_mu); g_activity++;
	rec_t *r = find_live(ctx); if (r) { r->ncls++; observe(r, ctx, &r->ocls); } else g_wild++;
	pthread_mutex_unlock(&g_mu);
	if (r) fire(CB_CLOSE, r, ctx);
}
static void cb_release(muggle_event_loop_t *ev, muggle_socket_context_t *ctx)
{
	(void)ev;
	pthread_mutex_lock(&g_mu); g_activity++;
	rec_t *r = find_live(ctx); if (r) { r->nrel++; r->orel = ref_of(ctx); } else g_wild++;
	pthread_mutex_unlock(&g_mu);
}
static void cb_msg(muggle_event_loop_t *ev, muggle_socket_context_t *ctx)
{
	(void)ev;
	unsigned char buf[4096];
	int rd = g_rd > (int)sizeof buf ? (int)sizeof buf : g_rd;
	pthread_mutex_lock(&g_mu); g_activity++;
	rec_t *r = find_live(ctx);
	if (r) observe(r, ctx, NULL);
	pthread_mutex_unlock(&g_mu);
	if (!r) { __atomic_add_fetch(&g_wild, 1, __ATOMIC_RELAXED); }
	int n;
	while ((n = muggle_socket_ctx_read(ctx, buf, (size_t)rd)) > 0) {
		if (!r) continue;
		pthread_mutex_lock(&g_mu);
		for (int i = 0; i < n; i++)
			if (buf[i] != pat((int)(r - R), r->got + i)) r->bad = 1;
		r->got += n;
		pthread_mutex_unlock(&g_mu);
	}
	if (r) fire(CB_MSG, r, ctx);
}
static void cb_wake(muggle_event_loop_t *ev)
{
	(void)ev;
	if (__atomic_load_n(&g_pause_req, __ATOMIC_ACQUIRE)) {
		__atomic_store_n(&g_pause_req, 0, __ATOMIC_RELEASE);
		sem_post(&g_sem_parked);
		while (sem_wait(&g_sem_resume) != 0 && errno == EINTR) {}
	}
}

static void *loop_main(void *arg) { (void)arg; muggle_evloop_run(g_evloop); return NULL; }

/* ---- park / quiesce ---- */
static int sem_wait_to(sem_t *s, int sec)
{
	struct timespec ts; clock_gettime(CLOCK_REALTIME, &ts); ts.tv_sec += sec;
	int r;
	while ((r = sem_timedwait(s, &ts)) != 0 && errno == EINTR) {}
	return r;
}
static void do_park(void)
{
	if (g_timeout) return;            /* the loop is gone or stuck: reported as TIMEOUT, do not wait again */
	__atomic_store_n(&g_pause_req, 1, __ATOMIC_RELEASE);
	muggle_evloop_wakeup(g_evloop);
	if (sem_wait_to(&g_sem_parked, 20) != 0) {
		g_timeout++;
		/* one case of a process may report TIMEOUT in its `end` line; on a tree where the loop never
		 * answers, every further case would cost another 20 s: stop the process (a crash result) */
		static int stuck_cases;
		if (++stuck_cases > 1) {
			static const char msg[] = "hang: the event loop did not answer a wake-up within 20 s (second case of this process)\n";
			ssize_t r = write(2, msg, sizeof msg - 1); (void)r;
			fflush(stdout);
			_exit(97);
		}
	}
}
static void do_unpark(void) { if (!g_timeout) sem_post(&g_sem_resume); }
static long activity(void) { pthread_mutex_lock(&g_mu); long a = g_activity; pthread_mutex_unlock(&g_mu); return a; }
/* Quiescence. A park happens inside cb_wake, once per dispatch round at most. The round of the
 * first park may have taken its readiness snapshot before the main thread's last act (another
 * wake-up, e.g. of a hand-over, may have been in flight); the round of the second park started
 * after the first park, hence after everything the main thread did: its snapshot is complete
 * and everything in it has been handled when the third park is reached (select handles the
 * wake-up before the other descriptors of the same round, poll after, epoll anywhere). If no
 * callback ran between the start and the third park, nothing was pending. */
static void quiesce(void)      /* loop must be running (not parked) */
{
	for (int guard = 0; guard < 10000 && !g_timeout; guard++) {
		long a0 = activity();
		do_park(); do_unpark();
		do_park(); do_unpark();
		if (g_fam == 't') { usleep(200); do_park(); do_unpark(); do_park(); do_unpark(); }
		do_park();
		long a1 = activity();
		do_unpark();
		if (a1 == a0) return;
	}
}

/* ---- teardown ---- */
static void stop_loop(void)
{
	if (g_started && !g_exited) {
		muggle_evloop_exit(g_evloop);
		__atomic_store_n(&g_pause_req, 0, __ATOMIC_RELEASE);
		if (g_parked || g_timeout) { sem_post(&g_sem_resume); g_parked = 0; }
		struct timespec ts; clock_gettime(CLOCK_REALTIME, &ts); ts.tv_sec += 15;
		if (pthread_timedjoin_np(g_thr, NULL, &ts) != 0) {
			/* the exit request was lost: nothing can be done with this process any more */
			static const char msg[] = "hang: muggle_evloop_run did not return within 15 s of muggle_evloop_exit\n";
			ssize_t r = write(2, msg, sizeof msg - 1); (void)r;
			_exit(97);
		}
		g_exited = 1;
	}
}
static void vh_reset(void)
{
	if (g_started) {
		stop_loop();
		for (int i = 0; i < g_n; i++) {
			if (R[i].c_open && R[i].cfd >= 0) close(R[i].cfd);
			if (R[i].mem == M_LIVE) {          /* still owned by a worker, or leaked: reported by `end` already */
				if (R[i].ctx->base.fd >= 0) close(R[i].ctx->base.fd);
				free(R[i].ctx);
			}
		}
		muggle_evloop_delete(g_evloop);
		muggle_socket_evloop_handle_destroy(&g_handle);
		if (g_lfd >= 0) { /* closed through the listener context */ }
		sem_destroy(&g_sem_parked); sem_destroy(&g_sem_resume);
	}
	memset(R, 0, sizeof R);
	g_n = 0; g_started = g_exited = g_parked = 0; g_nconn_ids = g_alloc_calls = 0;
	g_pause_req = 0; g_activity = 0; g_wild = g_timeout = g_maperr = 0; g_lfd = -1; g_evloop = NULL;
	memset(g_prev, 0, sizeof g_prev);
	memset(H, 0, sizeof H); g_nh = 0;
}

static void snap(int i, char *out, size_t n)
{
	rec_t *r = &R[i];
	char ref[16] = "-";
	if (r->mem == M_LIVE) snprintf(ref, sizeof ref, "%d", (int)__atomic_load_n(&r->ctx->base.ref_cnt, __ATOMIC_SEQ_CST));
	char post[16] = "-";
	if (r->has_post) snprintf(post, sizeof post, "%d", r->post);
	snprintf(out, n, "c%d:%c r%s k%d a%d x%d l%d d%d f%d g%ld o%d.%d.%d.%d h%s", i,
		r->mem == M_LIVE ? 'L' : r->mem == M_FREED ? 'F' : '-', ref,
		r->nconn, r->nadd, r->ncls, r->nrel, r->nfdc, r->nfree, r->got,
		r->oconn, r->oadd, r->ocls, r->orel, post);
}

static int new_listener(void)
{
	int fd;
	if (g_fam == 'u') {
		fd = socket(AF_UNIX, SOCK_STREAM, 0);
		memset(&g_uaddr, 0, sizeof g_uaddr);
		g_uaddr.sun_family = AF_UNIX;
		/* abstract namespace: no file system entry, unique per process and case */
		int k = snprintf(g_uaddr.sun_path + 1, sizeof g_uaddr.sun_path - 1, "vh-c15-%d-%u", (int)getpid(), g_uniq++);
		g_ulen = (socklen_t)(offsetof(struct sockaddr_un, sun_path) + 1 + k);
		if (fd < 0 || bind(fd, (struct sockaddr *)&g_uaddr, g_ulen) != 0) return -1;
	} else {
		fd = socket(AF_INET, SOCK_STREAM, 0);
		memset(&g_taddr, 0, sizeof g_taddr);
		g_taddr.sin_family = AF_INET; g_taddr.sin_addr.s_addr = htonl(INADDR_LOOPBACK); g_taddr.sin_port = 0;
		socklen_t l = sizeof g_taddr;
		if (fd < 0 || bind(fd, (struct sockaddr *)&g_taddr, sizeof g_taddr) != 0 ||
			getsockname(fd, (struct sockaddr *)&g_taddr, &l) != 0) { if (fd >= 0) close(fd); return -1; }
	}
	if (listen(fd, 128) != 0) { close(fd); return -1; }
	return fd;
}

static int can_touch(int c)
{
	return c >= 0 && c < g_n && R[c].mem == M_LIVE && (R[c].held > 0 || (g_parked && !g_exited));
}

static void vh_op(int argc, char **argv)
{
	const char *op = argv[0];
	if (!strcmp(op, "new") && argc == 5) {
		vh_reset();
		signal(SIGPIPE, SIG_IGN);
		g_be = atoi(argv[1]); g_fam = argv[3][0]; g_rd = atoi(argv[4]);
		muggle_socket_lib_init();
		sem_init(&g_sem_parked, 0, 0); sem_init(&g_sem_resume, 0, 0);
		muggle_event_loop_init_args_t args; memset(&args, 0, sizeof args);
		args.evloop_type = g_be; args.hints_max_fd = atoi(argv[2]); args.use_mem_pool = 0;
		g_evloop = muggle_evloop_new(&args);
		if (!g_evloop || muggle_socket_evloop_handle_init(&g_handle) != 0) { printf("fail\n"); return; }
		muggle_socket_evloop_handle_set_cb_conn(&g_handle, cb_conn);
		muggle_socket_evloop_handle_set_cb_msg(&g_handle, cb_msg);
		muggle_socket_evloop_handle_set_cb_close(&g_handle, cb_close);
		muggle_socket_evloop_handle_set_cb_release(&g_handle, cb_release);
		muggle_socket_evloop_handle_set_cb_add_ctx(&g_handle, cb_add);
		muggle_socket_evloop_handle_set_cb_wake(&g_handle, cb_wake);
		muggle_socket_evloop_handle_set_alloc_free(&g_handle, NULL, cb_alloc, cb_free);
		muggle_socket_evloop_handle_attach(&g_handle, g_evloop);
		g_lfd = new_listener();
		if (g_lfd < 0 && g_fam == 't') {
			/* loopback TCP not available right now (ephemeral ports exhausted by TIME_WAIT):
			 * the scenario is run over AF_UNIX instead; nothing else depends on the family */
			g_fam = 'u';
			g_lfd = new_listener();
		}
		if (g_lfd < 0) { printf("fail\n"); return; }
		rec_t *r = &R[0];
		r->ctx = (muggle_socket_context_t *)malloc(sizeof *r->ctx);
		r->mem = M_LIVE; r->kind = 0; r->sfd = g_lfd; r->sfd_open = 1; r->cfd = -1;
		muggle_socket_ctx_init(r->ctx, g_lfd, NULL, MUGGLE_SOCKET_CTX_TYPE_TCP_LISTEN);
		g_n = 1;
		if (muggle_evloop_add_ctx(g_evloop, (muggle_event_context_t *)r->ctx) != 0) { printf("fail\n"); return; }
		g_started = 1;
		pthread_create(&g_thr, NULL, loop_main, NULL);
		/* wait until the loop thread is inside muggle_evloop_run (it has recorded its thread
		 * id): exit requests issued before that are C14's subject, not this property's */
		do_park(); do_unpark();
		for (int i = 0; i < g_n; i++) snap(i, g_prev[i], sizeof g_prev[i]);
		printf("ok\n");
		return;
	}
	if (!g_started) { printf("bad-op\n"); return; }
	if (!strcmp(op, "conn") && argc == 2) {
		if (g_exited || g_n >= MAXC) { printf("bad-op\n"); return; }
		int fd, rc;
		/* the loop may accept the connection the moment connect() completes: the record must
		 * exist before cb_alloc looks for it, so the loop's callbacks are held off meanwhile */
		pthread_mutex_lock(&g_mu);
		if (g_fam == 'u') { fd = socket(AF_UNIX, SOCK_STREAM, 0); rc = connect(fd, (struct sockaddr *)&g_uaddr, g_ulen); }
		else {
			fd = socket(AF_INET, SOCK_STREAM, 0); rc = connect(fd, (struct sockaddr *)&g_taddr, sizeof g_taddr);
			for (int tries = 0; rc != 0 && errno == EADDRNOTAVAIL && tries < 200; tries++) {
				struct timespec ts = {0, 20000000}; nanosleep(&ts, NULL);   /* no free ephemeral port: wait for one */
				close(fd);
				fd = socket(AF_INET, SOCK_STREAM, 0); rc = connect(fd, (struct sockaddr *)&g_taddr, sizeof g_taddr);
			}
		}
		if (rc != 0) { pthread_mutex_unlock(&g_mu); printf("connect-failed %d\n", errno); if (fd >= 0) close(fd); return; }
		int c = g_n;
		rec_t *r = &R[c];
		if (g_fam == 't') {
			int one = 1; setsockopt(fd, IPPROTO_TCP, 1 /* TCP_NODELAY */, &one, sizeof one);
			struct sockaddr_in b; socklen_t lb = sizeof b;
			if (getsockname(fd, (struct sockaddr *)&b, &lb) == 0) r->cport = b.sin_port;
		}
		r->kind = 1; r->alloc_ok = atoi(argv[1]) != 0; r->cfd = fd; r->c_open = 1; r->sfd = -1;
		g_conn_ids[g_nconn_ids++] = c;
		g_n++;
		pthread_mutex_unlock(&g_mu);
		printf("c%d\n", c);
		return;
	}
	if (!strcmp(op, "hand") && argc == 1) {
		if (g_exited || g_n >= MAXC) { printf("bad-op\n"); return; }
		int sv[2];
		if (socketpair(AF_UNIX, SOCK_STREAM, 0, sv) != 0) { printf("socketpair-failed\n"); return; }
		muggle_socket_context_t *ctx = (muggle_socket_context_t *)malloc(sizeof *ctx);
		muggle_socket_ctx_init(ctx, sv[0], NULL, MUGGLE_SOCKET_CTX_TYPE_TCP_CLIENT);
		pthread_mutex_lock(&g_mu);
		int c = g_n;
		rec_t *r = &R[c];
		r->kind = 2; r->ctx = ctx; r->mem = M_LIVE; r->sfd = sv[0]; r->sfd_open = 1; r->cfd = sv[1]; r->c_open = 1;
		g_n++;
		pthread_mutex_unlock(&g_mu);
		muggle_socket_evloop_add_ctx(g_evloop, ctx);
		printf("c%d\n", c);
		return;
	}
	if (!strcmp(op, "send") && argc == 4) {
		int c = atoi(argv[1]); long n = atol(argv[2]), frag = atol(argv[3]);
		if (c < 0 || c >= g_n || !R[c].c_open || frag < 1 || n < 0 || n > (1 << 20)) { printf("bad-op\n"); return; }
		unsigned char *b = (unsigned char *)malloc((size_t)n + 1);
		for (long i = 0; i < n; i++) b[i] = pat(c, R[c].sent + i);
		long off = 0; int shrt = 0;
		{	/* the server never writes: a readable peer end means it closed its side */
			char pk; ssize_t q = recv(R[c].cfd, &pk, 1, MSG_PEEK | MSG_DONTWAIT);
			if (q == 0 || (q < 0 && errno != EAGAIN && errno != EWOULDBLOCK)) { shrt = -1; n = 0; }
		}
		while (off < n) {
			long k = n - off < frag ? n - off : frag;
			ssize_t w = send(R[c].cfd, b + off, (size_t)k, MSG_DONTWAIT | MSG_NOSIGNAL);
			if (w < 0 && (errno == EAGAIN || errno == EWOULDBLOCK) && !g_parked && !g_exited) {
				/* socket buffer full and the loop is running: it will drain it */
				struct timespec ts = {0, 200000}; nanosleep(&ts, NULL);
				if (++shrt < 50000) continue;
			}
			if (w <= 0) { shrt = -1; break; }
			off += w;
		}
		free(b);
		R[c].sent += off;
		printf(shrt < 0 ? "short\n" : "ok\n");
		return;
	}
	if (!strcmp(op, "pclose") && argc == 2) {
		int c = atoi(argv[1]);
		if (c <= 0 || c >= g_n || !R[c].c_open) { printf("bad-op\n"); return; }
		close(R[c].cfd); R[c].c_open = 0;
		printf("ok\n");
		return;
	}
	if (!strcmp(op, "shut") && argc == 2) {
		int c = atoi(argv[1]);
		if (c == 0 || !can_touch(c)) { printf("bad-op\n"); return; }
		muggle_socket_ctx_shutdown(R[c].ctx); R[c].shut = 1;
		printf("ok\n");
		return;
	}
	if (!strcmp(op, "retain") && argc == 2) {
		int c = atoi(argv[1]);
		if (!can_touch(c)) { printf("bad-op\n"); return; }
		worker_retain(c);
		printf("ok\n");
		return;
	}
	if (!strcmp(op, "wrel") && argc == 2) {
		int c = atoi(argv[1]);
		if (!worker_release(c)) { printf("bad-op\n"); return; }
		printf("ok\n");
		return;
	}
	if (!strcmp(op, "incb") && argc == 5) {
		int cb = !strcmp(argv[1], "msg") ? CB_MSG : !strcmp(argv[1], "close") ? CB_CLOSE : -1;
		int act = !strcmp(argv[3], "wrel") ? 0 : !strcmp(argv[3], "retain") ? 1 : -1;
		int id = atoi(argv[2]), t = atoi(argv[4]);
		if (cb < 0 || act < 0 || id <= 0 || id >= 256 || t < 0 || t >= 256 || g_nh >= 128) { printf("bad-op\n"); return; }
		pthread_mutex_lock(&g_mu);
		H[g_nh].cb = cb; H[g_nh].id = id; H[g_nh].act = act; H[g_nh].target = t; H[g_nh].armed = 1;
		__atomic_store_n(&g_nh, g_nh + 1, __ATOMIC_RELEASE);
		pthread_mutex_unlock(&g_mu);
		printf("ok\n");
		return;
	}
	if (!strcmp(op, "park") && argc == 1) {
		if (g_exited || g_parked) { printf("bad-op\n"); return; }
		do_park(); g_parked = 1; printf("ok\n"); return;
	}
	if (!strcmp(op, "unpark") && argc == 1) {
		if (g_exited || !g_parked) { printf("bad-op\n"); return; }
		do_unpark(); g_parked = 0; printf("ok\n"); return;
	}
	if (!strcmp(op, "sync") && argc == 1) {
		if (!g_exited) {
			if (g_parked) do_unpark();
			quiesce();
			if (g_parked) do_park();
		}
		pthread_mutex_lock(&g_mu);
		int any = 0;
		for (int i = 0; i < g_n; i++) {
			char cur[128]; snap(i, cur, sizeof cur);
			if (strcmp(cur, g_prev[i])) { printf("%s%s", any ? " " : "", cur); any = 1; strcpy(g_prev[i], cur); }
		}
		pthread_mutex_unlock(&g_mu);
		if (g_timeout) printf("%sTIMEOUT", any ? " " : ""), any = 1;
		printf(any ? "\n" : "-\n");
		return;
	}
	if (!strcmp(op, "exit") && argc == 1) {
		if (g_exited) { printf("bad-op\n"); return; }
		stop_loop();
		printf("ok\n");
		return;
	}
	if (!strcmp(op, "end") && argc == 1) {
		char leaks[1200] = "", multi[1200] = "", bad[1200] = "", lost[1200] = "", fdl[1200] = "", uno[1200] = "";
		pthread_mutex_lock(&g_mu);
		for (int i = 0; i < g_n; i++) {
			rec_t *r = &R[i]; char t[16]; snprintf(t, sizeof t, "%d", i);
#define ADD(s) do { if (*(s)) strcat((s), ","); strcat((s), t); } while (0)
			if (g_exited && r->mem == M_LIVE && r->held == 0) ADD(leaks);
			if (r->nconn > 1 || r->nadd > 1 || r->ncls > 1 || r->nrel > 1 || r->nfdc > 1 || r->nfree > 1) ADD(multi);
			if (r->bad) ADD(bad);
			if (r->ncls == 1 && !r->shut && r->got != r->sent) ADD(lost);
			/* descriptor of a context that is gone (or was never created) still open */
			if ((r->mem == M_FREED && r->sfd_open) || r->expect_close) ADD(fdl);
			if (r->unowned) ADD(uno);
		}
		pthread_mutex_unlock(&g_mu);
		printf("end exited=%d leaks=%s multi=%s bad=%s lost=%s fdl=%s unowned=%s wild=%d\n", g_exited,
			*leaks ? leaks : "-", *multi ? multi : "-", *bad ? bad : "-", *lost ? lost : "-", *fdl ? fdl : "-",
			*uno ? uno : "-",
			g_wild + g_maperr + g_timeout);
		return;
	}
	printf("bad-op\n");
}

VH_MAIN()
