/* C15 harness (part 2): the real muggle_socket_evloop_pipe_write / _read of /repo
 * (socket_evloop_pipe.c, socket.c muggle_socket_block_write, spinlock.c, event_context.c,
 * event_fd.c) under the deterministic scheduler of harness/tsanshim.
 *
 * The kernel pipe is replaced by a byte FIFO modelled here: event_fd.c and
 * socket_evloop_pipe.c are compiled with read/write/close/fcntl/pipe redirected to the vp_*
 * functions below. Every system call is an explicit scheduling point ("note sys") followed
 * by its result ("note write n/req", "note read n/req", "... eagain"); how many bytes a call
 * transfers is min(request, room or available, next entry of the scripted chunk list), so
 * every split of the byte stream into partial writes / partial reads can be produced.
 * muggle_nsleep is a yield.
 *
 * ops:   conf pipe <cap> ; <wchunks…> ; <rchunks…> ; <pointers of writer 0…> ; <writer 1…> …
 *        sched random <seed> | pct <seed> <depth> | replay <tokens…>
 *        run
 * Pointer m (1..31) is the 8 bytes 8m, 8m+1, …, 8m+7. */
#include "vharness.h"
#include "tsanshim/vsched.h"
#include <errno.h>
#include <stdarg.h>
#include <sched.h>
#include "muggle/c/net/socket_evloop_pipe.h"

#define MAXW 8
#define MAXM 64
#define FIFO_MAX 8192

static int g_ok, g_cap, g_nw, g_total;
static int g_wch[64], g_nwch, g_rch[64], g_nrch;
static int g_prog[MAXW][MAXM], g_plen[MAXW];
static int g_wid[MAXW];

/* the modelled kernel pipe (touched by one thread at a time: the scheduler runs one thread) */
static unsigned char F[FIFO_MAX];
static int f_len, f_wi, f_ri;
#define FD_R 1000
#define FD_W 1001

static muggle_socket_evloop_pipe_t g_pipe;
static char g_delivered[4096];

int vp_pipe(int fds[2]) { fds[0] = FD_R; fds[1] = FD_W; return 0; }
int vp_fcntl(int fd, int cmd, ...) { (void)fd; (void)cmd; return 0; }
int vp_close(int fd) { (void)fd; return 0; }

static int chunk_of(int *l, int n, int i) { return n == 0 ? 0 : l[i % n]; }
static int xfer(int req, int avail, int chunk)
{
	int n = req < avail ? req : avail;
	if (chunk != 0 && chunk < n) n = chunk;
	return n;
}

ssize_t vp_write(int fd, const void *buf, size_t len)
{
	if (fd != FD_W) { errno = EBADF; return -1; }
	vs_step("sys");
	int room = g_cap - f_len;
	if (room == 0) { vs_note("write eagain"); errno = EAGAIN; return -1; }
	int n = xfer((int)len, room, chunk_of(g_wch, g_nwch, f_wi));
	f_wi++;
	memcpy(F + f_len, buf, (size_t)n);
	f_len += n;
	vs_note("write %d/%d", n, (int)len);
	return n;
}

ssize_t vp_read(int fd, void *buf, size_t len)
{
	if (fd != FD_R) { errno = EBADF; return -1; }
	vs_step("sys");
	if (f_len == 0) { vs_note("read eagain"); errno = EAGAIN; return -1; }
	int n = xfer((int)len, f_len, chunk_of(g_rch, g_nrch, f_ri));
	f_ri++;
	memcpy(buf, F, (size_t)n);
	memmove(F, F + n, (size_t)(f_len - n));
	f_len -= n;
	vs_note("read %d/%d", n, (int)len);
	return n;
}

/* base/sleep.c is not linked: sleeping is giving the processor away */
int muggle_nsleep(uint64_t ns) { (void)ns; sched_yield(); return 0; }
int muggle_msleep(unsigned long ms) { (void)ms; sched_yield(); return 0; }

static void *ptr_of(int m)
{
	uint64_t v = 0;
	for (int j = 0; j < 8; j++) v |= (uint64_t)((m * 8 + j) & 0xff) << (8 * j);
	return (void *)(uintptr_t)v;
}
static void show_ptr(void *p, char *out, size_t n)
{
	uint64_t v = (uint64_t)(uintptr_t)p;
	unsigned char b[8];
	for (int j = 0; j < 8; j++) b[j] = (unsigned char)(v >> (8 * j));
	int m = b[0] / 8, okk = 1;
	for (int j = 0; j < 8; j++) if (b[j] != (unsigned char)((m * 8 + j) & 0xff)) okk = 0;
	if (okk) snprintf(out, n, "%d", m);
	else snprintf(out, n, "torn %d.%d.%d.%d.%d.%d.%d.%d", b[0], b[1], b[2], b[3], b[4], b[5], b[6], b[7]);
}

static void writer(void *arg)
{
	int w = *(int *)arg;
	for (int i = 0; i < g_plen[w]; i++) {
		bool ok = muggle_socket_evloop_pipe_write(&g_pipe, ptr_of(g_prog[w][i]));
		if (ok) vs_note("wrote %d", g_prog[w][i]);
		else vs_note("write-failed %d", g_prog[w][i]);
	}
}

static void reader(void *arg)
{
	(void)arg;
	int got = 0;
	while (got < g_total) {
		void *p = muggle_socket_evloop_pipe_read(&g_pipe);
		if (p == NULL) { vs_note("null"); sched_yield(); continue; }
		char s[64]; show_ptr(p, s, sizeof s);
		vs_note("got %s", s);
		size_t l = strlen(g_delivered);
		snprintf(g_delivered + l, sizeof g_delivered - l, "%s%s", got ? "," : "", s);
		got++;
	}
}

static int g_pol; static uint64_t g_seed; static int g_depth; static char g_replay[1 << 18];

static void vh_reset(void) { g_ok = 0; g_pol = 0; g_seed = 1; }

static void vh_op(int argc, char **argv)
{
	if (!strcmp(argv[0], "conf") && argc >= 4 && !strcmp(argv[1], "pipe")) {
		g_cap = atoi(argv[2]);
		if (g_cap < 1 || g_cap > FIFO_MAX) { printf("bad-op\n"); return; }
		g_nwch = g_nrch = g_nw = g_total = 0;
		memset(g_plen, 0, sizeof g_plen);
		int sec = -1;                      /* section index: 0 wchunks, 1 rchunks, 2.. writers */
		for (int i = 3; i < argc; i++) {
			if (!strcmp(argv[i], ";")) { sec++; if (sec >= 2 && sec - 2 < MAXW) g_nw = sec - 1; continue; }
			int v = atoi(argv[i]);
			if (sec == 0 && g_nwch < 64) g_wch[g_nwch++] = v;
			else if (sec == 1 && g_nrch < 64) g_rch[g_nrch++] = v;
			else if (sec >= 2 && sec - 2 < MAXW && g_plen[sec - 2] < MAXM) { g_prog[sec - 2][g_plen[sec - 2]++] = v; g_total++; }
		}
		g_ok = sec >= 1;
		printf(g_ok ? "ok\n" : "bad-op\n");
		return;
	}
	if (!strcmp(argv[0], "sched") && argc >= 2) {
		if (!strcmp(argv[1], "random") && argc >= 3) { g_pol = 0; g_seed = vh_ull(argv[2]); }
		else if (!strcmp(argv[1], "pct") && argc >= 4) { g_pol = 1; g_seed = vh_ull(argv[2]); g_depth = atoi(argv[3]); }
		else { g_pol = 2; g_replay[0] = 0; size_t o = 0;
			for (int i = 2; i < argc; i++) o += snprintf(g_replay + o, sizeof g_replay - o, "%s ", argv[i]); }
		printf("ok\n");
		return;
	}
	if (!strcmp(argv[0], "run") && g_ok) {
		vs_reset();
		f_len = f_wi = f_ri = 0;
		g_delivered[0] = 0;
		if (muggle_socket_evloop_pipe_init(&g_pipe) != 0) { printf("init-failed\n"); return; }
		vs_reg("lock", &g_pipe.lock, sizeof g_pipe.lock, 0);
		for (int w = 0; w < g_nw; w++) { g_wid[w] = w; vs_spawn(writer, &g_wid[w]); }
		vs_spawn(reader, NULL);
		if (g_pol == 0) vs_policy_random(g_seed);
		else if (g_pol == 1) vs_policy_pct(g_seed, g_depth);
		else vs_policy_replay(g_replay);
		vs_set_spurious(0, 0);
		vs_set_max_steps(20000);
		if (vs_run() != VS_OK) vh_request_restart();
		vs_print(stdout);
		printf("outcome delivered=%s\n", g_delivered[0] ? g_delivered : "-");
		muggle_socket_evloop_pipe_destroy(&g_pipe);
		return;
	}
	printf("bad-op\n");
}

VH_MAIN()
