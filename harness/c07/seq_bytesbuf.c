/* C07 harness: drives the real muggle_bytes_buffer_* of /repo through the public API.
 * Line protocol: see lean/Drv/C07.lean. The block is the library's own
 * malloc(capacity) (ASan red zones on both sides); every destination/source
 * buffer handed to the library is an exact-size heap block, so any access outside
 * either side aborts under ASan. Stream bytes are a running counter mod 251, the
 * unclaimed tail of a zero-copy region is filled with 0xff. */
#include "vharness.h"
#include "muggle/c/memory/bytes_buffer.h"

static muggle_bytes_buffer_t g_bb;
static int g_live;
static unsigned long long g_next;   /* next stream byte */
static long long g_last = -1;       /* offset of the last zero-copy find */

static void vh_reset(void)
{
	if (g_live) muggle_bytes_buffer_destroy(&g_bb);
	g_live = 0;
	g_next = 0;
	g_last = -1;
}

static void put_hex(const unsigned char *p, long long n)
{
	static const char d[] = "0123456789abcdef";
	if (n == 0) { putchar('-'); return; }
	for (long long i = 0; i < n; i++) { putchar(d[p[i] >> 4]); putchar(d[p[i] & 15]); }
}

static unsigned char *exact(long long n)
{
	/* exact-size block (1 byte for n == 0 is never touched: poisoned by hand below) */
	if (n > (1 << 20)) n = 1 << 20;   /* larger requests can only be refused (capacity <= 2^20 here) */
	unsigned char *p = (unsigned char *)malloc(n > 0 ? (size_t)n : 1);
	if (!p) { printf("harness-oom\n"); exit(3); }
	return p;
}

static void fill_stream(unsigned char *p, long long k, long long n)
{
	for (long long i = 0; i < k; i++) p[i] = (unsigned char)((g_next + (unsigned long long)i) % 251);
	for (long long i = k; i < n; i++) p[i] = 0xff;
}

static void vh_op(int argc, char **argv)
{
	const char *op = argv[0];
	if (strcmp(op, "init") == 0 && argc == 2) {
		vh_reset();
		long long c = vh_ll(argv[1]);
		if (c < -1000000 || c > 1000000000) { printf("bad-op\n"); return; }
		bool ok = muggle_bytes_buffer_init(&g_bb, (int)c);
		if (ok) {
			g_live = 1;
			if (c > 0) memset(g_bb.buffer, 0, (size_t)c);   /* canonical dumps */
		}
		printf("%s\n", ok ? "ok" : "fail");
		return;
	}
	if (!g_live) { printf("bad-op\n"); return; }
	long long n = argc >= 2 ? vh_ll(argv[1]) : 0;
	long long k = argc >= 3 ? vh_ll(argv[2]) : 0;
	int writer = !strcmp(op, "w") || !strcmp(op, "wd") || !strcmp(op, "wz");
	int known = (argc == 2 && (!strcmp(op, "w") || !strcmp(op, "r") || !strcmp(op, "f") || !strcmp(op, "wd")
	                           || !strcmp(op, "wq") || !strcmp(op, "rq")))
	         || (argc == 3 && (!strcmp(op, "wz") || !strcmp(op, "rz")))
	         || (argc == 1 && (!strcmp(op, "cl") || !strcmp(op, "st") || !strcmp(op, "bd")));
	if (!known) { printf("bad-op\n"); return; }
	/* sizes outside the API's contract (negative, beyond int, or larger than this
	 * harness materialises for a writer) are refused by the harness itself */
	if (n < 0 || n > 2147483647LL || k < 0 || k > 2147483647LL || (writer && n > 1000000)) {
		printf("pre\n"); return; }
	if (strcmp(op, "w") == 0 && argc == 2) {
		unsigned char *src = exact(n);
		fill_stream(src, n, n);
		bool ok = muggle_bytes_buffer_write(&g_bb, (int)n, src);
		free(src);
		if (ok) g_next += (unsigned long long)n;
		printf("%d %d\n", ok ? 1 : 0, muggle_bytes_buffer_readable(&g_bb));
	} else if ((strcmp(op, "r") == 0 || strcmp(op, "f") == 0) && argc == 2) {
		unsigned char *dst = exact(n);
		bool ok = op[0] == 'r' ? muggle_bytes_buffer_read(&g_bb, (int)n, dst)
		                       : muggle_bytes_buffer_fetch(&g_bb, (int)n, dst);
		if (ok) { printf("1 "); put_hex(dst, n); printf(" %d\n", muggle_bytes_buffer_readable(&g_bb)); }
		else printf("0 %d\n", muggle_bytes_buffer_readable(&g_bb));
		free(dst);
	} else if (strcmp(op, "wz") == 0 && argc == 3) {
		if (k < 0 || k > n) { printf("pre\n"); return; }
		unsigned char *p = (unsigned char *)muggle_bytes_buffer_writer_fc(&g_bb, (int)n);
		if (!p) { g_last = -1; printf("0 %d\n", muggle_bytes_buffer_readable(&g_bb)); return; }
		g_last = p - (unsigned char *)g_bb.buffer;
		fill_stream(p, k, n);          /* the caller owns all n claimed bytes */
		bool ok = muggle_bytes_buffer_writer_move_n(&g_bb, p, (int)k);
		if (ok) g_next += (unsigned long long)k;
		printf("%d %d\n", ok ? 1 : 0, muggle_bytes_buffer_readable(&g_bb));
	} else if (strcmp(op, "wd") == 0 && argc == 2) {
		unsigned char *p = (unsigned char *)muggle_bytes_buffer_writer_fc(&g_bb, (int)n);
		if (!p) { g_last = -1; printf("0 %d\n", muggle_bytes_buffer_readable(&g_bb)); return; }
		g_last = p - (unsigned char *)g_bb.buffer;
		fill_stream(p, n, n);
		bool ok = muggle_bytes_buffer_writer_move(&g_bb, (int)n);
		if (ok) g_next += (unsigned long long)n;
		printf("%d %d\n", ok ? 1 : 0, muggle_bytes_buffer_readable(&g_bb));
	} else if (strcmp(op, "rz") == 0 && argc == 3) {
		if (k < 0) { printf("pre\n"); return; }
		unsigned char *p = (unsigned char *)muggle_bytes_buffer_reader_fc(&g_bb, (int)n);
		if (!p) { g_last = -1; printf("0 %d\n", muggle_bytes_buffer_readable(&g_bb)); return; }
		g_last = p - (unsigned char *)g_bb.buffer;
		unsigned char *seen = exact(n);
		memcpy(seen, p, (size_t)n);    /* the caller looks at the n bytes it asked for */
		bool ok = muggle_bytes_buffer_reader_move(&g_bb, (int)k);
		printf("%s ", ok ? "1" : "s"); put_hex(seen, n);
		printf(" %d\n", muggle_bytes_buffer_readable(&g_bb));
		free(seen);
	} else if (strcmp(op, "cl") == 0 && argc == 1) {
		muggle_bytes_buffer_clear(&g_bb);
		printf("1 %d\n", muggle_bytes_buffer_readable(&g_bb));
	} else if (strcmp(op, "st") == 0 && argc == 1) {
		printf("%d %d %d %d %d %d %lld\n", g_bb.w, g_bb.r, g_bb.t,
			muggle_bytes_buffer_writable(&g_bb),
			muggle_bytes_buffer_contiguous_readable(&g_bb),
			muggle_bytes_buffer_readable(&g_bb), g_last);
	} else if (strcmp(op, "bd") == 0 && argc == 1) {
		put_hex((unsigned char *)g_bb.buffer, g_bb.c); printf("\n");
	} else if (strcmp(op, "wq") == 0 && argc == 2) {
		unsigned char *p = (unsigned char *)muggle_bytes_buffer_writer_fc(&g_bb, (int)n);
		if (p) printf("%lld\n", (long long)(p - (unsigned char *)g_bb.buffer)); else printf("none\n");
	} else if (strcmp(op, "rq") == 0 && argc == 2) {
		unsigned char *p = (unsigned char *)muggle_bytes_buffer_reader_fc(&g_bb, (int)n);
		if (p) printf("%lld\n", (long long)(p - (unsigned char *)g_bb.buffer)); else printf("none\n");
	} else printf("bad-op\n");
}

VH_MAIN()
