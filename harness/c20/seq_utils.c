/* C20 harness: pure utilities of /repo through their public API.
 *   str.c   muggle_str_startswith/endswith/count/find/lstrip_idx/rstrip_idx, muggle_str_to*
 *   path.c  muggle_path_isabs/join/basename/dirname/normpath/abspath
 *   utils.c muggle_next_pow_of_2        hex.c muggle_hex_*        endian.h MUGGLE_ENDIAN_SWAP_*
 * Strings travel as hex tokens ("-" = empty). Every input string and every output buffer
 * lives in a heap block of exactly the size the API is told about, so ASan sees the first
 * byte read or written outside it; output buffers are pre-filled with '?' (0x3f) so a
 * missing terminator is visible. muggle_os_curdir is provided here (scripted cwd; os.c is
 * not linked). libc strtol/strtoul are exposed as ops of their own so that the Lean
 * specification of libc the models rest on is itself compared with glibc. */
#include "vharness.h"
#include <errno.h>
#include <limits.h>
#include <math.h>
#include <unistd.h>
#include "muggle/c/base/err.h"
#include "muggle/c/base/str.h"
#include "muggle/c/base/utils.h"
#include "muggle/c/encoding/hex.h"
#include "muggle/c/os/endian.h"
#include "muggle/c/os/path.h"

/* ---- scripted muggle_os_curdir ---- */
static char *g_cwd;
int muggle_os_curdir(char *path, unsigned int size)
{
	if (g_cwd == NULL || strlen(g_cwd) + 1 > size) return MUGGLE_ERR_SYS_CALL;
	memcpy(path, g_cwd, strlen(g_cwd) + 1);
	return MUGGLE_OK;
}

/* ---- hex tokens ---- */
static int hv(char c)
{
	if (c >= '0' && c <= '9') return c - '0';
	if (c >= 'a' && c <= 'f') return c - 'a' + 10;
	if (c >= 'A' && c <= 'F') return c - 'A' + 10;
	return -1;
}
/* decode into an exact-size block; *n = number of bytes; returns NULL on a malformed token */
static unsigned char *unhex(const char *tok, size_t *n)
{
	if (strcmp(tok, "-") == 0) { *n = 0; return (unsigned char *)malloc(0); }
	size_t l = strlen(tok);
	if (l % 2) return NULL;
	unsigned char *p = (unsigned char *)malloc(l / 2);
	for (size_t i = 0; i < l / 2; i++) {
		int a = hv(tok[2 * i]), b = hv(tok[2 * i + 1]);
		if (a < 0 || b < 0) { free(p); return NULL; }
		p[i] = (unsigned char)(a * 16 + b);
	}
	*n = l / 2;
	return p;
}
/* a C string in a block of exactly strlen+1 bytes (cut at the first NUL) */
static char *unhex_cstr(const char *tok)
{
	size_t n;
	unsigned char *p = unhex(tok, &n);
	if (!p) return NULL;
	size_t l = 0;
	while (l < n && p[l]) l++;
	char *s = (char *)malloc(l + 1);
	memcpy(s, p, l);
	s[l] = 0;
	free(p);
	return s;
}
static void put_hex(const unsigned char *p, size_t n)
{
	if (n == 0) { printf("-"); return; }
	for (size_t i = 0; i < n; i++) printf("%02x", p[i]);
}

/* ---- last output buffer of a path op ---- */
static unsigned char *g_buf;
static size_t g_bufsize;
static int g_have_buf;
static int g_buf_ok;      /* the last path op reported success */

static void drop_buf(void) { if (g_have_buf) free(g_buf); g_buf = NULL; g_have_buf = 0; }

static void vh_reset(void)
{
	drop_buf();
	free(g_cwd); g_cwd = NULL;
}

static unsigned char *new_buf(size_t size)
{
	drop_buf();
	g_buf = (unsigned char *)malloc(size);
	memset(g_buf, 0x3f, size);
	g_bufsize = size; g_have_buf = 1;
	return g_buf;
}

static void put_path_result(int rc)
{
	g_buf_ok = (rc == MUGGLE_OK);
	if (rc != MUGGLE_OK) { printf("err\n"); return; }
	size_t l = 0;
	while (l < g_bufsize && g_buf[l]) l++;
	if (l == g_bufsize) { printf("ok NOTERM\n"); return; }
	printf("ok "); put_hex(g_buf, l); printf("\n");
}

static void vh_op(int argc, char **argv)
{
	const char *op = argv[0];
	alarm(4);       /* a non-terminating call is a crash, not a stalled check */
	if (strcmp(op, "np2") == 0 && argc == 2) {
		printf("%" PRIu64 "\n", muggle_next_pow_of_2((uint64_t)vh_ull(argv[1])));
		return;
	}
	if (strcmp(op, "swap16") == 0 && argc == 2) {
		uint16_t v = (uint16_t)vh_ull(argv[1]);
		uint16_t r = MUGGLE_ENDIAN_SWAP_16(v);
		printf("%u\n", (unsigned)r);
		return;
	}
	if (strcmp(op, "swap32") == 0 && argc == 2) {
		uint32_t v = (uint32_t)vh_ull(argv[1]);
		uint32_t r = MUGGLE_ENDIAN_SWAP_32(v);
		printf("%" PRIu32 "\n", r);
		return;
	}
	if (strcmp(op, "swap64") == 0 && argc == 2) {
		uint64_t v = (uint64_t)vh_ull(argv[1]);
		uint64_t r = MUGGLE_ENDIAN_SWAP_64(v);
		printf("%" PRIu64 "\n", r);
		return;
	}
	if (strcmp(op, "hexenc") == 0 && argc == 2) {
		size_t n; unsigned char *b = unhex(argv[1], &n);
		if (!b) { printf("bad-op\n"); return; }
		char *h = (char *)malloc(2 * n);
		muggle_hex_from_bytes(b, h, (uint32_t)n);
		put_hex((unsigned char *)h, 2 * n); printf("\n");
		free(h); free(b);
		return;
	}
	if (strcmp(op, "hexdec") == 0 && argc == 2) {
		size_t n; unsigned char *t = unhex(argv[1], &n);
		if (!t) { printf("bad-op\n"); return; }
		uint8_t *out = (uint8_t *)malloc(n / 2);
		int rc = muggle_hex_to_bytes((const char *)t, out, (uint32_t)n);
		if (rc != 0) printf("-1\n");
		else { printf("0 "); put_hex(out, n / 2); printf("\n"); }
		free(out); free(t);
		return;
	}
	if (strcmp(op, "hexrt") == 0 && argc == 2) {
		size_t n; unsigned char *b = unhex(argv[1], &n);
		if (!b) { printf("bad-op\n"); return; }
		char *h = (char *)malloc(2 * n);
		muggle_hex_from_bytes(b, h, (uint32_t)n);
		uint8_t *out = (uint8_t *)malloc(n);
		int rc = muggle_hex_to_bytes(h, out, (uint32_t)(2 * n));
		if (rc != 0) printf("-1\n");
		else { printf("0 "); put_hex(out, n); printf("\n"); }
		free(out); free(h); free(b);
		return;
	}
	if ((strcmp(op, "starts") == 0 || strcmp(op, "ends") == 0) && argc == 3) {
		char *s = unhex_cstr(argv[1]), *p = unhex_cstr(argv[2]);
		if (!s || !p) { printf("bad-op\n"); free(s); free(p); return; }
		int r = op[0] == 's' ? muggle_str_startswith(s, p) : muggle_str_endswith(s, p);
		printf("%d\n", r ? 1 : 0);
		free(s); free(p);
		return;
	}
	if ((strcmp(op, "count") == 0 || strcmp(op, "find") == 0) && argc == 5) {
		char *s = unhex_cstr(argv[1]), *p = unhex_cstr(argv[2]);
		if (!s || !p) { printf("bad-op\n"); free(s); free(p); return; }
		int a = (int)vh_ll(argv[3]), b = (int)vh_ll(argv[4]);
		int r = op[0] == 'c' ? muggle_str_count(s, p, a, b) : muggle_str_find(s, p, a, b);
		printf("%d\n", r);
		free(s); free(p);
		return;
	}
	if ((strcmp(op, "lstrip") == 0 || strcmp(op, "rstrip") == 0) && argc == 2) {
		char *s = unhex_cstr(argv[1]);
		if (!s) { printf("bad-op\n"); return; }
		int r = op[0] == 'l' ? muggle_str_lstrip_idx(s) : muggle_str_rstrip_idx(s);
		printf("%d\n", r);
		free(s);
		return;
	}
	if ((strcmp(op, "strtol") == 0 || strcmp(op, "strtoul") == 0) && argc == 3) {
		char *s = unhex_cstr(argv[1]);
		if (!s) { printf("bad-op\n"); return; }
		int base = (int)vh_ll(argv[2]);
		char *end = s;
		errno = 0;
		if (strcmp(op, "strtol") == 0) {
			long v = strtol(s, &end, base);
			printf("%ld %ld %d\n", v, (long)(end - s), errno == ERANGE ? 1 : 0);
		} else {
			unsigned long v = strtoul(s, &end, base);
			printf("%lu %ld %d\n", v, (long)(end - s), errno == ERANGE ? 1 : 0);
		}
		free(s);
		return;
	}
	if (argc == 2 && (strcmp(op, "tof") == 0 || strcmp(op, "tod") == 0 || strcmp(op, "told") == 0 ||
			strcmp(op, "strtof") == 0 || strcmp(op, "strtod") == 0 || strcmp(op, "strtold") == 0)) {
		char *s = unhex_cstr(argv[1]);
		if (!s) { printf("bad-op\n"); return; }
		int raw = op[0] == 's';
		const char *k = raw ? op + 5 : op + 2;          /* "f", "d", "ld" */
		int rc = 1; long consumed = 0; int er = 0;
		float f = 1.5f; double d = 1.5; long double ld = 1.5L;
		char *end = s;
		errno = 0;
		if (k[0] == 'f') { if (raw) { f = strtof(s, &end); } else rc = muggle_str_tof(s, &f); }
		else if (k[0] == 'd') { if (raw) { d = strtod(s, &end); } else rc = muggle_str_tod(s, &d); }
		else { if (raw) { ld = strtold(s, &end); } else rc = muggle_str_told(s, &ld); }
		er = errno == ERANGE;
		consumed = (long)(end - s);
		if (!raw && !rc) { printf("0\n"); free(s); return; }
		if (raw) printf("%ld ", consumed); else printf("1 ");
		int isinf_ = 0;
		if (k[0] == 'f') {
			uint32_t u; memcpy(&u, &f, 4);
			if (isnan(f)) printf("nan");
			else if (isinf(f)) { printf("%u inf", u >> 31); isinf_ = 1; }
			else printf("%u %u %u", u >> 31, (u >> 23) & 0xff, u & 0x7fffff);
		} else if (k[0] == 'd') {
			uint64_t u; memcpy(&u, &d, 8);
			if (isnan(d)) printf("nan");
			else if (isinf(d)) { printf("%u inf", (unsigned)(u >> 63)); isinf_ = 1; }
			else printf("%u %u %" PRIu64, (unsigned)(u >> 63), (unsigned)((u >> 52) & 0x7ff),
				u & 0xfffffffffffffULL);
		} else {
			uint64_t m; uint16_t se; memcpy(&m, &ld, 8); memcpy(&se, (char *)&ld + 8, 2);
			if (isnan(ld)) printf("nan");
			else if (isinf(ld)) { printf("%u inf", (unsigned)(se >> 15)); isinf_ = 1; }
			else printf("%u %u %" PRIu64, (unsigned)(se >> 15), (unsigned)(se & 0x7fff), m);
		}
		if (raw) printf(" %d", (er && isinf_) ? 1 : 0);
		printf("\n");
		free(s);
		return;
	}
	if (argc == 3 && op[0] == 't' && op[1] == 'o') {
		char *s = unhex_cstr(argv[1]);
		if (!s) { printf("bad-op\n"); return; }
		int base = (int)vh_ll(argv[2]);
		int rc = -1;
		if (strcmp(op, "toi") == 0) {
			int v = 0x5a5a5a5a; rc = muggle_str_toi(s, &v, base);
			if (rc) printf("1 %d\n", v); else printf("0\n");
		} else if (strcmp(op, "tou") == 0) {
			unsigned int v = 0x5a5a5a5a; rc = muggle_str_tou(s, &v, base);
			if (rc) printf("1 %u\n", v); else printf("0\n");
		} else if (strcmp(op, "tol") == 0) {
			long v = 0x5a5a5a5a; rc = muggle_str_tol(s, &v, base);
			if (rc) printf("1 %ld\n", v); else printf("0\n");
		} else if (strcmp(op, "toul") == 0) {
			unsigned long v = 0x5a5a5a5a; rc = muggle_str_toul(s, &v, base);
			if (rc) printf("1 %lu\n", v); else printf("0\n");
		} else if (strcmp(op, "toll") == 0) {
			long long v = 0x5a5a5a5a; rc = muggle_str_toll(s, &v, base);
			if (rc) printf("1 %lld\n", v); else printf("0\n");
		} else if (strcmp(op, "toull") == 0) {
			unsigned long long v = 0x5a5a5a5a; rc = muggle_str_toull(s, &v, base);
			if (rc) printf("1 %llu\n", v); else printf("0\n");
		} else printf("bad-op\n");
		free(s);
		return;
	}
	if (strcmp(op, "isabs") == 0 && argc == 2) {
		char *p = unhex_cstr(argv[1]);
		if (!p) { printf("bad-op\n"); return; }
		printf("%d\n", muggle_path_isabs(p) ? 1 : 0);
		free(p);
		return;
	}
	if (strcmp(op, "join") == 0 && argc == 4) {
		char *p1 = unhex_cstr(argv[1]), *p2 = unhex_cstr(argv[2]);
		if (!p1 || !p2) { printf("bad-op\n"); free(p1); free(p2); return; }
		unsigned int size = (unsigned int)vh_ull(argv[3]);
		char *ret = (char *)new_buf(size);
		put_path_result(muggle_path_join(p1, p2, ret, size));
		free(p1); free(p2);
		return;
	}
	if ((strcmp(op, "basename") == 0 || strcmp(op, "dirname") == 0 || strcmp(op, "normpath") == 0)
			&& argc == 3) {
		char *p = unhex_cstr(argv[1]);
		if (!p) { printf("bad-op\n"); return; }
		unsigned int size = (unsigned int)vh_ull(argv[2]);
		char *ret = (char *)new_buf(size);
		int rc = op[0] == 'b' ? muggle_path_basename(p, ret, size)
		       : op[0] == 'd' ? muggle_path_dirname(p, ret, size)
		       : muggle_path_normpath(p, ret, size);
		put_path_result(rc);
		free(p);
		return;
	}
	if (strcmp(op, "abspath") == 0 && argc == 4) {
		char *cwd = unhex_cstr(argv[1]), *p = unhex_cstr(argv[2]);
		if (!cwd || !p) { printf("bad-op\n"); free(cwd); free(p); return; }
		unsigned int size = (unsigned int)vh_ull(argv[3]);
		free(g_cwd); g_cwd = cwd;
		char *ret = (char *)new_buf(size);
		put_path_result(muggle_path_abspath(p, ret, size));
		free(p);
		return;
	}
	if (strcmp(op, "buf") == 0 && argc == 1) {
		if (!g_have_buf) { printf("none\n"); return; }
		/* after a failure the contents are unspecified (writes were still watched by ASan) */
		if (!g_buf_ok) { printf("errbuf\n"); return; }
		put_hex(g_buf, g_bufsize); printf("\n");
		return;
	}
	if (strcmp(op, "mode") == 0) { printf("ok\n"); return; }
	printf("bad-op\n");
}

VH_MAIN()
