/* C01 / C03 harness: muggle_channel_t (4 writer locks x 3 reader modes), the array
 * blocking queue and the double buffer of /repo under the deterministic scheduler
 * (harness/tsanshim). Compiled with -fsanitize=thread like the repo sources, so the
 * payload accesses below are trace events too.
 *
 * ops:
 *   conf chan <mutex|sync|spin|single> <sync|mutex|busy> <req_capacity> <tries> <reads> <n0> [<n1> ...]
 *        W writers (tid 0..W-1), writer w owns n_w messages (global ids in writer order),
 *        one reader (tid W) performing <reads> reads. A writer stores the payload, then
 *        calls muggle_channel_write until it succeeds; after a FULL it gives the message
 *        up when <tries> attempts were made (tries = 0: never), else sched_yield()s.
 *   conf abq <capacity> <P> <C> <n0..n(P-1)> <k0..k(C-1)>
 *        P producers put their messages, consumer c takes k_c messages.
 *   conf dbuf <capacity> <nonblocking 0|1> <tries> <reads> <n0> [<n1> ...]
 *        producers write, the single consumer calls read until it has seen <reads> items.
 *   fine 0|1      (abq/dbuf) register the queue's data fields too: every access becomes an
 *                 event (used for the lock-coverage check; no model replay at this granularity)
 *   sched random <seed> | pct <seed> <depth> | replay <tokens...> | prefix <tokens...> | opseq <tids...>
 *                 (opseq: each token runs that thread for one whole write / read / put / take, then as prefix)
 *                 (prefix: replay, then continue non-preemptively; prints "#enabled <mask per step>")
 *   spurious <cas_permille> <cv_permille> [<futex_permille>]   (futex: a parked futex wait returns EINTR)
 *   run           -> schedule, events, [state lines], end, outcome
 */
#include "vharness.h"
#include "tsanshim/vsched.h"
#include <sched.h>
#include "muggle/c/base/err.h"
#include "muggle/c/sync/channel.h"
#include "muggle/c/sync/array_blocking_queue.h"
#include "muggle/c/sync/double_buffer.h"

enum { K_NONE, K_CHAN, K_ABQ, K_DBUF };
enum { MAXW = 8, MAXMSG = 512 };

typedef struct { int stamp; int pad; } payload_t;

static int g_kind, g_fine;
static int g_wl, g_rm, g_req, g_tries, g_reads;
static int g_nw, g_nc;
static int g_n[MAXW], g_base[MAXW], g_k[MAXW], g_total;
static int g_nonblock;
static int g_inited;

static muggle_channel_t C;
static muggle_array_blocking_queue_t Q;
static muggle_double_buffer_t D;
static payload_t *P;                    /* registered: "payload" */

/* harness-side observation (not registered: ghost) */
static int g_delivered[MAXMSG * 2], g_ndelivered;
static int g_full, g_ok, g_bad;

static int id_of(void *p)
{
	if (p == NULL) return -1;
	payload_t *q = (payload_t *)p;
	if (q < P || q >= P + g_total) return -2;
	return (int)(q - P);
}

/* ------------------------------------------------------------------ channel */
static void chan_writer(void *arg)
{
	int w = (int)(intptr_t)arg;
	for (int k = 0; k < g_n[w]; k++) {
		int id = g_base[w] + k;
		P[id].stamp = 100 + id;
		int attempts = 0;
		for (;;) {
			int rc = muggle_channel_write(&C, &P[id]);
			if (rc == MUGGLE_OK) { __atomic_add_fetch(&g_ok, 1, __ATOMIC_RELAXED); vs_note("write=ok m%d", id); break; }
			__atomic_add_fetch(&g_full, 1, __ATOMIC_RELAXED);
			vs_note("write=%s m%d", rc == MUGGLE_ERR_FULL ? "full" : "err", id);
			attempts++;
			if (g_tries && attempts >= g_tries) break;
			sched_yield();
		}
		vs_op_done();
	}
}

static void chan_reader(void *arg)
{
	(void)arg;
	for (int i = 0; i < g_reads; i++) {
		void *p = muggle_channel_read(&C);
		int id = id_of(p);
		if (id < 0) { g_bad++; vs_note("read=BAD %d", id); g_delivered[g_ndelivered++] = id; vs_op_done(); continue; }
		int s = ((payload_t *)p)->stamp;
		g_delivered[g_ndelivered++] = id;
		vs_note("read=m%d stamp=%d", id, s);
		vs_op_done();
	}
}

/* ---------------------------------------------------------------------- abq */
static void abq_producer(void *arg)
{
	int w = (int)(intptr_t)arg;
	for (int k = 0; k < g_n[w]; k++) {
		int id = g_base[w] + k;
		P[id].stamp = 100 + id;
		int rc = muggle_array_blocking_queue_put(&Q, &P[id]);
		vs_note("put=%s m%d", rc == MUGGLE_OK ? "ok" : "err", id);
		vs_op_done();
	}
}

static void abq_consumer(void *arg)
{
	int c = (int)(intptr_t)arg;
	for (int i = 0; i < g_k[c]; i++) {
		void *p = muggle_array_blocking_queue_take(&Q);
		int id = id_of(p);
		if (id < 0) { g_bad++; vs_note("take=BAD %d", id); vs_op_done(); continue; }
		int s = ((payload_t *)p)->stamp;
		vs_note("take=m%d stamp=%d", id, s);
		vs_op_done();
	}
}

/* --------------------------------------------------------------------- dbuf */
static void dbuf_producer(void *arg)
{
	int w = (int)(intptr_t)arg;
	for (int k = 0; k < g_n[w]; k++) {
		int id = g_base[w] + k;
		P[id].stamp = 100 + id;
		int attempts = 0;
		for (;;) {
			int rc = muggle_double_buffer_write(&D, &P[id]);
			if (rc == MUGGLE_OK) { vs_note("write=ok m%d", id); break; }
			vs_note("write=%s m%d", rc == MUGGLE_ERR_FULL ? "full" : "err", id);
			attempts++;
			if (g_tries && attempts >= g_tries) break;
			sched_yield();
		}
		vs_op_done();
	}
}

static void dbuf_consumer(void *arg)
{
	(void)arg;
	int got = 0;
	while (got < g_reads) {
		muggle_single_buffer_t *b = muggle_double_buffer_read(&D);
		if (b == NULL) { g_bad++; vs_note("read=NULL"); break; }
		int n = b->cnt;
		vs_note("read cnt=%d", n);
		for (int i = 0; i < n; i++) {
			int id = id_of(b->datas[i]);
			if (id < 0) { g_bad++; vs_note("item=BAD %d", id); got++; continue; }
			int s = P[id].stamp;
			g_delivered[g_ndelivered++] = id;
			vs_note("item=m%d stamp=%d", id, s);
			got++;
		}
		vs_op_done();
	}
}

/* -------------------------------------------------------------------- setup */
static void teardown(void)
{
	if (!g_inited) return;
	if (g_inited == K_CHAN) muggle_channel_destroy(&C);
	else if (g_inited == K_ABQ) muggle_array_blocking_queue_destroy(&Q);
	else if (g_inited == K_DBUF) muggle_double_buffer_destroy(&D);
	free(P); P = NULL;
	g_inited = 0;
}

static void vh_reset(void) { teardown(); g_kind = K_NONE; g_fine = 0; }

static int setup(void)
{
	teardown();
	vs_reset();
	g_ndelivered = 0; g_full = g_ok = g_bad = 0;
	g_total = 0;
	for (int w = 0; w < g_nw; w++) { g_base[w] = g_total; g_total += g_n[w]; }
	if (g_total > MAXMSG) return -1;
	P = (payload_t *)calloc(g_total ? g_total : 1, sizeof(payload_t));
	vs_reg("payload", P, sizeof(payload_t) * (g_total ? g_total : 1), sizeof(payload_t));
	if (g_kind == K_CHAN) {
		int rc = muggle_channel_init(&C, (muggle_sync_t)g_req, g_wl | g_rm);
		if (rc != MUGGLE_OK) { free(P); P = NULL; return rc; }
		g_inited = K_CHAN;
		vs_reg("write_cursor", &C.write_cursor, sizeof C.write_cursor, 0);
		vs_reg("cached_r_cur", &C.cached_r_cur, sizeof C.cached_r_cur, 0);
		vs_reg("read_cursor", &C.read_cursor, sizeof C.read_cursor, 0);
		if (g_wl == MUGGLE_CHANNEL_FLAG_WRITE_SYNC) vs_reg("wlock", &C.write_synclock, sizeof C.write_synclock, 0);
		else if (g_wl == MUGGLE_CHANNEL_FLAG_WRITE_SPIN) vs_reg("wlock", &C.write_spinlock, sizeof C.write_spinlock, 0);
		else if (g_wl == MUGGLE_CHANNEL_FLAG_WRITE_MUTEX) vs_reg("wmutex", C.write_mutex, sizeof(muggle_mutex_t), 0);
		if (g_rm == MUGGLE_CHANNEL_FLAG_READ_MUTEX) {
			vs_reg("rmutex", C.read_mutex, sizeof(muggle_mutex_t), 0);
			vs_reg("rcv", C.read_cv, sizeof(muggle_condition_variable_t), 0);
		}
		vs_reg("blocks", C.blocks, sizeof(muggle_channel_block_t) * C.capacity, sizeof(muggle_channel_block_t));
		for (int w = 0; w < g_nw; w++) vs_spawn(chan_writer, (void *)(intptr_t)w);
		vs_spawn(chan_reader, NULL);
	} else if (g_kind == K_ABQ) {
		int rc = muggle_array_blocking_queue_init(&Q, g_req);
		if (rc != MUGGLE_OK) { free(P); P = NULL; return rc; }
		g_inited = K_ABQ;
		vs_reg("mutex", &Q.mutex, sizeof Q.mutex, 0);
		vs_reg("cv_not_empty", &Q.cv_not_empty, sizeof Q.cv_not_empty, 0);
		vs_reg("cv_not_full", &Q.cv_not_full, sizeof Q.cv_not_full, 0);
		if (g_fine) {
			vs_reg("take_idx", &Q.take_idx, sizeof(int), 0);
			vs_reg("put_idx", &Q.put_idx, sizeof(int), 0);
			vs_reg("cnt", &Q.cnt, sizeof(int), 0);
			vs_reg("datas", Q.datas, sizeof(void *) * g_req, sizeof(void *));
		}
		for (int w = 0; w < g_nw; w++) vs_spawn(abq_producer, (void *)(intptr_t)w);
		for (int c = 0; c < g_nc; c++) vs_spawn(abq_consumer, (void *)(intptr_t)c);
	} else if (g_kind == K_DBUF) {
		int rc = muggle_double_buffer_init(&D, g_req, g_nonblock);
		if (rc != MUGGLE_OK) { free(P); P = NULL; return rc; }
		g_inited = K_DBUF;
		vs_reg("mutex", &D.mutex, sizeof D.mutex, 0);
		vs_reg("cv_not_empty", &D.cv_not_empty, sizeof D.cv_not_empty, 0);
		vs_reg("cv_not_full", &D.cv_not_full, sizeof D.cv_not_full, 0);
		if (g_fine) {
			vs_reg("buf0.cnt", &D.buf[0].cnt, sizeof(int), 0);
			vs_reg("buf1.cnt", &D.buf[1].cnt, sizeof(int), 0);
			vs_reg("buf0.datas", D.buf[0].datas, sizeof(void *) * g_req, sizeof(void *));
			vs_reg("buf1.datas", D.buf[1].datas, sizeof(void *) * g_req, sizeof(void *));
			vs_reg("front", &D.front, sizeof(void *), 0);
			vs_reg("back", &D.back, sizeof(void *), 0);
			vs_name_val((uint64_t)(uintptr_t)&D.buf[0], "buf0");
			vs_name_val((uint64_t)(uintptr_t)&D.buf[1], "buf1");
		}
		for (int w = 0; w < g_nw; w++) vs_spawn(dbuf_producer, (void *)(intptr_t)w);
		vs_spawn(dbuf_consumer, NULL);
	}
	return 0;
}

static int g_pol; static uint64_t g_seed; static int g_depth; static char g_replay[1 << 18];
static int g_sp_cas, g_sp_cv, g_sp_fx;

static int parse_wl(const char *s)
{
	if (!strcmp(s, "mutex")) return MUGGLE_CHANNEL_FLAG_WRITE_MUTEX;
	if (!strcmp(s, "sync")) return MUGGLE_CHANNEL_FLAG_WRITE_SYNC;
	if (!strcmp(s, "spin")) return MUGGLE_CHANNEL_FLAG_WRITE_SPIN;
	if (!strcmp(s, "single")) return MUGGLE_CHANNEL_FLAG_WRITE_SINGLE;
	return -1;
}
static int parse_rm(const char *s)
{
	if (!strcmp(s, "sync")) return MUGGLE_CHANNEL_FLAG_READ_SYNC;
	if (!strcmp(s, "mutex")) return MUGGLE_CHANNEL_FLAG_READ_MUTEX;
	if (!strcmp(s, "busy")) return MUGGLE_CHANNEL_FLAG_READ_BUSY;
	return -1;
}

static int all_digits(const char *s)
{
	if (!*s) return 0;
	for (; *s; s++) if (*s < '0' || *s > '9') return 0;
	return 1;
}

static void print_ids(const char *key, const int *v, int n)
{
	printf(" %s=", key);
	if (n == 0) printf("-");
	for (int i = 0; i < n; i++) printf("%s%d", i ? "," : "", v[i]);
}

static void vh_op(int argc, char **argv)
{
	if (!strcmp(argv[0], "conf") && argc >= 2) {
		g_sp_cas = g_sp_cv = g_sp_fx = 0; g_pol = 0; g_seed = 1; g_kind = K_NONE; g_fine = 0;
		for (int i = 2; i < argc; i++)
			if (!(i <= 3 && !strcmp(argv[1], "chan")) && !all_digits(argv[i])) { printf("bad-op\n"); return; }
		if (!strcmp(argv[1], "chan") && argc >= 8 && argc - 7 <= MAXW - 1) {
			g_wl = parse_wl(argv[2]); g_rm = parse_rm(argv[3]);
			g_req = atoi(argv[4]); g_tries = atoi(argv[5]); g_reads = atoi(argv[6]);
			g_nw = argc - 7;
			int tot = 0;
			for (int w = 0; w < g_nw; w++) { g_n[w] = atoi(argv[7 + w]); tot += g_n[w]; }
			if (g_wl < 0 || g_rm < 0 || g_req < 1 || g_req > 64 || tot > MAXMSG || g_reads > MAXMSG ||
				(g_wl == MUGGLE_CHANNEL_FLAG_WRITE_SINGLE && g_nw != 1)) { printf("bad-op\n"); return; }
			g_kind = K_CHAN;
			printf("ok\n");
			return;
		}
		if (!strcmp(argv[1], "abq") && argc >= 5) {
			g_req = atoi(argv[2]); g_nw = atoi(argv[3]); g_nc = atoi(argv[4]);
			if (g_req < 1 || g_req > 64 || g_nw < 1 || g_nc < 1 || g_nw + g_nc > MAXW || argc != 5 + g_nw + g_nc) { printf("bad-op\n"); return; }
			int tot = 0;
			for (int w = 0; w < g_nw; w++) { g_n[w] = atoi(argv[5 + w]); tot += g_n[w]; }
			for (int c = 0; c < g_nc; c++) g_k[c] = atoi(argv[5 + g_nw + c]);
			if (tot > MAXMSG) { printf("bad-op\n"); return; }
			g_kind = K_ABQ;
			printf("ok\n");
			return;
		}
		if (!strcmp(argv[1], "dbuf") && argc >= 7 && argc - 6 <= MAXW - 1) {
			g_req = atoi(argv[2]); g_nonblock = atoi(argv[3]); g_tries = atoi(argv[4]); g_reads = atoi(argv[5]);
			g_nw = argc - 6;
			int tot = 0;
			for (int w = 0; w < g_nw; w++) { g_n[w] = atoi(argv[6 + w]); tot += g_n[w]; }
			if (g_req < 1 || g_req > 64 || g_nonblock > 1 || tot > MAXMSG || g_reads > MAXMSG) { printf("bad-op\n"); return; }
			g_kind = K_DBUF;
			printf("ok\n");
			return;
		}
		printf("bad-op\n");
		return;
	}
	if (!strcmp(argv[0], "fine") && argc == 2) { g_fine = atoi(argv[1]) != 0; printf("ok\n"); return; }
	if (!strcmp(argv[0], "sched") && argc >= 2) {
		if (!strcmp(argv[1], "random") && argc == 3) { g_pol = 0; g_seed = vh_ull(argv[2]); }
		else if (!strcmp(argv[1], "pct") && argc == 4) { g_pol = 1; g_seed = vh_ull(argv[2]); g_depth = atoi(argv[3]); }
		else if (!strcmp(argv[1], "replay") || !strcmp(argv[1], "prefix") || !strcmp(argv[1], "opseq")) { g_pol = !strcmp(argv[1], "prefix") ? 3 : !strcmp(argv[1], "opseq") ? 4 : 2; g_replay[0] = 0; size_t o = 0;
			for (int i = 2; i < argc && o + 16 < sizeof g_replay; i++) o += snprintf(g_replay + o, sizeof g_replay - o, "%s ", argv[i]); }
		else { printf("bad-op\n"); return; }
		printf("ok\n");
		return;
	}
	if (!strcmp(argv[0], "spurious") && (argc == 3 || argc == 4)) {
		g_sp_cas = atoi(argv[1]); g_sp_cv = atoi(argv[2]); g_sp_fx = argc == 4 ? atoi(argv[3]) : 0;
		printf("ok\n"); return;
	}
	if (!strcmp(argv[0], "run") && g_kind != K_NONE) {
		int rc = setup();
		if (rc != 0) { printf("init-failed %d\n", rc); return; }
		if (g_pol == 0) vs_policy_random(g_seed);
		else if (g_pol == 1) vs_policy_pct(g_seed, g_depth);
		else if (g_pol == 3) { vs_policy_prefix(g_replay); vs_trace_enabled(1); }
		else if (g_pol == 4) { vs_policy_opseq(g_replay); vs_trace_enabled(1); }
		else vs_policy_replay(g_replay);
		vs_set_spurious(g_sp_cas, g_sp_cv);
		vs_set_spurious_futex(g_sp_fx);
		vs_set_max_steps(6000);
		if (vs_run() != VS_OK) vh_request_restart();
		vs_print(stdout);
		if (g_kind == K_CHAN) {
			/* accepted = delivered ++ what is still unread in the ring (from the struct) */
			int left[MAXMSG], nleft = 0;
			muggle_sync_t cap = C.capacity;
			muggle_sync_t i = (C.read_cursor + 1) & (cap - 1);
			while (i != C.write_cursor && nleft < MAXMSG) { left[nleft++] = id_of(C.blocks[i].data); i = (i + 1) & (cap - 1); }
			printf("outcome cap=%u wc=%u rc=%u", (unsigned)cap, (unsigned)C.write_cursor, (unsigned)C.read_cursor);
			int acc[MAXMSG * 3], na = 0;
			for (int k = 0; k < g_ndelivered; k++) acc[na++] = g_delivered[k];
			for (int k = 0; k < nleft; k++) acc[na++] = left[k];
			print_ids("accepted", acc, na);
			print_ids("delivered", g_delivered, g_ndelivered);
			printf(" ok=%d full=%d\n", g_ok, g_full);
		} else if (g_kind == K_ABQ) {
			int left[MAXMSG], nleft = 0;
			for (int k = 0, i = Q.take_idx; k < Q.cnt && k < MAXMSG; k++) { left[nleft++] = id_of(Q.datas[i]); if (++i == Q.capacity) i = 0; }
			printf("outcome cnt=%d take_idx=%d put_idx=%d", Q.cnt, Q.take_idx, Q.put_idx);
			print_ids("left", left, nleft);
			printf("\n");
		} else {
			int left[MAXMSG], nleft = 0;
			for (int k = 0; k < D.back->cnt && k < MAXMSG; k++) left[nleft++] = id_of(D.back->datas[k]);
			printf("outcome back_cnt=%d", D.back->cnt);
			print_ids("delivered", g_delivered, g_ndelivered);
			print_ids("left", left, nleft);
			printf("\n");
		}
		return;
	}
	printf("bad-op\n");
}

VH_MAIN()
