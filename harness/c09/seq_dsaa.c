/* C09 harness: drives the real AVL tree, hash table and trie of /repo through their
 * public API (with malloc or with the node pool), one operation per line, and dumps
 * the real pointer structures canonically (no addresses).
 *
 *   ainit <cap> | ains <k> <v> | afind <k> | arm <k> | adump | achk | aitems
 *   hinit <table_size> <hashkind> <cap> | hput <key> <v> | hfind <key> | hrm <key> | hdump | hitems
 *   tinit <cap> | tins <key> <v> | tfind <key> | tnode <key> | trm <key> | tdump | titems
 *
 * AVL keys are integers (stored in the void* itself, compared as integers); hash and
 * trie keys are byte strings written in hex ("-" = empty string). Values are small
 * integers stored in the void*. */
/* container operations take microseconds: a 20 s watchdog per operation */
#define VH_OP_TIMEOUT 20
#include "vharness.h"
#include "muggle/c/dsaa/avl_tree.h"
#include "muggle/c/dsaa/hash_table.h"
#include "muggle/c/dsaa/trie.h"

/* ------------------------------------------------------------------ keys */
static int parse_key(const char *s, unsigned char *out, size_t cap)
{
	if (strcmp(s, "-") == 0) { out[0] = 0; return 0; }
	size_t n = strlen(s);
	if (n % 2 || n / 2 + 1 > cap) return -1;
	for (size_t i = 0; i < n / 2; i++) {
		int v = 0;
		for (int j = 0; j < 2; j++) {
			char c = s[2 * i + j];
			int d;
			if (c >= '0' && c <= '9') d = c - '0';
			else if (c >= 'a' && c <= 'f') d = c - 'a' + 10;
			else return -1;
			v = v * 16 + d;
		}
		out[i] = (unsigned char)v;
	}
	out[n / 2] = 0;
	return 0;
}
static void print_key(const unsigned char *k, size_t n)
{
	if (n == 0) { printf("-"); return; }
	for (size_t i = 0; i < n; i++) printf("%02x", k[i]);
}
static unsigned char g_key[VH_MAX_TOK * 4];

/* ------------------------------------------------------------------ AVL */
static muggle_avl_tree_t *g_avl;
static int avl_cmp(const void *a, const void *b)
{
	intptr_t x = (intptr_t)a, y = (intptr_t)b;
	return x < y ? -1 : (x > y ? 1 : 0);
}
/* node identities: the n-th node ever returned by muggle_avl_tree_insert for this tree has
 * id n (an address that is freed and handed out again gets the new id) */
#define ID_SLOTS (1u << 16)
static struct { const void *p; long id; } g_ids[ID_SLOTS];
static long g_next_id;
static unsigned id_slot(const void *p)
{
	unsigned h = (unsigned)(((uintptr_t)p >> 4) * 2654435761u) & (ID_SLOTS - 1);
	while (g_ids[h].p && g_ids[h].p != p) h = (h + 1) & (ID_SLOTS - 1);
	return h;
}
static void id_assign(const void *p) { unsigned h = id_slot(p); g_ids[h].p = p; g_ids[h].id = g_next_id++; }
static long id_of(const void *p) { unsigned h = id_slot(p); return g_ids[h].p ? g_ids[h].id : -1; }
static void id_reset(void) { memset(g_ids, 0, sizeof(g_ids)); g_next_id = 0; }

static void avl_dump(muggle_avl_tree_node_t *n)
{
	if (!n) { printf("-"); return; }
	printf("(%lld %llu %d #%ld ^", (long long)(intptr_t)n->key,
		(unsigned long long)(uintptr_t)n->value, (int)n->balance, id_of(n));
	if (n->parent) printf("%ld ", id_of(n->parent)); else printf("- ");
	avl_dump(n->left);
	printf(" ");
	avl_dump(n->right);
	printf(")");
}
/* returns height; flags: 1 order, 2 balance field, 4 height difference, 8 parent link */
static int avl_check(muggle_avl_tree_node_t *n, muggle_avl_tree_node_t *parent,
	int has_lo, intptr_t lo, int has_hi, intptr_t hi, int *flags, long *count)
{
	if (!n) return 0;
	(*count)++;
	intptr_t k = (intptr_t)n->key;
	if (n->parent != parent) *flags |= 8;
	if ((has_lo && !(lo < k)) || (has_hi && !(k < hi))) *flags |= 1;
	int hl = avl_check(n->left, n, has_lo, lo, 1, k, flags, count);
	int hr = avl_check(n->right, n, 1, k, has_hi, hi, flags, count);
	if ((int)n->balance != hr - hl) *flags |= 2;
	if (hr - hl > 1 || hr - hl < -1) *flags |= 4;
	return (hl > hr ? hl : hr) + 1;
}
static void avl_items(muggle_avl_tree_node_t *n)
{
	if (!n) return;
	avl_items(n->left);
	printf(" %lld=%llu", (long long)(intptr_t)n->key, (unsigned long long)(uintptr_t)n->value);
	avl_items(n->right);
}

/* ------------------------------------------------------------------ hash */
static muggle_hash_table_t *g_ht;
static int str_cmp(const void *a, const void *b) { return strcmp((const char *)a, (const char *)b); }
static void key_free(void *pool, void *data) { (void)pool; free(data); }
static uint64_t hash_const(void *d) { (void)d; return 7; }
static uint64_t hash_len(void *d) { return (uint64_t)strlen((char *)d); }
static uint64_t hash_first(void *d) { return (uint64_t)*(unsigned char *)d; }
static uint64_t hash_sum(void *d)
{
	uint64_t s = 0;
	for (unsigned char *p = (unsigned char *)d; *p; p++) s += *p;
	return s;
}
typedef struct { const char *k; uintptr_t v; } item_t;
static int item_cmp(const void *a, const void *b)
{
	return strcmp(((const item_t *)a)->k, ((const item_t *)b)->k);
}

/* ------------------------------------------------------------------ trie */
static muggle_trie_t *g_trie;
static unsigned char g_path[VH_MAX_TOK * 4];
static void trie_dump(muggle_trie_node_t *n, size_t depth, int items_only)
{
	if (!n) return;
	if (!items_only || n->data) {
		printf(" ");
		print_key(g_path, depth);
		if (items_only) printf("=%llu", (unsigned long long)(uintptr_t)n->data);
		else if (n->data) printf(":%llu", (unsigned long long)(uintptr_t)n->data);
		else printf(":-");
	}
	for (int i = 0; i < MUGGLE_TRIE_CHILDREN_SIZE; i++) {
		if (n->children[i]) {
			g_path[depth] = (unsigned char)i;
			trie_dump(n->children[i], depth + 1, items_only);
		}
	}
}

/* ------------------------------------------------------------------ driver */
static void vh_reset(void)
{
	if (g_avl) { muggle_avl_tree_destroy(g_avl, NULL, NULL, NULL, NULL); free(g_avl); g_avl = NULL; }
	if (g_ht) { muggle_hash_table_destroy(g_ht, key_free, NULL, NULL, NULL); free(g_ht); g_ht = NULL; }
	if (g_trie) { muggle_trie_destroy(g_trie, NULL, NULL); free(g_trie); g_trie = NULL; }
}

static void vh_op(int argc, char **argv)
{
	const char *op = argv[0];
	/* ---------------- AVL ---------------- */
	if (strcmp(op, "ainit") == 0 && argc == 2) {
		if (g_avl) { muggle_avl_tree_destroy(g_avl, NULL, NULL, NULL, NULL); free(g_avl); g_avl = NULL; }
		g_avl = (muggle_avl_tree_t *)malloc(sizeof(*g_avl));
		id_reset();
		if (!muggle_avl_tree_init(g_avl, avl_cmp, (size_t)vh_ull(argv[1]))) {
			free(g_avl); g_avl = NULL;
			printf("fail\n");
		} else printf("ok\n");
		return;
	}
	if (op[0] == 'a') {
		if (!g_avl) { printf("bad-op\n"); return; }
		if (strcmp(op, "ains") == 0 && argc == 3) {
			muggle_avl_tree_node_t *n = muggle_avl_tree_insert(g_avl,
				(void *)(intptr_t)vh_ll(argv[1]), (void *)(uintptr_t)vh_ull(argv[2]));
			if (n) id_assign(n);
			printf("%d\n", n ? 1 : 0);
		} else if (strcmp(op, "afind") == 0 && argc == 2) {
			muggle_avl_tree_node_t *n = muggle_avl_tree_find(g_avl, (void *)(intptr_t)vh_ll(argv[1]));
			if (!n) printf("nil\n");
			else if ((intptr_t)n->key != (intptr_t)vh_ll(argv[1])) printf("wrong-node\n");
			else printf("%llu\n", (unsigned long long)(uintptr_t)n->value);
		} else if (strcmp(op, "arm") == 0 && argc == 2) {
			muggle_avl_tree_node_t *n = muggle_avl_tree_find(g_avl, (void *)(intptr_t)vh_ll(argv[1]));
			if (n) muggle_avl_tree_remove(g_avl, n, NULL, NULL, NULL, NULL);
			printf("%d\n", n ? 1 : 0);
		} else if (strcmp(op, "adump") == 0 && argc == 1) {
			avl_dump(g_avl->root);
			printf("\n");
		} else if (strcmp(op, "achk") == 0 && argc == 1) {
			int flags = 0; long count = 0;
			avl_check(g_avl->root, NULL, 0, 0, 0, 0, &flags, &count);
			if (!flags) printf("ok %ld\n", count);
			else printf("bad%s%s%s%s %ld\n", flags & 1 ? "-order" : "", flags & 2 ? "-balance-field" : "",
				flags & 4 ? "-height" : "", flags & 8 ? "-parent" : "", count);
		} else if (strcmp(op, "aitems") == 0 && argc == 1) {
			printf("items:");
			avl_items(g_avl->root);
			printf("\n");
		} else printf("bad-op\n");
		return;
	}
	/* ---------------- hash table ---------------- */
	if (strcmp(op, "hinit") == 0 && argc == 4) {
		if (g_ht) { muggle_hash_table_destroy(g_ht, key_free, NULL, NULL, NULL); free(g_ht); g_ht = NULL; }
		func_muggle_hash h = NULL;
		switch (vh_ull(argv[2])) {
		case 0: h = NULL; break;
		case 1: h = hash_const; break;
		case 2: h = hash_len; break;
		case 3: h = hash_first; break;
		default: h = hash_sum; break;
		}
		g_ht = (muggle_hash_table_t *)malloc(sizeof(*g_ht));
		if (!muggle_hash_table_init(g_ht, (size_t)vh_ull(argv[1]), h, str_cmp, (size_t)vh_ull(argv[3]))) {
			free(g_ht); g_ht = NULL;
			printf("fail\n");
		} else printf("ok\n");
		return;
	}
	if (op[0] == 'h') {
		if (!g_ht) { printf("bad-op\n"); return; }
		if (strcmp(op, "hput") == 0 && argc == 3) {
			if (parse_key(argv[1], g_key, sizeof(g_key)) != 0) { printf("bad-op\n"); return; }
			char *k = strdup((char *)g_key);
			muggle_hash_table_node_t *n = muggle_hash_table_put(g_ht, k, (void *)(uintptr_t)vh_ull(argv[2]));
			if (!n) free(k);
			printf("%d\n", n ? 1 : 0);
		} else if (strcmp(op, "hfind") == 0 && argc == 2) {
			if (parse_key(argv[1], g_key, sizeof(g_key)) != 0) { printf("bad-op\n"); return; }
			muggle_hash_table_node_t *n = muggle_hash_table_find(g_ht, g_key);
			if (!n) printf("nil\n");
			else if (strcmp((char *)n->key, (char *)g_key) != 0) printf("wrong-node\n");
			else printf("%llu\n", (unsigned long long)(uintptr_t)n->value);
		} else if (strcmp(op, "hrm") == 0 && argc == 2) {
			if (parse_key(argv[1], g_key, sizeof(g_key)) != 0) { printf("bad-op\n"); return; }
			muggle_hash_table_node_t *n = muggle_hash_table_find(g_ht, g_key);
			if (n) muggle_hash_table_remove(g_ht, n, key_free, NULL, NULL, NULL);
			printf("%d\n", n ? 1 : 0);
		} else if (strcmp(op, "hdump") == 0 && argc == 1) {
			int bad = 0;
			printf("buckets:");
			for (uint64_t i = 0; i < g_ht->table_size; i++) {
				muggle_hash_table_node_t *head = &g_ht->nodes[i], *prev = head;
				if (!head->next) continue;
				printf(" %llu:[", (unsigned long long)i);
				for (muggle_hash_table_node_t *n = head->next; n; prev = n, n = n->next) {
					if (n->prev != prev) bad = 1;
					if (prev != head) printf(",");
					print_key((unsigned char *)n->key, strlen((char *)n->key));
					printf("=%llu", (unsigned long long)(uintptr_t)n->value);
				}
				printf("]");
			}
			printf("%s\n", bad ? " bad-prev" : "");
		} else if (strcmp(op, "hitems") == 0 && argc == 1) {
			size_t cnt = 0, cap = 16;
			item_t *items = (item_t *)malloc(sizeof(item_t) * cap);
			for (uint64_t i = 0; i < g_ht->table_size; i++)
				for (muggle_hash_table_node_t *n = g_ht->nodes[i].next; n; n = n->next) {
					if (cnt == cap) { cap *= 2; items = (item_t *)realloc(items, sizeof(item_t) * cap); }
					items[cnt].k = (const char *)n->key;
					items[cnt].v = (uintptr_t)n->value;
					cnt++;
				}
			qsort(items, cnt, sizeof(item_t), item_cmp);
			printf("items:");
			for (size_t i = 0; i < cnt; i++) {
				printf(" ");
				print_key((const unsigned char *)items[i].k, strlen(items[i].k));
				printf("=%llu", (unsigned long long)items[i].v);
			}
			printf("\n");
			free(items);
		} else printf("bad-op\n");
		return;
	}
	/* ---------------- trie ---------------- */
	if (strcmp(op, "tinit") == 0 && argc == 2) {
		if (g_trie) { muggle_trie_destroy(g_trie, NULL, NULL); free(g_trie); g_trie = NULL; }
		g_trie = (muggle_trie_t *)malloc(sizeof(*g_trie));
		if (!muggle_trie_init(g_trie, (size_t)vh_ull(argv[1]))) {
			free(g_trie); g_trie = NULL;
			printf("fail\n");
		} else printf("ok\n");
		return;
	}
	if (op[0] == 't') {
		if (!g_trie) { printf("bad-op\n"); return; }
		if (strcmp(op, "tdump") == 0 && argc == 1) {
			printf("trie:");
			trie_dump(&g_trie->root, 0, 0);
			printf("\n");
			return;
		}
		if (strcmp(op, "titems") == 0 && argc == 1) {
			printf("items:");
			muggle_trie_node_t *e = g_trie->root.children[0];
			if (e && e->data) printf(" -=%llu", (unsigned long long)(uintptr_t)e->data);
			for (int i = 1; i < MUGGLE_TRIE_CHILDREN_SIZE; i++) {
				g_path[0] = (unsigned char)i;
				trie_dump(g_trie->root.children[i], 1, 1);
			}
			printf("\n");
			return;
		}
		if (argc < 2 || parse_key(argv[1], g_key, sizeof(g_key)) != 0) { printf("bad-op\n"); return; }
		if (strcmp(op, "tins") == 0 && argc == 3) {
			muggle_trie_node_t *n = muggle_trie_insert(g_trie, (const char *)g_key, (void *)(uintptr_t)vh_ull(argv[2]));
			printf("%d\n", n ? 1 : 0);
		} else if (strcmp(op, "tfind") == 0 && argc == 2) {
			muggle_trie_node_t *n = muggle_trie_find(g_trie, (const char *)g_key);
			if (!n || !n->data) printf("nil\n");
			else printf("%llu\n", (unsigned long long)(uintptr_t)n->data);
		} else if (strcmp(op, "tnode") == 0 && argc == 2) {
			muggle_trie_node_t *n = muggle_trie_find(g_trie, (const char *)g_key);
			printf("%s\n", n ? "node" : "null");
		} else if (strcmp(op, "trm") == 0 && argc == 2) {
			printf("%d\n", muggle_trie_remove(g_trie, (const char *)g_key, NULL, NULL) ? 1 : 0);
		} else printf("bad-op\n");
		return;
	}
	printf("bad-op\n");
}

VH_MAIN()
