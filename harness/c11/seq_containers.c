/* C11 harness: drives the real array list, stack, linked list, queue and pointer
 * slot of /repo through their public API, one operation per input line, one
 * canonical answer per line (same protocol as lean/Drv/C11.lean).
 *
 * Canonicalisation: data pointers are small integers cast to void*; array nodes
 * are printed as offsets from the storage; list/queue nodes are numbered in order
 * of allocation (n0, n1, ...) by this harness, which also keeps the table of live
 * nodes (the API has no way to validate a node handle, so dead handles are
 * answered "bad-node" without calling the API); pointer-slot descriptors are
 * printed as slot indices. The free callback records the data it is given. */
#include "vharness.h"
#include "muggle/c/dsaa/array_list.h"
#include "muggle/c/dsaa/stack.h"
#include "muggle/c/dsaa/linked_list.h"
#include "muggle/c/dsaa/queue.h"
#include "muggle/c/memory/pointer_slot.h"
#include "muggle/c/base/err.h"
#include <sanitizer/allocator_interface.h>
#include <ctype.h>
#include <unistd.h>

/* a corrupted list can make the library loop forever: every case and every op has
 * 10 s, then SIGALRM ends the process and the case counts as crashed */
#define VH_WATCHDOG() alarm(10)

enum { K_NONE, K_AL, K_ST, K_LL, K_Q, K_PS };
static int g_kind = K_NONE;
static int g_dead = 0;
static muggle_array_list_t g_al;
static muggle_stack_t g_st;
static muggle_linked_list_t g_ll;
static muggle_queue_t g_q;
static muggle_pointer_slot_t g_ps;

/* ---- free callback log ---- */
static uintptr_t *g_freed; static size_t g_nfreed, g_cfreed;
static void vh_free_cb(void *pool, void *data)
{
	(void)pool;
	if (g_nfreed == g_cfreed) {
		g_cfreed = g_cfreed ? g_cfreed * 2 : 64;
		g_freed = (uintptr_t *)realloc(g_freed, g_cfreed * sizeof(uintptr_t));
	}
	g_freed[g_nfreed++] = (uintptr_t)data;
}
static void print_freed(void)
{
	printf(" f:");
	for (size_t i = 0; i < g_nfreed; i++) printf(i ? ",%lu" : "%lu", (unsigned long)g_freed[i]);
	g_nfreed = 0;
}
static int vh_cmp(const void *a, const void *b)
{
	uintptr_t x = (uintptr_t)a, y = (uintptr_t)b;
	return x == y ? 0 : (x < y ? -1 : 1);
}

/* ---- node handles (linked list / queue) ---- */
static void **g_nodes; static size_t g_nnodes, g_cnodes;
static size_t node_new(void *p)
{
	if (g_nnodes == g_cnodes) {
		g_cnodes = g_cnodes ? g_cnodes * 2 : 64;
		g_nodes = (void **)realloc(g_nodes, g_cnodes * sizeof(void *));
	}
	g_nodes[g_nnodes] = p;
	return g_nnodes++;
}
static long node_id(void *p)
{
	/* live nodes only; newest first (addresses are reused after free) */
	for (size_t i = g_nnodes; i-- > 0;) if (g_nodes[i] == p) return (long)i;
	return -1;
}
static void print_node(void *p)
{
	if (!p) { printf("null"); return; }
	long id = node_id(p);
	if (id < 0) printf("unknown-node"); else printf("n%ld", id);
}
static void nodes_kill_all(void) { for (size_t i = 0; i < g_nnodes; i++) g_nodes[i] = NULL; }

/* ---- strict token parsers (same acceptance as the Lean driver) ---- */
static int p_nat(const char *s, unsigned long long *out)
{
	if (!*s) return 0;
	for (const char *c = s; *c; c++) if (!isdigit((unsigned char)*c)) return 0;
	if (strlen(s) > 19) return 0;
	*out = strtoull(s, NULL, 10);
	return 1;
}
static int p_int32(const char *s, int *out)
{
	const char *d = s;
	if (*d == '-') d++;
	unsigned long long v;
	if (!p_nat(d, &v)) return 0;
	long long x = (*s == '-') ? -(long long)v : (long long)v;
	if (x < -2147483648LL || x > 2147483647LL) return 0;
	*out = (int)x;
	return 1;
}
static int p_bool(const char *s, int *out)
{
	if (strcmp(s, "0") == 0) { *out = 0; return 1; }
	if (strcmp(s, "1") == 0) { *out = 1; return 1; }
	return 0;
}
/* "-" = NULL (ok, *isnull=1); "n<k>": *id = k */
static int p_node(const char *s, int *isnull, unsigned long long *id)
{
	if (strcmp(s, "-") == 0) { *isnull = 1; return 1; }
	*isnull = 0;
	if (s[0] != 'n') return 0;
	return p_nat(s + 1, id);
}
static int node_live(unsigned long long id) { return id < g_nnodes && g_nodes[id] != NULL; }

#define BAD() do { printf("bad-op\n"); return; } while (0)
#define DATA(v) ((void *)(uintptr_t)(v))

static void vh_reset(void)
{
	VH_WATCHDOG();
	switch (g_kind) {
	case K_AL: muggle_array_list_destroy(&g_al, NULL, NULL); break;
	case K_ST: muggle_stack_destroy(&g_st, NULL, NULL); break;
	case K_LL: muggle_linked_list_destroy(&g_ll, NULL, NULL); break;
	case K_Q: muggle_queue_destroy(&g_q, NULL, NULL); break;
	case K_PS: muggle_pointer_slot_destroy(&g_ps); break;
	}
	g_kind = K_NONE;
	g_dead = 0;
	g_nnodes = 0;
	g_nfreed = 0;
}

/* ------------------------------------------------------------------ */
static void op_al(int argc, char **argv)
{
	const char *op = argv[0];
	int idx, fr; unsigned long long v;
	muggle_dsaa_data_free cb;
	if (strcmp(op, "al_insert") == 0 || strcmp(op, "al_append") == 0) {
		if (argc != 3 || !p_int32(argv[1], &idx) || !p_nat(argv[2], &v)) BAD();
		muggle_array_list_node_t *n = op[3] == 'i'
			? muggle_array_list_insert(&g_al, idx, DATA(v))
			: muggle_array_list_append(&g_al, idx, DATA(v));
		if (n) printf("%ld\n", (long)(n - g_al.nodes)); else printf("null\n");
	} else if (strcmp(op, "al_remove") == 0) {
		if (argc != 3 || !p_int32(argv[1], &idx) || !p_bool(argv[2], &fr)) BAD();
		cb = fr ? vh_free_cb : NULL;
		bool r = muggle_array_list_remove(&g_al, idx, cb, NULL);
		printf("%d", r ? 1 : 0); print_freed(); printf("\n");
	} else if (strcmp(op, "al_get") == 0) {
		if (argc != 2 || !p_int32(argv[1], &idx)) BAD();
		muggle_array_list_node_t *n = muggle_array_list_index(&g_al, idx);
		if (n) printf("%ld:%lu\n", (long)(n - g_al.nodes), (unsigned long)(uintptr_t)n->data);
		else printf("null\n");
	} else if (strcmp(op, "al_find") == 0) {
		if (argc != 3 || !p_int32(argv[1], &idx) || !p_nat(argv[2], &v)) BAD();
		printf("%d\n", muggle_array_list_find(&g_al, idx, DATA(v), vh_cmp));
	} else if (strcmp(op, "al_clear") == 0) {
		if (argc != 2 || !p_bool(argv[1], &fr)) BAD();
		muggle_array_list_clear(&g_al, fr ? vh_free_cb : NULL, NULL);
		printf("ok"); print_freed(); printf("\n");
	} else if (strcmp(op, "al_size") == 0 && argc == 1) {
		printf("%zu %d\n", muggle_array_list_size(&g_al), muggle_array_list_is_empty(&g_al) ? 1 : 0);
	} else if (strcmp(op, "al_ensure") == 0) {
		if (argc != 2 || !p_nat(argv[1], &v)) BAD();
		printf("%d\n", muggle_array_list_ensure_capacity(&g_al, (size_t)v) ? 1 : 0);
	} else if (strcmp(op, "al_cap") == 0 && argc == 1) {
		printf("%" PRIu64 "\n", g_al.capacity);
	} else if (strcmp(op, "al_dump") == 0 && argc == 1) {
		size_t n = muggle_array_list_size(&g_al);
		printf("%zu :", n);
		for (size_t i = 0; i < n; i++) {
			muggle_array_list_node_t *nd = muggle_array_list_index(&g_al, (int)i);
			if (!nd) printf(" null"); else printf(" %lu", (unsigned long)(uintptr_t)nd->data);
		}
		printf("\n");
	} else BAD();
}

static void op_st(int argc, char **argv)
{
	const char *op = argv[0];
	int fr; unsigned long long v;
	if (strcmp(op, "st_push") == 0) {
		if (argc != 2 || !p_nat(argv[1], &v)) BAD();
		muggle_stack_node_t *n = muggle_stack_push(&g_st, DATA(v));
		if (n) printf("%ld\n", (long)(n - g_st.nodes)); else printf("null\n");
	} else if (strcmp(op, "st_top") == 0 && argc == 1) {
		muggle_stack_node_t *n = muggle_stack_top(&g_st);
		if (n) printf("%ld:%lu\n", (long)(n - g_st.nodes), (unsigned long)(uintptr_t)n->data);
		else printf("null\n");
	} else if (strcmp(op, "st_pop") == 0) {
		if (argc != 2 || !p_bool(argv[1], &fr)) BAD();
		muggle_stack_pop(&g_st, fr ? vh_free_cb : NULL, NULL);
		printf("ok"); print_freed(); printf("\n");
	} else if (strcmp(op, "st_clear") == 0) {
		if (argc != 2 || !p_bool(argv[1], &fr)) BAD();
		muggle_stack_clear(&g_st, fr ? vh_free_cb : NULL, NULL);
		printf("ok"); print_freed(); printf("\n");
	} else if (strcmp(op, "st_size") == 0 && argc == 1) {
		printf("%zu %d\n", muggle_stack_size(&g_st), muggle_stack_is_empty(&g_st) ? 1 : 0);
	} else if (strcmp(op, "st_ensure") == 0) {
		if (argc != 2 || !p_nat(argv[1], &v)) BAD();
		printf("%d\n", muggle_stack_ensure_capacity(&g_st, (size_t)v) ? 1 : 0);
	} else if (strcmp(op, "st_cap") == 0 && argc == 1) {
		printf("%" PRIu64 "\n", g_st.capacity);
	} else if (strcmp(op, "st_dump") == 0 && argc == 1) {
		size_t n = muggle_stack_size(&g_st);
		printf("%zu :", n);
		for (size_t i = 0; i < n; i++) printf(" %lu", (unsigned long)(uintptr_t)g_st.nodes[i].data);
		printf("\n");
	} else BAD();
}

static void print_pool(muggle_memory_pool_t *pool)
{
	if (!pool) printf("none\n"); else printf("%u %u\n", pool->used, pool->capacity);
}

static void op_ll(int argc, char **argv)
{
	const char *op = argv[0];
	int fr, isnull; unsigned long long v, id = 0;
	if (strcmp(op, "ll_insert") == 0 || strcmp(op, "ll_append") == 0) {
		if (argc != 3 || !p_node(argv[1], &isnull, &id) || !p_nat(argv[2], &v)) BAD();
		if (!isnull && !node_live(id)) { printf("bad-node\n"); return; }
		muggle_linked_list_node_t *at = isnull ? NULL : (muggle_linked_list_node_t *)g_nodes[id];
		muggle_linked_list_node_t *n = op[3] == 'i'
			? muggle_linked_list_insert(&g_ll, at, DATA(v))
			: muggle_linked_list_append(&g_ll, at, DATA(v));
		if (!n) { printf("null\n"); return; }
		printf("n%zu\n", node_new(n));
	} else if (strcmp(op, "ll_remove") == 0) {
		if (argc != 3 || !p_node(argv[1], &isnull, &id) || isnull || !p_bool(argv[2], &fr)) BAD();
		if (!node_live(id)) { printf("bad-node\n"); return; }
		muggle_linked_list_node_t *n = muggle_linked_list_remove(
			&g_ll, (muggle_linked_list_node_t *)g_nodes[id], fr ? vh_free_cb : NULL, NULL);
		g_nodes[id] = NULL;
		print_node(n); print_freed(); printf("\n");
	} else if (strcmp(op, "ll_next") == 0 || strcmp(op, "ll_prev") == 0) {
		if (argc != 2 || !p_node(argv[1], &isnull, &id) || isnull) BAD();
		if (!node_live(id)) { printf("bad-node\n"); return; }
		muggle_linked_list_node_t *at = (muggle_linked_list_node_t *)g_nodes[id];
		print_node(op[3] == 'n' ? muggle_linked_list_next(&g_ll, at) : muggle_linked_list_prev(&g_ll, at));
		printf("\n");
	} else if (strcmp(op, "ll_first") == 0 && argc == 1) {
		print_node(muggle_linked_list_first(&g_ll)); printf("\n");
	} else if (strcmp(op, "ll_last") == 0 && argc == 1) {
		print_node(muggle_linked_list_last(&g_ll)); printf("\n");
	} else if (strcmp(op, "ll_find") == 0) {
		if (argc != 3 || !p_node(argv[1], &isnull, &id) || !p_nat(argv[2], &v)) BAD();
		if (!isnull && !node_live(id)) { printf("bad-node\n"); return; }
		muggle_linked_list_node_t *at = isnull ? NULL : (muggle_linked_list_node_t *)g_nodes[id];
		print_node(muggle_linked_list_find(&g_ll, at, DATA(v), vh_cmp)); printf("\n");
	} else if (strcmp(op, "ll_clear") == 0) {
		if (argc != 2 || !p_bool(argv[1], &fr)) BAD();
		muggle_linked_list_clear(&g_ll, fr ? vh_free_cb : NULL, NULL);
		nodes_kill_all();
		printf("ok"); print_freed(); printf("\n");
	} else if (strcmp(op, "ll_size") == 0 && argc == 1) {
		printf("%zu %d\n", muggle_linked_list_size(&g_ll), muggle_linked_list_is_empty(&g_ll) ? 1 : 0);
	} else if (strcmp(op, "ll_pool") == 0 && argc == 1) {
		print_pool(g_ll.pool);
	} else if (strcmp(op, "ll_dump") == 0 && argc == 1) {
		printf("%zu :", muggle_linked_list_size(&g_ll));
		size_t guard = g_nnodes + 2;
		for (muggle_linked_list_node_t *n = muggle_linked_list_first(&g_ll); n && guard--;
				n = muggle_linked_list_next(&g_ll, n)) {
			printf(" "); print_node(n); printf(":%lu", (unsigned long)(uintptr_t)n->data);
		}
		printf(" ;");
		guard = g_nnodes + 2;
		for (muggle_linked_list_node_t *n = muggle_linked_list_last(&g_ll); n && guard--;
				n = muggle_linked_list_prev(&g_ll, n)) {
			printf(" "); print_node(n);
		}
		printf("\n");
	} else BAD();
}

static void op_q(int argc, char **argv)
{
	const char *op = argv[0];
	int fr; unsigned long long v;
	if (strcmp(op, "q_enq") == 0) {
		if (argc != 2 || !p_nat(argv[1], &v)) BAD();
		muggle_queue_node_t *n = muggle_queue_enqueue(&g_q, DATA(v));
		if (!n) { printf("null\n"); return; }
		printf("n%zu\n", node_new(n));
	} else if (strcmp(op, "q_deq") == 0) {
		if (argc != 2 || !p_bool(argv[1], &fr)) BAD();
		muggle_queue_node_t *f = muggle_queue_front(&g_q);
		long id = f ? node_id(f) : -1;
		muggle_queue_dequeue(&g_q, fr ? vh_free_cb : NULL, NULL);
		if (id >= 0) g_nodes[id] = NULL;
		printf("ok"); print_freed(); printf("\n");
	} else if (strcmp(op, "q_front") == 0 && argc == 1) {
		muggle_queue_node_t *f = muggle_queue_front(&g_q);
		if (!f) printf("null\n");
		else { print_node(f); printf(":%lu\n", (unsigned long)(uintptr_t)f->data); }
	} else if (strcmp(op, "q_clear") == 0) {
		if (argc != 2 || !p_bool(argv[1], &fr)) BAD();
		muggle_queue_clear(&g_q, fr ? vh_free_cb : NULL, NULL);
		nodes_kill_all();
		printf("ok"); print_freed(); printf("\n");
	} else if (strcmp(op, "q_size") == 0 && argc == 1) {
		printf("%zu %d\n", muggle_queue_size(&g_q), muggle_queue_is_empty(&g_q) ? 1 : 0);
	} else if (strcmp(op, "q_pool") == 0 && argc == 1) {
		print_pool(g_q.pool);
	} else if (strcmp(op, "q_dump") == 0 && argc == 1) {
		/* the queue API has no iterator: walk the public struct */
		printf("%zu :", muggle_queue_size(&g_q));
		size_t guard = g_nnodes + 2;
		for (muggle_queue_node_t *n = g_q.head.next; n != &g_q.tail && guard--; n = n->next) {
			printf(" "); print_node(n); printf(":%lu", (unsigned long)(uintptr_t)n->data);
		}
		printf(" ;");
		guard = g_nnodes + 2;
		for (muggle_queue_node_t *n = g_q.tail.prev; n != &g_q.head && guard--; n = n->prev) {
			printf(" "); print_node(n);
		}
		printf("\n");
	} else BAD();
}

static void op_ps(int argc, char **argv)
{
	const char *op = argv[0];
	unsigned long long v;
	if (strcmp(op, "ps_insert") == 0) {
		if (argc != 2 || !p_nat(argv[1], &v)) BAD();
		unsigned int idx = 0;
		int r = muggle_pointer_slot_insert(&g_ps, DATA(v), &idx);
		if (r == 0) printf("%u\n", idx);
		else if (r == MUGGLE_ERR_MEM_ALLOC) printf("full\n");
		else printf("err%d\n", r);
	} else if (strcmp(op, "ps_remove") == 0) {
		if (argc != 2 || !p_nat(argv[1], &v) || v >= (1ULL << 32)) BAD();
		int r = muggle_pointer_slot_remove(&g_ps, (unsigned int)v);
		if (r == 0) printf("ok\n");
		else if (r == MUGGLE_ERR_BEYOND_RANGE) printf("range\n");
		else if (r == MUGGLE_ERR_MEM_DUPLICATE_FREE) printf("dup\n");
		else printf("err%d\n", r);
	} else if (strcmp(op, "ps_get") == 0) {
		if (argc != 2 || !p_nat(argv[1], &v) || v >= (1ULL << 32)) BAD();
		printf("%lu\n", (unsigned long)(uintptr_t)muggle_pointer_slot_get(&g_ps, (unsigned int)v));
	} else if (strcmp(op, "ps_iter") == 0 && argc == 1) {
		printf("it");
		size_t guard = (size_t)g_ps.capacity + 2;
		muggle_pointer_slot_item_t *end = muggle_pointer_slot_iter_end(&g_ps);
		for (muggle_pointer_slot_item_t *it = muggle_pointer_slot_iter_begin(&g_ps);
				it != end && guard--; it = it->next) {
			printf(" %u:%lu", it->slot_idx,
				(unsigned long)(uintptr_t)muggle_pointer_slot_iter_data(&g_ps, it));
		}
		printf("\n");
	} else if (strcmp(op, "ps_dump") == 0 && argc == 1) {
		/* never read beyond what the library allocated (ask the allocator) */
		size_t npp = __sanitizer_get_allocated_size(g_ps.pp_slots) / sizeof(g_ps.pp_slots[0]);
		size_t nsl = __sanitizer_get_allocated_size(g_ps.slots) / sizeof(g_ps.slots[0]);
		printf("%u %u %u :", g_ps.capacity, g_ps.alloc_index, g_ps.free_index);
		for (size_t i = 0; i < npp; i++) printf(" %ld", (long)(g_ps.pp_slots[i] - g_ps.slots));
		printf(" :");
		for (size_t i = 0; i < nsl; i++) printf(" %u", g_ps.slots[i].in_used);
		printf("\n");
	} else BAD();
}

static void vh_op(int argc, char **argv)
{
	const char *op = argv[0];
	unsigned long long c, a;
	VH_WATCHDOG();
	if (g_dead) { printf("dead\n"); return; }
	if (strcmp(op, "al_init") == 0 || strcmp(op, "st_init") == 0 ||
	    strcmp(op, "ll_init") == 0 || strcmp(op, "q_init") == 0) {
		if (argc != 2 || !p_nat(argv[1], &c)) BAD();
		vh_reset();
		bool ok = false;
		int kind = K_NONE;
		if (op[0] == 'a') { ok = muggle_array_list_init(&g_al, (size_t)c); kind = K_AL; }
		else if (op[0] == 's') { ok = muggle_stack_init(&g_st, (size_t)c); kind = K_ST; }
		else if (op[0] == 'l') { ok = muggle_linked_list_init(&g_ll, (size_t)c); kind = K_LL; }
		else { ok = muggle_queue_init(&g_q, (size_t)c); kind = K_Q; }
		if (ok) g_kind = kind;
		printf("%s\n", ok ? "ok" : "fail");
		return;
	}
	if (strcmp(op, "ps_init") == 0) {
		if (argc != 3 || !p_nat(argv[1], &c) || !p_nat(argv[2], &a) ||
		    c >= (1ULL << 32) || a >= (1ULL << 32)) BAD();
		vh_reset();
		int r = muggle_pointer_slot_init(&g_ps, (unsigned int)c);
		if (r != 0) { printf("fail\n"); return; }
		g_kind = K_PS;
		/* every slot is free, so any common value of the two counters is a
		 * legitimate state: start them near the 32-bit wrap */
		g_ps.alloc_index = (unsigned int)a;
		g_ps.free_index = (unsigned int)a;
		printf("ok %u\n", g_ps.capacity);
		return;
	}
	if (strncmp(op, "al_", 3) == 0 && g_kind == K_AL) op_al(argc, argv);
	else if (strncmp(op, "st_", 3) == 0 && g_kind == K_ST) op_st(argc, argv);
	else if (strncmp(op, "ll_", 3) == 0 && g_kind == K_LL) op_ll(argc, argv);
	else if (strncmp(op, "q_", 2) == 0 && g_kind == K_Q) op_q(argc, argv);
	else if (strncmp(op, "ps_", 3) == 0 && g_kind == K_PS) op_ps(argc, argv);
	else printf("bad-op\n");
}

VH_MAIN()
