/* C06 — implementation harness for muggle/c/memory/memory_pool.c (tie B).
 *
 * Same line protocol as lean/Drv/C06.lean. Pointers are printed as block identities
 * (data buffer number, index) computed from the REAL addresses. Besides answering,
 * the harness is the property's monitor on the implementation; while every free so
 * far was of a live block it appends a flag word to the answer when
 *   OOB         a returned block does not lie wholly inside a data buffer as malloc'ed
 *   MISALIGNED  a returned pointer is not base + k * block_size
 *   DUP         a returned block overlaps a block that is still live
 *   CORRUPT     a live block no longer holds the pattern written at its allocation
 *   MOVED       the base address of an existing data buffer changed
 * memory_pool.c is compiled with -Dmalloc=vh_malloc: the allocator is scripted by
 * size (`memlimit N`: requests above N bytes fail) and request sizes are recorded. */
#include "vharness.h"
#include "muggle/c/memory/memory_pool.h"

#define MAX_LIVE (1 << 20)
#define MAX_SLAB 4096
#define MAX_REC 16384

/* ---- scripted allocator ------------------------------------------------ */
static size_t g_limit = 1u << 26;
static struct { void *p; size_t n; } g_rec[MAX_REC];
static int g_nrec;

void *vh_malloc(size_t n)
{
	if (n > g_limit) return NULL;
	void *p = malloc(n);
	if (p != NULL) {
		if (g_nrec == MAX_REC) { /* keep the most recent half */
			memmove(g_rec, g_rec + MAX_REC / 2, sizeof(g_rec[0]) * (MAX_REC / 2));
			g_nrec = MAX_REC / 2;
		}
		g_rec[g_nrec].p = p; g_rec[g_nrec].n = n; g_nrec++;
	}
	return p;
}
static size_t rec_size(void *p)
{
	for (int i = g_nrec - 1; i >= 0; i--) if (g_rec[i].p == p) return g_rec[i].n;
	return 0;
}

/* ---- state ------------------------------------------------------------- */
static muggle_memory_pool_t g_pool;
static int g_inited;
static int g_hyp;                       /* every free so far was of a live block */
typedef struct { char *p; long s; uint64_t i; uint32_t serial; int touch; } live_t;
static live_t *g_live;
static uint32_t g_nlive, g_serial;
static char *g_base[MAX_SLAB];
static size_t g_bytes[MAX_SLAB];
static uint64_t g_cnt[MAX_SLAB];
static uint32_t g_nslab, g_seen_cap;
static char g_flags[96];

static void flag(const char *w)
{
	if (!g_hyp || strstr(g_flags, w)) return;
	strcat(g_flags, " "); strcat(g_flags, w);
}

static uint8_t pat(uint32_t serial, uint64_t j) { return (uint8_t)(serial * 131u + j * 7u + 1u); }
#define EDGE 128
static void fill(live_t *b)
{
	uint64_t bs = g_pool.block_size;
	for (uint64_t j = 0; j < bs; j++) {
		if (bs > 2 * EDGE && j == EDGE) j = bs - EDGE;
		b->p[j] = (char)pat(b->serial, j);
	}
}
static int verify(live_t *b)
{
	uint64_t bs = g_pool.block_size;
	for (uint64_t j = 0; j < bs; j++) {
		if (bs > 2 * EDGE && j == EDGE) j = bs - EDGE;
		if ((uint8_t)b->p[j] != pat(b->serial, j)) return 0;
	}
	return 1;
}
static void poison(live_t *b)
{
	uint64_t bs = g_pool.block_size;
	for (uint64_t j = 0; j < bs; j++) {
		if (bs > 2 * EDGE && j == EDGE) j = bs - EDGE;
		b->p[j] = (char)0xDD;
	}
}

/* logical identity of a pointer: (data buffer, index) by the extents the pool believes in */
static int locate(char *p, long *s, uint64_t *i, int *aligned)
{
	uint64_t bs = g_pool.block_size;
	for (uint32_t k = 0; k < g_nslab; k++) {
		if (p >= g_base[k] && (uint64_t)(p - g_base[k]) < g_cnt[k] * bs) {
			uint64_t off = (uint64_t)(p - g_base[k]);
			*s = k; *i = off / bs; *aligned = (off % bs == 0);
			return 1;
		}
	}
	return 0;
}

/* after every operation: data buffers never move; register new ones; on growth every
 * live block must still hold its contents */
static void after_op(void)
{
	if (!g_inited) return;
	for (uint32_t k = 0; k < g_nslab && k < g_pool.num_buf; k++)
		if ((char *)g_pool.memory_pool_data_bufs[k] != g_base[k]) flag("MOVED");
	int grew = 0;
	while (g_nslab < g_pool.num_buf && g_nslab < MAX_SLAB) {
		g_base[g_nslab] = (char *)g_pool.memory_pool_data_bufs[g_nslab];
		g_bytes[g_nslab] = rec_size(g_base[g_nslab]);
		g_cnt[g_nslab] = (uint64_t)g_pool.capacity - g_seen_cap;
		g_seen_cap = g_pool.capacity;
		g_nslab++; grew = 1;
	}
	if (grew && g_hyp)
		for (uint32_t k = 0; k < g_nlive; k++)
			if (g_live[k].touch && !verify(&g_live[k])) flag("CORRUPT");
}

static void destroy(void)
{
	if (g_inited) muggle_memory_pool_destroy(&g_pool);
	g_inited = 0; g_nlive = 0; g_nslab = 0; g_seen_cap = 0; g_serial = 0; g_hyp = 1;
}

static void vh_reset(void)
{
	destroy();
	g_limit = 1u << 26; g_nrec = 0;
	if (!g_live) g_live = (live_t *)malloc(sizeof(live_t) * MAX_LIVE);
}

static void remove_live(uint32_t k)
{
	memmove(&g_live[k], &g_live[k + 1], sizeof(live_t) * (g_nlive - k - 1));
	g_nlive--;
}

static void op_alloc(void)
{
	char *p = (char *)muggle_memory_pool_alloc(&g_pool);
	after_op();
	if (p == NULL) { printf("null%s\n", g_flags); return; }
	if (g_nlive == MAX_LIVE) { printf("bad-op\n"); return; }
	live_t b; long s = -1; uint64_t i = 0; int al = 1;
	uint64_t bs = g_pool.block_size;
	b.p = p; b.serial = ++g_serial; b.touch = 0;
	int found = locate(p, &s, &i, &al);
	b.s = s; b.i = i;
	if (!found) flag("OOB");
	else {
		if (!al) flag("MISALIGNED");
		if ((uint64_t)(p - g_base[s]) + bs > g_bytes[s]) flag("OOB");
	}
	int dup = 0;
	for (uint32_t k = 0; k < g_nlive; k++) {
		char *q = g_live[k].p;
		if ((p <= q && (uint64_t)(q - p) < bs) || (q <= p && (uint64_t)(p - q) < bs)) dup = 1;
	}
	if (dup) flag("DUP");
	if (g_hyp && found && !dup && !strstr(g_flags, "OOB")) { b.touch = 1; fill(&b); }
	g_live[g_nlive++] = b;
	if (found) printf("b %ld %" PRIu64 "%s\n", s, i, g_flags);
	else printf("b ?%s\n", g_flags);
}

static void op_free_ptr(char *p, int k /* index in g_live or -1 */)
{
	if (g_pool.used == 0) { printf("err-underflow\n"); return; }
	if (k >= 0) {
		if (g_hyp && g_live[k].touch) {
			if (!verify(&g_live[k])) flag("CORRUPT");
			poison(&g_live[k]);
		}
		remove_live((uint32_t)k);
	}
	muggle_memory_pool_free(&g_pool, p);
	after_op();
	printf("ok%s\n", g_flags);
}

static void dump(void)
{
	printf("a=%u f=%u u=%u c=%u bs=%u fl=%u md=%u slabs=", g_pool.alloc_index, g_pool.free_index,
		g_pool.used, g_pool.capacity, g_pool.block_size, g_pool.flag, g_pool.max_delta_cap);
	for (uint32_t k = 0; k < g_nslab; k++)
		printf("%s%" PRIu64 ":%zu", k ? "," : "", g_cnt[k], g_bytes[k]);
	printf(" ring=");
	for (uint32_t k = 0; k < g_pool.capacity; k++) {
		long s; uint64_t i; int al;
		if (locate((char *)g_pool.memory_pool_ptr_buf[k], &s, &i, &al) && al)
			printf("%s%ld.%" PRIu64, k ? " " : "", s, i);
		else printf("%s?", k ? " " : "");
	}
	printf("\n");
}

static void vh_op(int argc, char **argv)
{
	const char *op = argv[0];
	g_flags[0] = 0;
	if (!strcmp(op, "variant") && argc == 2) {
		printf((!strcmp(argv[1], "orig") || !strcmp(argv[1], "fixed")) ? "ok\n" : "bad-op\n");
	} else if (!strcmp(op, "memlimit") && argc == 2) {
		g_limit = (size_t)vh_ull(argv[1]); printf("ok\n");
	} else if (!strcmp(op, "init") && argc == 3) {
		unsigned long long c = vh_ull(argv[1]), b = vh_ull(argv[2]);
		if (c >= (1ull << 32) || b >= (1ull << 32)) { printf("bad-op\n"); return; }
		destroy();
		if (muggle_memory_pool_init(&g_pool, (uint32_t)c, (uint32_t)b)) {
			g_inited = 1; after_op(); printf("ok%s\n", g_flags);
		} else printf("fail\n");
	} else if (!g_inited) {
		printf("bad-op\n");
	} else if (!strcmp(op, "alloc") && argc == 1) {
		op_alloc();
	} else if (!strcmp(op, "free") && argc == 2) {
		unsigned long long k = vh_ull(argv[1]);
		if (k >= g_nlive) { printf("bad-op\n"); return; }
		op_free_ptr(g_live[k].p, (int)k);
	} else if (!strcmp(op, "dfree") && argc == 3) {
		unsigned long long s = vh_ull(argv[1]), i = vh_ull(argv[2]);
		if (s >= g_nslab || i >= g_cnt[s]) { printf("bad-op\n"); return; }
		/* only for blocks that really exist (the malformed stream keeps sizes small) */
		if ((i + 1) * (uint64_t)g_pool.block_size > g_bytes[s]) { printf("bad-op\n"); return; }
		char *p = g_base[s] + i * (uint64_t)g_pool.block_size;
		int k = -1;
		for (uint32_t j = 0; j < g_nlive; j++) if (g_live[j].p == p) { k = (int)j; break; }
		if (k < 0 && g_pool.used != 0) g_hyp = 0;
		op_free_ptr(p, k);
	} else if (!strcmp(op, "ensure") && argc == 2) {
		unsigned long long n = vh_ull(argv[1]);
		if (n >= (1ull << 32)) { printf("bad-op\n"); return; }
		bool r = muggle_memory_pool_ensure_space(&g_pool, (uint32_t)n);
		after_op();
		printf("%d%s\n", r ? 1 : 0, g_flags);
	} else if (!strcmp(op, "flag") && argc == 2) {
		if (vh_ull(argv[1]) >= (1ull << 32)) { printf("bad-op\n"); return; }
		muggle_memory_pool_set_flag(&g_pool, (uint32_t)vh_ull(argv[1]));
		printf(muggle_memory_pool_get_flag(&g_pool) == (uint32_t)vh_ull(argv[1]) ? "ok\n" : "ok FLAG\n");
	} else if (!strcmp(op, "maxdelta") && argc == 2) {
		if (vh_ull(argv[1]) >= (1ull << 32)) { printf("bad-op\n"); return; }
		muggle_memory_pool_set_max_delta_cap(&g_pool, (uint32_t)vh_ull(argv[1]));
		printf("ok\n");
	} else if (!strcmp(op, "cnt") && argc == 1) {
		printf("%u %u\n", g_pool.used, g_pool.capacity);
	} else if (!strcmp(op, "dump") && argc == 1) {
		dump();
	} else {
		printf("bad-op\n");
	}
}

VH_MAIN()
