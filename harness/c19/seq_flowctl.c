/* C19 harness: drives the real flow controllers of /repo through the public API.
 * The clock is scripted: time_counter.c is compiled with -Dclock_gettime=vh_clock_gettime
 * and muggle_rdtscp is provided here (cpu_cycle.c is not linked), so the real
 * muggle_flow_ctl_check_and_update / _check_and_force_update bodies run. */
#include "vharness.h"
#include "muggle/c/time/flow_controller.h"
#include "muggle/c/time/fast_flow_controller.h"
#include <time.h>

static int64_t g_now;            /* scripted elapsed time, in the controller's unit */
#define TICK_BASE 1000000ULL

int vh_clock_gettime(clockid_t id, struct timespec *ts)
{
	(void)id;
	int64_t s = g_now / 1000000000LL, ns = g_now % 1000000000LL;
	if (ns < 0) { ns += 1000000000LL; s -= 1; }
	ts->tv_sec = 100000 + s;      /* arbitrary epoch: only differences matter */
	ts->tv_nsec = ns;
	return 0;
}
uint64_t muggle_rdtscp(void) { return TICK_BASE + (uint64_t)g_now; }

static int g_kind;               /* 0 none, 1 ns controller, 2 fast controller */
static muggle_flow_controller_t g_fc;
static muggle_fast_flow_controller_t g_ffc;

static void vh_reset(void)
{
	if (g_kind == 1) muggle_flow_ctl_destroy(&g_fc);
	if (g_kind == 2) muggle_fast_flow_ctl_destroy(&g_ffc);
	g_kind = 0;
}

static void vh_op(int argc, char **argv)
{
	const char *op = argv[0];
	if (strcmp(op, "init") == 0 && argc == 5) {
		vh_reset();
		int64_t t = vh_ll(argv[2]), f = vh_ll(argv[4]);
		uint32_t n = (uint32_t)vh_ull(argv[3]);
		g_now = 0;
		bool ok;
		if (strcmp(argv[1], "ns") == 0) {
			ok = muggle_flow_ctl_init(&g_fc, t, n, f);
			if (ok) g_kind = 1;
		} else {
			ok = muggle_fast_flow_ctl_init(&g_ffc, t, n, f, (double)vh_ll(argv[1]));
			if (ok) g_kind = 2;
		}
		printf("%s\n", ok ? "ok" : "fail");
		return;
	}
	if (g_kind == 0) { printf("bad-op\n"); return; }
	if (argc == 2) {
		int64_t x = vh_ll(argv[1]);
		if (strcmp(op, "cau") == 0) {
			g_now = x;
			bool r = g_kind == 1 ? muggle_flow_ctl_check_and_update(&g_fc)
			                     : muggle_fast_flow_ctl_check_and_update(&g_ffc);
			printf("%d\n", r ? 1 : 0);
		} else if (strcmp(op, "cfu") == 0) {
			g_now = x;
			bool r = g_kind == 1 ? muggle_flow_ctl_check_and_force_update(&g_fc)
			                     : muggle_fast_flow_ctl_check_and_force_update(&g_ffc);
			printf("%d\n", r ? 1 : 0);
		} else if (strcmp(op, "check") == 0) {
			bool r = g_kind == 1 ? muggle_flow_ctl_check(&g_fc, x)
			                     : muggle_fast_flow_ctl_check(&g_ffc, x);
			printf("%d\n", r ? 1 : 0);
		} else if (strcmp(op, "update") == 0) {
			if (g_kind == 1) muggle_flow_ctl_update(&g_fc, x);
			else muggle_fast_flow_ctl_update(&g_ffc, x);
			printf("ok\n");
		} else printf("bad-op\n");
		return;
	}
	if (strcmp(op, "ff") == 0 && argc == 4) {
		/* fast-forward (search only): `count` requests at start, start+step, ... through the explicit
		 * check/update entry points; used to reach states only a very long history reaches (32-bit
		 * counters). Prints the number admitted. */
		uint64_t cnt = vh_ull(argv[1]), adm = 0;
		int64_t now = vh_ll(argv[2]), step = vh_ll(argv[3]);
		alarm(1500);
		for (uint64_t i = 0; i < cnt; i++, now += step) {
			bool r = g_kind == 1 ? muggle_flow_ctl_check(&g_fc, now) : muggle_fast_flow_ctl_check(&g_ffc, now);
			if (r) {
				adm++;
				if (g_kind == 1) muggle_flow_ctl_update(&g_fc, now);
				else muggle_fast_flow_ctl_update(&g_ffc, now);
			}
		}
		printf("ok %" PRIu64 "\n", adm);
		return;
	}
	if (strcmp(op, "dump") == 0) {
		uint32_t n = g_kind == 1 ? g_fc.n : g_ffc.n;
		uint32_t c = g_kind == 1 ? g_fc.cursor : g_ffc.cursor;
		int64_t t = g_kind == 1 ? g_fc.t : g_ffc.t_ticks;
		int64_t *arr = g_kind == 1 ? g_fc.arr : g_ffc.arr;
		printf("%u %" PRId64 " :", c, t);
		for (uint32_t i = 0; i < n; i++) printf(" %" PRId64, arr[i]);
		printf("\n");
		return;
	}
	printf("bad-op\n");
}

VH_MAIN()
