/* C18 harness: fault enumeration over the real constructors / growers / inserters of /repo.
 *
 * Linked with -Wl,--wrap=malloc,calloc,realloc,aligned_alloc,free,eventfd,epoll_create,
 * pipe,socket,close: every acquisition made by the library *while the harness is inside an
 * API call* is numbered (1,2,3,... since the last `fault` op); the acquisitions whose number
 * is in the armed fault set fail (NULL / -1).  All successful acquisitions are entered in a
 * table, releases remove them: `live=<mem>/<fd>` is the allocator accounting the property
 * names, and a pointer/descriptor field of an object is classified as
 *      n  NULL / -1        o  owned: refers to a live acquisition
 *      d  dangling: non-NULL but not live (already released)
 *
 * One output line per op:
 *      ret=<ok|fail|void> inj=<faults injected since `fault`> acq=<acquisitions attempted since
 *      `fault`> live=<mem>/<fd> st=<cells and counters of the family's object>
 * A sanitizer abort, a NULL dereference or a hang (10 s watchdog) kills the process; vlib
 * reports the case as crashed.  Blocks still live at the end of a case are force-released
 * (after having been reported in live=) so that LeakSanitizer stays quiet at exit.  */
#include "vharness.h"
#include <pthread.h>
#include <signal.h>
#include <unistd.h>
#include <errno.h>
#include <fcntl.h>
#include <sys/socket.h>
#include "muggle/c/muggle_c.h"
#include "muggle/c/event/internal/event_loop_select.h"
#include "muggle/c/event/internal/event_loop_poll.h"
#include "muggle/c/event/internal/event_loop_epoll.h"
#include "muggle/c/sync/ma_ring.h"
#include "muggle/c/memory/ring_memory_pool.h"
#include "muggle/c/time/flow_controller.h"
#include "muggle/c/time/fast_flow_controller.h"
#include "muggle/c/net/socket_evloop_pipe.h"

/* ------------------------------------------------------------------ accounting */
void *__real_malloc(size_t);
void *__real_calloc(size_t, size_t);
void *__real_realloc(void *, size_t);
void *__real_aligned_alloc(size_t, size_t);
void __real_free(void *);
int __real_eventfd(unsigned int, int);
int __real_epoll_create(int);
int __real_pipe(int[2]);
int __real_socket(int, int, int);
int __real_close(int);

#define TAB_SZ (1 << 16)
static void *g_tab[TAB_SZ];
static int g_fdtab[4096];
static long g_mem_live, g_fd_live;
static pthread_mutex_t g_lock = PTHREAD_MUTEX_INITIALIZER;
static volatile int g_in_lib;      /* harness is inside an API call of the library */
static long g_nacq, g_inj;
#define MAX_FAULTS 64
static long g_faults[MAX_FAULTS];
static int g_nfaults;

static size_t hslot(void *p) { return (size_t)(((uintptr_t)p >> 4) * 0x9E3779B97F4A7C15ULL >> 48) & (TAB_SZ - 1); }

static void tab_add(void *p)
{
	pthread_mutex_lock(&g_lock);
	size_t i = hslot(p);
	while (g_tab[i] != NULL && g_tab[i] != (void *)1) i = (i + 1) & (TAB_SZ - 1);
	g_tab[i] = p;
	g_mem_live++;
	pthread_mutex_unlock(&g_lock);
}
static int tab_find_locked(void *p)
{
	size_t i = hslot(p);
	while (g_tab[i] != NULL) {
		if (g_tab[i] == p) return (int)i;
		i = (i + 1) & (TAB_SZ - 1);
	}
	return -1;
}
static int tab_has(void *p)
{
	if (p == NULL) return 0;
	pthread_mutex_lock(&g_lock);
	int r = tab_find_locked(p) >= 0;
	pthread_mutex_unlock(&g_lock);
	return r;
}
static int tab_del(void *p)
{
	pthread_mutex_lock(&g_lock);
	int i = tab_find_locked(p);
	if (i >= 0) { g_tab[i] = (void *)1; g_mem_live--; }
	pthread_mutex_unlock(&g_lock);
	return i >= 0;
}
static int fd_has(int fd) { return fd >= 0 && fd < 4096 && g_fdtab[fd]; }
static void fd_add(int fd) { if (fd >= 0 && fd < 4096) { g_fdtab[fd] = 1; g_fd_live++; } }

/* 1 = this acquisition must fail */
static int vh_fault_now(void)
{
	long k = ++g_nacq;
	for (int i = 0; i < g_nfaults; i++)
		if (g_faults[i] == k) { g_inj++; return 1; }
	return 0;
}

void *__wrap_malloc(size_t n)
{
	if (!g_in_lib) return __real_malloc(n);
	if (vh_fault_now()) { errno = ENOMEM; return NULL; }
	void *p = __real_malloc(n);
	if (p) tab_add(p);
	return p;
}
void *__wrap_calloc(size_t a, size_t b)
{
	if (!g_in_lib) return __real_calloc(a, b);
	if (vh_fault_now()) { errno = ENOMEM; return NULL; }
	void *p = __real_calloc(a, b);
	if (p) tab_add(p);
	return p;
}
void *__wrap_aligned_alloc(size_t a, size_t n)
{
	if (!g_in_lib) return __real_aligned_alloc(a, n);
	if (vh_fault_now()) { errno = ENOMEM; return NULL; }
	void *p = __real_aligned_alloc(a, n);
	if (p) tab_add(p);
	return p;
}
void *__wrap_realloc(void *old, size_t n)
{
	if (!g_in_lib) { if (old) tab_del(old); return __real_realloc(old, n); }
	if (vh_fault_now()) { errno = ENOMEM; return NULL; }
	if (old) tab_del(old);
	void *p = __real_realloc(old, n);
	if (p) tab_add(p);
	return p;
}
void __wrap_free(void *p)
{
	if (p) tab_del(p);
	__real_free(p);
}
int __wrap_eventfd(unsigned int v, int fl)
{
	if (!g_in_lib) return __real_eventfd(v, fl);
	if (vh_fault_now()) { errno = EMFILE; return -1; }
	int fd = __real_eventfd(v, fl);
	fd_add(fd);
	return fd;
}
int __wrap_epoll_create(int n)
{
	if (!g_in_lib) return __real_epoll_create(n);
	if (vh_fault_now()) { errno = EMFILE; return -1; }
	int fd = __real_epoll_create(n);
	fd_add(fd);
	return fd;
}
int __wrap_pipe(int fds[2])
{
	if (!g_in_lib) return __real_pipe(fds);
	if (vh_fault_now()) { errno = EMFILE; return -1; }
	int r = __real_pipe(fds);
	if (r == 0) { fd_add(fds[0]); fd_add(fds[1]); }
	return r;
}
int __wrap_socket(int a, int b, int c)
{
	if (!g_in_lib) return __real_socket(a, b, c);
	if (vh_fault_now()) { errno = EMFILE; return -1; }
	int fd = __real_socket(a, b, c);
	fd_add(fd);
	return fd;
}
static long g_wild_close;   /* close() by the library of a descriptor it did not acquire */
int __wrap_close(int fd)
{
	if (fd >= 0 && fd < 4096 && g_fdtab[fd]) { g_fdtab[fd] = 0; g_fd_live--; }
	else if (g_in_lib && fd >= 0) {
		/* not ours to give away (e.g. a zero-initialised descriptor field closed on a failure path):
		 * report it and keep the harness' own descriptor open */
		g_wild_close++;
		return 0;
	}
	return __real_close(fd);
}

static char cell(void *p) { return p == NULL ? 'n' : (tab_has(p) ? 'o' : 'd'); }
static char fdcell(int fd) { return fd == -1 ? 'n' : (fd_has(fd) ? 'o' : 'd'); }

static void on_alarm(int sig)
{
	(void)sig;
	static const char msg[] = "hang: the call did not return within 10 s\n";
	ssize_t r = write(2, msg, sizeof(msg) - 1);
	(void)r;
	_exit(97);
}
#define ENTER() do { alarm(10); g_in_lib = 1; } while (0)
/* leaving the library re-arms the per-operation watchdog of vharness.h (the rest of the operation,
 * e.g. joining a helper thread, must not hang without limit either) */
#define LEAVE() do { g_in_lib = 0; alarm(VH_OP_TIMEOUT); } while (0)

static void line(const char *ret, const char *st)
{
	if (g_wild_close)
		printf("ret=%s inj=%ld acq=%ld live=%ld/%ld st=%s wildclose=%ld\n", ret, g_inj, g_nacq, g_mem_live,
			   g_fd_live, st, g_wild_close);
	else
		printf("ret=%s inj=%ld acq=%ld live=%ld/%ld st=%s\n", ret, g_inj, g_nacq, g_mem_live, g_fd_live, st);
}
static const char *RB(int ok) { return ok ? "ok" : "fail"; }

/* ------------------------------------------------------------------ objects */
enum { S_NONE = 0, S_OK = 1, S_FAILED = 2, S_DESTROYED = 3 };

static muggle_channel_t g_chan;            static int s_chan;
static muggle_ring_buffer_t g_rbuf;        static int s_rbuf;
static muggle_double_buffer_t g_dbuf;      static int s_dbuf;
static muggle_array_blocking_queue_t g_abq; static int s_abq;
static muggle_memory_pool_t g_mpool;       static int s_mpool;
static muggle_sowr_memory_pool_t g_sowr;   static int s_sowr;
static muggle_ts_memory_pool_t g_tsp;      static int s_tsp;
static muggle_ring_memory_pool_t g_rmp;    static int s_rmp;
static muggle_pointer_slot_t g_pslot;      static int s_pslot;
static muggle_bytes_buffer_t g_bbuf;       static int s_bbuf;
static muggle_flow_controller_t g_fctl;    static int s_fctl;
static muggle_array_list_t g_alist;        static int s_alist;
static muggle_heap_t g_heap;               static int s_heap;
static muggle_stack_t g_stack;             static int s_stack;
static muggle_linked_list_t g_llist;       static int s_llist;
static muggle_queue_t g_queue;             static int s_queue;
static muggle_avl_tree_t g_avl;            static int s_avl;
static muggle_hash_table_t g_htab;         static int s_htab;
static muggle_trie_t g_trie;               static int s_trie;
static muggle_event_signal_t g_evsig;      static int s_evsig;
static muggle_event_loop_t *g_evloop;      static int s_evloop;
static muggle_socket_evloop_handle_t g_sockh; static int s_sockh;
static muggle_async_logger_t g_alog;       static int s_alog;
static muggle_socket_evloop_pipe_t g_evpipe; static int s_evpipe;
static muggle_socket_t g_sock = -1;         static int s_sock;
static muggle_fast_flow_controller_t g_ffctl; static int s_ffctl;
static int s_maring;
static int g_maring_backend;

#define MAXBLK 4096
static void *g_mblk[MAXBLK]; static int g_nmblk;       /* blocks handed out by mpool.alloc */
#define MAXCTX 64
static muggle_event_context_t g_ctx[MAXCTX]; static int g_ctxfd[MAXCTX][2]; static int g_nctx;

static int cmp_ip(const void *a, const void *b)
{
	intptr_t x = (intptr_t)a, y = (intptr_t)b;
	return x < y ? -1 : (x > y ? 1 : 0);
}
static uint64_t hash_ip(void *k) { return (uint64_t)(intptr_t)k; }

/* number of live data buffers of a memory pool */
static int mpool_bufs(muggle_memory_pool_t *p)
{
	int n = 0;
	if (p->memory_pool_data_bufs == NULL || !tab_has(p->memory_pool_data_bufs)) return 0;
	for (uint32_t i = 0; i < p->num_buf; i++) n += tab_has(p->memory_pool_data_bufs[i]);
	return n;
}
/* "<data_bufs><ptr_buf>,b=<live bufs>,c=<capacity>,u=<used>" */
static char *mpool_st(muggle_memory_pool_t *p, char *buf)
{
	sprintf(buf, "%c%c,b=%d,c=%u,u=%u", cell(p->memory_pool_data_bufs), cell(p->memory_pool_ptr_buf),
			mpool_bufs(p), p->capacity, p->used);
	return buf;
}
/* state of an optional node pool hanging off a container: "-" or "(<pool cell>:<mpool_st>)" */
static char *npool_st(muggle_memory_pool_t *pool, char *buf)
{
	char t[128];
	if (pool == NULL) { strcpy(buf, "-"); return buf; }
	if (!tab_has(pool)) { strcpy(buf, "(d)"); return buf; }
	sprintf(buf, "(o:%s)", mpool_st(pool, t));
	return buf;
}

static void close_ctx_fds(void)
{
	for (int i = 0; i < g_nctx; i++) { __real_close(g_ctxfd[i][0]); __real_close(g_ctxfd[i][1]); }
	g_nctx = 0;
}

static void maring_wait_backend(void)
{
	/* cleanup returns when the backend marked the ring DONE; the backend frees the list
	 * node right after: wait until the node left both lists (bounded) */
	muggle_ma_ring_context_t *c = muggle_ma_ring_ctx_get();
	for (int i = 0; i < 2000; i++) {
		if (c->ring_list.next == NULL && c->add_list.next == NULL) break;
		usleep(500);
	}
	usleep(3000);
}

static void vh_reset(void)
{
	/* objects that own threads must be shut down properly */
	if (s_alog == S_OK) { ENTER(); muggle_async_logger_destroy((muggle_logger_t *)&g_alog); LEAVE(); }
	if (s_maring == S_OK) { ENTER(); muggle_ma_ring_thread_ctx_cleanup(); LEAVE(); maring_wait_backend(); }
	s_chan = s_rbuf = s_dbuf = s_abq = s_mpool = s_sowr = s_tsp = s_rmp = s_pslot = s_bbuf = 0;
	s_fctl = s_alist = s_heap = s_stack = s_llist = s_queue = s_avl = s_htab = s_trie = 0;
	s_evsig = s_evloop = s_sockh = s_alog = s_maring = 0;
	s_evpipe = s_sock = s_ffctl = 0; g_sock = -1;
	g_evloop = NULL;
	g_nmblk = 0;
	close_ctx_fds();
	/* force-release whatever the case left behind (it has been reported in live=) */
	pthread_mutex_lock(&g_lock);
	for (size_t i = 0; i < TAB_SZ; i++) {
		if (g_tab[i] != NULL && g_tab[i] != (void *)1) __real_free(g_tab[i]);
		g_tab[i] = NULL;
	}
	g_mem_live = 0;
	pthread_mutex_unlock(&g_lock);
	for (int fd = 0; fd < 4096; fd++) if (g_fdtab[fd]) { __real_close(fd); g_fdtab[fd] = 0; }
	g_fd_live = 0;
	g_nacq = g_inj = 0;
	g_nfaults = 0;
	g_wild_close = 0;
}

#define IS(s) (strcmp(op, s) == 0)
#define NEED(st) if ((st) != S_OK) { printf("bad-op\n"); return; }
#define CAN_INIT(st) if ((st) == S_OK) { printf("bad-op\n"); return; }
#define NEED_INITED(st) if ((st) != S_OK && (st) != S_FAILED) { printf("bad-op\n"); return; }

static void evloop_st(char *buf)
{
	char t[160], u[200];
	muggle_event_loop_t *e = g_evloop;
	if (e == NULL) { strcpy(buf, "n"); return; }
	char b[64] = "";
	switch (e->evloop_type) {
	case MUGGLE_EVLOOP_TYPE_SELECT: strcpy(b, "sel"); break;
	case MUGGLE_EVLOOP_TYPE_POLL: {
		muggle_event_loop_poll_t *p = (muggle_event_loop_poll_t *)e;
		sprintf(b, "poll:%c%c,nfd=%d", cell(p->fds), cell(p->nodes), p->nfd);
	} break;
	case MUGGLE_EVLOOP_TYPE_EPOLL: {
		muggle_event_loop_epoll_t *p = (muggle_event_loop_epoll_t *)e;
		sprintf(b, "epoll:%c%c", fdcell(p->epfd), cell(p->events));
	} break;
	}
	int nodes = 0;
	if (e->ctx_list && tab_has(e->ctx_list)) {
		nodes = (int)muggle_linked_list_size(e->ctx_list);
		npool_st(e->ctx_list->pool, u);
	} else strcpy(u, "?");
	sprintf(buf, "%c,list=%c%s,n=%d,sig=%c%c,%s", cell(e), cell(e->ctx_list), u, nodes,
			cell(e->ev_signal), (e->ev_signal && tab_has(e->ev_signal)) ? fdcell(e->ev_signal->evfd) : '?', b);
	(void)t;
}

static void vh_op(int argc, char **argv)
{
	const char *op = argv[0];
	char st[512], t[256];
	long a1 = argc > 1 ? vh_ll(argv[1]) : 0, a2 = argc > 2 ? vh_ll(argv[2]) : 0, a3 = argc > 3 ? vh_ll(argv[3]) : 0;

	if (IS("fault")) {
		g_nfaults = 0;
		for (int i = 1; i < argc && g_nfaults < MAX_FAULTS; i++) g_faults[g_nfaults++] = vh_ll(argv[i]);
		g_nacq = g_inj = 0;
		printf("ok\n");
		return;
	}

	/* ------------------------------------------------------------ sync */
	if (IS("chan.init")) {
		CAN_INIT(s_chan); memset(&g_chan, 0, sizeof(g_chan));
		ENTER(); int r = muggle_channel_init(&g_chan, (muggle_sync_t)a1, (int)a2); LEAVE();
		s_chan = r == 0 ? S_OK : S_FAILED;
		sprintf(st, "%c%c%c%c", cell(g_chan.write_mutex), cell(g_chan.read_mutex), cell(g_chan.read_cv), cell(g_chan.blocks));
		line(RB(r == 0), st); return;
	}
	if (IS("chan.destroy")) {
		NEED_INITED(s_chan);
		ENTER(); muggle_channel_destroy(&g_chan); LEAVE(); s_chan = S_DESTROYED;
		sprintf(st, "%c%c%c%c", cell(g_chan.write_mutex), cell(g_chan.read_mutex), cell(g_chan.read_cv), cell(g_chan.blocks));
		line("void", st); return;
	}
	if (IS("rbuf.init")) {
		CAN_INIT(s_rbuf); memset(&g_rbuf, 0, sizeof(g_rbuf));
		ENTER(); int r = muggle_ring_buffer_init(&g_rbuf, (muggle_sync_t)a1, (int)a2); LEAVE();
		s_rbuf = r == 0 ? S_OK : S_FAILED;
		sprintf(st, "%c", cell(g_rbuf.blocks)); line(RB(r == 0), st); return;
	}
	if (IS("rbuf.destroy")) {
		NEED_INITED(s_rbuf);
		ENTER(); muggle_ring_buffer_destroy(&g_rbuf); LEAVE(); s_rbuf = S_DESTROYED;
		sprintf(st, "%c", cell(g_rbuf.blocks)); line("void", st); return;
	}
	if (IS("dbuf.init")) {
		CAN_INIT(s_dbuf); memset(&g_dbuf, 0, sizeof(g_dbuf));
		ENTER(); int r = muggle_double_buffer_init(&g_dbuf, (int)a1, 1); LEAVE();
		s_dbuf = r == 0 ? S_OK : S_FAILED;
		sprintf(st, "%c%c", cell(g_dbuf.buf[0].datas), cell(g_dbuf.buf[1].datas)); line(RB(r == 0), st); return;
	}
	if (IS("dbuf.destroy")) {
		NEED_INITED(s_dbuf);
		ENTER(); muggle_double_buffer_destroy(&g_dbuf); LEAVE(); s_dbuf = S_DESTROYED;
		sprintf(st, "%c%c", cell(g_dbuf.buf[0].datas), cell(g_dbuf.buf[1].datas)); line("void", st); return;
	}
	if (IS("abq.init")) {
		CAN_INIT(s_abq); memset(&g_abq, 0, sizeof(g_abq));
		ENTER(); int r = muggle_array_blocking_queue_init(&g_abq, (int)a1); LEAVE();
		s_abq = r == 0 ? S_OK : S_FAILED;
		sprintf(st, "%c", cell(g_abq.datas)); line(RB(r == 0), st); return;
	}
	if (IS("abq.destroy")) {
		NEED_INITED(s_abq);
		ENTER(); muggle_array_blocking_queue_destroy(&g_abq); LEAVE(); s_abq = S_DESTROYED;
		sprintf(st, "%c", cell(g_abq.datas)); line("void", st); return;
	}
	if (IS("maring.init")) {
		CAN_INIT(s_maring);
		if (!g_maring_backend) { muggle_ma_ring_backend_run(); g_maring_backend = 1; }
		muggle_ma_ring_ctx_set_capacity(16);
		muggle_ma_ring_ctx_set_data_size(64);
		ENTER(); muggle_ma_ring_t *r = muggle_ma_ring_thread_ctx_init(); LEAVE();
		s_maring = r ? S_OK : S_FAILED;
		if (r) sprintf(st, "%c%c", cell(r), cell(r->buffer)); else strcpy(st, "n");
		line(RB(r != NULL), st); return;
	}
	if (IS("maring.cleanup")) {
		NEED_INITED(s_maring);
		ENTER(); muggle_ma_ring_thread_ctx_cleanup(); LEAVE(); s_maring = S_DESTROYED;
		maring_wait_backend();
		line("void", "n"); return;
	}

	/* ------------------------------------------------------------ memory */
	if (IS("mpool.init")) {
		CAN_INIT(s_mpool); memset(&g_mpool, 0, sizeof(g_mpool));
		g_nmblk = 0;
		ENTER(); bool r = muggle_memory_pool_init(&g_mpool, (uint32_t)a1, (uint32_t)a2); LEAVE();
		s_mpool = r ? S_OK : S_FAILED;
		line(RB(r), mpool_st(&g_mpool, st)); return;
	}
	if (IS("mpool.destroy")) {
		NEED_INITED(s_mpool);
		ENTER(); muggle_memory_pool_destroy(&g_mpool); LEAVE(); s_mpool = S_DESTROYED;
		line("void", mpool_st(&g_mpool, st)); return;
	}
	if (IS("mpool.alloc")) {
		NEED(s_mpool);
		if (g_nmblk >= MAXBLK) { printf("bad-op\n"); return; }
		ENTER(); void *p = muggle_memory_pool_alloc(&g_mpool); LEAVE();
		if (p) g_mblk[g_nmblk++] = p;
		line(RB(p != NULL), mpool_st(&g_mpool, st)); return;
	}
	if (IS("mpool.free")) {
		NEED(s_mpool);
		if (g_nmblk == 0) { printf("bad-op\n"); return; }
		ENTER(); muggle_memory_pool_free(&g_mpool, g_mblk[--g_nmblk]); LEAVE();
		line("void", mpool_st(&g_mpool, st)); return;
	}
	if (IS("mpool.ensure")) {
		NEED(s_mpool);
		ENTER(); bool r = muggle_memory_pool_ensure_space(&g_mpool, (uint32_t)a1); LEAVE();
		line(RB(r), mpool_st(&g_mpool, st)); return;
	}
	if (IS("mpool.setflag")) {
		NEED(s_mpool);
		muggle_memory_pool_set_flag(&g_mpool, (uint32_t)a1);
		line("void", mpool_st(&g_mpool, st)); return;
	}
	if (IS("mpool.setmax")) {
		NEED(s_mpool);
		muggle_memory_pool_set_max_delta_cap(&g_mpool, (uint32_t)a1);
		line("void", mpool_st(&g_mpool, st)); return;
	}
	if (IS("sowr.init")) {
		CAN_INIT(s_sowr); memset(&g_sowr, 0, sizeof(g_sowr));
		ENTER(); int r = muggle_sowr_memory_pool_init(&g_sowr, (muggle_sync_t)a1, (muggle_sync_t)a2); LEAVE();
		s_sowr = r == 0 ? S_OK : S_FAILED;
		sprintf(st, "%c", cell(g_sowr.blocks)); line(RB(r == 0), st); return;
	}
	if (IS("sowr.destroy")) {
		NEED_INITED(s_sowr);
		ENTER(); muggle_sowr_memory_pool_destroy(&g_sowr); LEAVE(); s_sowr = S_DESTROYED;
		sprintf(st, "%c", cell(g_sowr.blocks)); line("void", st); return;
	}
	if (IS("tsp.init")) {
		CAN_INIT(s_tsp); memset(&g_tsp, 0, sizeof(g_tsp));
		ENTER(); int r = muggle_ts_memory_pool_init(&g_tsp, (muggle_sync_t)a1, (muggle_sync_t)a2); LEAVE();
		s_tsp = r == 0 ? S_OK : S_FAILED;
		sprintf(st, "%c%c", cell(g_tsp.data), cell(g_tsp.ptrs)); line(RB(r == 0), st); return;
	}
	if (IS("tsp.destroy")) {
		NEED_INITED(s_tsp);
		ENTER(); muggle_ts_memory_pool_destroy(&g_tsp); LEAVE(); s_tsp = S_DESTROYED;
		sprintf(st, "%c%c", cell(g_tsp.data), cell(g_tsp.ptrs)); line("void", st); return;
	}
	if (IS("rmp.init")) {
		CAN_INIT(s_rmp); memset(&g_rmp, 0, sizeof(g_rmp));
		ENTER(); int r = muggle_ring_memory_pool_init(&g_rmp, (muggle_sync_t)a1, (muggle_sync_t)a2); LEAVE();
		s_rmp = r == 0 ? S_OK : S_FAILED;
		sprintf(st, "%c", cell(g_rmp.blocks)); line(RB(r == 0), st); return;
	}
	if (IS("rmp.destroy")) {
		NEED_INITED(s_rmp);
		ENTER(); muggle_ring_memory_pool_destroy(&g_rmp); LEAVE(); s_rmp = S_DESTROYED;
		sprintf(st, "%c", cell(g_rmp.blocks)); line("void", st); return;
	}
	if (IS("pslot.init")) {
		CAN_INIT(s_pslot); memset(&g_pslot, 0, sizeof(g_pslot));
		ENTER(); int r = muggle_pointer_slot_init(&g_pslot, (unsigned int)a1); LEAVE();
		s_pslot = r == 0 ? S_OK : S_FAILED;
		sprintf(st, "%c%c", cell(g_pslot.slots), cell(g_pslot.pp_slots)); line(RB(r == 0), st); return;
	}
	if (IS("pslot.destroy")) {
		NEED_INITED(s_pslot);
		ENTER(); muggle_pointer_slot_destroy(&g_pslot); LEAVE(); s_pslot = S_DESTROYED;
		sprintf(st, "%c%c", cell(g_pslot.slots), cell(g_pslot.pp_slots)); line("void", st); return;
	}
	if (IS("bbuf.init")) {
		CAN_INIT(s_bbuf); memset(&g_bbuf, 0, sizeof(g_bbuf));
		ENTER(); bool r = muggle_bytes_buffer_init(&g_bbuf, (int)a1); LEAVE();
		s_bbuf = r ? S_OK : S_FAILED;
		sprintf(st, "%c", cell(g_bbuf.buffer)); line(RB(r), st); return;
	}
	if (IS("bbuf.destroy")) {
		NEED_INITED(s_bbuf);
		ENTER(); muggle_bytes_buffer_destroy(&g_bbuf); LEAVE(); s_bbuf = S_DESTROYED;
		sprintf(st, "%c", cell(g_bbuf.buffer)); line("void", st); return;
	}
	if (IS("fctl.init")) {
		CAN_INIT(s_fctl); memset(&g_fctl, 0, sizeof(g_fctl));
		ENTER(); bool r = muggle_flow_ctl_init(&g_fctl, (int64_t)a1, (uint32_t)a2, 0); LEAVE();
		s_fctl = r ? S_OK : S_FAILED;
		sprintf(st, "%c", cell(g_fctl.arr)); line(RB(r), st); return;
	}
	if (IS("fctl.destroy")) {
		NEED_INITED(s_fctl);
		ENTER(); muggle_flow_ctl_destroy(&g_fctl); LEAVE(); s_fctl = S_DESTROYED;
		sprintf(st, "%c", cell(g_fctl.arr)); line("void", st); return;
	}

	/* ------------------------------------------------------------ dsaa: arrays */
	if (IS("alist.init")) {
		CAN_INIT(s_alist); memset(&g_alist, 0, sizeof(g_alist));
		ENTER(); bool r = muggle_array_list_init(&g_alist, (size_t)a1); LEAVE();
		s_alist = r ? S_OK : S_FAILED;
		sprintf(st, "%c,c=%llu,n=%llu", cell(g_alist.nodes), (unsigned long long)g_alist.capacity, (unsigned long long)g_alist.size);
		line(RB(r), st); return;
	}
	if (IS("alist.destroy")) {
		NEED_INITED(s_alist);
		ENTER(); muggle_array_list_destroy(&g_alist, NULL, NULL); LEAVE(); s_alist = S_DESTROYED;
		sprintf(st, "%c,c=%llu,n=%llu", cell(g_alist.nodes), (unsigned long long)g_alist.capacity, (unsigned long long)g_alist.size);
		line("void", st); return;
	}
	if (IS("alist.ensure") || IS("alist.insert") || IS("alist.append") || IS("alist.remove")) {
		NEED(s_alist);
		int r;
		ENTER();
		if (IS("alist.ensure")) r = muggle_array_list_ensure_capacity(&g_alist, (size_t)a1);
		else if (IS("alist.insert")) r = muggle_array_list_insert(&g_alist, 0, (void *)1) != NULL;
		else if (IS("alist.append")) r = muggle_array_list_append(&g_alist, -1, (void *)1) != NULL;
		else r = muggle_array_list_remove(&g_alist, 0, NULL, NULL);
		LEAVE();
		sprintf(st, "%c,c=%llu,n=%llu", cell(g_alist.nodes), (unsigned long long)g_alist.capacity, (unsigned long long)g_alist.size);
		line(RB(r), st); return;
	}
	if (IS("heap.init")) {
		CAN_INIT(s_heap); memset(&g_heap, 0, sizeof(g_heap));
		ENTER(); bool r = muggle_heap_init(&g_heap, cmp_ip, (size_t)a1); LEAVE();
		s_heap = r ? S_OK : S_FAILED;
		sprintf(st, "%c,c=%llu,n=%llu", cell(g_heap.nodes), (unsigned long long)g_heap.capacity, (unsigned long long)g_heap.size);
		line(RB(r), st); return;
	}
	if (IS("heap.destroy")) {
		NEED_INITED(s_heap);
		ENTER(); muggle_heap_destroy(&g_heap, NULL, NULL, NULL, NULL); LEAVE(); s_heap = S_DESTROYED;
		sprintf(st, "%c,c=%llu,n=%llu", cell(g_heap.nodes), (unsigned long long)g_heap.capacity, (unsigned long long)g_heap.size);
		line("void", st); return;
	}
	if (IS("heap.ensure") || IS("heap.insert") || IS("heap.extract")) {
		NEED(s_heap);
		int r;
		ENTER();
		if (IS("heap.ensure")) r = muggle_heap_ensure_capacity(&g_heap, (size_t)a1);
		else if (IS("heap.insert")) r = muggle_heap_insert(&g_heap, (void *)(intptr_t)(a1 + 1), NULL);
		else { muggle_heap_node_t nd; r = muggle_heap_extract(&g_heap, &nd); }
		LEAVE();
		sprintf(st, "%c,c=%llu,n=%llu", cell(g_heap.nodes), (unsigned long long)g_heap.capacity, (unsigned long long)g_heap.size);
		line(RB(r), st); return;
	}
	if (IS("stack.init")) {
		CAN_INIT(s_stack); memset(&g_stack, 0, sizeof(g_stack));
		ENTER(); bool r = muggle_stack_init(&g_stack, (size_t)a1); LEAVE();
		s_stack = r ? S_OK : S_FAILED;
		sprintf(st, "%c,c=%llu,n=%llu", cell(g_stack.nodes), (unsigned long long)g_stack.capacity, (unsigned long long)g_stack.top);
		line(RB(r), st); return;
	}
	if (IS("stack.destroy")) {
		NEED_INITED(s_stack);
		ENTER(); muggle_stack_destroy(&g_stack, NULL, NULL); LEAVE(); s_stack = S_DESTROYED;
		sprintf(st, "%c,c=%llu,n=%llu", cell(g_stack.nodes), (unsigned long long)g_stack.capacity, (unsigned long long)g_stack.top);
		line("void", st); return;
	}
	if (IS("stack.ensure") || IS("stack.push") || IS("stack.pop")) {
		NEED(s_stack);
		int r = 1;
		const char *rs = NULL;
		ENTER();
		if (IS("stack.ensure")) r = muggle_stack_ensure_capacity(&g_stack, (size_t)a1);
		else if (IS("stack.push")) r = muggle_stack_push(&g_stack, (void *)1) != NULL;
		else { muggle_stack_pop(&g_stack, NULL, NULL); rs = "void"; }
		LEAVE();
		sprintf(st, "%c,c=%llu,n=%llu", cell(g_stack.nodes), (unsigned long long)g_stack.capacity, (unsigned long long)g_stack.top);
		line(rs ? rs : RB(r), st); return;
	}
	if (IS("msort")) {
		void *arr[64];
		int n = (int)a1; if (n < 1) n = 1; if (n > 64) n = 64;
		for (int i = 0; i < n; i++) arr[i] = (void *)(intptr_t)((i * 37) % 11 + 1);
		ENTER(); bool r = muggle_merge_sort(arr, (size_t)n, cmp_ip); LEAVE();
		int sorted = 1;
		for (int i = 1; i < n; i++) if ((intptr_t)arr[i - 1] > (intptr_t)arr[i]) sorted = 0;
		sprintf(st, "%s", r ? (sorted ? "sorted" : "unsorted") : "-");
		line(RB(r), st); return;
	}

	/* ------------------------------------------------------------ dsaa: node containers */
	if (IS("llist.init")) {
		CAN_INIT(s_llist); memset(&g_llist, 0, sizeof(g_llist));
		ENTER(); bool r = muggle_linked_list_init(&g_llist, (size_t)a1); LEAVE();
		s_llist = r ? S_OK : S_FAILED;
		sprintf(st, "%s,n=%llu", npool_st(g_llist.pool, t), (unsigned long long)g_llist.size); line(RB(r), st); return;
	}
	if (IS("llist.destroy")) {
		NEED_INITED(s_llist);
		ENTER(); muggle_linked_list_destroy(&g_llist, NULL, NULL); LEAVE(); s_llist = S_DESTROYED;
		sprintf(st, "%c,n=%llu", cell(g_llist.pool), (unsigned long long)g_llist.size); line("void", st); return;
	}
	if (IS("llist.insert") || IS("llist.append") || IS("llist.remove")) {
		NEED(s_llist);
		int r = 1; const char *rs = NULL;
		ENTER();
		if (IS("llist.insert")) r = muggle_linked_list_insert(&g_llist, NULL, (void *)1) != NULL;
		else if (IS("llist.append")) r = muggle_linked_list_append(&g_llist, NULL, (void *)1) != NULL;
		else {
			muggle_linked_list_node_t *n = muggle_linked_list_first(&g_llist);
			if (n) muggle_linked_list_remove(&g_llist, n, NULL, NULL);
			rs = "void";
		}
		LEAVE();
		sprintf(st, "%s,n=%llu", npool_st(g_llist.pool, t), (unsigned long long)g_llist.size); line(rs ? rs : RB(r), st); return;
	}
	if (IS("queue.init")) {
		CAN_INIT(s_queue); memset(&g_queue, 0, sizeof(g_queue));
		ENTER(); bool r = muggle_queue_init(&g_queue, (size_t)a1); LEAVE();
		s_queue = r ? S_OK : S_FAILED;
		sprintf(st, "%s,n=%llu", npool_st(g_queue.pool, t), (unsigned long long)g_queue.size); line(RB(r), st); return;
	}
	if (IS("queue.destroy")) {
		NEED_INITED(s_queue);
		ENTER(); muggle_queue_destroy(&g_queue, NULL, NULL); LEAVE(); s_queue = S_DESTROYED;
		sprintf(st, "%c,n=%llu", cell(g_queue.pool), (unsigned long long)g_queue.size); line("void", st); return;
	}
	if (IS("queue.enq") || IS("queue.deq")) {
		NEED(s_queue);
		int r = 1; const char *rs = NULL;
		ENTER();
		if (IS("queue.enq")) r = muggle_queue_enqueue(&g_queue, (void *)1) != NULL;
		else { if (muggle_queue_size(&g_queue) > 0) muggle_queue_dequeue(&g_queue, NULL, NULL); rs = "void"; }
		LEAVE();
		sprintf(st, "%s,n=%llu", npool_st(g_queue.pool, t), (unsigned long long)g_queue.size); line(rs ? rs : RB(r), st); return;
	}
	if (IS("avl.init")) {
		CAN_INIT(s_avl); memset(&g_avl, 0, sizeof(g_avl));
		ENTER(); bool r = muggle_avl_tree_init(&g_avl, cmp_ip, (size_t)a1); LEAVE();
		s_avl = r ? S_OK : S_FAILED;
		sprintf(st, "%s", npool_st(g_avl.pool, t)); line(RB(r), st); return;
	}
	if (IS("avl.destroy")) {
		NEED_INITED(s_avl);
		ENTER(); muggle_avl_tree_destroy(&g_avl, NULL, NULL, NULL, NULL); LEAVE(); s_avl = S_DESTROYED;
		sprintf(st, "%c", cell(g_avl.pool)); line("void", st); return;
	}
	if (IS("avl.insert") || IS("avl.remove")) {
		NEED(s_avl);
		int r = 1; const char *rs = NULL;
		void *key = (void *)(intptr_t)(a1 + 1);
		ENTER();
		if (IS("avl.insert")) r = muggle_avl_tree_insert(&g_avl, key, NULL) != NULL;
		else {
			muggle_avl_tree_node_t *n = muggle_avl_tree_find(&g_avl, key);
			if (n) muggle_avl_tree_remove(&g_avl, n, NULL, NULL, NULL, NULL);
			rs = "void";
		}
		LEAVE();
		sprintf(st, "%s", npool_st(g_avl.pool, t)); line(rs ? rs : RB(r), st); return;
	}
	if (IS("htab.init")) {
		CAN_INIT(s_htab); memset(&g_htab, 0, sizeof(g_htab));
		ENTER(); bool r = muggle_hash_table_init(&g_htab, (size_t)a1, hash_ip, cmp_ip, (size_t)a2); LEAVE();
		s_htab = r ? S_OK : S_FAILED;
		sprintf(st, "%s,t=%c", npool_st(g_htab.pool, t), cell(g_htab.nodes)); line(RB(r), st); return;
	}
	if (IS("htab.destroy")) {
		NEED_INITED(s_htab);
		ENTER(); muggle_hash_table_destroy(&g_htab, NULL, NULL, NULL, NULL); LEAVE(); s_htab = S_DESTROYED;
		sprintf(st, "%c,t=%c", cell(g_htab.pool), cell(g_htab.nodes)); line("void", st); return;
	}
	if (IS("htab.put") || IS("htab.remove")) {
		NEED(s_htab);
		int r = 1; const char *rs = NULL;
		void *key = (void *)(intptr_t)(a1 + 1);
		ENTER();
		if (IS("htab.put")) r = muggle_hash_table_put(&g_htab, key, NULL) != NULL;
		else {
			muggle_hash_table_node_t *n = muggle_hash_table_find(&g_htab, key);
			if (n) muggle_hash_table_remove(&g_htab, n, NULL, NULL, NULL, NULL);
			rs = "void";
		}
		LEAVE();
		sprintf(st, "%s,t=%c", npool_st(g_htab.pool, t), cell(g_htab.nodes)); line(rs ? rs : RB(r), st); return;
	}
	if (IS("trie.init")) {
		CAN_INIT(s_trie); memset(&g_trie, 0, sizeof(g_trie));
		ENTER(); bool r = muggle_trie_init(&g_trie, (size_t)a1); LEAVE();
		s_trie = r ? S_OK : S_FAILED;
		sprintf(st, "%s", npool_st(g_trie.pool, t)); line(RB(r), st); return;
	}
	if (IS("trie.destroy")) {
		NEED_INITED(s_trie);
		ENTER(); muggle_trie_destroy(&g_trie, NULL, NULL); LEAVE(); s_trie = S_DESTROYED;
		sprintf(st, "%c", cell(g_trie.pool)); line("void", st); return;
	}
	if (IS("trie.insert")) {
		NEED(s_trie);
		ENTER(); int r = muggle_trie_insert(&g_trie, argc >= 2 ? argv[1] : "", (void *)1) != NULL; LEAVE();
		sprintf(st, "%s", npool_st(g_trie.pool, t)); line(RB(r), st); return;
	}

	/* ------------------------------------------------------------ event / net */
	if (IS("evsig.init")) {
		CAN_INIT(s_evsig); memset(&g_evsig, 0, sizeof(g_evsig));
		ENTER(); int r = muggle_ev_signal_init(&g_evsig); LEAVE();
		s_evsig = r == 0 ? S_OK : S_FAILED;
		sprintf(st, "%c", fdcell(g_evsig.evfd)); line(RB(r == 0), st); return;
	}
	if (IS("evsig.destroy")) {
		NEED_INITED(s_evsig);
		ENTER(); muggle_ev_signal_destroy(&g_evsig); LEAVE(); s_evsig = S_DESTROYED;
		sprintf(st, "%c", fdcell(g_evsig.evfd)); line("void", st); return;
	}
	if (IS("evloop.new")) {
		CAN_INIT(s_evloop);
		muggle_event_loop_init_args_t args;
		memset(&args, 0, sizeof(args));
		args.evloop_type = (int)a1; args.use_mem_pool = (int)a2; args.hints_max_fd = (int)a3;
		ENTER(); g_evloop = muggle_evloop_new(&args); LEAVE();
		s_evloop = g_evloop ? S_OK : S_FAILED;
		evloop_st(st); line(RB(g_evloop != NULL), st); return;
	}
	if (IS("evloop.delete")) {
		NEED(s_evloop);
		ENTER(); muggle_evloop_delete(g_evloop); LEAVE(); s_evloop = S_DESTROYED; g_evloop = NULL;
		close_ctx_fds();
		line("void", "n"); return;
	}
	if (IS("evloop.add")) {
		NEED(s_evloop);
		if (g_nctx >= MAXCTX) { printf("bad-op\n"); return; }
		if (__real_pipe(g_ctxfd[g_nctx]) != 0) { printf("bad-op\n"); return; }
		muggle_ev_ctx_init(&g_ctx[g_nctx], g_ctxfd[g_nctx][0], NULL);
		ENTER(); int r = muggle_evloop_add_ctx(g_evloop, &g_ctx[g_nctx]); LEAVE();
		g_nctx++;
		evloop_st(st); line(RB(r == 0), st); return;
	}
#define SOCKH_ST() sprintf(st, "%c%c,n=%d", cell(g_sockh.ctx_queue), cell(g_sockh.mtx), \
		(g_sockh.ctx_queue && tab_has(g_sockh.ctx_queue)) ? (int)muggle_queue_size(g_sockh.ctx_queue) : 0)
	if (IS("sockh.init")) {
		CAN_INIT(s_sockh); memset(&g_sockh, 0, sizeof(g_sockh));
		ENTER(); int r = muggle_socket_evloop_handle_init(&g_sockh); LEAVE();
		s_sockh = r == 0 ? S_OK : S_FAILED;
		SOCKH_ST(); line(RB(r == 0), st); return;
	}
	if (IS("sockh.destroy")) {
		NEED_INITED(s_sockh);
		ENTER(); muggle_socket_evloop_handle_destroy(&g_sockh); LEAVE(); s_sockh = S_DESTROYED;
		SOCKH_ST(); line("void", st); return;
	}
	if (IS("sockh.addctx")) {
		NEED(s_sockh); NEED(s_evloop);
		/* the caller's context: a heap block (released by the handle with free(), its default
		 * cb_free) and a descriptor; both are entered in the live table so that the hand-over
		 * of ownership is part of the accounting */
		int fds[2];
		if (__real_pipe(fds) != 0) { printf("bad-op\n"); return; }
		__real_close(fds[1]);
		muggle_socket_context_t *ctx = (muggle_socket_context_t *)__real_malloc(sizeof(*ctx));
		if (ctx == NULL) { __real_close(fds[0]); printf("bad-op\n"); return; }
		muggle_socket_ctx_init(ctx, fds[0], NULL, MUGGLE_SOCKET_CTX_TYPE_PIPE);
		tab_add(ctx); fd_add(fds[0]);
		muggle_socket_evloop_handle_attach(&g_sockh, g_evloop);
		ENTER();
		/* works with the void signature of the unfixed tree (reported as ret=void) and the int one */
		int r = __builtin_choose_expr(
			__builtin_types_compatible_p(__typeof__(muggle_socket_evloop_add_ctx(g_evloop, ctx)), void),
			(muggle_socket_evloop_add_ctx(g_evloop, ctx), 12345),
			muggle_socket_evloop_add_ctx(g_evloop, ctx));
		LEAVE();
		if (r != 0 && r != 12345) {          /* not queued: still the caller's, who releases it */
			close(fds[0]);
			free(ctx);
		}
		SOCKH_ST(); line(r == 12345 ? "void" : RB(r == 0), st); return;
	}
	if (IS("evpipe.init")) {
		CAN_INIT(s_evpipe); memset(&g_evpipe, 0, sizeof(g_evpipe));
		ENTER(); int r = muggle_socket_evloop_pipe_init(&g_evpipe); LEAVE();
		s_evpipe = r == 0 ? S_OK : S_FAILED;
		sprintf(st, "%c%c", fdcell(g_evpipe.ctx[0].base.fd), fdcell(g_evpipe.ctx[1].base.fd)); line(RB(r == 0), st); return;
	}
	if (IS("evpipe.destroy")) {
		NEED_INITED(s_evpipe);
		ENTER(); muggle_socket_evloop_pipe_destroy(&g_evpipe); LEAVE(); s_evpipe = S_DESTROYED;
		sprintf(st, "%c%c", fdcell(g_evpipe.ctx[0].base.fd), fdcell(g_evpipe.ctx[1].base.fd)); line("void", st); return;
	}
	if (IS("sock.create")) {
		CAN_INIT(s_sock);
		ENTER(); g_sock = muggle_socket_create(AF_INET, SOCK_DGRAM, 0); LEAVE();
		s_sock = g_sock != MUGGLE_INVALID_SOCKET ? S_OK : S_FAILED;
		sprintf(st, "%c", fdcell(g_sock)); line(RB(g_sock != MUGGLE_INVALID_SOCKET), st); return;
	}
	if (IS("sock.close")) {
		NEED_INITED(s_sock);
		ENTER(); if (g_sock != MUGGLE_INVALID_SOCKET) muggle_socket_close(g_sock); LEAVE(); s_sock = S_DESTROYED;
		g_sock = -1;
		sprintf(st, "%c", fdcell(g_sock)); line("void", st); return;
	}
	if (IS("ffctl.init")) {
		CAN_INIT(s_ffctl); memset(&g_ffctl, 0, sizeof(g_ffctl));
		ENTER(); bool r = muggle_fast_flow_ctl_init(&g_ffctl, (int64_t)a1, (uint32_t)a2, 0, 1e9); LEAVE();
		s_ffctl = r ? S_OK : S_FAILED;
		sprintf(st, "%c", cell(g_ffctl.arr)); line(RB(r), st); return;
	}
	if (IS("ffctl.destroy")) {
		NEED_INITED(s_ffctl);
		ENTER(); muggle_fast_flow_ctl_destroy(&g_ffctl); LEAVE(); s_ffctl = S_DESTROYED;
		sprintf(st, "%c", cell(g_ffctl.arr)); line("void", st); return;
	}

	/* ------------------------------------------------------------ log */
	if (IS("alog.init")) {
		CAN_INIT(s_alog); memset(&g_alog, 0, sizeof(g_alog));
		ENTER(); int r = muggle_async_logger_init(&g_alog, (int)a1); LEAVE();
		s_alog = r == 0 ? S_OK : S_FAILED;
		sprintf(st, "%c%c", cell(g_alog.channel.write_mutex), cell(g_alog.channel.blocks)); line(RB(r == 0), st); return;
	}
	if (IS("alog.log")) {
		NEED(s_alog);
		muggle_log_src_loc_t loc = { "f.c", 1, "fn" };
		ENTER();
		muggle_async_logger_log((muggle_logger_t *)&g_alog, MUGGLE_LOG_LEVEL_FATAL + 1, &loc, "x%d", 1);
		/* let the consumer thread drain the message, so that live= is deterministic */
		for (int i = 0; i < 20000 && g_mem_live > 2; i++) usleep(100);
		LEAVE();
		sprintf(st, "%c%c", cell(g_alog.channel.write_mutex), cell(g_alog.channel.blocks)); line("void", st); return;
	}
	if (IS("alog.destroy")) {
		NEED_INITED(s_alog);
		ENTER(); muggle_async_logger_destroy((muggle_logger_t *)&g_alog); LEAVE(); s_alog = S_DESTROYED;
		sprintf(st, "%c%c", cell(g_alog.channel.write_mutex), cell(g_alog.channel.blocks)); line("void", st); return;
	}
	printf("bad-op\n");
}

static void vh_init(void) __attribute__((constructor));
static void vh_init(void) { signal(SIGALRM, on_alarm); }

VH_MAIN()
