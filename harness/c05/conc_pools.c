/* C05 harness: threadsafe_memory_pool / sowr_memory_pool / ring_memory_pool of /repo under
 * the deterministic scheduler (harness/tsanshim). Sequential histories are runs with one
 * thread. The harness keeps its own ownership map (ghost, not registered).
 *
 * ops:   conf <kind> <cap> <opt> <prog0> <prog1> ...
 *          kind: ts      thread-safe pool (any thread allocates / frees)
 *                tsorig  same calls (name of the pre-fix algorithm's model; weak-CAS spurious failures are
 *                        not injected: clang lowers the CAS to __tsan_atomic32_compare_exchange_val, where
 *                        the shim cannot report a failure that leaves the value equal to `expected`)
 *                sowr    muggle_sowr_memory_pool (the check lets one thread allocate)
 *                ring    ring pool, muggle_ring_memory_pool_alloc (one allocating thread)
 *                ringts  ring pool, muggle_ring_memory_pool_threadsafe_alloc
 *          opt:  ts/tsorig: 1 = the pool object's storage is filled with 0xA5 before init
 *                sowr: initial value of the free-running alloc_idx (a multiple of the capacity)
 *          prog: string of operations of one thread
 *                a   allocate, keep the block            p   allocate, publish it in the shared bag
 *                f   free my oldest block                g   free my newest block
 *                t   take the oldest block of the bag and free it
 *                u   take ALL blocks of the bag, free only the newest (sowr: frees the earlier ones too)
 *                x<i> free block i if I hold it          X<i> free block i unconditionally (malformed)
 *        sched random <seed> | pct <seed> <depth> | replay <tokens...> | prefix <tokens...> | opseq <tids...>
 *             (opseq: each token runs that thread for one whole operation, then as prefix; "#opseq-steps <k>")
 *             (prefix: replay the tokens, continue non-preemptively, print "#enabled <hex masks>"
 *              for the systematic explorer vlib.explore_schedules)
 *        spurious <cas_permille> <cv_permille>
 *        run   -> schedule, events, end, outcome lines
 *
 * Every operation starts with an explicit scheduling point (note "<op>"); the operand is
 * chosen and the ghost ownership updated in that step. Notes: "free b<i>" | "none" |
 * "ILLEGAL-FREE b<i>" | "got b<i>[ DOUBLE]" | "pub b<i>[ DOUBLE]" | "null" | "freed" | "BAD-POINTER".
 */
#include "vharness.h"
#include "tsanshim/vsched.h"
#include "muggle/c/memory/threadsafe_memory_pool.h"
#include "muggle/c/memory/sowr_memory_pool.h"
#include "muggle/c/memory/ring_memory_pool.h"
#include <ctype.h>

enum { K_NONE, K_TS, K_TSORIG, K_SOWR, K_RING, K_RINGTS };
#define MAXB 64
#define MAXTHR 8
#define MAXQ 512
#define DATA_SIZE 40

static int g_kind, g_cap_req, g_n;
static unsigned g_opt;
static char g_prog[MAXTHR][256];

static muggle_ts_memory_pool_t g_ts;
static muggle_sowr_memory_pool_t g_sowr;
static muggle_ring_memory_pool_t g_ring;
static int g_inited;

static int g_cap;          /* capacity after init */
static char *g_base;       /* first block */
static size_t g_bs, g_head;

/* ghost state (not registered: changes atomically with the step that precedes it) */
static int owned[MAXB];
static long serial[MAXB], next_serial;
typedef struct { int v[MAXQ]; int h, t; } Q;
static Q mine[MAXTHR], bag;
static int n_double, n_illegal, n_badptr;

static void q_push(Q *q, int v) { if (q->t < MAXQ) q->v[q->t++] = v; }
static int q_empty(Q *q) { return q->h == q->t; }
static int q_pop_front(Q *q) { return q->v[q->h++]; }
static int q_pop_back(Q *q) { return q->v[--q->t]; }
static int q_remove(Q *q, int v)
{
	for (int i = q->h; i < q->t; i++)
		if (q->v[i] == v) { memmove(&q->v[i], &q->v[i + 1], sizeof(int) * (q->t - i - 1)); q->t--; return 1; }
	return 0;
}

static void *block_ptr(int id) { return g_base + g_bs * (size_t)id + g_head; }
static int block_id(void *p)
{
	size_t off = (size_t)((char *)p - g_base);
	if ((char *)p < g_base || off % g_bs != g_head || off / g_bs >= (size_t)g_cap) return -1;
	return (int)(off / g_bs);
}

static void *pool_alloc(void)
{
	switch (g_kind) {
	case K_TS: case K_TSORIG: return muggle_ts_memory_pool_alloc(&g_ts);
	case K_SOWR: return muggle_sowr_memory_pool_alloc(&g_sowr);
	case K_RING: return muggle_ring_memory_pool_alloc(&g_ring);
	default: return muggle_ring_memory_pool_threadsafe_alloc(&g_ring);
	}
}
static void pool_free(void *p)
{
	switch (g_kind) {
	case K_TS: case K_TSORIG: muggle_ts_memory_pool_free(p); break;
	case K_SOWR: muggle_sowr_memory_pool_free(p); break;
	default: muggle_ring_memory_pool_free(p); break;
	}
}

static void do_alloc(int t, int publish)
{
	void *p = pool_alloc();
	if (!p) { vs_note("null"); return; }
	int id = block_id(p);
	if (id < 0) { n_badptr++; vs_note("BAD-POINTER"); return; }
	const char *w = publish ? "pub" : "got";
	if (owned[id]) { n_double++; vs_note("%s b%d DOUBLE", w, id); }
	else vs_note("%s b%d", w, id);
	owned[id] = 1;
	serial[id] = next_serial++;
	q_push(publish ? &bag : &mine[t], id);
}

static void do_free(int b)
{
	if (!owned[b]) { n_illegal++; vs_note("ILLEGAL-FREE b%d", b); }
	else if (g_kind == K_SOWR) {
		/* freeing a block of the sowr pool releases every block allocated before it */
		long sb = serial[b];
		for (int i = 0; i < g_cap; i++)
			if (owned[i] && serial[i] <= sb) {
				owned[i] = 0;
				/* the released blocks are no longer held by anybody */
				for (int t = 0; t < MAXTHR; t++) while (q_remove(&mine[t], i)) {}
				while (q_remove(&bag, i)) {}
			}
	} else owned[b] = 0;
	vs_note("free b%d", b);
	pool_free(block_ptr(b));
	vs_note("freed");
}

static void worker(void *arg)
{
	int t = (int)(intptr_t)arg;
	const char *p = g_prog[t];
	while (*p) {
		char op = *p++;
		int k = -1;
		if (isdigit((unsigned char)*p)) { char *e; k = (int)strtol(p, &e, 10); p = e; }
		switch (op) {
		case 'a': vs_step("a"); do_alloc(t, 0); break;
		case 'p': vs_step("p"); do_alloc(t, 1); break;
		case 'f': vs_step("f"); if (q_empty(&mine[t])) vs_note("none"); else do_free(q_pop_front(&mine[t])); break;
		case 'g': vs_step("g"); if (q_empty(&mine[t])) vs_note("none"); else do_free(q_pop_back(&mine[t])); break;
		case 't': vs_step("t"); if (q_empty(&bag)) vs_note("none"); else do_free(q_pop_front(&bag)); break;
		case 'u': vs_step("u");
			if (q_empty(&bag)) vs_note("none");
			else { int b = q_pop_back(&bag); bag.h = bag.t = 0; do_free(b); }
			break;
		case 'x': vs_step("x%d", k);
			if (k >= 0 && k < g_cap && q_remove(&mine[t], k)) do_free(k); else vs_note("none");
			break;
		case 'X': vs_step("X%d", k);
			if (k >= 0 && k < g_cap) { q_remove(&mine[t], k); do_free(k); } else vs_note("none");
			break;
		default: break;
		}
		vs_op_done();
	}
}

static void teardown(void)
{
	if (!g_inited) return;
	if (g_inited == K_TS || g_inited == K_TSORIG) muggle_ts_memory_pool_destroy(&g_ts);
	else if (g_inited == K_SOWR) muggle_sowr_memory_pool_destroy(&g_sowr);
	else muggle_ring_memory_pool_destroy(&g_ring);
	g_inited = 0;
}

static void vh_reset(void) { teardown(); g_kind = K_NONE; }

static int setup(void)
{
	teardown();
	vs_reset();
	memset(owned, 0, sizeof owned); memset(serial, 0, sizeof serial); next_serial = 0;
	memset(mine, 0, sizeof mine); memset(&bag, 0, sizeof bag);
	n_double = n_illegal = n_badptr = 0;
	char nm[16];
	if (g_kind == K_TS || g_kind == K_TSORIG) {
		memset(&g_ts, (g_opt & 1) ? 0xA5 : 0, sizeof g_ts);
		if (muggle_ts_memory_pool_init(&g_ts, (muggle_sync_t)g_cap_req, DATA_SIZE) != 0) return -1;
		g_cap = (int)g_ts.capacity; g_base = (char *)g_ts.data; g_bs = g_ts.block_size;
		g_head = sizeof(muggle_ts_memory_pool_head_t);
		if (g_cap > MAXB) return -1;
		vs_reg("alloc_idx", &g_ts.alloc_idx, sizeof g_ts.alloc_idx, 0);
		vs_reg("cached_free_pos", &g_ts.cached_free_pos, sizeof g_ts.cached_free_pos, 0);
		vs_reg("free_idx", &g_ts.free_idx, sizeof g_ts.free_idx, 0);
		vs_reg("free_spinlock", &g_ts.free_spinlock, sizeof g_ts.free_spinlock, 0);
#ifdef VH_TS_ALLOC_LOCK
		vs_reg("alloc_spinlock", &g_ts.alloc_spinlock, sizeof g_ts.alloc_spinlock, 0);
#endif
		vs_reg("ptrs", g_ts.ptrs, sizeof(muggle_ts_memory_pool_head_ptr_t) * g_cap,
			   sizeof(muggle_ts_memory_pool_head_ptr_t));
		for (int i = 0; i < g_cap; i++) {
			snprintf(nm, sizeof nm, "b%d", i);
			vs_name_val((uint64_t)(uintptr_t)(g_base + g_bs * i), nm);
		}
	} else if (g_kind == K_SOWR) {
		memset(&g_sowr, 0xA5, sizeof g_sowr);
		if (muggle_sowr_memory_pool_init(&g_sowr, (muggle_sync_t)g_cap_req, DATA_SIZE) != 0) return -1;
		g_cap = (int)g_sowr.capacity; g_base = (char *)g_sowr.blocks; g_bs = g_sowr.block_size;
		g_head = sizeof(muggle_sowr_block_head_t);
		if (g_cap > MAXB) return -1;
		g_sowr.alloc_idx = (muggle_sync_t)g_opt;
		vs_reg("free_idx", &g_sowr.free_idx, sizeof g_sowr.free_idx, 0);
	} else {
		memset(&g_ring, 0xA5, sizeof g_ring);
		if (muggle_ring_memory_pool_init(&g_ring, (muggle_sync_t)g_cap_req, DATA_SIZE) != 0) return -1;
		g_cap = (int)g_ring.capacity; g_base = (char *)g_ring.blocks; g_bs = g_ring.block_size;
		g_head = sizeof(muggle_ring_mpool_block_head_t);
		if (g_cap > MAXB) return -1;
		vs_reg("alloc_idx", &g_ring.alloc_idx, sizeof g_ring.alloc_idx, 0);
		vs_reg("write_spinlock", &g_ring.write_spinlock, sizeof g_ring.write_spinlock, 0);
		muggle_ring_mpool_block_head_t *b0 = (muggle_ring_mpool_block_head_t *)g_base;
		vs_reg("in_use", (void *)&b0->in_use, g_bs * (size_t)(g_cap - 1) + sizeof b0->in_use, g_bs);
	}
	g_inited = g_kind;
	for (int i = 0; i < g_n; i++) vs_spawn(worker, (void *)(intptr_t)i);
	return 0;
}

static void print_outcome(void)
{
	printf("outcome double=%d illegal=%d badptr=%d layout=%s", n_double, n_illegal, n_badptr,
		   g_bs >= g_head + DATA_SIZE ? "ok" : "BAD");
	if (g_kind == K_TS || g_kind == K_TSORIG) {
		printf(" ai=%u fi=%u cf=%u ptrs=", (unsigned)g_ts.alloc_idx, (unsigned)g_ts.free_idx,
			   (unsigned)g_ts.cached_free_pos);
		for (int i = 0; i < g_cap; i++) {
			int id = block_id((char *)g_ts.ptrs[i].ptr + g_head);
			printf("%s%d", i ? "," : "", id);
		}
	} else if (g_kind == K_SOWR) {
		printf(" ai=%u fi=%u cf=%u allfree=%d", (unsigned)g_sowr.alloc_idx, (unsigned)g_sowr.free_idx,
			   (unsigned)g_sowr.cached_free_pos, muggle_sowr_memory_pool_is_all_free(&g_sowr));
	} else {
		printf(" ai=%u inuse=", (unsigned)g_ring.alloc_idx);
		for (int i = 0; i < g_cap; i++) {
			muggle_ring_mpool_block_head_t *b = (muggle_ring_mpool_block_head_t *)(g_base + g_bs * i);
			printf("%d", (int)b->in_use);
		}
	}
	printf("\n");
}

static int g_pol; static uint64_t g_seed; static int g_depth; static char g_replay[1 << 18];
static int g_sp_cas;

static void vh_op(int argc, char **argv)
{
	if (!strcmp(argv[0], "conf") && argc >= 5) {
		g_sp_cas = 0; g_pol = 0; g_seed = 1;
		g_kind = !strcmp(argv[1], "ts") ? K_TS : !strcmp(argv[1], "tsorig") ? K_TSORIG :
				 !strcmp(argv[1], "sowr") ? K_SOWR : !strcmp(argv[1], "ring") ? K_RING :
				 !strcmp(argv[1], "ringts") ? K_RINGTS : K_NONE;
		g_cap_req = (int)vh_ull(argv[2]);
		g_opt = (unsigned)vh_ull(argv[3]);
		g_n = argc - 4;
		if (g_n > MAXTHR) g_kind = K_NONE;
		for (int i = 0; i < g_n && i < MAXTHR; i++) {
			if (strlen(argv[4 + i]) >= sizeof g_prog[i]) g_kind = K_NONE;
			snprintf(g_prog[i], sizeof g_prog[i], "%s", strcmp(argv[4 + i], "-") ? argv[4 + i] : "");
		}
		printf(g_kind == K_NONE ? "bad-op\n" : "ok\n");
		return;
	}
	if (!strcmp(argv[0], "sched") && argc >= 2) {
		if (!strcmp(argv[1], "random") && argc >= 3) { g_pol = 0; g_seed = vh_ull(argv[2]); }
		else if (!strcmp(argv[1], "pct") && argc >= 4) { g_pol = 1; g_seed = vh_ull(argv[2]); g_depth = atoi(argv[3]); }
		else { g_pol = !strcmp(argv[1], "prefix") ? 3 : !strcmp(argv[1], "opseq") ? 4 : 2; g_replay[0] = 0; size_t o = 0;
			for (int i = 2; i < argc; i++) o += snprintf(g_replay + o, sizeof g_replay - o, "%s ", argv[i]); }
		printf("ok\n");
		return;
	}
	if (!strcmp(argv[0], "spurious") && argc == 3) { g_sp_cas = atoi(argv[1]); printf("ok\n"); return; }
	if (!strcmp(argv[0], "run") && g_kind != K_NONE) {
		if (setup() != 0) { printf("init-failed\n"); return; }
		if (g_pol == 0) vs_policy_random(g_seed);
		else if (g_pol == 1) vs_policy_pct(g_seed, g_depth);
		else if (g_pol == 3) { vs_policy_prefix(g_replay); vs_trace_enabled(1); }
		else if (g_pol == 4) { vs_policy_opseq(g_replay); vs_trace_enabled(1); }
		else vs_policy_replay(g_replay);
		vs_set_spurious(g_sp_cas, 0);
		vs_set_max_steps(6000);
		if (vs_run() != VS_OK) vh_request_restart();
		vs_print(stdout);
		print_outcome();
		return;
	}
	printf("bad-op\n");
}

VH_MAIN()
