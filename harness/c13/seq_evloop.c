/* C13 harness: runs the real muggle_evloop_run of /repo on each back-end over real
 * descriptors (pipes, AF_UNIX socket pairs, TCP loop-back) with scripted callbacks.
 * Line protocol: see lean/Drv/C13.lean (same op lines, same answer lines).
 *
 * The loop's wait calls are intercepted at link time (-Wl,--wrap=poll/select/epoll_wait):
 * the wrapper asks the real kernel with timeout 0; if nothing is ready the loop would
 * block (timeout is -1, the harness is single threaded), so the wrapper records `S`,
 * performs the next scripted batch of outside actions (or, when the script is exhausted,
 * calls muggle_evloop_exit from another thread) and asks again.  Every action is therefore
 * executed either inside a loop callback or while the loop sleeps: the history is
 * deterministic.  Read ends are dup2'ed to 100+d, so fd numbers grow with d and the
 * eventfd created by muggle_evloop_new is the lowest. */
#include "vharness.h"
#include "muggle/c/event/event_loop.h"
#include <stdarg.h>
#include <unistd.h>
#include <fcntl.h>
#include <errno.h>
#include <signal.h>
#include <poll.h>
#include <pthread.h>
#include <sys/select.h>
#include <sys/epoll.h>
#include <sys/socket.h>
#include <sys/ioctl.h>
#include <netinet/in.h>
#include <netinet/tcp.h>
#include <arpa/inet.h>

#define MAXD 16
#define MAXE 512
#define MAXA 64
#define MAX_WAITS 4000
#define RFD0(d) (100 + (d))
#define RFD(d) (g_fdof[d])

enum { K_PIPE, K_SOCK, K_TCP };
enum { A_W, A_H, A_P, A_ADD, A_SHUT, A_U, A_X, A_XX };
enum { T_BY, T_CL, T_WK, T_IDLE };

typedef struct { int op, d, n; } act_t;
typedef struct { int trig, a, b; int nact; act_t acts[MAXA]; } ent_t;

/* script */
static int g_hints = 8, g_pool = 0, g_closefd = 0;    /* closefd: cb_close closes the descriptor;
                                                       * 2 (flag R): and a context added in that callback takes
                                                       * over the closed descriptor's number (reconnect-on-close) */
static int g_eintr, g_eintr_tick;    /* flag I: every other wait call first fails with EINTR (a signal arrived),
                                       * unless an exit request is pending (then the extra pass of the loop would
                                       * legitimately end the run one round earlier than the model does) */
static int g_fdof[16];                /* current fd number of descriptor d's read end */
static int g_reuse_fd = -1;           /* fd number released by the close callback that is running */
static int g_defer_add;               /* 1 while cb_close (mode R) collects its add actions */
static int g_deferred[16], g_ndeferred;
static int g_nd, g_kind[MAXD], g_rmode[MAXD];      /* rmode: 0 = all, k > 0 = one read of ≤ k */
static act_t g_pre[MAXE]; static int g_npre;
static ent_t *g_ent; static int g_nent;
static int g_nidle_scripted;

/* one run */
static muggle_event_loop_t *g_ev;
static muggle_event_context_t g_ctx[MAXD];
static int g_peer[MAXD];                /* peer fd or -1 */
static int g_pwr[MAXD], g_shut[MAXD], g_tried[MAXD], g_reg[MAXD], g_rclosed[MAXD];
static long g_written[MAXD], g_delivered[MAXD];
static int g_closed_cb[MAXD], g_cleared_cb[MAXD];
static int g_nwake, g_nidle, g_waits;
static char *g_tr; static size_t g_trlen, g_trcap;

/* outcomes of the runs of this case */
static char *g_runs[8]; static int g_nruns;

static void tr(const char *fmt, ...)
{
	char buf[64];
	va_list ap;
	va_start(ap, fmt);
	int n = vsnprintf(buf, sizeof buf, fmt, ap);
	va_end(ap);
	if (g_trlen + n + 2 > g_trcap) {
		g_trcap = (g_trcap + n + 2) * 2;
		g_tr = (char *)realloc(g_tr, g_trcap);
	}
	if (g_trlen) g_tr[g_trlen++] = ' ';
	memcpy(g_tr + g_trlen, buf, n + 1);
	g_trlen += n;
}

static unsigned char byte_at(int d, long i) { return (unsigned char)(d * 37 + i * 11 + 1); }

/* ---- descriptors ---- */
static int mk_desc(int d)
{
	int r = -1, w = -1, fds[2];
	if (g_kind[d] == K_PIPE) {
		if (pipe(fds)) return -1;
		r = fds[0]; w = fds[1];
	} else if (g_kind[d] == K_SOCK) {
		if (socketpair(AF_UNIX, SOCK_STREAM, 0, fds)) return -1;
		r = fds[0]; w = fds[1];
	} else {
		int l = socket(AF_INET, SOCK_STREAM, 0);
		struct sockaddr_in a;
		memset(&a, 0, sizeof a);
		a.sin_family = AF_INET; a.sin_addr.s_addr = htonl(INADDR_LOOPBACK);
		socklen_t sl = sizeof a;
		if (l < 0) return -1;
		if (bind(l, (struct sockaddr *)&a, sizeof a) || listen(l, 1) ||
		    getsockname(l, (struct sockaddr *)&a, &sl)) { close(l); return -1; }
		w = socket(AF_INET, SOCK_STREAM, 0);
		if (w < 0 || connect(w, (struct sockaddr *)&a, sizeof a)) {
			if (w >= 0) close(w);
			close(l); return -1;
		}
		r = accept(l, NULL, NULL);
		close(l);
		if (r < 0) { close(w); return -1; }
		int one = 1;
		setsockopt(w, IPPROTO_TCP, TCP_NODELAY, &one, sizeof one);
	}
	g_fdof[d] = RFD0(d);
	if (dup2(r, RFD(d)) < 0) return -1;
	close(r);
	g_peer[d] = w;
	return 0;
}

int __real_poll(struct pollfd *fds, nfds_t nfds, int timeout);
/* wait (bounded) until the asynchronous part of a TCP action has reached the read end */
static void settle_tcp(int d, short want, long want_queued)
{
	if (g_rclosed[d]) return;          /* the read end is gone: nothing to wait for */
	for (int i = 0; i < 2000; i++) {
		if (want_queued >= 0) {
			int q = 0;
			if (ioctl(RFD(d), FIONREAD, &q) == 0 && q >= want_queued) return;
		} else {
			struct pollfd p = { RFD(d), POLLIN | POLLRDHUP, 0 };
			__real_poll(&p, 1, 0);
			if (p.revents & want) return;
		}
		usleep(100);
	}
}

/* ---- actions ---- */
static void *thr_exit(void *p) { muggle_evloop_exit((muggle_event_loop_t *)p); return NULL; }

static void do_act(const act_t *a)
{
	int d = a->d;
	switch (a->op) {
	case A_W: {
		if (g_peer[d] < 0 || !g_pwr[d]) break;
		unsigned char buf[4096];
		int n = a->n > 4096 ? 4096 : a->n;
		for (int i = 0; i < n; i++) buf[i] = byte_at(d, g_written[d] + i);
		ssize_t k = write(g_peer[d], buf, n);
		if (g_rclosed[d]) break;               /* the read end is closed: EPIPE / reset, nobody listens */
		if (g_shut[d]) {                       /* EPIPE (unix) or data answered by RST (tcp) */
			if (g_kind[d] == K_TCP && k > 0) settle_tcp(d, POLLERR, -1);
			break;
		}
		if (k != n) { tr("!write"); break; }
		g_written[d] += n;
		if (g_kind[d] == K_TCP) settle_tcp(d, 0, g_written[d] - g_delivered[d]);
		break; }
	case A_H:
		if (g_peer[d] < 0 || !g_pwr[d]) break;
		g_pwr[d] = 0;
		if (g_kind[d] == K_PIPE) { close(g_peer[d]); g_peer[d] = -1; }
		else {
			shutdown(g_peer[d], SHUT_WR);
			if (g_kind[d] == K_TCP && !g_shut[d]) settle_tcp(d, POLLRDHUP, -1);
		}
		break;
	case A_P: {
		if (g_peer[d] < 0) break;
		int had_wr = g_pwr[d];
		g_pwr[d] = 0;
		close(g_peer[d]); g_peer[d] = -1;
		if (g_kind[d] == K_TCP && had_wr && !g_shut[d]) settle_tcp(d, POLLRDHUP, -1);
		break; }
	case A_ADD:
		if (g_tried[d]) break;
		if (g_defer_add) {             /* mode R: performed after the descriptor has been closed */
			if (g_ndeferred < 16) g_deferred[g_ndeferred++] = d;
			break;
		}
		g_tried[d] = 1;
		if (g_reuse_fd >= 0 && !g_rclosed[d]) {
			/* the lowest free number is what open()/accept() would hand out next: the new
			 * context takes over the number the close callback has just released */
			if (dup2(g_fdof[d], g_reuse_fd) >= 0) {
				close(g_fdof[d]);
				g_fdof[d] = g_reuse_fd;
				muggle_ev_ctx_init(&g_ctx[d], g_fdof[d], (void *)(intptr_t)d);
			}
			g_reuse_fd = -1;
		}
		g_reg[d] = muggle_evloop_add_ctx(g_ev, &g_ctx[d]) == 0;
		tr(g_reg[d] ? "A+%d" : "A-%d", d);
		break;
	case A_SHUT:
		muggle_ev_ctx_shutdown(&g_ctx[d]);
		if (g_kind[d] != K_PIPE) g_shut[d] = 1;
		break;
	case A_U: muggle_evloop_wakeup(g_ev); break;
	case A_X: muggle_evloop_exit(g_ev); break;
	case A_XX: {
		pthread_t t;
		pthread_create(&t, NULL, thr_exit, g_ev);
		pthread_join(t, NULL);
		break; }
	}
}

static void fire(int trig, int a, long lo, long hi)
{
	for (int i = 0; i < g_nent; i++) {
		ent_t *e = &g_ent[i];
		if (e->trig != trig || e->a != a) continue;
		if (trig == T_BY && !(lo < e->b && e->b <= hi)) continue;
		for (int j = 0; j < e->nact; j++) do_act(&e->acts[j]);
	}
}

/* ---- callbacks ---- */
static void cb_read(muggle_event_loop_t *ev, muggle_event_context_t *ctx)
{
	int d = (int)(intptr_t)muggle_ev_ctx_data(ctx);
	unsigned char buf[4096];
	long total = 0; int ended = 0, bad = 0;
	for (;;) {
		size_t len = g_rmode[d] ? (size_t)g_rmode[d] : sizeof buf;
		if (len > sizeof buf) len = sizeof buf;
		int n = muggle_ev_ctx_read(ctx, buf, len);
		if (n > 0) {
			for (int i = 0; i < n; i++)
				if (buf[i] != byte_at(d, g_delivered[d] + total + i)) bad = 1;
			total += n;
		} else if (n == 0 || errno != EAGAIN) ended = 1;
		if (n <= 0 || g_rmode[d]) break;
	}
	long before = g_delivered[d];
	g_delivered[d] += total;
	tr("R%d:%ld%s%s", d, total, ended ? "e" : "", bad ? "!" : "");
	fire(T_BY, d, before, g_delivered[d]);
}
static void cb_close(muggle_event_loop_t *ev, muggle_event_context_t *ctx)
{
	int d = (int)(intptr_t)muggle_ev_ctx_data(ctx);
	g_closed_cb[d]++;
	g_reg[d] = 0;
	tr("C%d", d);
	if (g_closefd == 2) { g_defer_add = 1; g_ndeferred = 0; }
	fire(T_CL, d, 0, 0);
	g_defer_add = 0;
	if (g_closefd) {                   /* what the library's own socket layer does in its close callback */
		int old = g_fdof[d];
		muggle_ev_ctx_close(ctx);
		g_rclosed[d] = 1;
		if (g_closefd == 2) {
			for (int i = 0; i < g_ndeferred; i++) {
				act_t a = { A_ADD, g_deferred[i], 0 };
				g_reuse_fd = i == 0 ? old : -1;
				do_act(&a);
			}
			g_reuse_fd = -1; g_ndeferred = 0;
		}
	}
}
static void cb_wake(muggle_event_loop_t *ev)
{
	tr("W");
	fire(T_WK, g_nwake++, 0, 0);
}
static void cb_clear(muggle_event_loop_t *ev, muggle_event_context_t *ctx)
{
	int d = (int)(intptr_t)muggle_ev_ctx_data(ctx);
	g_cleared_cb[d]++;
	tr("X%d", d);
}
static void cb_exit(muggle_event_loop_t *ev) { tr("E"); }

/* ---- the wait calls ---- */
static int on_block(void)      /* returns 1 when the run must be aborted */
{
	if (++g_waits > MAX_WAITS) { tr("F"); muggle_evloop_exit(g_ev); return 1; }
	/* clause 2 of the property, observed on the real kernel: is some registered context
	 * (added, not closed) readable while the loop is about to sleep? */
	int pending = 0;
	for (int d = 0; d < g_nd; d++) {
		if (!g_reg[d]) continue;
		struct pollfd p = { RFD(d), POLLIN, 0 };
		__real_poll(&p, 1, 0);
		if (p.revents & (POLLIN | POLLHUP | POLLERR)) pending = 1;
	}
	tr(pending ? "S!" : "S");
	int k = g_nidle++;
	if (k < g_nidle_scripted) fire(T_IDLE, k, 0, 0);
	else { act_t a = { A_XX, 0, 0 }; do_act(&a); }
	return 0;
}
static int on_ready(int n)
{
	if (++g_waits > MAX_WAITS) { tr("F"); muggle_evloop_exit(g_ev); return 1; }
	tr(n < 0 ? "ERR" : "/");
	return 0;
}

int __real_poll(struct pollfd *fds, nfds_t nfds, int timeout);
int __real_select(int n, fd_set *r, fd_set *w, fd_set *e, struct timeval *tv);
int __real_epoll_wait(int epfd, struct epoll_event *evs, int max, int timeout);

int __wrap_poll(struct pollfd *fds, nfds_t nfds, int timeout)
{
	if (!g_ev) return __real_poll(fds, nfds, timeout);
	if (g_eintr && g_ev->to_exit == 0 && ((g_eintr_tick++ & 1) == 0)) { errno = EINTR; return -1; }
	for (;;) {
		int n = __real_poll(fds, nfds, 0);
		if (n != 0) { int e = errno; if (on_ready(n)) return 0; errno = e; return n; }
		if (on_block()) return 0;
	}
}
int __wrap_select(int nf, fd_set *r, fd_set *w, fd_set *e, struct timeval *tv)
{
	if (!g_ev) return __real_select(nf, r, w, e, tv);
	if (g_eintr && g_ev->to_exit == 0 && ((g_eintr_tick++ & 1) == 0)) { errno = EINTR; return -1; }
	fd_set in = *r;
	for (;;) {
		struct timeval z = { 0, 0 };
		*r = in;
		int n = __real_select(nf, r, w, e, &z);
		if (n != 0) { int e = errno; if (on_ready(n)) return 0; errno = e; return n; }
		if (on_block()) { FD_ZERO(r); return 0; }
	}
}
int __wrap_epoll_wait(int epfd, struct epoll_event *evs, int max, int timeout)
{
	if (!g_ev) return __real_epoll_wait(epfd, evs, max, timeout);
	if (g_eintr && g_ev->to_exit == 0 && ((g_eintr_tick++ & 1) == 0)) { errno = EINTR; return -1; }
	for (;;) {
		int n = __real_epoll_wait(epfd, evs, max, 0);
		if (n != 0) { int e = errno; if (on_ready(n)) return 0; errno = e; return n; }
		if (on_block()) return 0;
	}
}

/* ---- parsing ---- */
static int parse_act(const char *s, act_t *a)
{
	a->d = 0; a->n = 0;
	if (!strcmp(s, "u")) { a->op = A_U; return 0; }
	if (!strcmp(s, "x")) { a->op = A_X; return 0; }
	if (!strcmp(s, "X")) { a->op = A_XX; return 0; }
	if (s[0] == 0 || s[1] != ':' || s[2] < '0' || s[2] > '9') return -1;
	char *end;
	long d = strtol(s + 2, &end, 10);
	if (d < 0 || d >= g_nd) return -1;
	a->d = (int)d;
	switch (s[0]) {
	case 'w': {
		if (*end != ':' || end[1] < '0' || end[1] > '9') return -1;
		char *e2; long n = strtol(end + 1, &e2, 10);
		if (*e2 || n <= 0) return -1;
		a->op = A_W; a->n = (int)n; return 0; }
	case 'h': a->op = A_H; break;
	case 'p': a->op = A_P; break;
	case 'a': a->op = A_ADD; break;
	case 's': a->op = A_SHUT; break;
	default: return -1;
	}
	return *end ? -1 : 0;
}
static int parse_acts(int argc, char **argv, int from, act_t *out, int max)
{
	int n = 0;
	for (int i = from; i < argc; i++) {
		if (n >= max || parse_act(argv[i], &out[n])) return -1;
		n++;
	}
	return n;
}
static int is_num(const char *s) { if (!*s) return 0; for (; *s; s++) if (*s < '0' || *s > '9') return 0; return 1; }

static void vh_reset(void)
{
	g_hints = 8; g_pool = 0; g_closefd = 0; g_eintr = 0; g_nd = 0; g_npre = 0; g_nent = 0; g_nidle_scripted = 0;
	memset(g_rmode, 0, sizeof g_rmode);
	for (int i = 0; i < g_nruns; i++) free(g_runs[i]);
	g_nruns = 0;
	if (!g_ent) g_ent = (ent_t *)calloc(MAXE, sizeof(ent_t));
	signal(SIGPIPE, SIG_IGN);
}

static void do_run(int type)
{
	memset(g_pwr, 0, sizeof g_pwr); memset(g_shut, 0, sizeof g_shut);
	memset(g_tried, 0, sizeof g_tried); memset(g_reg, 0, sizeof g_reg); memset(g_rclosed, 0, sizeof g_rclosed); memset(g_written, 0, sizeof g_written);
	memset(g_delivered, 0, sizeof g_delivered); memset(g_closed_cb, 0, sizeof g_closed_cb);
	memset(g_cleared_cb, 0, sizeof g_cleared_cb);
	g_nwake = g_nidle = g_waits = 0; g_trlen = 0;
	if (g_tr) g_tr[0] = 0;
	for (int d = 0; d < g_nd; d++) {
		g_peer[d] = -1;
		int tries = 0;
		while (mk_desc(d)) {              /* transient: ephemeral ports / backlog under load */
			if (++tries > 200) { printf("env-fail desc %d errno %d\n", d, errno); return; }
			usleep(20000);
		}
		g_pwr[d] = 1;
		muggle_ev_ctx_init(&g_ctx[d], RFD(d), (void *)(intptr_t)d);
	}
	muggle_event_loop_init_args_t args;
	memset(&args, 0, sizeof args);
	args.evloop_type = type; args.hints_max_fd = g_hints; args.use_mem_pool = g_pool;
	muggle_event_loop_t *ev = muggle_evloop_new(&args);
	if (!ev) { printf("env-fail evloop_new\n"); return; }
	muggle_evloop_set_cb_read(ev, cb_read);
	muggle_evloop_set_cb_close(ev, cb_close);
	muggle_evloop_set_cb_wake(ev, cb_wake);
	muggle_evloop_set_cb_clear(ev, cb_clear);
	muggle_evloop_set_cb_exit(ev, cb_exit);
	g_ev = ev;
	for (int i = 0; i < g_npre; i++) do_act(&g_pre[i]);
	muggle_evloop_run(ev);
	g_ev = NULL;
	muggle_evloop_delete(ev);
	for (int d = 0; d < g_nd; d++) {
		/* TCP: reset instead of FIN at clean-up, so that thousands of cases do not exhaust the
		 * ephemeral ports with TIME_WAIT sockets */
		struct linger lg = { 1, 0 };
		if (g_kind[d] == K_TCP) {
			if (!g_rclosed[d]) setsockopt(RFD(d), SOL_SOCKET, SO_LINGER, &lg, sizeof lg);
			if (g_peer[d] >= 0) setsockopt(g_peer[d], SOL_SOCKET, SO_LINGER, &lg, sizeof lg);
		}
		if (!g_rclosed[d]) close(RFD(d));
		if (g_peer[d] >= 0) close(g_peer[d]);
	}
	/* outcomes */
	char oc[MAXD * 24]; size_t ol = 0;
	for (int d = 0; d < g_nd; d++) {
		const char *f = g_closed_cb[d] ? "c" : g_cleared_cb[d] ? "x" : "-";
		ol += snprintf(oc + ol, sizeof oc - ol, "%s%ld%s", d ? " " : "", g_delivered[d], f);
		if (g_closed_cb[d] > 1 || g_cleared_cb[d] > 1 || (g_closed_cb[d] && g_cleared_cb[d]))
			ol += snprintf(oc + ol, sizeof oc - ol, "!");
	}
	oc[ol] = 0;
	if (g_nruns < 8) g_runs[g_nruns++] = strdup(oc);
	printf("%s ; %s\n", g_trlen ? g_tr : "", oc);
}

static void vh_op(int argc, char **argv)
{
	const char *op = argv[0];
	if (!strcmp(op, "cfg") && argc >= 3 && is_num(argv[1])) {
		g_hints = (int)vh_ll(argv[1]); g_pool = (int)vh_ll(argv[2]) != 0;
		g_closefd = 0; g_eintr = 0;
		for (int i = 3; i < argc; i++) {
			if (!strcmp(argv[i], "C")) g_closefd = 1;
			if (!strcmp(argv[i], "R")) g_closefd = 2;
			if (!strcmp(argv[i], "I")) g_eintr = 1;
		}
		printf("ok\n"); return;
	}
	if (!strcmp(op, "fd") && argc == 2 && g_nd < MAXD) {
		int k = !strcmp(argv[1], "pipe") ? K_PIPE : !strcmp(argv[1], "sock") ? K_SOCK :
		        !strcmp(argv[1], "tcp") ? K_TCP : -1;
		if (k >= 0) { g_kind[g_nd++] = k; printf("ok\n"); return; }
	}
	if (!strcmp(op, "rm") && argc == 3 && is_num(argv[1]) && vh_ll(argv[1]) < g_nd) {
		int d = (int)vh_ll(argv[1]);
		if (!strcmp(argv[2], "all")) { g_rmode[d] = 0; printf("ok\n"); return; }
		if (is_num(argv[2]) && vh_ll(argv[2]) > 0 && vh_ll(argv[2]) <= 4096) { g_rmode[d] = (int)vh_ll(argv[2]); printf("ok\n"); return; }
	}
	if (!strcmp(op, "pre")) {
		int n = parse_acts(argc, argv, 1, g_pre + g_npre, MAXE - g_npre);
		if (n >= 0) { g_npre += n; printf("ok\n"); return; }
	}
	if (!strcmp(op, "on") && argc >= 3 && g_nent < MAXE) {
		ent_t *e = &g_ent[g_nent];
		int from = 3, ok = 0;
		e->b = 0;
		if (!strcmp(argv[1], "by") && argc >= 4 && is_num(argv[2]) && is_num(argv[3]) &&
		    vh_ll(argv[2]) < g_nd && vh_ll(argv[3]) > 0) {
			e->trig = T_BY; e->a = (int)vh_ll(argv[2]); e->b = (int)vh_ll(argv[3]); from = 4; ok = 1;
		} else if (!strcmp(argv[1], "cl") && is_num(argv[2]) && vh_ll(argv[2]) < g_nd) {
			e->trig = T_CL; e->a = (int)vh_ll(argv[2]); ok = 1;
		} else if (!strcmp(argv[1], "wk") && is_num(argv[2])) {
			e->trig = T_WK; e->a = (int)vh_ll(argv[2]); ok = 1;
		} else if (!strcmp(argv[1], "idle") && is_num(argv[2]) && vh_ll(argv[2]) < 64) {
			e->trig = T_IDLE; e->a = (int)vh_ll(argv[2]); ok = 1;
		}
		if (ok) {
			int n = parse_acts(argc, argv, from, e->acts, MAXA);
			/* add_ctx / in-thread exit are loop-thread calls: not possible while the loop sleeps */
			if (e->trig == T_IDLE)
				for (int j = 0; j < n; j++)
					if (e->acts[j].op == A_ADD || e->acts[j].op == A_X) n = -1;
			if (n >= 0) {
				e->nact = n; g_nent++;
				if (e->trig == T_IDLE && e->a + 1 > g_nidle_scripted) g_nidle_scripted = e->a + 1;
				printf("ok\n"); return;
			}
		}
	}
	if (!strcmp(op, "run") && argc == 2) {
		int t = !strcmp(argv[1], "select") ? MUGGLE_EVLOOP_TYPE_SELECT :
		        !strcmp(argv[1], "poll") ? MUGGLE_EVLOOP_TYPE_POLL :
		        !strcmp(argv[1], "epoll") ? MUGGLE_EVLOOP_TYPE_EPOLL : 0;
		if (t) { do_run(t); return; }
	}
	if (!strcmp(op, "agree") && g_nruns > 0) {
		int same = 1;
		for (int i = 1; i < g_nruns; i++) if (strcmp(g_runs[i], g_runs[0])) same = 0;
		if (same) printf("agree %s\n", g_runs[0]); else printf("differ\n");
		return;
	}
	printf("bad-op\n");
}

VH_MAIN()
