/* Common scaffold for the sequential line-protocol harnesses (DESIGN.md §2.4).
 * A harness defines
 *     static void vh_reset(void);                      -- start of a case
 *     static void vh_op(int argc, char **argv);        -- one operation -> prints ONE line
 * and then includes this header's VH_MAIN().
 * "case <n>" lines are echoed; every other non-empty line is one operation. */
#ifndef VHARNESS_H_
#define VHARNESS_H_
#include <stdio.h>
#include <stdlib.h>
#include <string.h>
#include <stdint.h>
#include <inttypes.h>
#include <unistd.h>

/* default watchdog: an operation that does not return within VH_OP_TIMEOUT seconds (a corrupted
 * structure can make the library loop for ever) ends the process with SIGALRM; the case counts as
 * crashed — a result, not a stalled check. Harnesses with their own alarm() simply override it. */
#ifndef VH_OP_TIMEOUT
#define VH_OP_TIMEOUT 60
#endif

#define VH_MAX_TOK 32768

static inline long long vh_ll(const char *s) { return strtoll(s, NULL, 10); }
static inline unsigned long long vh_ull(const char *s) { return strtoull(s, NULL, 10); }

/* A harness whose state cannot be trusted after the current case (a scheduled run that ended with its
 * threads parked in the middle of library calls: step limit, deadlock, diverged replay) asks for a new
 * process: the case's output is complete, the process exits with 96 and vlib.run_cases starts the
 * remaining cases in a fresh one (instead of a crash later on that is blamed on another case). */
static int vh_restart_requested;
static inline void vh_request_restart(void) { vh_restart_requested = 1; }

#define VH_MAIN() \
int main(void) { \
	size_t cap = 1 << 16; char *line = (char *)malloc(cap); \
	static char *argv_[VH_MAX_TOK]; \
	setvbuf(stdout, NULL, _IOFBF, 1 << 16); \
	ssize_t len; \
	while ((len = getline(&line, &cap, stdin)) >= 0) { \
		while (len > 0 && (line[len-1] == '\n' || line[len-1] == '\r')) line[--len] = 0; \
		if (len == 0) continue; \
		if (strncmp(line, "case ", 5) == 0) { \
			printf("%s\n", line); fflush(stdout); alarm(VH_OP_TIMEOUT); vh_reset(); alarm(0); continue; } \
		int argc_ = 0; char *save = NULL; \
		for (char *t = strtok_r(line, " ", &save); t && argc_ < VH_MAX_TOK; \
				t = strtok_r(NULL, " ", &save)) argv_[argc_++] = t; \
		if (argc_ == 0) continue; \
		alarm(VH_OP_TIMEOUT); \
		vh_op(argc_, argv_); \
		alarm(0); \
		fflush(stdout); \
		if (vh_restart_requested) _exit(96); \
	} \
	alarm(VH_OP_TIMEOUT); vh_reset(); alarm(0); free(line); return 0; }

#endif
