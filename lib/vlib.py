"""Common machinery for the mugglec verification checks (see /verif/DESIGN.md §2).

Every check (checks/Cxx/check.py) uses this module for:
  * building Lean targets (serialised with flock), auditing them (sorry/axioms),
  * building harnesses from /repo's *current working tree* (content-hash cached),
  * running case files through the implementation harness and the Lean driver,
  * diffing, shrinking, writing replays / evidence, known-findings handling.

Only the Python standard library is used.
"""
import fcntl
import hashlib
import json
import os
import random
import re
import shutil
import subprocess
import sys
import time
from concurrent.futures import ThreadPoolExecutor

VERIF = os.path.dirname(os.path.dirname(os.path.abspath(__file__)))
REPO = os.environ.get("VERIF_REPO", "/repo")
BUILD = os.path.join(VERIF, ".build")
LEAN = os.path.join(VERIF, "lean")
NPROC = os.cpu_count() or 4
GUARD = "MUGGLEC_VERIF"

ALLOWED_AXIOMS = {"propext", "Classical.choice", "Quot.sound"}
BANNED_RE = re.compile(
    r"\bsorry\b|\badmit\b|^\s*axiom\s|native_decide|bv_decide|implemented_by|"
    r"\bunsafe\s|maxHeartbeats\s+0\b")


def log(*a):
    print(*a, file=sys.stderr, flush=True)


def sh(cmd, **kw):
    return subprocess.run(cmd, stdout=subprocess.PIPE, stderr=subprocess.STDOUT,
                          text=True, **kw)


# --------------------------------------------------------------------------
# Lean side
# --------------------------------------------------------------------------

class _Flock:
    def __init__(self, path):
        self.path = path

    def __enter__(self):
        os.makedirs(os.path.dirname(self.path), exist_ok=True)
        self.f = open(self.path, "w")
        fcntl.flock(self.f, fcntl.LOCK_EX)

    def __exit__(self, *a):
        fcntl.flock(self.f, fcntl.LOCK_UN)
        self.f.close()


def lake_build(targets, timeout=3000):
    """lake build <targets>; returns (ok, log). Serialised across checks."""
    with _Flock(os.path.join(BUILD, "lake.lock")):
        r = sh(["lake", "build"] + list(targets), cwd=LEAN, timeout=timeout)
    return r.returncode == 0, r.stdout


def lean_run(source, timeout=600):
    """Run a Lean source text with `lake env lean` (stdin). Returns (ok, out)."""
    os.makedirs(os.path.join(BUILD, "tmp"), exist_ok=True)
    path = os.path.join(BUILD, "tmp", "q_%d_%d.lean" % (os.getpid(), random.getrandbits(30)))
    with open(path, "w") as f:
        f.write(source)
    try:
        r = sh(["lake", "env", "lean", path], cwd=LEAN, timeout=timeout)
    finally:
        os.unlink(path)
    return r.returncode == 0, r.stdout


def strip_lean_comments(text):
    """Remove /- -/ (nested) and -- comments, and string literals' content is kept."""
    out = []
    i, n, depth = 0, len(text), 0
    while i < n:
        if text.startswith("/-", i):
            depth += 1
            i += 2
        elif depth and text.startswith("-/", i):
            depth -= 1
            i += 2
        elif depth:
            if text[i] == "\n":
                out.append("\n")
            i += 1
        elif text.startswith("--", i):
            while i < n and text[i] != "\n":
                i += 1
        else:
            out.append(text[i])
            i += 1
    return "".join(out)


def lean_grep_banned(rel_dirs_or_files):
    """grep for sorry/admit/axiom/native_decide/... outside comments."""
    hits = []
    for rel in rel_dirs_or_files:
        p = os.path.join(LEAN, rel)
        files = []
        if os.path.isdir(p):
            for d, _, fs in os.walk(p):
                files += [os.path.join(d, f) for f in fs if f.endswith(".lean")]
        elif os.path.exists(p):
            files.append(p)
        for f in sorted(files):
            txt = strip_lean_comments(open(f).read())
            for ln, line in enumerate(txt.split("\n"), 1):
                if BANNED_RE.search(line):
                    hits.append("%s:%d: %s" % (os.path.relpath(f, LEAN), ln, line.strip()))
    return hits


def lean_axiom_audit(modules):
    """For every theorem declared in the given modules, collect its axioms.
    Returns (ok, {thm: [axioms]}, raw_output)."""
    src = "import MgProof.Audit\n" + "".join("import %s\n" % m for m in modules)
    src += "".join("#audit_module %s\n" % m for m in modules)
    ok, out = lean_run(src)
    res = {}
    for m in re.finditer(r"AXIOMS (\S+) \[(.*?)\]", out):
        axs = [a.strip() for a in m.group(2).split(",") if a.strip()]
        res[m.group(1)] = axs
    return ok, res, out


# --------------------------------------------------------------------------
# C side
# --------------------------------------------------------------------------

def repo_version():
    try:
        return open(os.path.join(REPO, "version.txt")).read().strip()
    except OSError:
        return "0.0.0"


def gen_config_header():
    """Derive mugglec_config.h from /repo's mugglec_config.h.in (what cmake does here)."""
    vals = {
        "MUGGLE_C_VERSION": '"%s"' % repo_version(),
        "MUGGLE_C_HAVE_LINUX_FUTEX": "1", "MUGGLE_C_HAVE_SYS_FUTEX": "0",
        "MUGGLE_C_HAVE_ALIGNAS": "1", "MUGGLE_C_HAVE_ALIGNED_ALLOC": "1",
        "MUGGLE_C_HAVE_BACKTRACE": "1", "MUGGLE_C_BACKTRACE_HEADER": "<execinfo.h>",
        "MUGGLE_CRYPT_OPTIMIZATION": "1", "MUGGLE_C_IS_BIG_ENDIAN": "0",
    }
    src = open(os.path.join(REPO, "muggle/c/mugglec_config.h.in")).read()
    out = []
    for line in src.split("\n"):
        m = re.match(r"#cmakedefine01\s+(\w+)", line)
        if m:
            out.append("#define %s %s" % (m.group(1), vals.get(m.group(1), "0")))
            continue
        m = re.match(r"#cmakedefine\s+(\w+)(.*)", line)
        if m:
            if m.group(1) in vals:
                out.append("#define %s %s" % (m.group(1), vals[m.group(1)]))
            else:
                out.append("/* #undef %s */" % m.group(1))
            continue
        out.append(line.replace("@MUGGLE_C_VERSION@", repo_version()))
    d = os.path.join(BUILD, "gen", "muggle", "c")
    os.makedirs(d, exist_ok=True)
    p = os.path.join(d, "mugglec_config.h")
    new = "\n".join(out)
    if not os.path.exists(p) or open(p).read() != new:
        with open(p, "w") as f:
            f.write(new)
    return os.path.join(BUILD, "gen")


def all_repo_c_sources(exclude=()):
    res = []
    root = os.path.join(REPO, "muggle", "c")
    for d, _, fs in os.walk(root):
        for f in fs:
            if f.endswith(".c"):
                rel = os.path.relpath(os.path.join(d, f), REPO)
                if not any(rel.endswith(e) for e in exclude):
                    res.append(rel)
    return sorted(res)


class BuildError(Exception):
    pass


def _hash_files(paths, extra):
    h = hashlib.sha256()
    h.update(repr(extra).encode())
    for p in paths:
        h.update(p.encode())
        try:
            h.update(open(p, "rb").read())
        except OSError:
            h.update(b"<missing>")
    return h.hexdigest()[:20]


def _headers():
    hs = []
    for d, _, fs in os.walk(os.path.join(REPO, "muggle")):
        hs += [os.path.join(d, f) for f in fs if f.endswith(".h") or f.endswith(".in")]
    return sorted(hs)


SAN_FLAGS = ["-fsanitize=address,undefined", "-fno-sanitize-recover=all",
             "-fno-omit-frame-pointer"]


def build_harness(pid, name, harness_srcs, repo_srcs="ALL", cflags=(), ldflags=(),
                  sanitize=True, opt="-O1", exclude=(), per_file_flags=None, cc="clang-14",
                  harness_flags=None):
    """Compile harness sources (relative to /verif) together with sources of the
    repo's current working tree (relative to /repo, or "ALL"). Object files are
    cached by content hash of (source, all headers, flags), so an unchanged tree
    is not recompiled but any edit is. Returns the path of the executable."""
    inc = gen_config_header()
    # one object cache per (check, harness, repo tree): runs against scratch trees (VERIF_REPO)
    # must not disturb runs against /repo
    tag = "" if os.path.realpath(REPO) == "/repo" else "-" + hashlib.sha256(os.path.realpath(REPO).encode()).hexdigest()[:8]
    out_dir = os.path.join(BUILD, pid, name + tag)
    os.makedirs(out_dir, exist_ok=True)
    if repo_srcs == "ALL":
        repo_srcs = all_repo_c_sources(exclude)
    base = [cc, opt, "-g", "-std=gnu11", "-D_GNU_SOURCE", "-D%s=1" % GUARD, "-DMUGGLE_C_EXPORTS",
            "-I" + REPO, "-I" + inc, "-I" + os.path.join(VERIF, "harness"), "-w"]
    if sanitize:
        base += SAN_FLAGS
    base += list(cflags)
    hdr_hash = _hash_files(_headers() + [os.path.join(inc, "muggle/c/mugglec_config.h")], "")
    jobs = []
    objs = []
    for kind, rel in [("h", s) for s in harness_srcs] + [("r", s) for s in repo_srcs]:
        src = os.path.join(VERIF if kind == "h" else REPO, rel)
        flags = list(base)
        if per_file_flags and kind == "r":
            flags += per_file_flags(rel)
        if harness_flags and kind == "h":
            flags += harness_flags(rel)
        # harness sources may include other harness files: hash the whole harness dir
        extra = [hdr_hash, flags]
        deps = [src]
        if kind == "h":
            hd = os.path.dirname(src)
            deps += sorted(os.path.join(hd, f) for f in os.listdir(hd)
                           if f.endswith((".h", ".c", ".inc")))
            deps += sorted(os.path.join(VERIF, "harness", f)
                           for f in os.listdir(os.path.join(VERIF, "harness"))
                           if f.endswith(".h"))
        key = _hash_files(deps, extra)
        obj = os.path.join(out_dir, "%s_%s.o" % (re.sub(r"\W", "_", rel), key))
        objs.append(obj)
        if not os.path.exists(obj):
            jobs.append((flags + ["-c", src, "-o", obj], rel))

    def run(job):
        r = sh(job[0])
        return job[1], r.returncode, r.stdout

    if jobs:
        with ThreadPoolExecutor(NPROC) as ex:
            for rel, rc, out in ex.map(run, jobs):
                if rc != 0:
                    raise BuildError("compile failed: %s\n%s" % (rel, out[-4000:]))
    exe = os.path.join(out_dir, name + "_" + _hash_files([], objs)[:12])
    if not os.path.exists(exe):
        link = [cc, "-o", exe] + objs + (SAN_FLAGS if sanitize else []) + \
               ["-lpthread", "-lm", "-ldl", "-lrt"] + list(ldflags)
        r = sh(link)
        if r.returncode != 0:
            raise BuildError("link failed:\n" + r.stdout[-4000:])
        # keep the object cache small: drop objects/exes of older builds
        keep = set(objs) | {exe}
        now = time.time()
        for f in os.listdir(out_dir):
            p = os.path.join(out_dir, f)
            try:
                # only files that no concurrently running check can still need
                if p not in keep and os.path.isfile(p) and now - os.path.getmtime(p) > 7200:
                    os.unlink(p)
            except OSError:
                pass
    return exe


# every access is a callback, also a read that is followed by a write of the same location
TSAN_FLAGS = ["-fsanitize=thread", "-mllvm", "-tsan-instrument-read-before-write=1"]

VS_WRAP = ["syscall", "pthread_mutex_lock", "pthread_mutex_unlock", "pthread_mutex_trylock",
           "pthread_cond_wait", "pthread_cond_timedwait", "pthread_cond_signal",
           "pthread_cond_broadcast", "sched_yield"]


def build_conc_harness(pid, name, harness_srcs, repo_srcs, cflags=(), extra_wrap=()):
    """Harness for concurrent code (tie C): repo sources and the harness sources are
    compiled with -O0 -fsanitize=thread and linked against harness/tsanshim/vsched.c
    (our implementation of the __tsan_* ABI + deterministic scheduler) instead of
    libtsan; blocking primitives are redirected with -Wl,--wrap."""
    shim = "harness/tsanshim/vsched.c"
    return build_harness(
        pid, name, list(harness_srcs) + [shim], repo_srcs, cflags=cflags, sanitize=False, opt="-O0",
        per_file_flags=lambda rel: TSAN_FLAGS,
        harness_flags=lambda rel: [] if rel.endswith("vsched.c") else TSAN_FLAGS,
        ldflags=["-Wl," + ",".join("--wrap=" + w for w in list(VS_WRAP) + list(extra_wrap))])


# --------------------------------------------------------------------------
# Running cases
# --------------------------------------------------------------------------
# Line protocol: a case is a list of op lines. Runners get "case <n>" before each
# case and must answer "case <n>" followed by exactly one line per op line.

ASAN_ENV = {"ASAN_OPTIONS": "detect_leaks=1:abort_on_error=0:exitcode=99:allocator_may_return_null=1",
            "UBSAN_OPTIONS": "print_stacktrace=1:halt_on_error=1",
            "LSAN_OPTIONS": "exitcode=98"}


def _cpu_ticks(pid):
    try:
        f = open("/proc/%d/stat" % pid).read().rsplit(")", 1)[1].split()
        return int(f[11]) + int(f[12])          # utime + stime
    except (OSError, IndexError, ValueError):
        return -1


# no harness blocks without output and without using CPU for this long unless it is stuck (the longest
# deliberate wait of a harness is 20 s; the per-operation watchdog of vharness.h is 60 s)
IDLE_CAP_S = float(os.environ.get("VERIF_IDLE_CAP_S", "150"))


def _run_proc(cmd, text, timeout, env=None):
    """Run one process on `text`. `timeout` is an INACTIVITY limit: the process is killed when it has
    produced no output and used no CPU time for that long (blocked for ever), or when it has run for
    10 x timeout altogether. A machine that is merely slow (many checks at once) therefore never turns
    a healthy run into a 'crash'; endless loops inside the library are ended by the harness' own
    per-operation watchdog (vharness.h)."""
    import threading
    e = dict(os.environ)
    e.update(ASAN_ENV)
    if env:
        e.update(env)
    p = subprocess.Popen(cmd, stdin=subprocess.PIPE, stdout=subprocess.PIPE, stderr=subprocess.PIPE, env=e)
    out, err = [], []
    last = [time.time()]

    def feed():
        try:
            p.stdin.write(text.encode())
            p.stdin.close()
        except (BrokenPipeError, OSError):
            pass

    def drain(f, sink):
        while True:
            b = f.read1(65536) if hasattr(f, "read1") else f.read(65536)
            if not b:
                break
            sink.append(b)
            last[0] = time.time()
    ths = [threading.Thread(target=feed, daemon=True),
           threading.Thread(target=drain, args=(p.stdout, out), daemon=True),
           threading.Thread(target=drain, args=(p.stderr, err), daemon=True)]
    for t in ths:
        t.start()
    t0 = time.time()
    cpu = _cpu_ticks(p.pid)
    timed_out = False
    while True:
        try:
            p.wait(timeout=1.0)          # returns at once when the process ends
            break
        except subprocess.TimeoutExpired:
            pass
        now = time.time()
        c = _cpu_ticks(p.pid)
        if c != cpu:
            cpu = c
            last[0] = now
        if now - last[0] > min(timeout, IDLE_CAP_S) or now - t0 > 10 * timeout:
            timed_out = True
            p.kill()
            break
    p.wait()
    for t in ths[1:]:
        t.join(5)
    so = b"".join(out).decode(errors="replace")
    se = b"".join(err).decode(errors="replace")
    if timed_out:
        return -999, so, se + "\n<timeout>"
    return p.returncode, so, se


def _parse_cases(stdout):
    res = {}
    cur = None
    for line in stdout.split("\n"):
        if line.startswith("case "):
            try:
                cur = int(line[5:])
            except ValueError:
                continue
            res[cur] = []
        elif cur is not None and line != "":
            res[cur].append(line)
    return res


CRASH_CAP = int(os.environ.get("VERIF_CRASH_CAP", "32"))


def run_cases(cmd, cases, timeout=300, workers=None, env=None, chunk=None, crash_cap=None):
    """Run every case (list of op-line lists) through `cmd` (argv). Returns a list,
    one entry per case: {"out": [lines], "crash": None | text}.  A process that
    dies (sanitizer abort, segfault, timeout) marks the case it was in as crashed
    and the remaining cases of the chunk are re-run in a new process.
    crash_cap: once that many cases have crashed (a tree on which most cases hang or abort: every
    one of them costs a watchdog period) the cases not yet started are not run at all and come back
    as {"out": [], "crash": None, "skipped": True}; the callers drop them."""
    n = len(cases)
    results = [None] * n
    workers = workers or NPROC
    if chunk is None:
        chunk = max(1, min(200, (n + workers - 1) // workers))
    chunks = [list(range(i, min(n, i + chunk))) for i in range(0, n, chunk)]
    ncrash = [0]

    def do_chunk(idx):
        idx = list(idx)
        while idx:
            if crash_cap is not None and ncrash[0] >= crash_cap:
                for i in idx:
                    results[i] = {"out": [], "crash": None, "skipped": True}
                return
            text = "".join("case %d\n%s\n" % (i, "\n".join(cases[i])) if cases[i]
                           else "case %d\n" % i for i in idx)
            t1 = time.time()
            rc, so, se = _run_proc(cmd, text, timeout, env)
            got = _parse_cases(so)
            if os.environ.get("VERIF_TRACE_TIME") and time.time() - t1 > 5 and n > 1:
                log("  process: cases %d..%d rc=%s %.1fs, %d of them answered" % (idx[0], idx[-1], rc, time.time() - t1, len(got)))
            if rc == 0:
                for i in idx:
                    results[i] = {"out": got.get(i, []), "crash": None}
                return
            if rc == 96 and got:
                # the harness asked for a fresh process after a case whose output is complete
                # (vharness.h vh_request_restart)
                started = [i for i in idx if i in got]
                for i in started:
                    results[i] = {"out": got[i], "crash": None}
                idx = idx[idx.index(started[-1]) + 1:]
                continue
            # died: find the last case that started
            started = [i for i in idx if i in got]
            bad = started[-1] if started else idx[0]
            for i in idx:
                if i == bad:
                    break
                results[i] = {"out": got.get(i, []), "crash": None}
            results[bad] = {"out": got.get(bad, []),
                            "crash": "exit=%s\n%s" % (rc, se[-3000:])}
            ncrash[0] += 1
            idx = idx[idx.index(bad) + 1:]

    t0 = time.time()
    with ThreadPoolExecutor(workers) as ex:
        list(ex.map(do_chunk, chunks))
    if os.environ.get("VERIF_TRACE_TIME") and time.time() - t0 > 3:
        log("run_cases: %d cases, %d chunks, %.1fs (%s)" % (n, len(chunks), time.time() - t0, os.path.basename(cmd[0])))
    return results


def run_replay_conc(hcmd, ops, timeout=120, env=None):
    """Re-execute a recorded schedule of a concurrent harness. When the schedule no longer fits the
    tree (`end replay-diverged`: other threads are enabled than when it was recorded) follow it as far
    as it applies and continue non-preemptively (`sched prefix`), then pin the schedule actually taken
    so that the model can replay it. Returns (result, ops actually used)."""
    a = run_one(hcmd, ops, timeout=timeout, env=env)
    if not a["crash"] and any(l.startswith("end replay-diverged") for l in a["out"]):
        ops2 = [("sched prefix " + l[len("sched replay "):]) if l.startswith("sched replay ") else l for l in ops]
        a = run_one(hcmd, ops2, timeout=timeout, env=env)
        sched = next((l[len("schedule "):] for l in a["out"] if l.startswith("schedule ")), "")
        ops = [("sched replay " + sched) if l.startswith("sched prefix ") else l for l in ops2]
        a = run_one(hcmd, ops, timeout=timeout, env=env)
    end = next((l for l in a["out"] if l.startswith("end ")), "")
    if not a["crash"] and (end.startswith("end replay-diverged") or end.startswith("end step-limit")):
        # A schedule recorded on a tree where some thread slept for ever ends in a long tail in which only
        # the retrying threads run. On a tree where that thread is awake the same tokens are merely an
        # unfair schedule (it fits, and starves the thread up to the step limit). Keep the part before
        # that tail (plus a few rounds of it) and let the scheduler continue fairly from there.
        line = next((l for l in ops if l.startswith("sched replay ")), None)
        if line:
            toks = line.split()[2:]
            k = len(toks)
            tail_set = set()
            while k > 0 and len(tail_set | {toks[k - 1].rstrip("!~")}) <= 2:
                tail_set.add(toks[k - 1].rstrip("!~"))
                k -= 1
            if len(toks) - k > 200:
                cut = toks[:k + 60]
                ops3 = [("sched prefix " + " ".join(cut)) if l.startswith("sched replay ") else l for l in ops]
                b = run_one(hcmd, ops3, timeout=timeout, env=env)
                sched = next((l[len("schedule "):] for l in b["out"] if l.startswith("schedule ")), "")
                ops4 = [("sched replay " + sched) if l.startswith("sched prefix ") else l for l in ops3]
                c = run_one(hcmd, ops4, timeout=timeout, env=env)
                if not c["crash"] and any(l.startswith("end ok") for l in c["out"]):
                    return c, ops4
    return a, ops


def drop_skipped(cases, impl):
    """remove the cases run_cases did not run (crash storm); returns (cases, impl, number dropped)"""
    keep = [i for i, r in enumerate(impl) if not r.get("skipped")]
    return [cases[i] for i in keep], [impl[i] for i in keep], len(impl) - len(keep)


def run_one(cmd, ops, timeout=60, env=None):
    return run_cases(cmd, [ops], timeout=timeout, workers=1, env=env)[0]


DDMIN_BUDGET_S = float(os.environ.get("VERIF_DDMIN_BUDGET_S", "150"))
DDMIN_TOTAL_S = float(os.environ.get("VERIF_DDMIN_TOTAL_S", "400"))
_ddmin_spent = [0.0]


def ddmin(ops, fails, keep_prefix=0, max_tests=400, budget_s=None):
    """Shrink `ops` (list) while `fails(ops)` stays true. The first keep_prefix
    entries are never removed. Shrinking stops after `budget_s` seconds (a failing case that hangs
    costs a watchdog period per test): the replay is then simply less small."""
    head, body = ops[:keep_prefix], list(ops[keep_prefix:])
    tests = 0
    n = 2
    t_start = time.time()
    len0 = len(body)
    # all shrinking of one check run shares DDMIN_TOTAL_S (cases that hang cost a watchdog period per test)
    left = max(0.0, DDMIN_TOTAL_S - _ddmin_spent[0])
    t_end = t_start + min(left, DDMIN_BUDGET_S if budget_s is None else budget_s)
    while len(body) >= 2 and tests < max_tests and time.time() < t_end:
        size = max(1, len(body) // n)
        reduced = False
        for start in range(0, len(body), size):
            cand = body[:start] + body[start + size:]
            tests += 1
            if cand and fails(head + cand):
                body = cand
                n = max(n - 1, 2)
                reduced = True
                break
            if tests >= max_tests or time.time() > t_end:
                break
        if not reduced:
            if size == 1:
                break
            n = min(len(body), n * 2)
    _ddmin_spent[0] += time.time() - t_start
    if os.environ.get("VERIF_TRACE_TIME"):
        log("ddmin: %d -> %d ops, %d tests, %.1fs" % (len0, len(body), tests, time.time() - t_start))
    return head + body


# --------------------------------------------------------------------------
# Check context: evidence, violations, known findings
# --------------------------------------------------------------------------

def load_known_findings(pid):
    p = os.path.join(VERIF, "known_findings.jsonl")
    res = []
    if os.path.exists(p):
        for line in open(p):
            line = line.strip()
            if not line or line.startswith("#") or line.startswith("fixed:"):
                continue
            try:
                e = json.loads(line)
            except ValueError:
                continue
            if e.get("property") == pid:
                res.append(e)
    return res


class Ctx:
    """One run of one property's check."""

    def __init__(self, pid, tier=None, seed=None):
        self.pid = pid
        self.tier = tier or os.environ.get("VERIF_TIER", "quick")
        if self.tier not in ("quick", "thorough"):
            self.tier = "quick"
        self.seed = int(seed if seed is not None else os.environ.get("VERIF_SEED", "1"))
        self.rng = random.Random(self.seed * 1000003 + int(pid[1:]))
        self.t0 = time.time()
        self.violations = []       # (replay_path, found_input: bool)
        self.known_hits = []
        self.known = load_known_findings(pid)
        self.cov = {"obligations": 0, "discharged": 0, "checker_cmd": "",
                    "trusted_base": [], "evaluations": 0, "distinct_nontrivial": 0,
                    "rule": "", "samples": [], "theorems": [], "ties": {}}
        self.assumptions = []
        self.broken = []           # names of obligations / ties that no longer check
        os.makedirs(os.path.join(BUILD, pid), exist_ok=True)
        os.makedirs(os.path.join(VERIF, "replays"), exist_ok=True)
        os.makedirs(os.path.join(VERIF, "evidence"), exist_ok=True)

    @property
    def quick(self):
        return self.tier == "quick"

    # ---- Lean obligations -------------------------------------------------
    def lean_obligations(self, driver_target, proof_modules, grep_paths, leanchecker=None):
        """Build the driver, then the proofs; audit. Returns True when every proof
        obligation is discharged. Records obligations into evidence."""
        ok, out = lake_build([driver_target])
        self.driver_ok = ok
        if not ok:
            self.broken.append("lean-build:" + driver_target)
            self.lean_log = out
            return False
        ok, out = lake_build(proof_modules + ["MgProof.Audit"])
        self.lean_log = out
        hits = lean_grep_banned(grep_paths)
        if hits:
            self.broken.append("audit-grep:" + "; ".join(hits[:5]))
        thms = {}
        if ok:
            aok, thms, aout = lean_axiom_audit(proof_modules)
            if not aok:
                self.broken.append("audit-axioms-run-failed")
                self.lean_log += aout
            for t, axs in thms.items():
                bad = [a for a in axs if a not in ALLOWED_AXIOMS]
                if bad:
                    self.broken.append("audit-axioms:%s uses %s" % (t, bad))
        else:
            # which theorems failed?  name the modules with errors
            for m in re.finditer(r"error: (\S+\.lean):(\d+):\d+: (.*)", out):
                self.broken.append("proof:%s:%s %s" % (m.group(1), m.group(2), m.group(3)[:120]))
            if not any(b.startswith("proof:") for b in self.broken):
                self.broken.append("proof-build-failed")
        # obligations = theorems in the Props modules (+ lemma modules are counted too,
        # but listed separately)
        prop_thms = sorted(t for t in thms)
        self.cov["theorems"] = prop_thms
        axioms_seen = sorted({a for axs in thms.values() for a in axs})
        self.cov["axioms_seen"] = axioms_seen
        n_obl = len(prop_thms) + 1  # + the grep audit
        if not ok:
            # count declared theorems textually so obligations > discharged is visible
            n_decl = 0
            for mod in proof_modules:
                p = os.path.join(LEAN, mod.replace(".", "/") + ".lean")
                if os.path.exists(p):
                    n_decl += len(re.findall(r"^\s*theorem\s", strip_lean_comments(open(p).read()), re.M))
            n_obl = n_decl + 1
        self.cov["obligations"] += n_obl
        good = ok and not self.broken
        self.cov["discharged"] += n_obl if good else max(0, min(n_obl - 1, len(prop_thms)))
        self.cov["checker_cmd"] = ("cd lean && lake build %s && lake env lean <#audit_module %s>"
                                   % (" ".join(proof_modules), " ".join(proof_modules)))
        if leanchecker and not self.quick and ok:
            for mod in leanchecker:
                r = sh(["lake", "env", "leanchecker", mod], cwd=LEAN, timeout=3000)
                self.cov["obligations"] += 1
                if r.returncode == 0:
                    self.cov["discharged"] += 1
                else:
                    self.broken.append("leanchecker:" + mod)
                    self.lean_log += r.stdout[-2000:]
        return good

    def driver_cmd(self, exe_name):
        return [os.path.join(LEAN, ".lake", "build", "bin", exe_name)]

    # ---- reporting ---------------------------------------------------------
    def write_replay(self, replay):
        replay = dict(replay)
        replay.setdefault("property", self.pid)
        replay.setdefault("seed", self.seed)
        replay.setdefault("tier", self.tier)
        blob = json.dumps(replay, indent=1, sort_keys=True, default=str)
        h = hashlib.sha256(blob.encode()).hexdigest()[:10]
        path = os.path.join(VERIF, "replays", "%s-%s.json" % (self.pid, h))
        with open(path, "w") as f:
            f.write(blob)
        return path

    def matches_known(self, signature):
        """signature: a short canonical string naming the failing input/call site."""
        for k in self.known:
            if k.get("signature") == signature:
                return k
        return None

    def violation(self, replay, found_input, signature=None):
        """Report a violation. replay: dict. found_input: whether a concrete failing
        input/schedule/history is included. signature: identity for known findings."""
        if signature is not None:
            k = self.matches_known(signature)
            if k is not None:
                if signature not in self.known_hits:
                    self.known_hits.append(signature)
                    print("KNOWN-FINDING: property=%s %s" % (self.pid, k.get("what", signature)),
                          flush=True)
                return None
        replay = dict(replay)
        replay["failing_input_found"] = bool(found_input)
        if signature is not None:
            replay["signature"] = signature
        path = self.write_replay(replay)
        if any(path == p for p, _ in self.violations):
            return None
        self.violations.append((path, found_input))
        print("VIOLATION property=%s replay=%s%s" %
              (self.pid, path, "" if found_input else " no-failing-input-found"), flush=True)
        return path

    def add_samples(self, samples, limit=6):
        for s in samples:
            if len(self.cov["samples"]) < limit:
                self.cov["samples"].append(s)

    def finish(self):
        """Write evidence and exit with the contract's status."""
        if self.broken and not self.violations:
            # an obligation or a tie broke and nobody reported it yet
            self.violation({"kind": "obligation-broken", "broken": self.broken,
                            "lean_log_tail": getattr(self, "lean_log", "")[-3000:]},
                           found_input=False)
        ev = {
            "property_id": self.pid, "tier": self.tier, "seed": self.seed,
            "level": "proof", "coverage": self.cov, "assumptions": self.assumptions,
            "wall_s": round(time.time() - self.t0, 2),
            "violations": len(self.violations),
        }
        ev["coverage"]["known_findings_reproduced"] = self.known_hits
        ev["coverage"]["broken"] = self.broken
        # /verif/evidence describes /repo itself; a run against a scratch tree (VERIF_REPO: seeded
        # changes, sub-agent worktrees) leaves it alone and writes under .build/
        evdir = os.path.join(VERIF, "evidence")
        if os.path.realpath(REPO) != "/repo":
            evdir = os.path.join(VERIF, ".build", "evidence-scratch")
            ev["coverage"]["repo"] = REPO
        os.makedirs(evdir, exist_ok=True)
        p = os.path.join(evdir, self.pid + ".json")
        with open(p + ".tmp", "w") as f:
            json.dump(ev, f, indent=1, default=str)
        os.replace(p + ".tmp", p)
        log("[%s] tier=%s seed=%d wall=%.1fs violations=%d obligations=%d/%d evaluations=%d" % (
            self.pid, self.tier, self.seed, ev["wall_s"], len(self.violations),
            self.cov["discharged"], self.cov["obligations"], self.cov["evaluations"]))
        sys.exit(1 if self.violations else 0)


def compare_streams(impl, model):
    """impl/model: results of run_cases. Returns list of (case_index, line_index,
    impl_line, model_line) for the first difference of each differing case."""
    diffs = []
    for i, (a, b) in enumerate(zip(impl, model)):
        if a["crash"]:
            diffs.append((i, len(a["out"]), "<crash> " + a["crash"][:400], None))
            continue
        if b["crash"]:
            diffs.append((i, len(b["out"]), None, "<model crash> " + b["crash"][:400]))
            continue
        ao, bo = a["out"], b["out"]
        for j in range(max(len(ao), len(bo))):
            x = ao[j] if j < len(ao) else "<missing>"
            y = bo[j] if j < len(bo) else "<missing>"
            if x != y:
                diffs.append((i, j, x, y))
                break
    return diffs


# --------------------------------------------------------------------------
# Generic sequential correspondence (tie B) + search
# --------------------------------------------------------------------------

def split_model_spec(res):
    """Model lines may be '<model> | <spec>'. Returns (model_results, spec_lines)
    where spec_lines[i][j] is None when line j carries no spec answer."""
    model, spec = [], []
    for r in res:
        mo, sp = [], []
        for line in r["out"]:
            if " | " in line:
                a, b = line.split(" | ", 1)
                mo.append(a)
                sp.append(b)
            else:
                mo.append(line)
                sp.append(None)
        model.append({"out": mo, "crash": r["crash"]})
        spec.append(sp)
    return model, spec


def first_spec_diff(impl_out, spec_lines):
    for j, sp in enumerate(spec_lines):
        if sp is None:
            continue
        x = impl_out[j] if j < len(impl_out) else "<missing>"
        if x != sp:
            return j, x, sp
    return None


def seq_correspondence(ctx, harness_cmd, driver_cmd, cases, nontrivial=None,
                       keep_prefix=1, signature_of=None, label="tieB", timeout=600,
                       max_reports=3, env=None, corpus_dir=None, judge=None):
    """Run `cases` on implementation and model, compare, search + shrink + report.
    Returns number of differing cases. `judge(ops, impl_out)` may return a string
    describing a property violation visible on the implementation's own output
    (spec-level monitor); it is used in addition to the model's `| spec` column."""
    corpus = []
    cdir = corpus_dir or os.path.join(VERIF, "corpus", ctx.pid)
    if os.path.isdir(cdir):
        for f in sorted(os.listdir(cdir)):
            if f.endswith(".ops"):
                corpus.append([l.rstrip("\n") for l in open(os.path.join(cdir, f)) if l.strip()])
    cases = corpus + list(cases)
    impl = run_cases(harness_cmd, cases, timeout=timeout, env=env, crash_cap=CRASH_CAP)
    cases, impl, nskipped = drop_skipped(cases, impl)
    if nskipped:
        ctx.cov.setdefault("crash_storm", {})[label] = {
            "cases_not_run": nskipped, "why": "%d cases had already crashed / hung" % CRASH_CAP}
    mres = run_cases(driver_cmd, cases, timeout=timeout)
    model, spec = split_model_spec(mres)
    diffs = compare_streams(impl, model)
    diff_cases = {d[0]: d for d in diffs}
    # spec-level differences (property failures on the implementation itself)
    spec_bad = {}
    for i, r in enumerate(impl):
        if r["crash"]:
            spec_bad[i] = (len(r["out"]), "<crash> " + r["crash"][:1500], "no crash")
            continue
        d = first_spec_diff(r["out"], spec[i])
        if d:
            spec_bad[i] = d
        elif judge is not None:
            msg = judge(cases[i], r["out"])
            if msg:
                spec_bad[i] = (len(r["out"]), msg, "judge: property holds")
    # statistics
    seen = set()
    nt = 0
    for i, c in enumerate(cases):
        key = tuple(c)
        if key in seen:
            continue
        seen.add(key)
        if nontrivial is None or nontrivial(c, impl[i]["out"]):
            nt += 1
    ctx.cov["evaluations"] += len(cases)
    ctx.cov["distinct_nontrivial"] += nt
    ctx.cov["ties"][label] = {"cases": len(cases), "corpus": len(corpus),
                              "differ_model": len(diffs), "differ_spec": len(spec_bad),
                              "ops_total": sum(len(c) for c in cases)}
    ctx.add_samples([{"ops": c[:12], "impl": impl[i]["out"][:12]}
                     for i, c in list(enumerate(cases))[len(corpus):len(corpus) + 2]])

    def fails_spec(ops):
        a = run_one(harness_cmd, ops, env=env)
        if a["crash"]:
            return True
        b = run_one(driver_cmd, ops)
        _, sp = split_model_spec([b])
        if first_spec_diff(a["out"], sp[0]) is not None:
            return True
        return bool(judge and judge(ops, a["out"]))

    def fails_model(ops):
        a = run_one(harness_cmd, ops, env=env)
        b = run_one(driver_cmd, ops)
        mo, _ = split_model_spec([b])
        return bool(compare_streams([a], mo))

    reported = 0
    sigs_done = set()
    attempts = 0
    for i in sorted(spec_bad):
        # thousands of failing cases may shrink to the same few replays (duplicates are not counted
        # as reported): shrink a bounded number of them
        if reported >= max_reports or attempts >= 4 * max_reports:
            break
        attempts += 1
        j, got, want = spec_bad[i]
        ops = ddmin(cases[i], fails_spec, keep_prefix=keep_prefix)
        a = run_one(harness_cmd, ops, env=env)
        b = run_one(driver_cmd, ops)
        sig = signature_of(ops, a) if signature_of else None
        if sig is not None and sig in sigs_done:
            continue
        sigs_done.add(sig)
        p = ctx.violation({"kind": "property-fails-on-implementation", "tie": label,
                           "ops": ops, "implementation": a["out"], "impl_crash": a["crash"],
                           "model_and_spec": b["out"],
                           "first_difference": {"line": j, "impl": got, "spec": want},
                           "broken_obligations": ctx.broken,
                           "how_to_replay": "bin/check %s --replay <this file>" % ctx.pid},
                          found_input=True, signature=sig)
        if p:
            reported += 1
    only_model = [i for i in sorted(diff_cases) if i not in spec_bad]
    if only_model:
        ctx.broken.append("%s: model and implementation differ on %d case(s)" % (label, len(only_model)))
        i = only_model[0]
        ops = ddmin(cases[i], fails_model, keep_prefix=keep_prefix)
        a = run_one(harness_cmd, ops, env=env)
        b = run_one(driver_cmd, ops)
        ctx.cov["ties"][label]["first_model_difference"] = {
            "ops": ops, "implementation": a["out"], "model": b["out"]}
        ctx.model_diff = {"ops": ops, "implementation": a["out"], "model": b["out"]}
    return len(diff_cases) + len([i for i in spec_bad if i not in diff_cases])


def seq_correspondence_batched(ctx, harness_cmd, driver_cmd, case_iter, batch=400000, label="tieB", **kw):
    """seq_correspondence over a (lazily generated) family too large to hold in memory with both of its
    output streams: consecutive batches, statistics summed under one label. Stops early once a batch
    has reported a concrete failing input."""
    import itertools as _it
    it = iter(case_iter)
    total, ndiff = None, 0
    while True:
        chunk = list(_it.islice(it, batch))
        if not chunk and total is not None:
            break
        ndiff += seq_correspondence(ctx, harness_cmd, driver_cmd, chunk, label=label, **kw)
        cur = ctx.cov["ties"].get(label, {})
        if total is None:
            total = dict(cur)
        else:
            for key, v in cur.items():
                if isinstance(v, (int, float)) and not isinstance(v, bool):
                    total[key] = total.get(key, 0) + v
                elif key not in total:
                    total[key] = v
        if not chunk or any(f for _, f in ctx.violations):
            break
    if total is not None:
        ctx.cov["ties"][label] = total
    return ndiff


def finish_with_search(ctx):
    """Final step of a check: if an obligation/tie is broken and no concrete failing
    input was reported, report the violation naming what no longer checks."""
    if ctx.broken and not any(f for _, f in ctx.violations):
        ctx.violation({"kind": "obligation-or-tie-broken", "broken": ctx.broken,
                       "model_difference": getattr(ctx, "model_diff", None),
                       "lean_log_tail": getattr(ctx, "lean_log", "")[-3000:],
                       "note": "no concrete input violating the property was found by the search; "
                               "the property is no longer shown to hold"},
                      found_input=False)
    ctx.finish()


def replay_file(ctx, path, harness_cmd, driver_cmd, env=None, judge=None, repeat=1):
    """Re-execute a replay produced by seq_correspondence on the current tree. repeat > 1: for
    harnesses with real threads / sockets, whose failures depend on timing, the operations are run up
    to that many times and the first failing run is the one reported."""
    r = json.load(open(path))
    ops = r.get("ops") or (r.get("model_difference") or {}).get("ops")
    if not ops:
        print("replay has no operation list (names a broken obligation): %s" % r.get("broken"))
        return 2
    b = run_one(driver_cmd, ops)
    mo, sp = split_model_spec([b])
    for k in range(max(1, repeat)):
        a = run_one(harness_cmd, ops, env=env)
        if a["crash"] or first_spec_diff(a["out"], sp[0]) or (judge and judge(ops, a["out"])):
            if repeat > 1:
                print("run %d of %d fails" % (k + 1, repeat))
            break
    print("ops:", ops)
    print("implementation:", a["out"], "crash:", a["crash"])
    print("model:", mo[0]["out"])
    print("spec:", sp[0])
    bad = a["crash"] or first_spec_diff(a["out"], sp[0]) or (judge and judge(ops, a["out"]))
    if bad:
        print("VIOLATION property=%s replay=%s" % (ctx.pid, path))
        return 1
    if compare_streams([a], mo):
        print("model and implementation differ (correspondence broken); spec agrees")
        return 1
    print("replay passes on the current tree")
    return 0


# --------------------------------------------------------------------------
# Concurrent correspondence (tie C): same schedule on real code and on the model
# --------------------------------------------------------------------------

def _strip_info(lines):
    return [l for l in lines if not l.startswith("#")]


ESCALATE_TOTAL_S = float(os.environ.get("VERIF_ESCALATE_TOTAL_S", "480"))
_escalate_spent = [0.0]


def conc_correspondence(ctx, harness_cmd, driver_cmd, runs, judge=None, label="tieC",
                        timeout=600, max_reports=3, signature_of=None, env=None,
                        escalate=True, escalate_budget_s=240):
    """runs: list of dicts {"conf": [lines], "sched": "random 5" | "pct 5 2" | "replay ..."}.
    Phase 1 runs the implementation under the deterministic scheduler; phase 2 replays
    the schedule it chose on the Lean model; the two outputs (schedule, every trace
    event, end status, outcome lines) must be identical. `judge(run, impl_lines)` is the
    property-level oracle on the implementation's own trace (returns text when the
    property is violated)."""
    cases = [r["conf"] + ["sched " + r["sched"], "run"] for r in runs]
    impl = run_cases(harness_cmd, cases, timeout=timeout, env=env, crash_cap=CRASH_CAP)
    runs, impl, nskipped = drop_skipped(list(runs), impl)
    if nskipped:
        ctx.cov.setdefault("crash_storm", {})[label] = {
            "cases_not_run": nskipped, "why": "%d cases had already crashed / hung" % CRASH_CAP}
    mcases = []
    for r, a in zip(runs, impl):
        sched = ""
        for l in a["out"]:
            if l.startswith("schedule "):
                sched = l[len("schedule "):]
        mcases.append(r["conf"] + ["sched replay " + sched, "run"])
    model = run_cases(driver_cmd, mcases, timeout=timeout)
    ndiff = 0
    bad_prop, bad_model = [], []
    steps_total = 0
    statuses = {}
    for i, (a, b) in enumerate(zip(impl, model)):
        ao, bo = _strip_info(a["out"]), _strip_info(b["out"])
        for l in ao:
            if l.startswith("end "):
                st = l.split()[1]
                statuses[st] = statuses.get(st, 0) + 1
                try:
                    steps_total += int(l.split("steps=")[1])
                except (IndexError, ValueError):
                    pass
        msg = None
        diverged = any(l.startswith("end replay-diverged") for l in ao)
        if a["crash"]:
            msg = "crash: " + a["crash"][:1500]
        elif diverged:
            # a recorded schedule (corpus) that no longer fits the code under test: the access
            # sequence changed. That breaks the tie, it is not by itself a failing input.
            msg = None
        elif judge is not None:
            msg = judge(runs[i], a["out"])
        if msg:
            bad_prop.append((i, msg))
        if diverged and ao == bo:
            bad_model.append((i, len(ao) - 1, "recorded schedule no longer applies (end replay-diverged)", "-"))
        elif b["crash"] or ao != bo:
            j = next((k for k in range(max(len(ao), len(bo)))
                      if (ao[k] if k < len(ao) else None) != (bo[k] if k < len(bo) else None)), 0)
            bad_model.append((i, j, ao[j] if j < len(ao) else "<missing>",
                              bo[j] if j < len(bo) else "<missing>"))
    seen = set()
    for a in impl:
        seen.add(tuple(a["out"]))
    ctx.cov["evaluations"] += len(runs)
    ctx.cov["distinct_nontrivial"] += len(seen)
    ctx.cov["ties"][label] = {"runs": len(runs), "distinct_traces": len(seen), "steps_total": steps_total,
                              "end_status": statuses, "differ_model": len(bad_model),
                              "property_failures": len(bad_prop)}
    ctx.cov["traces_validated_against_impl"] = ctx.cov.get("traces_validated_against_impl", 0) + \
        len(runs) - len(bad_model)
    if runs:
        ctx.add_samples([{"conf": runs[0]["conf"], "trace": impl[0]["out"][:25]}])
    reported = 0
    sigs = set()
    for i, msg in bad_prop:
        if reported >= max_reports:
            break
        a = impl[i]
        sched = next((l[len("schedule "):] for l in a["out"] if l.startswith("schedule ")), "")
        sig = signature_of(runs[i], a["out"], msg) if signature_of else None
        if sig is not None and sig in sigs:
            continue
        sigs.add(sig)
        # (a run that crashed printed no schedule: its replay is the scheduling policy and seed it ran with)
        p = ctx.violation({"kind": "property-fails-on-implementation", "tie": label,
                           "conf": runs[i]["conf"], "schedule": sched, "what": msg,
                           "ops": runs[i]["conf"] + ["sched " + (("replay " + sched) if sched or not a["crash"]
                                                                   else runs[i]["sched"]), "run"],
                           "implementation_trace": a["out"], "impl_crash": a["crash"],
                           "model_trace": model[i]["out"], "broken_obligations": ctx.broken},
                          found_input=True, signature=sig)
        if p:
            reported += 1
    only_model = [d for d in bad_model if d[0] not in {i for i, _ in bad_prop}]
    if (only_model and not bad_prop and escalate and not any(f for _, f in ctx.violations)
            and _escalate_spent[0] < ESCALATE_TOTAL_S):
        # (skipped once a concrete failing input is known, and all escalations of one check run
        # share ESCALATE_TOTAL_S)
        t_esc0 = time.time()
        escalate_budget_s = min(escalate_budget_s, ESCALATE_TOTAL_S - _escalate_spent[0])
        # SEARCH (DESIGN §2.6): the trace tie is broken and the runs so far show no property
        # failure. Look harder on the implementation itself, on the configurations whose traces
        # differ: deeper systematic exploration + many more random/PCT schedules, judged by the
        # property oracle only.
        t_end = time.time() + escalate_budget_s
        confs, seen_c = [], set()
        for d in only_model:
            key = tuple(runs[d[0]]["conf"])
            if key not in seen_c:
                seen_c.add(key)
                confs.append(runs[d[0]])
        confs.sort(key=lambda r: len(" ".join(r["conf"])))
        found = None
        tried = 0
        for base in confs[:8]:
            if found or time.time() > t_end:
                break
            extra = []
            for k in range(1, 2001):
                r = dict(base)
                r["sched"] = ("pct %d %d" % (ctx.rng.randrange(1, 1 << 30), 1 + k % 4)) if k % 2 else \
                             ("random %d" % ctx.rng.randrange(1, 1 << 30))
                extra.append(r)
            res = run_cases(harness_cmd, [r["conf"] + ["sched " + r["sched"], "run"] for r in extra],
                            timeout=timeout, env=env)
            tried += len(extra)
            for r, a in zip(extra, res):
                msg = ("crash: " + a["crash"][:1500]) if a["crash"] else (judge(r, a["out"]) if judge else None)
                if msg:
                    found = (r, a, msg)
                    break
            if found or time.time() > t_end:
                break
            for bound in (2, 3, 4):
                if found or time.time() > t_end:
                    break
                g = explore_schedules(harness_cmd, base["conf"], bound, max_runs=40000, env=env, timeout=timeout)
                for sched, out in g:
                    tried += 1
                    r = dict(base)
                    r["sched"] = "replay " + " ".join(sched)
                    msg = judge(r, out) if judge else None
                    if msg:
                        found = (r, {"out": out, "crash": None}, msg)
                        break
                    if time.time() > t_end:
                        break
        ctx.cov["ties"][label]["escalated_search_runs"] = tried
        _escalate_spent[0] += time.time() - t_esc0
        if found:
            r, a, msg = found
            sched = next((l[len("schedule "):] for l in a["out"] if l.startswith("schedule ")), "")
            ctx.violation({"kind": "property-fails-on-implementation", "tie": label + "/escalated-search",
                           "conf": r["conf"], "schedule": sched, "what": msg,
                           "ops": r["conf"] + ["sched replay " + sched, "run"],
                           "implementation_trace": a["out"], "impl_crash": a["crash"],
                           "broken_obligations": ctx.broken}, found_input=True,
                          signature=signature_of(r, a["out"], msg) if signature_of else None)
    if only_model:
        i, j, x, y = only_model[0]
        ctx.broken.append("%s: model and implementation traces differ on %d run(s)" % (label, len(only_model)))
        ctx.model_diff = {"ops": mcases[i], "line": j, "implementation": x, "model": y,
                          "implementation_trace": impl[i]["out"][:80], "model_trace": model[i]["out"][:80]}
        ctx.cov["ties"][label]["first_model_difference"] = {"ops": mcases[i], "line": j,
                                                            "implementation": x, "model": y}
    return len(bad_prop) + len(only_model)


def conc_correspondence_batched(ctx, harness_cmd, driver_cmd, runs, judge=None, label="tieC", batch=12000, **kw):
    """conc_correspondence over a large family in batches (both output streams of a batch are held in
    memory); the statistics of the batches are summed under one label."""
    total = None
    bad = 0
    for k in range(0, max(1, len(runs)), batch):
        bad += conc_correspondence(ctx, harness_cmd, driver_cmd, runs[k:k + batch], judge=judge, label=label, **kw)
        cur = ctx.cov["ties"].get(label, {})
        if total is None:
            total = dict(cur)
        else:
            for key, v in cur.items():
                if isinstance(v, (int, float)) and not isinstance(v, bool):
                    total[key] = total.get(key, 0) + v
                elif isinstance(v, dict) and isinstance(total.get(key), dict):
                    for a, b in v.items():
                        total[key][a] = total[key].get(a, 0) + b if isinstance(b, (int, float)) else b
                elif key not in total:
                    total[key] = v
        if any(f for _, f in ctx.violations) and bad:
            break           # a failing input is known: the rest of the family adds nothing
    if total is not None:
        ctx.cov["ties"][label] = total
    return bad


def tie_a_generated(ctx):
    """Tie A for the pure integer code: lib/c2lean.py translates next_pow_of_2 and the bit / ring /
    endian macros from REPO's C text; the result must equal the committed
    lean/MgModel/Generated/Bits.lean, which lean/MgProof/Tie/Bits.lean proves equal to the
    hand-written models. Unsupported syntax in a translated function also counts as a broken tie."""
    r = subprocess.run([sys.executable, os.path.join(VERIF, "lib", "c2lean.py"), REPO],
                       stdout=subprocess.PIPE, stderr=subprocess.PIPE, text=True)
    committed = open(os.path.join(LEAN, "MgModel", "Generated", "Bits.lean")).read()
    ok = r.returncode == 0 and r.stdout == committed
    ctx.cov["ties"]["tieA_generated_bits"] = {"regenerated_equal_to_committed": ok}
    ctx.cov["obligations"] += 1
    if ok:
        ctx.cov["discharged"] += 1
    else:
        what = r.stderr.strip()[-300:] if r.returncode else "generated text differs"
        if r.returncode == 0:
            a, b = committed.split("\n"), r.stdout.split("\n")
            k = next((i for i in range(min(len(a), len(b))) if a[i] != b[i]), min(len(a), len(b)))
            what += ": committed %r / regenerated %r" % (a[k][:120] if k < len(a) else "", b[k][:120] if k < len(b) else "")
        ctx.broken.append("tieA: lib/c2lean.py on the repository's C text no longer yields "
                          "lean/MgModel/Generated/Bits.lean (%s)" % what)
    return ok


def atomic_sites(repo_rel, function=None):
    """Static inventory (tie A) of the __atomic builtins in a source file of /repo, after
    preprocessing: list of (builtin, [args]) in source order, optionally restricted to the
    body of one function. Used for what a dynamic trace cannot show (weak vs strong CAS)."""
    inc = gen_config_header()
    r = sh(["clang-14", "-E", "-P", "-std=gnu11", "-D_GNU_SOURCE", "-I" + REPO, "-I" + inc,
            os.path.join(REPO, repo_rel)])
    if r.returncode != 0:
        raise BuildError("preprocess failed: " + repo_rel + "\n" + r.stdout[-2000:])
    txt = r.stdout
    if function:
        m = re.search(r"\b%s\s*\([^;{]*\)\s*\{" % re.escape(function), txt)
        if not m:
            return None
        i = m.end()
        depth = 1
        j = i
        while j < len(txt) and depth:
            depth += {"{": 1, "}": -1}.get(txt[j], 0)
            j += 1
        txt = txt[i:j]
    sites = []
    for m in re.finditer(r"\b(__atomic_\w+|__sync_\w+)\s*\(", txt):
        i = m.end()
        depth = 1
        args, cur = [], ""
        while i < len(txt) and depth:
            c = txt[i]
            if c == "(":
                depth += 1
            elif c == ")":
                depth -= 1
                if depth == 0:
                    break
            if c == "," and depth == 1:
                args.append(cur.strip())
                cur = ""
            else:
                cur += c
            i += 1
        args.append(cur.strip())
        sites.append((m.group(1), args))
    return sites


def explore_schedules(harness_cmd, conf, bound, max_runs=20000, batch=400, env=None, timeout=600,
                      start_prefix=None, workers=None):
    """Systematic, preemption-bounded exploration (CHESS-style) of the REAL code under the
    deterministic scheduler. A run is `sched prefix <tokens>`: the prefix is replayed, then
    the scheduler continues non-preemptively and reports, for every step, which threads were
    candidates. Every alternative choice at every step becomes a new prefix, as long as the
    number of preemptions (switching away from a thread that could continue) stays <= bound.
    Yields (schedule_tokens, output_lines) for every distinct complete schedule; returns when
    the space is exhausted (generator's .exhausted = True) or max_runs is reached."""
    class Gen:
        exhausted = False
        truncated = False
        runs = 0

        def __iter__(self):
            # (prefix tokens, preemptions used in the prefix); with start_prefix the exploration
            # branches only after that (fixed) part: the tail of a history that reached a deep state
            frontier = [(list(start_prefix or []), 0)]
            seen_prefix = {tuple(start_prefix or [])}
            seen_sched = set()
            while frontier and self.runs < max_runs:
                cur, frontier = frontier[:batch], frontier[batch:]
                cases = [conf + ["sched prefix " + " ".join(p)] + ["run"] for p, _ in cur]
                res = run_cases(harness_cmd, cases, timeout=timeout, env=env, workers=workers)
                self.runs += len(cur)
                for (prefix, used), r in zip(cur, res):
                    out = r["out"]
                    sched, masks = None, None
                    for l in out:
                        if l.startswith("schedule "):
                            sched = l.split()[1:]
                        elif l.startswith("schedule"):
                            sched = []
                        elif l.startswith("#enabled"):
                            masks = [int(x, 16) for x in l.split()[1:]]
                    if r["crash"] or sched is None:
                        yield prefix, out + ["crash: " + str(r["crash"])[:500]]
                        continue
                    key = tuple(sched)
                    if key not in seen_sched:
                        seen_sched.add(key)
                        yield sched, out
                    if masks is None:
                        continue
                    tids = [int(t.rstrip("!~")) for t in sched]
                    # branch only at positions after the forced prefix
                    for i in range(max(len(prefix), len(start_prefix or [])), min(len(tids), len(masks))):
                        m = masks[i]
                        prev = tids[i - 1] if i > 0 else None
                        # preemptions used by the default continuation up to position i
                        for alt in range(32):
                            if not (m >> alt) & 1 or alt == tids[i]:
                                continue
                            cost = used
                            # cost of the default continuation between len(prefix) and i is 0 by
                            # construction (non-preemptive); choosing `alt` is a preemption iff
                            # the previous thread could have continued
                            if prev is not None and (m >> prev) & 1 and alt != prev:
                                cost += 1
                            if cost > bound:
                                continue
                            if self.runs + len(frontier) >= max_runs:
                                # never run anyway (the frontier is served in order): do not keep
                                # it — long prefixes x many alternatives is gigabytes otherwise
                                self.truncated = True
                                continue
                            newp = tuple(sched[:i]) + (str(alt),)
                            if newp in seen_prefix:
                                continue
                            seen_prefix.add(newp)
                            frontier.append((list(newp), cost))
            self.exhausted = not frontier and not self.truncated
    return Gen()
