#!/usr/bin/env python3
"""Tie A: a small C -> Lean translator for the pure integer code of MuggleWei/mugglec.

    python3 lib/c2lean.py <repo>        prints lean/MgModel/Generated/Bits.lean to stdout

Scope (deliberately small, everything else is an error = a broken tie):
  * function-like macros whose body is one integer expression;
  * functions whose body is a sequence of `if (e) return e;`, `x = e;`, `x op= e;`, `return e;`
    over their integer parameters (no loops, no calls except to translated macros).
Every C integer type is rendered as a `BitVec w` of the width given in the request, operators keep
their C meaning on unsigned operands of that width (the requests only name unsigned code).

The output is compared, on every run of the checks that use it, with the committed file
lean/MgModel/Generated/Bits.lean; the theorems of lean/MgProof/Tie/Bits.lean relate the generated
definitions to the hand-written models the property theorems are about. So a change of the C text
of one of these functions or macros either leaves the generated Lean unchanged, or changes it and
breaks the comparison (and the check then searches for a failing input with the changed code)."""
import os
import re
import sys


class Unsupported(Exception):
    pass


# ------------------------------------------------------------------ lexer
TOK = re.compile(r"\s*(0[xX][0-9a-fA-F]+[uUlL]*|\d+[uUlL]*|[A-Za-z_]\w*|->|<<=|>>=|\|\||&&|==|!=|<=|>=|<<|>>|"
                 r"\+=|-=|\*=|/=|%=|&=|\|=|\^=|\+\+|--|[-+*/%&|^~!<>=?:;,(){}\[\]])")


def lex(text):
    text = re.sub(r"/\*.*?\*/", " ", text, flags=re.S)
    text = re.sub(r"//[^\n]*", " ", text)
    out, pos = [], 0
    text = text.strip()
    while pos < len(text):
        m = TOK.match(text, pos)
        if not m:
            raise Unsupported("cannot tokenise at: %r" % text[pos:pos + 30])
        out.append(m.group(1))
        pos = m.end()
        while pos < len(text) and text[pos].isspace():
            pos += 1
    return out


# ------------------------------------------------------------------ macros
def read_macros(repo, files):
    """function-like and object-like #defines of the given headers: name -> (params | None, body tokens)"""
    macros = {}
    for rel in files:
        src = open(os.path.join(repo, rel), errors="replace").read()
        src = src.replace("\\\n", " ")
        for m in re.finditer(r"^[ \t]*#[ \t]*define[ \t]+(\w+)(\(([^)]*)\))?[ \t]+(.*)$", src, flags=re.M):
            name, params, body = m.group(1), m.group(3), m.group(4)
            try:
                toks = lex(body)
            except Unsupported:
                continue
            macros[name] = ([p.strip() for p in params.split(",")] if m.group(2) else None, toks)
    return macros


def expand(toks, macros, depth=0):
    if depth > 20:
        raise Unsupported("macro expansion too deep")
    out, i = [], 0
    while i < len(toks):
        t = toks[i]
        if t in macros:
            params, body = macros[t]
            if params is None:
                out += ["("] + expand(body, macros, depth + 1) + [")"]
                i += 1
                continue
            if i + 1 < len(toks) and toks[i + 1] == "(":
                args, cur, lvl, j = [], [], 0, i + 2
                while True:
                    if j >= len(toks):
                        raise Unsupported("unterminated macro call " + t)
                    if toks[j] == "(":
                        lvl += 1
                    if toks[j] == ")":
                        if lvl == 0:
                            args.append(cur)
                            break
                        lvl -= 1
                    if toks[j] == "," and lvl == 0:
                        args.append(cur)
                        cur = []
                    else:
                        cur.append(toks[j])
                    j += 1
                if len(args) != len(params):
                    raise Unsupported("macro %s: %d arguments for %d parameters" % (t, len(args), len(params)))
                amap = {p: expand(a, macros, depth + 1) for p, a in zip(params, args)}
                sub = []
                for b in body:
                    sub += (["("] + amap[b] + [")"]) if b in amap else [b]
                out += ["("] + expand(sub, macros, depth + 1) + [")"]
                i = j + 1
                continue
        out.append(t)
        i += 1
    return out


# ------------------------------------------------------------------ expressions
BINOPS = [["||"], ["&&"], ["|"], ["^"], ["&"], ["==", "!="], ["<", "<=", ">", ">="], ["<<", ">>"], ["+", "-"],
          ["*", "/", "%"]]


class Parser:
    def __init__(self, toks, width, env):
        self.t, self.i, self.w, self.env = toks, 0, width, env

    def peek(self):
        return self.t[self.i] if self.i < len(self.t) else None

    def eat(self, x=None):
        tok = self.peek()
        if tok is None or (x is not None and tok != x):
            raise Unsupported("expected %r, found %r" % (x, tok))
        self.i += 1
        return tok

    # returns ("bv", text) or ("bool", text)
    def expr(self):
        c = self.binary(0)
        if self.peek() == "?":
            self.eat("?")
            a = self.expr()
            self.eat(":")
            b = self.expr()
            return ("bv", "(if %s then %s else %s)" % (self.as_bool(c), self.as_bv(a), self.as_bv(b)))
        return c

    def binary(self, lvl):
        if lvl == len(BINOPS):
            return self.unary()
        a = self.binary(lvl + 1)
        while self.peek() in BINOPS[lvl]:
            op = self.eat()
            b = self.binary(lvl + 1)
            a = self.mk(op, a, b)
        return a

    def unary(self):
        tok = self.peek()
        if tok == "!":
            self.eat()
            return ("bool", "(!%s)" % self.as_bool(self.unary()))
        if tok == "~":
            self.eat()
            return ("bv", "(~~~%s)" % self.as_bv(self.unary()))
        if tok == "-":
            self.eat()
            return ("bv", "(-%s)" % self.as_bv(self.unary()))
        if tok == "(":
            self.eat()
            e = self.expr()
            self.eat(")")
            return e
        if tok is None:
            raise Unsupported("unexpected end of expression")
        self.eat()
        m = re.match(r"(0[xX][0-9a-fA-F]+|\d+)[uUlL]*$", tok)
        if m:
            return ("bv", "(%d#%d)" % (int(m.group(1), 0), self.w))
        if re.match(r"[A-Za-z_]\w*$", tok):
            if self.peek() == "(":
                raise Unsupported("call of %s" % tok)
            if tok not in self.env:
                raise Unsupported("unknown identifier %s" % tok)
            return ("bv", self.env[tok])
        raise Unsupported("unexpected token %r" % tok)

    def as_bv(self, e):
        return e[1] if e[0] == "bv" else "(if %s then (1#%d) else (0#%d))" % (e[1], self.w, self.w)

    def as_bool(self, e):
        return e[1] if e[0] == "bool" else "(%s != (0#%d))" % (e[1], self.w)

    def mk(self, op, a, b):
        bv, bo = self.as_bv, self.as_bool
        if op == "||":
            return ("bool", "(%s || %s)" % (bo(a), bo(b)))
        if op == "&&":
            return ("bool", "(%s && %s)" % (bo(a), bo(b)))
        if op in ("|", "^", "&"):
            return ("bv", "(%s %s %s)" % (bv(a), {"|": "|||", "^": "^^^", "&": "&&&"}[op], bv(b)))
        if op in ("==", "!="):
            return ("bool", "(%s %s %s)" % (bv(a), op, bv(b)))
        if op in ("<", "<=", ">", ">="):
            f = {"<": "BitVec.ult", "<=": "BitVec.ule"}
            if op in f:
                return ("bool", "(%s %s %s)" % (f[op], bv(a), bv(b)))
            return ("bool", "(%s %s %s)" % ({">": "BitVec.ult", ">=": "BitVec.ule"}[op], bv(b), bv(a)))
        if op in ("<<", ">>"):
            m = re.match(r"\((\d+)#\d+\)$", bv(b))
            amount = m.group(1) if m else "(%s).toNat" % bv(b)
            return ("bv", "(%s %s %s)" % (bv(a), "<<<" if op == "<<" else ">>>", amount))
        if op in ("+", "-", "*"):
            return ("bv", "(%s %s %s)" % (bv(a), op, bv(b)))
        if op == "/":
            return ("bv", "(%s / %s)" % (bv(a), bv(b)))       # BitVec unsigned division (x / 0 = 0: callers never divide by 0)
        if op == "%":
            return ("bv", "(%s %% %s)" % (bv(a), bv(b)))
        raise Unsupported("operator " + op)


def macro_to_lean(name, lean_name, macros, width, doc):
    params, body = macros[name]
    if params is None:
        raise Unsupported("%s is not a function-like macro" % name)
    toks = expand(body, {k: v for k, v in macros.items() if k != name})
    p = Parser(toks, width, {q: q for q in params})
    e = p.expr()
    if p.peek() is not None:
        raise Unsupported("trailing tokens in macro %s: %r" % (name, toks[p.i:]))
    kind = "Bool" if e[0] == "bool" else "BitVec %d" % width
    args = " ".join("(%s : BitVec %d)" % (q, width) for q in params)
    return "/-- %s -/\ndef %s %s : %s :=\n  %s\n" % (doc, lean_name, args, kind, e[1])


# ------------------------------------------------------------------ statements
def function_to_lean(repo, rel, cname, lean_name, macros, width, doc):
    src = open(os.path.join(repo, rel), errors="replace").read()
    m = re.search(r"\b%s\s*\(([^)]*)\)\s*\{" % re.escape(cname), src)
    if not m:
        raise Unsupported("function %s not found in %s" % (cname, rel))
    params = [re.split(r"\s+|\*", a.strip())[-1] for a in m.group(1).split(",") if a.strip()]
    i, lvl = m.end(), 1
    while lvl:
        if i >= len(src):
            raise Unsupported("unterminated body of " + cname)
        lvl += {"{": 1, "}": -1}.get(src[i], 0)
        i += 1
    toks = expand(lex(src[m.end():i - 1]), macros)
    ver = {p: 0 for p in params}

    def name_of(v):
        return v if ver[v] == 0 else "%s%d" % (v, ver[v])
    lines, pos = [], [0]

    def env():
        return {v: name_of(v) for v in ver}

    def parse_expr_until(stop):
        j, lvl2 = pos[0], 0
        while j < len(toks) and not (toks[j] == stop and lvl2 == 0):
            lvl2 += {"(": 1, ")": -1}.get(toks[j], 0)
            j += 1
        if j >= len(toks):
            raise Unsupported("missing %r" % stop)
        p = Parser(toks[pos[0]:j], width, env())
        e = p.expr()
        if p.peek() is not None:
            raise Unsupported("cannot parse %r" % toks[pos[0]:j])
        pos[0] = j + 1
        return p, e

    def stmts(indent):
        """returns True when the block ends with a return on every path"""
        while pos[0] < len(toks):
            t = toks[pos[0]]
            if t == "}":
                return False
            if t == "return":
                pos[0] += 1
                p, e = parse_expr_until(";")
                lines.append(indent + p.as_bv(e))
                return True
            if t == "if":
                pos[0] += 1
                if toks[pos[0]] != "(":
                    raise Unsupported("if without (")
                pos[0] += 1
                p, c = parse_expr_until(")")
                lines.append(indent + "if %s then" % p.as_bool(c))
                braces = toks[pos[0]] == "{"
                if braces:
                    pos[0] += 1
                saved = dict(ver)
                ret = one_or_block(indent + "  ", braces)
                if not ret:
                    raise Unsupported("an if-branch that does not return (only guard clauses are translated)")
                ver.update(saved)
                if pos[0] < len(toks) and toks[pos[0]] == "else":
                    raise Unsupported("else branch")
                lines.append(indent + "else")
                continue
            if re.match(r"[A-Za-z_]\w*$", t) and t in ver and pos[0] + 1 < len(toks) and \
                    re.match(r"(\+|-|\*|/|%|&|\||\^|<<|>>)?=$", toks[pos[0] + 1]):
                op = toks[pos[0] + 1][:-1]
                pos[0] += 2
                p, e = parse_expr_until(";")
                rhs = p.as_bv(e)
                if op:
                    rhs = p.as_bv(p.mk(op, ("bv", name_of(t)), e))
                ver[t] += 1
                lines.append(indent + "let %s := %s" % (name_of(t), rhs))
                continue
            raise Unsupported("statement starting with %r in %s" % (t, cname))
        return False

    def one_or_block(indent, braces):
        if braces:
            r = stmts(indent)
            if pos[0] >= len(toks) or toks[pos[0]] != "}":
                raise Unsupported("missing }")
            pos[0] += 1
            return r
        # a single statement
        t = toks[pos[0]]
        if t != "return":
            raise Unsupported("single-statement branch that is not a return")
        pos[0] += 1
        p, e = parse_expr_until(";")
        lines.append(indent + p.as_bv(e))
        return True

    if not stmts("  ") or pos[0] != len(toks):
        raise Unsupported("function %s does not end with a return" % cname)
    args = " ".join("(%s : BitVec %d)" % (q, width) for q in params)
    return "/-- %s -/\ndef %s %s : BitVec %d :=\n%s\n" % (doc, lean_name, args, width, "\n".join(lines))


# ------------------------------------------------------------------ signed-int functions over struct fields
class IntParser:
    """expressions over C `int` fields / locals, rendered on Lean `Int` (overflow is outside the model:
    the theorems bound the values); conditions are rendered as decidable propositions"""

    def __init__(self, toks, env, obj):
        self.t, self.i, self.env, self.obj = toks, 0, env, obj

    def peek(self):
        return self.t[self.i] if self.i < len(self.t) else None

    def eat(self, x=None):
        tok = self.peek()
        if tok is None or (x is not None and tok != x):
            raise Unsupported("expected %r, found %r" % (x, tok))
        self.i += 1
        return tok

    def cond(self):
        a = self.cand()
        while self.peek() == "||":
            self.eat()
            a = "(%s ∨ %s)" % (a, self.cand())
        return a

    def cand(self):
        a = self.catom()
        while self.peek() == "&&":
            self.eat()
            a = "(%s ∧ %s)" % (a, self.catom())
        return a

    def catom(self):
        if self.peek() == "!":
            self.eat()
            return "(¬ %s)" % self.catom()
        save = self.i
        if self.peek() == "(":
            # either a parenthesised condition or a parenthesised arithmetic operand
            try:
                self.eat("(")
                c = self.cond()
                self.eat(")")
                if self.peek() in (None, ")", "&&", "||"):
                    return c
            except Unsupported:
                pass
            self.i = save
        a = self.arith()
        op = self.peek()
        if op in ("==", "!=", "<", "<=", ">", ">="):
            self.eat()
            b = self.arith()
            return "(%s %s %s)" % (a, {"==": "=", "!=": "≠", "<": "<", "<=": "≤", ">": ">", ">=": "≥"}[op], b)
        return "(%s ≠ 0)" % a

    def arith(self):
        a = self.term()
        while self.peek() in ("+", "-"):
            op = self.eat()
            a = "(%s %s %s)" % (a, op, self.term())
        return a

    def term(self):
        a = self.factor()
        while self.peek() == "*":
            self.eat()
            a = "(%s * %s)" % (a, self.factor())
        return a

    def factor(self):
        tok = self.peek()
        if tok == "-":
            self.eat()
            return "(-%s)" % self.factor()
        if tok == "(":
            self.eat()
            e = self.arith()
            self.eat(")")
            return e
        if tok is None:
            raise Unsupported("unexpected end of expression")
        self.eat()
        if re.match(r"\d+$", tok):
            return tok
        if tok == self.obj and self.peek() == "->":
            self.eat("->")
            f = self.eat()
            if f not in self.env:
                raise Unsupported("field %s is not a translated field" % f)
            return self.env[f]
        if tok in self.env and tok != self.obj:
            return self.env[tok]
        raise Unsupported("unexpected token %r" % tok)


def int_function_to_lean(repo, rel, cname, lean_name, fields, doc):
    """`int f(struct *p)` whose body is nested if/else with a `return <int expression>;` at every leaf
    (plus `int x = <expr>;` locals), over the given int fields of *p"""
    src = open(os.path.join(repo, rel), errors="replace").read()
    m = re.search(r"\b%s\s*\(([^)]*)\)\s*\{" % re.escape(cname), src)
    if not m:
        raise Unsupported("function %s not found in %s" % (cname, rel))
    obj = re.split(r"\s+|\*", m.group(1).strip())[-1]
    i, lvl = m.end(), 1
    while lvl:
        if i >= len(src):
            raise Unsupported("unterminated body of " + cname)
        lvl += {"{": 1, "}": -1}.get(src[i], 0)
        i += 1
    toks = lex(src[m.end():i - 1])
    pos = [0]
    env = {f: f for f in fields}
    env[obj] = obj

    def until(stop):
        j, l2 = pos[0], 0
        while j < len(toks) and not (toks[j] == stop and l2 == 0):
            l2 += {"(": 1, ")": -1}.get(toks[j], 0)
            j += 1
        if j >= len(toks):
            raise Unsupported("missing %r in %s" % (stop, cname))
        sub = toks[pos[0]:j]
        pos[0] = j + 1
        return sub

    def parse_all(p, what):
        e = what()
        if p.peek() is not None:
            raise Unsupported("cannot parse %r in %s" % (p.t, cname))
        return e

    def seq(indent, env_):
        """statements up to the closing brace / end; every path must return; gives a Lean term"""
        if pos[0] >= len(toks) or toks[pos[0]] == "}":
            raise Unsupported("a path of %s does not return" % cname)
        t = toks[pos[0]]
        if t == "return":
            pos[0] += 1
            p = IntParser(until(";"), env_, obj)
            return parse_all(p, p.arith)
        if t == "int" and pos[0] + 2 < len(toks) and toks[pos[0] + 2] == "=":
            name = toks[pos[0] + 1]
            pos[0] += 3
            p = IntParser(until(";"), env_, obj)
            e = parse_all(p, p.arith)
            env2 = dict(env_)
            env2[name] = name
            return "let %s : Int := %s\n%s%s" % (name, e, indent, seq(indent, env2))
        if t == "if":
            pos[0] += 1
            if toks[pos[0]] != "(":
                raise Unsupported("if without ( in " + cname)
            pos[0] += 1
            p = IntParser(until(")"), env_, obj)
            c = parse_all(p, p.cond)
            a = branch(indent + "  ", env_)
            if pos[0] < len(toks) and toks[pos[0]] == "else":
                pos[0] += 1
                b = branch(indent + "  ", env_)
                return "if %s then\n%s  %s\n%selse\n%s  %s" % (c, indent, a, indent, indent, b)
            b = seq(indent + "  ", env_)
            return "if %s then\n%s  %s\n%selse\n%s  %s" % (c, indent, a, indent, indent, b)
        raise Unsupported("statement starting with %r in %s" % (t, cname))

    def branch(indent, env_):
        if toks[pos[0]] == "{":
            pos[0] += 1
            e = seq(indent, env_)
            if pos[0] >= len(toks) or toks[pos[0]] != "}":
                raise Unsupported("missing } in " + cname)
            pos[0] += 1
            return e
        return seq(indent, env_)

    body = seq("  ", env)
    if pos[0] != len(toks):
        raise Unsupported("trailing statements in " + cname)
    args = " ".join("(%s : Int)" % f for f in fields)
    return "/-- %s -/\ndef %s %s : Int :=\n  %s\n" % (doc, lean_name, args, body)



def hex_table_to_lean(repo):
    """the table `s_hex[256]` of muggle_hex_from_bytes (encoding/hex.c): two-character string literals"""
    src = open(os.path.join(repo, "muggle/c/encoding/hex.c"), errors="replace").read()
    m = re.search(r"s_hex\s*\[\s*\]\s*=\s*\{(.*?)\}\s*;", src, flags=re.S)
    if not m:
        raise Unsupported("table s_hex not found in muggle/c/encoding/hex.c")
    body = re.sub(r"/\*.*?\*/", " ", m.group(1), flags=re.S)
    body = re.sub(r"//[^\n]*", " ", body)
    items = [x.strip() for x in body.split(",") if x.strip()]
    pairs = []
    for it in items:
        mm = re.match(r'"([^"\\]{2})"$', it)
        if not mm:
            raise Unsupported("s_hex entry %r is not a two-character literal" % it)
        pairs.append("(%d, %d)" % (ord(mm.group(1)[0]), ord(mm.group(1)[1])))
    rows = [", ".join(pairs[i:i + 16]) for i in range(0, len(pairs), 16)]
    return ("/-- the table `s_hex` of `muggle_hex_from_bytes` (encoding/hex.c), as (first char, second char) -/\n"
            "def sHex : List (Nat × Nat) := [\n  " + ",\n  ".join(rows) + "]\n")


REQUESTS = [
    ("macro", "muggle/c/base/utils.h", "MUGGLE_IS_POW_OF_2", "isPow2Macro", 64, "`MUGGLE_IS_POW_OF_2` (base/utils.h) on a 64-bit operand"),
    ("func", "muggle/c/base/utils.c", "muggle_next_pow_of_2", "nextPow2", 64, "`muggle_next_pow_of_2` (base/utils.c)"),
    ("macro", "muggle/c/base/utils.h", "MUGGLE_ROUND_UP_POW_OF_2_MUL", "roundUpPow2Mul", 64, "`MUGGLE_ROUND_UP_POW_OF_2_MUL` (base/utils.h) on 64-bit operands"),
    ("macro", "muggle/c/base/macro.h", "MUGGLE_IDX_IN_POW_OF_2_RING", "idxInPow2Ring", 32, "`MUGGLE_IDX_IN_POW_OF_2_RING` (base/macro.h) on 32-bit operands (muggle_sync_t / uint32_t cursors)"),
    ("macro", "muggle/c/os/endian.h", "MUGGLE_ENDIAN_SWAP_16", "swap16", 16, "`MUGGLE_ENDIAN_SWAP_16` (os/endian.h)"),
    ("macro", "muggle/c/os/endian.h", "MUGGLE_ENDIAN_SWAP_32", "swap32", 32, "`MUGGLE_ENDIAN_SWAP_32` (os/endian.h)"),
    ("macro", "muggle/c/os/endian.h", "MUGGLE_ENDIAN_SWAP_64", "swap64", 64, "`MUGGLE_ENDIAN_SWAP_64` (os/endian.h)"),
]
HEADERS = ["muggle/c/base/utils.h", "muggle/c/base/macro.h", "muggle/c/os/endian.h"]
BB = "muggle/c/memory/bytes_buffer.c"
BB_FIELDS = ["c", "w", "r", "t"]
INT_REQUESTS = [
    (BB, "muggle_bytes_buffer_contiguous_writable", "bbContiguousWritable", BB_FIELDS),
    (BB, "muggle_bytes_buffer_jump_writable", "bbJumpWritable", BB_FIELDS),
    (BB, "muggle_bytes_buffer_jump_readable", "bbJumpReadable", BB_FIELDS),
    (BB, "muggle_bytes_buffer_contiguous_readable", "bbContiguousReadable", BB_FIELDS),
]


def generate(repo):
    macros = read_macros(repo, HEADERS)
    out = ["/-! GENERATED by lib/c2lean.py from the C sources of the repository under verification — do not edit.",
           "Regenerated and compared with this committed text on every run (tie A); the theorems of",
           "`MgProof/Tie/Bits.lean` relate these definitions to the hand-written models. -/",
           "namespace MgModel.Generated", ""]
    for kind, rel, cname, lname, width, doc in REQUESTS:
        if kind == "macro":
            out.append(macro_to_lean(cname, lname, macros, width, doc))
        else:
            out.append(function_to_lean(repo, rel, cname, lname, macros, width, doc))
    for rel, cname, lname, fields in INT_REQUESTS:
        out.append(int_function_to_lean(repo, rel, cname, lname, fields,
                                        "`%s` (%s) over the fields %s of the buffer" % (cname, rel, ", ".join(fields))))
    out.append(hex_table_to_lean(repo))
    out.append("end MgModel.Generated")
    return "\n".join(out) + "\n"


if __name__ == "__main__":
    try:
        sys.stdout.write(generate(sys.argv[1] if len(sys.argv) > 1 else "/repo"))
    except Unsupported as e:
        sys.stderr.write("c2lean: unsupported: %s\n" % e)
        sys.exit(2)
